(* C05 — executable model of the kernel's node / substate bookkeeping (no proofs here), as written in
   radix-engine/src/kernel/call_frame.rs (CallFrame::{create_node, drop_node, open_substate,
   write_substate, close_substate, pin_node, move_partition, process_substate_diff,
   apply_diff_to_open_substate, take_node_internal, get_node_ref / get_node_visibility},
   OpenedSubstate::diff, SubstateDiff::{from_new_substate, from_drop_substate}, NonGlobalNodeRefs)
   and substate_io.rs (SubstateIO::{create_node, drop_node, move_node_from_heap_to_store,
   move_partition, open_substate}) for a single call frame without direct-access references.

   Nodes are numbers; a node is global iff its number is >= 1000 (the harness allocates global
   entity types for those).  Every node has partition 0 with fields 0 and 1; a substate value is
   its list of owned nodes and its list of references.  A rejected operation ends the sequence (the
   transaction aborts), so error outcomes carry no state. *)
From Coq Require Import List NArith Bool.
Import ListNotations.
Open Scope N_scope.

Inductive dev := Heap | Store.
Inductive origin := OFrame | OGlobal | ONonGlobal (d : dev).
Record val := mkV { v_owns : list N; v_refs : list N }.
Definition fields := list (N * val).

Record opened := mkO {
  o_node : N; o_key : N; o_dev : dev; o_origin : origin; o_mut : bool; o_owns : list N; o_refs : list N }.

Record k2 := mkK2 {
  k_heap : list (N * fields);
  k_store : list (N * fields);
  k_owned : list N;                       (* owned_root_nodes *)
  k_stable : list N;                      (* stable (global) references of the frame *)
  k_trans : list (N * (N * origin));      (* transient_references: ref_count, ref_origin *)
  k_opens : list (N * opened);            (* open_substates by handle *)
  k_nexth : N;
  k_ngr : list (N * (dev * N));           (* non_global_node_refs: device, ref_count *)
  k_pinned : list N }.

Definition k2_empty : k2 := mkK2 [] [] [] [] [] [] 0 [] [].

Inductive kerr2 :=
| EOwnNotFound | ETakeBorrowed | EDupOwns | ERefNotFound | ENonGlobalRefNotAllowed | ECantDropNodeInStore
| EPersistNonGlobalRef | EPersistNodeBorrowed | EPersistPinned | ENodeBorrowed | ENodeNotVisible | ELocked
| ESubstateFault | EHandleNotFound | ENoWritePermission | ECloseBorrowed | EMoveFromStore | EPartitionNotFound
| ERefCantBeAdded | EOther.

Inductive r2 (A : Type) := Ok2 (a : A) | Err2 (e : kerr2) | Panic2.
Arguments Ok2 {A} a. Arguments Err2 {A} e. Arguments Panic2 {A}.
Definition bind2 {A B} (x : r2 A) (f : A -> r2 B) : r2 B :=
  match x with Ok2 a => f a | Err2 e => Err2 e | Panic2 => Panic2 end.
Notation "'dok' x <- a ; b" := (bind2 a (fun x => b)) (at level 200, x name, a at level 100, b at level 200).
Notation "'dok' ' p <- a ; b" := (bind2 a (fun x => match x with p => b end)) (at level 200, p pattern, a at level 100, b at level 200).

Definition isg (n : N) : bool := 1000 <=? n.

Fixpoint memN (x : N) (l : list N) : bool := match l with [] => false | y :: t => N.eqb x y || memN x t end.
Fixpoint remN (x : N) (l : list N) : list N := match l with [] => [] | y :: t => if N.eqb x y then t else y :: remN x t end.
Definition addN (x : N) (l : list N) : list N := if memN x l then l else l ++ [x].      (* IndexSet / BTreeSet insert *)
Fixpoint dedup (l : list N) (acc : list N) : list N :=
  match l with [] => acc | x :: t => dedup t (addN x acc) end.
Fixpoint has_dup (l : list N) : bool := match l with [] => false | x :: t => memN x t || has_dup t end.

Fixpoint lget {V} (k : N) (l : list (N * V)) : option V :=
  match l with [] => None | (k', v) :: t => if N.eqb k k' then Some v else lget k t end.
Fixpoint lset {V} (k : N) (v : V) (l : list (N * V)) : list (N * V) :=
  match l with [] => [(k, v)] | (k', v') :: t => if N.eqb k k' then (k, v) :: t else (k', v') :: lset k v t end.
Fixpoint ldel {V} (k : N) (l : list (N * V)) : list (N * V) :=
  match l with [] => [] | (k', v') :: t => if N.eqb k k' then t else (k', v') :: ldel k t end.

(* ---------- state updates ---------- *)
Definition set_heap s x := mkK2 x (k_store s) (k_owned s) (k_stable s) (k_trans s) (k_opens s) (k_nexth s) (k_ngr s) (k_pinned s).
Definition set_store s x := mkK2 (k_heap s) x (k_owned s) (k_stable s) (k_trans s) (k_opens s) (k_nexth s) (k_ngr s) (k_pinned s).
Definition set_owned s x := mkK2 (k_heap s) (k_store s) x (k_stable s) (k_trans s) (k_opens s) (k_nexth s) (k_ngr s) (k_pinned s).
Definition set_stable s x := mkK2 (k_heap s) (k_store s) (k_owned s) x (k_trans s) (k_opens s) (k_nexth s) (k_ngr s) (k_pinned s).
Definition set_trans s x := mkK2 (k_heap s) (k_store s) (k_owned s) (k_stable s) x (k_opens s) (k_nexth s) (k_ngr s) (k_pinned s).
Definition set_opens s x := mkK2 (k_heap s) (k_store s) (k_owned s) (k_stable s) (k_trans s) x (k_nexth s) (k_ngr s) (k_pinned s).
Definition set_nexth s x := mkK2 (k_heap s) (k_store s) (k_owned s) (k_stable s) (k_trans s) (k_opens s) x (k_ngr s) (k_pinned s).
Definition set_ngr s x := mkK2 (k_heap s) (k_store s) (k_owned s) (k_stable s) (k_trans s) (k_opens s) (k_nexth s) x (k_pinned s).
Definition set_pinned s x := mkK2 (k_heap s) (k_store s) (k_owned s) (k_stable s) (k_trans s) (k_opens s) (k_nexth s) (k_ngr s) x.

(* ---------- visibility (get_node_visibility / reference_origin / get_node_ref) ---------- *)
Definition dev_of_origin (o : origin) : dev :=
  match o with OFrame => Heap | OGlobal => Store | ONonGlobal d => d end.
(* BTreeSet<Visibility> is iterated in the derived order StableReference < FrameOwned < Borrowed *)
Definition node_ref (s : k2) (n : N) : option (origin * dev) :=
  if memN n (k_stable s) then Some (OGlobal, Store)
  else if memN n (k_owned s) then Some (OFrame, Heap)
  else match lget n (k_trans s) with
       | Some (_, o) => Some (o, dev_of_origin o)
       | None => None
       end.
Definition visible (s : k2) (n : N) : bool := match node_ref s n with Some _ => true | None => false end.

Definition origin_code (o : origin) : N :=
  match o with OFrame => 1 | OGlobal => 2 | ONonGlobal Heap => 3 | ONonGlobal Store => 4 end.
Definition vis_code (s : k2) (n : N) : N :=
  (if memN n (k_stable s) then 1 else 0) + (if memN n (k_owned s) then 2 else 0)
  + 4 * (match lget n (k_trans s) with Some (_, o) => origin_code o | None => 0 end).

(* ---------- locks (SubstateLocks) ---------- *)
Definition node_is_locked (s : k2) (n : N) : bool := existsb (fun e => N.eqb (o_node (snd e)) n) (k_opens s).
Definition can_lock (s : k2) (n key : N) (mutable : bool) : bool :=
  let same := filter (fun e => N.eqb (o_node (snd e)) n && N.eqb (o_key (snd e)) key) (k_opens s) in
  negb (existsb (fun e => o_mut (snd e)) same) && (negb mutable || match same with [] => true | _ => false end).

(* ---------- non_global_node_refs ---------- *)
Definition ngr_referenced (s : k2) (n : N) : bool :=
  match lget n (k_ngr s) with Some (_, c) => 0 <? c | None => false end.
Definition ngr_inc (s : k2) (n : N) (d : dev) : k2 :=
  match lget n (k_ngr s) with
  | Some (d0, c) => set_ngr s (lset n (d0, c + 1) (k_ngr s))
  | None => set_ngr s (lset n (d, 1) (k_ngr s))
  end.
(* decrement_ref_count: panics when the node is unknown; usize underflow panics as well *)
Definition ngr_dec (s : k2) (n : N) : r2 k2 :=
  match lget n (k_ngr s) with
  | Some (d0, c) => if c =? 0 then Panic2 else Ok2 (set_ngr s (lset n (d0, c - 1) (k_ngr s)))
  | None => Panic2
  end.
(* get_ref_device: panics when unknown or zero *)
Definition ngr_device (s : k2) (n : N) : r2 dev :=
  match lget n (k_ngr s) with
  | Some (d0, c) => if c =? 0 then Panic2 else Ok2 d0
  | None => Panic2
  end.

(* ---------- transient_references ---------- *)
Definition trans_inc (s : k2) (n : N) (o : origin) : k2 :=
  match lget n (k_trans s) with
  | Some (c, o0) => set_trans s (lset n (c + 1, o0) (k_trans s))
  | None => set_trans s (lset n (1, o) (k_trans s))
  end.
(* remove(..).unwrap(); reinsert with count - 1 when count > 1 *)
Definition trans_dec (s : k2) (n : N) : r2 k2 :=
  match lget n (k_trans s) with
  | Some (c, o0) => if 1 <? c then Ok2 (set_trans s (lset n (c - 1, o0) (k_trans s))) else Ok2 (set_trans s (ldel n (k_trans s)))
  | None => Panic2
  end.

(* ---------- take_node_internal ---------- *)
Definition take_node (s : k2) (n : N) : r2 k2 :=
  if node_is_locked s n then Err2 ETakeBorrowed
  else if memN n (k_owned s) then Ok2 (set_owned s (remN n (k_owned s)))
  else Err2 EOwnNotFound.

Fixpoint take_nodes (s : k2) (l : list N) : r2 k2 :=
  match l with [] => Ok2 s | n :: t => dok s1 <- take_node s n; take_nodes s1 t end.

(* ---------- move_node_from_heap_to_store (breadth first over the owned nodes) ---------- *)
Definition val_nonglobal_ref (v : val) : bool := existsb (fun r => negb (isg r)) (v_refs v).
Fixpoint persist (fuel : nat) (queue : list N) (s : k2) : r2 k2 :=
  match fuel with
  | O => match queue with [] => Ok2 s | _ => Panic2 end
  | S f =>
      match queue with
      | [] => Ok2 s
      | y :: rest =>
          if ngr_referenced s y then Err2 EPersistNodeBorrowed
          else if memN y (k_pinned s) then Err2 EPersistPinned
          else match lget y (k_heap s) with
               | None => Panic2        (* "Frame owned node not found in heap" *)
               | Some fs =>
                   if existsb (fun kv => val_nonglobal_ref (snd kv)) fs then Err2 EPersistNonGlobalRef
                   else
                     let children := flat_map (fun kv => v_owns (snd kv)) fs in
                     let s1 := set_store (set_heap s (ldel y (k_heap s))) (lset y fs (k_store s)) in
                     persist f (rest ++ children) s1
               end
      end
  end.
Definition persist_node (s : k2) (n : N) : r2 k2 := persist (S (length (k_heap s))) [n] s.
Fixpoint persist_nodes (s : k2) (l : list N) : r2 k2 :=
  match l with [] => Ok2 s | n :: t => dok s1 <- persist_node s n; persist_nodes s1 t end.

(* ---------- process_substate_diff ---------- *)
Record sdiff := mkD { d_aown : list N; d_rown : list N; d_aref : list N; d_rref : list N }.

Fixpoint check_refs_visible (s : k2) (l : list N) : r2 unit :=
  match l with [] => Ok2 tt | r :: t => if visible s r then check_refs_visible s t else Err2 ERefNotFound end.
Fixpoint inc_refs (s : k2) (l : list N) : r2 k2 :=
  match l with
  | [] => Ok2 s
  | r :: t => if isg r then inc_refs s t
              else match node_ref s r with
                   | Some (_, d) => inc_refs (ngr_inc s r d) t
                   | None => Panic2
                   end
  end.
Fixpoint dec_refs (s : k2) (l : list N) : r2 k2 :=
  match l with
  | [] => Ok2 s
  | r :: t => if isg r then dec_refs s t else dok s1 <- ngr_dec s r; dec_refs s1 t
  end.

Definition process_diff (s : k2) (d : dev) (df : sdiff) : r2 k2 :=
  dok s1 <- take_nodes s (d_aown df);
  let s2 := set_owned s1 (fold_left (fun acc x => addN x acc) (d_rown df) (k_owned s1)) in
  dok _ <- check_refs_visible s2 (d_aref df);
  let s3 := set_stable s2 (fold_left (fun acc x => if isg x then addN x acc else acc) (d_rref df) (k_stable s2)) in
  match d with
  | Heap =>
      dok s4 <- inc_refs s3 (d_aref df);
      dec_refs s4 (d_rref df)
  | Store =>
      dok s4 <- persist_nodes s3 (d_aown df);
      match d_rown df with
      | _ :: _ => Err2 ECantDropNodeInStore
      | [] => if existsb (fun r => negb (isg r)) (d_aref df) then Err2 ENonGlobalRefNotAllowed else Ok2 s4
      end
  end.

(* ---------- apply_diff_to_open_substate ---------- *)
Fixpoint app_aown (s : k2) (o : origin) (l : list N) : k2 :=
  match l with [] => s | x :: t => app_aown (trans_inc s x o) o t end.
Fixpoint app_rown (s : k2) (l : list N) : r2 k2 :=
  match l with [] => Ok2 s | x :: t => dok s1 <- trans_dec s x; app_rown s1 t end.
Fixpoint app_aref (s : k2) (l : list N) : r2 k2 :=
  match l with
  | [] => Ok2 s
  | x :: t => if isg x then app_aref s t
              else dok d <- ngr_device s x; app_aref (trans_inc s x (ONonGlobal d)) t
  end.
Fixpoint app_rref (s : k2) (l : list N) : r2 k2 :=
  match l with
  | [] => Ok2 s
  | x :: t => if isg x then app_rref s t else dok s1 <- trans_dec s x; app_rref s1 t
  end.
Definition apply_diff (s : k2) (o : opened) (df : sdiff) : r2 (k2 * opened) :=
  let s1 := app_aown s (o_origin o) (d_aown df) in
  dok s2 <- app_rown s1 (d_rown df);
  dok s3 <- app_aref s2 (d_aref df);
  dok s4 <- app_rref s3 (d_rref df);
  let owns := fold_left (fun acc x => remN x acc) (d_rown df) (fold_left (fun acc x => addN x acc) (d_aown df) (o_owns o)) in
  let refs := fold_left (fun acc x => remN x acc) (d_rref df) (fold_left (fun acc x => addN x acc) (d_aref df) (o_refs o)) in
  Ok2 (s4, mkO (o_node o) (o_key o) (o_dev o) (o_origin o) (o_mut o) owns refs).

(* ---------- diffs ---------- *)
Definition diff_new (v : val) : r2 sdiff :=
  if has_dup (v_owns v) then Err2 EDupOwns else Ok2 (mkD (v_owns v) [] (dedup (v_refs v) []) []).
Definition diff_drop (v : val) : sdiff := mkD [] (v_owns v) [] (dedup (v_refs v) []).
Definition diff_write (o : opened) (v : val) : r2 sdiff :=
  if has_dup (v_owns v) then Err2 EDupOwns else
  let nrefs := dedup (v_refs v) [] in
  Ok2 (mkD (filter (fun x => negb (memN x (o_owns o))) (v_owns v))
           (filter (fun x => negb (memN x (v_owns v))) (o_owns o))
           (filter (fun x => negb (memN x (o_refs o))) nrefs)
           (filter (fun x => negb (memN x nrefs)) (o_refs o))).

(* ---------- operations ---------- *)
Inductive kop2 :=
| KCreate2 (n : N) (f0 f1 : val)
| KOpen (n key : N) (mutable : bool)
| KWrite (h : N) (v : val)
| KClose (h : N)
| KDrop2 (n : N)
| KPin (n : N)
| KCreateFrom (n src : N).

Definition dev_map (s : k2) (d : dev) := match d with Heap => k_heap s | Store => k_store s end.
Definition set_dev_map (s : k2) (d : dev) x := match d with Heap => set_heap s x | Store => set_store s x end.

Fixpoint create_fields (s : k2) (d : dev) (fs : list val) : r2 k2 :=
  match fs with
  | [] => Ok2 s
  | v :: t => dok df <- diff_new v; dok s1 <- process_diff s d df; create_fields s1 d t
  end.

Fixpoint drop_fields (s : k2) (fs : list val) : r2 k2 :=
  match fs with
  | [] => Ok2 s
  | v :: t => dok s1 <- process_diff s Heap (diff_drop v); drop_fields s1 t
  end.

(* move_partition towards a stored node: per substate, persist the owned nodes, then refuse non-global refs *)
Fixpoint move_fields (s : k2) (dest : N) (fs : fields) : r2 k2 :=
  match fs with
  | [] => Ok2 s
  | (k, v) :: t =>
      dok s1 <- persist_nodes s (v_owns v);
      if val_nonglobal_ref v then Err2 ENonGlobalRefNotAllowed
      else
        let cur := match lget dest (k_store s1) with Some f => f | None => [] end in
        move_fields (set_store s1 (lset dest (lset k v cur) (k_store s1))) dest t
  end.

Definition kstep2 (s : k2) (o : kop2) : r2 k2 :=
  match o with
  | KCreate2 n f0 f1 =>
      let d := if isg n then Store else Heap in
      dok s1 <- create_fields s d [f0; f1];
      let s2 := match d with Store => set_stable s1 (addN n (k_stable s1)) | Heap => set_owned s1 (addN n (k_owned s1)) end in
      Ok2 (set_dev_map s2 d (lset n [(0, f0); (1, f1)] (dev_map s2 d)))
  | KOpen n key mutable =>
      match node_ref s n with
      | None => Err2 ENodeNotVisible
      | Some (ro, d) =>
          match lget n (dev_map s d) with
          | None => Err2 ESubstateFault
          | Some fs =>
              match lget key fs with
              | None => Err2 ESubstateFault
              | Some v =>
                  if negb (can_lock s n key mutable) then Err2 ELocked else
                  let s1 := set_stable s (fold_left (fun acc x => if isg x then addN x acc else acc) (v_refs v) (k_stable s)) in
                  let o0 := mkO n key d ro mutable [] [] in
                  dok df <- diff_new v;
                  dok '(s2, o1) <- apply_diff s1 o0 df;
                  Ok2 (set_nexth (set_opens s2 (k_opens s2 ++ [(k_nexth s2, o1)])) (k_nexth s2 + 1))
              end
          end
      end
  | KWrite h v =>
      match lget h (k_opens s) with
      | None => Err2 EHandleNotFound
      | Some o =>
          (* the handle leaves the frame's open_substates map while the diff is processed, but the
             substate lock itself (substate_locks) stays: the node counts as locked throughout *)
          if negb (o_mut o) then Err2 ENoWritePermission else
          dok df <- diff_write o v;
          dok s1 <- process_diff s (o_dev o) df;
          dok '(s2, o1) <- apply_diff s1 o df;
          let cur := match lget (o_node o) (dev_map s2 (o_dev o)) with Some f => f | None => [] end in
          let s3 := set_dev_map s2 (o_dev o) (lset (o_node o) (lset (o_key o) v cur) (dev_map s2 (o_dev o))) in
          Ok2 (set_opens s3 (ldel h (k_opens s3) ++ [(h, o1)]))
      end
  | KClose h =>
      match lget h (k_opens s) with
      | None => Err2 EHandleNotFound
      | Some o =>
          let s0 := set_opens s (ldel h (k_opens s)) in
          (* checked before the lock of this handle is released *)
          if existsb (fun x => node_is_locked s x) (o_owns o) then Err2 ECloseBorrowed else
          dok '(s1, _) <- apply_diff s0 o (mkD [] (o_owns o) [] (o_refs o));
          Ok2 s1
      end
  | KDrop2 n =>
      dok s1 <- take_node s n;
      if ngr_referenced s1 n then Err2 ENodeBorrowed else
      match lget n (k_heap s1) with
      | None => Panic2
      | Some fs =>
          let s2 := set_heap s1 (ldel n (k_heap s1)) in
          dok s3 <- drop_fields s2 (map snd fs);
          Ok2 (set_pinned s3 (remN n (k_pinned s3)))
      end
  | KPin n =>
      match node_ref s n with
      | None => Err2 ENodeNotVisible
      | Some (_, Heap) => Ok2 (set_pinned s (addN n (k_pinned s)))
      | Some (_, Store) => Ok2 s
      end
  | KCreateFrom n src =>
      (* create_node(n, no substates) *)
      let s1 := set_store (set_stable s (addN n (k_stable s))) (lset n [] (k_store s)) in
      match node_ref s1 src with
      | None => Err2 ENodeNotVisible
      | Some (_, d) =>
          if node_is_locked s1 src then Err2 ETakeBorrowed else
          match d with
          | Store => Err2 EMoveFromStore
          | Heap =>
              match lget src (k_heap s1) with
              | None => Err2 EPartitionNotFound
              | Some [] => Err2 EPartitionNotFound
              | Some fs =>
                  let s2 := set_heap s1 (lset src [] (k_heap s1)) in
                  move_fields s2 n fs
              end
          end
      end
  end.
