(* C34 — executable model of the limit checks of transaction preparation + validation:
     radix-transactions/src/validation/transaction_validator_v1.rs
        validate_notarized_v1, validate_intent_v1, validate_header_v1, validate_message_v1,
        validate_instructions_v1 (instruction count only)
     radix-transactions/src/validation/transaction_validator_v2.rs
        validate_transaction_tree_v2, validate_transaction_header_v2, validate_v2_intent_core,
        validate_intent_header_v2, validate_message_v2, validate_manifest_v2 (instruction count only)
     radix-transactions/src/validation/transaction_structure_validator.rs
        AcrossIntentAggregation::{start, record_reference_count, update_headers, finalize}
     radix-transactions/src/validation/signature_validator.rs  (the three count checks only)
     radix-transactions/src/model/preparation/decoder.rs  check_len, and the array limits applied by
        PreparedBlobsV1 / PreparedChildSubintentSpecifiersV2 / PreparedNonRootSubintentsV2 /
        PreparedNonRootSubintentSignaturesV2, v2_transactions_permitted (PreparedIntentCoreV2)
   in the order in which the code performs them.  Model only: no proofs here.

   The decision is a function of a *summary* of the transaction (the numbers the checks look at); the
   harness extracts the summary from the real transaction.  Outside the summary, and assumed to pass:
   SBOR decoding, static manifest validation beyond the instruction count (C36), the subintent
   structure (C35) and signature verification (C33).
   u64 epochs: `start.after(max_epoch_range)` is checked_add, None = InvalidEpochRange (explicit).
   usize counts are N; `total_reference_count.saturating_add` never saturates below 2^64. *)
From Coq Require Import List NArith ZArith Bool.
Import ListNotations.
Open Scope N_scope.

Definition U64_MAX : N := 18446744073709551615.

(* TransactionValidationConfigV1 + MessageValidationConfig + PreparationSettingsV1 (numeric fields) *)
Record config := mkConfig {
  max_signer_signatures_per_intent : N;
  max_references_per_intent : N;
  min_tip_percentage : N;
  max_tip_percentage : N;
  max_epoch_range : N;
  max_instructions : N;
  max_plaintext_message_length : N;
  max_encrypted_message_length : N;
  max_mime_type_length : N;
  max_decryptors : N;
  v2_transactions_allowed : bool;
  min_tip_basis_points : N;
  max_tip_basis_points : N;
  max_subintent_depth : N;
  max_total_signature_validations : N;
  max_total_references : N;
  (* preparation_settings *)
  v2_transactions_permitted : bool;
  max_user_payload_length : N;
  max_child_subintents_per_intent : N;
  max_subintents_per_transaction : N;
  max_blobs : N
}.

(* ---- summaries ---- *)
(* decryptors_by_curve entry: (key curve, curve of the DecryptorsByCurve value, number of decryptors) *)
Inductive message :=
| MNone
| MPlaintext (mime_len msg_len : N)
| MEncrypted (enc_len : N) (decryptors : list (N * N * N)).

Record header_v1 := { h1_network : N; h1_start : N; h1_end : N; h1_tip_percentage : N }.
Record tx_v1 := {
  v1_payload_len : N; v1_header : header_v1; v1_message : message;
  v1_references : N; v1_instructions : N; v1_blobs : N; v1_signatures : N }.

Record header_v2 := {
  h2_network : N; h2_start : N; h2_end : N; h2_min_ts : option Z; h2_max_ts : option Z }.
Record intent_v2 := {
  i_header : header_v2; i_message : message; i_references : N; i_instructions : N;
  i_blobs : N; i_children : N }.
(* root: Some tip_basis_points = notarized transaction (transaction intent, notary);
         None = signed partial transaction (root subintent) *)
Record tx_v2 := {
  v2_payload_len : N; v2_tip : option N; v2_root : intent_v2; v2_root_signatures : N;
  v2_subs : list intent_v2; v2_batches : list N (* signatures (preview: public keys) per non-root batch *);
  (* PreviewTransactionV2 (tip = Some _): RawPreviewTransaction is TransactionPayloadKind::Other (no
     payload length check), the key lists are raw values (no array limit at preparation), signature
     counts are the numbers of declared public keys, the notary still counts 1 *)
  v2_preview : bool }.

(* ---- outcomes ---- *)
Inductive loc := Root | NonRoot (i : N) | Across.
Inductive header_err :=
| InvalidEpochRange | InvalidTimestampRange | InvalidNetwork | InvalidTip
| NoValidEpochRangeAcrossAllIntents | NoValidTimestampRangeAcrossAllIntents.
Inductive message_err :=
| PlaintextMessageTooLong | MimeTypeTooLong | EncryptedMessageTooLong | NoDecryptors
| MismatchingDecryptorCurves | TooManyDecryptors | NoDecryptorsForCurveType.
Inductive value_type := VBlob | VSubintent | VChildSubintentSpecifier | VSubintentSignatureBatches.
Inductive err :=
| PrepareTransactionTooLarge
| PrepareTransactionTypeNotSupported
| PrepareTooManyValues (v : value_type) (actual max : N)
| TransactionVersionNotPermitted
| TooManySignatures (l : loc) (total limit : N)
| IncorrectNumberOfSubintentSignatureBatches
| HeaderError (l : loc) (e : header_err)
| MessageError (l : loc) (e : message_err)
| TooManyReferences (l : loc) (total limit : N)
| TooManyInstructions (l : loc).
(* overall validity range of a V2 transaction *)
Record range := { r_start : N; r_end : N; r_min_ts : option Z; r_max_ts : option Z }.
(* PanicDepthUnderflow: `self.config.max_subintent_depth - 1` in validate_intent_relationships with a
   subintent root and a configured depth of 0 (usize underflow; the harness builds with overflow checks) *)
Inductive outcome := AcceptV1 | AcceptV2 (r : range) | Reject (e : err) | PanicDepthUnderflow.

(* ---- message (validate_message_v1 = validate_message_v2 on the summary) ---- *)
Fixpoint decryptors_loop (ds : list (N * N * N)) (total : N) : message_err + N :=
  match ds with
  | [] => inr total
  | (curve, actual, n) :: r =>
    if negb (actual =? curve) then inl MismatchingDecryptorCurves
    else if n =? 0 then inl NoDecryptorsForCurveType
    else decryptors_loop r (total + n)
  end.
Definition validate_message (c : config) (m : message) : option message_err :=
  match m with
  | MNone => None
  | MPlaintext mime msg =>
    if max_mime_type_length c <? mime then Some MimeTypeTooLong
    else if max_plaintext_message_length c <? msg then Some PlaintextMessageTooLong
    else None
  | MEncrypted enc ds =>
    if max_encrypted_message_length c <? enc then Some EncryptedMessageTooLong
    else match ds with
         | [] => Some NoDecryptors
         | _ => match decryptors_loop ds 0 with
                | inl e => Some e
                | inr total => if max_decryptors c <? total then Some TooManyDecryptors else None
                end
         end
  end.

(* ---- epoch window shared by validate_header_v1 and validate_intent_header_v2 ---- *)
Definition epoch_check (c : config) (s e : N) : option header_err :=
  if e <=? s then Some InvalidEpochRange
  else if U64_MAX <? s + max_epoch_range c then Some InvalidEpochRange      (* checked_add = None *)
  else if s + max_epoch_range c <? e then Some InvalidEpochRange
  else None.
Definition network_check (required : option N) (n : N) : option header_err :=
  match required with
  | Some r => if negb (n =? r) then Some InvalidNetwork else None
  | None => None
  end.

(* ================================ V1 ================================ *)
Definition validate_header_v1 (c : config) (net : option N) (h : header_v1) : option header_err :=
  match network_check net (h1_network h) with
  | Some e => Some e
  | None =>
    match epoch_check c (h1_start h) (h1_end h) with
    | Some e => Some e
    | None =>
      if (h1_tip_percentage h <? min_tip_percentage c) || (max_tip_percentage c <? h1_tip_percentage h)
      then Some InvalidTip else None
    end
  end.

Definition prepare_v1 (c : config) (t : tx_v1) : option err :=
  if max_user_payload_length c <? v1_payload_len t then Some PrepareTransactionTooLarge
  else if max_blobs c <? v1_blobs t then Some (PrepareTooManyValues VBlob (v1_blobs t) (max_blobs c))
  else None.

Definition validate_v1 (c : config) (net : option N) (t : tx_v1) : outcome :=
  match prepare_v1 c t with
  | Some e => Reject e
  | None =>
    (* AllPendingSignatureValidations::new_with_root *)
    if max_signer_signatures_per_intent c <? v1_signatures t
    then Reject (TooManySignatures Root (v1_signatures t) (max_signer_signatures_per_intent c))
    else
    (* validate_intent_v1 *)
    match validate_header_v1 c net (v1_header t) with
    | Some e => Reject (HeaderError Root e)
    | None =>
      match validate_message c (v1_message t) with
      | Some e => Reject (MessageError Root e)
      | None =>
        if max_references_per_intent c <? v1_references t
        then Reject (TooManyReferences Root (v1_references t) (max_references_per_intent c))
        else if max_instructions c <? v1_instructions t then Reject (TooManyInstructions Root)
        (* aggregation.finalize *)
        else if max_total_references c <? v1_references t
        then Reject (TooManyReferences Across (v1_references t) (max_total_references c))
        (* validate_all *)
        else if max_total_signature_validations c <? v1_signatures t + 1
        then Reject (TooManySignatures Across (v1_signatures t + 1) (max_total_signature_validations c))
        else AcceptV1
      end
    end
  end.

(* ================================ V2 ================================ *)
(* AcrossIntentAggregation *)
Record agg := { a_refs : N; a_start : N; a_end : N; a_min_ts : option Z; a_max_ts : option Z }.
Definition agg_start : agg :=
  {| a_refs := 0; a_start := 0; a_end := U64_MAX; a_min_ts := None; a_max_ts := None |}.

Definition update_headers (a : agg) (h : header_v2) : header_err + agg :=
  let s := if a_start a <? h2_start h then h2_start h else a_start a in
  let e := if h2_end h <? a_end a then h2_end h else a_end a in
  if e <=? s then inl NoValidEpochRangeAcrossAllIntents
  else
    let mn := match h2_min_ts h with
              | Some x => match a_min_ts a with
                          | None => Some x
                          | Some y => if (y <? x)%Z then Some x else Some y
                          end
              | None => a_min_ts a
              end in
    let mx := match h2_max_ts h with
              | Some x => match a_max_ts a with
                          | None => Some x
                          | Some y => if (x <? y)%Z then Some x else Some y
                          end
              | None => a_max_ts a
              end in
    match mn, mx with
    | Some lo, Some hi =>
      if (hi <=? lo)%Z then inl NoValidTimestampRangeAcrossAllIntents
      else inr {| a_refs := a_refs a; a_start := s; a_end := e; a_min_ts := mn; a_max_ts := mx |}
    | _, _ => inr {| a_refs := a_refs a; a_start := s; a_end := e; a_min_ts := mn; a_max_ts := mx |}
    end.

Definition validate_intent_header_v2 (c : config) (net : option N) (a : agg) (h : header_v2)
  : header_err + agg :=
  match network_check net (h2_network h) with
  | Some e => inl e
  | None =>
    match epoch_check c (h2_start h) (h2_end h) with
    | Some e => inl e
    | None =>
      match h2_min_ts h, h2_max_ts h with
      | Some lo, Some hi =>
        if (hi <=? lo)%Z then inl InvalidTimestampRange else update_headers a h
      | _, _ => update_headers a h
      end
    end
  end.

(* validate_v2_intent_core at location l *)
Definition validate_intent_core (c : config) (net : option N) (l : loc) (a : agg) (i : intent_v2)
  : err + agg :=
  match validate_intent_header_v2 c net a (i_header i) with
  | inl e => inl (HeaderError l e)
  | inr a1 =>
    match validate_message c (i_message i) with
    | Some e => inl (MessageError l e)
    | None =>
      if max_references_per_intent c <? i_references i
      then inl (TooManyReferences l (i_references i) (max_references_per_intent c))
      else
        let a2 := {| a_refs := a_refs a1 + i_references i; a_start := a_start a1; a_end := a_end a1;
                     a_min_ts := a_min_ts a1; a_max_ts := a_max_ts a1 |} in
        if max_instructions c <? i_instructions i then inl (TooManyInstructions l) else inr a2
    end
  end.

Fixpoint validate_subs (c : config) (net : option N) (idx : N) (a : agg) (subs : list intent_v2)
  : err + agg :=
  match subs with
  | [] => inr a
  | i :: r =>
    match validate_intent_core c net (NonRoot idx) a i with
    | inl e => inl e
    | inr a' => validate_subs c net (idx + 1) a' r
    end
  end.

(* preparation, in decoding order *)
Definition prepare_core (c : config) (i : intent_v2) : option err :=
  if negb (v2_transactions_permitted c) then Some PrepareTransactionTypeNotSupported
  else if max_blobs c <? i_blobs i then Some (PrepareTooManyValues VBlob (i_blobs i) (max_blobs c))
  else if max_child_subintents_per_intent c <? i_children i
  then Some (PrepareTooManyValues VChildSubintentSpecifier (i_children i) (max_child_subintents_per_intent c))
  else None.
Fixpoint prepare_cores (c : config) (l : list intent_v2) : option err :=
  match l with
  | [] => None
  | i :: r => match prepare_core c i with Some e => Some e | None => prepare_cores c r end
  end.
Definition len {A} (l : list A) : N := N.of_nat (length l).
Definition prepare_v2 (c : config) (t : tx_v2) : option err :=
  (* check_len applies to complete user transactions only (TransactionPayloadKind::Other for partials) *)
  if match v2_tip t with
     | Some _ => negb (v2_preview t) && (max_user_payload_length c <? v2_payload_len t)
     | None => false end
  then Some PrepareTransactionTooLarge
  else
    match prepare_core c (v2_root t) with
    | Some e => Some e
    | None =>
      if max_subintents_per_transaction c <? len (v2_subs t)
      then Some (PrepareTooManyValues VSubintent (len (v2_subs t)) (max_subintents_per_transaction c))
      else
        match prepare_cores c (v2_subs t) with
        | Some e => Some e
        | None =>
          if negb (v2_preview t) && (max_subintents_per_transaction c <? len (v2_batches t))
          then Some (PrepareTooManyValues VSubintentSignatureBatches (len (v2_batches t))
                                          (max_subintents_per_transaction c))
          else None
        end
    end.

(* add_non_root for each (subintent, batch) *)
Fixpoint batch_counts (c : config) (idx : N) (bs : list N) : option err :=
  match bs with
  | [] => None
  | n :: r =>
    if max_signer_signatures_per_intent c <? n
    then Some (TooManySignatures (NonRoot idx) n (max_signer_signatures_per_intent c))
    else batch_counts c (idx + 1) r
  end.
Definition sum (l : list N) : N := fold_right N.add 0 l.

Definition validate_v2 (c : config) (net : option N) (t : tx_v2) : outcome :=
  match prepare_v2 c t with
  | Some e => Reject e
  | None =>
    if negb (v2_transactions_allowed c) then Reject TransactionVersionNotPermitted
    else
    (* construct_pending_signature_validations *)
    if max_signer_signatures_per_intent c <? v2_root_signatures t
    then Reject (TooManySignatures Root (v2_root_signatures t) (max_signer_signatures_per_intent c))
    else if negb (len (v2_subs t) =? len (v2_batches t))
    then Reject IncorrectNumberOfSubintentSignatureBatches
    else
    match batch_counts c 0 (v2_batches t) with
    | Some e => Reject e
    | None =>
      (* validate_intents_and_structure: validate_intent_relationships computes max_subintent_depth - 1
         for a subintent root (after STEP 1-2, which pass on the structurally valid transactions) *)
      if match v2_tip t with None => max_subintent_depth c =? 0 | Some _ => false end
      then PanicDepthUnderflow
      else
      (* root.validate_intent *)
      let tip_bad := match v2_tip t with
                     | Some tip => (tip <? min_tip_basis_points c) || (max_tip_basis_points c <? tip)
                     | None => false
                     end in
      if tip_bad then Reject (HeaderError Root InvalidTip)
      else
      match validate_intent_core c net Root agg_start (v2_root t) with
      | inl e => Reject e
      | inr a1 =>
        match validate_subs c net 0 a1 (v2_subs t) with
        | inl e => Reject e
        | inr a =>
          (* aggregation.finalize *)
          if max_total_references c <? a_refs a
          then Reject (TooManyReferences Across (a_refs a) (max_total_references c))
          else
            (* signatures.validate_all *)
            let total := v2_root_signatures t + (match v2_tip t with Some _ => 1 | None => 0 end)
                         + sum (v2_batches t) in
            if max_total_signature_validations c <? total
            then Reject (TooManySignatures Across total (max_total_signature_validations c))
            else AcceptV2 {| r_start := a_start a; r_end := a_end a;
                             r_min_ts := a_min_ts a; r_max_ts := a_max_ts a |}
        end
      end
    end
  end.

(* ================================ V1 preview ================================ *)
(* validate_preview_intent_v1: the intent is prepared on its own (RawTransactionIntent is
   TransactionPayloadKind::Other: no payload length check; blobs limit applies), then validate_intent_v1
   and finalize.  No signature is counted or verified: signer_public_keys are passed through. *)
Definition validate_preview_v1 (c : config) (net : option N) (t : tx_v1) : outcome :=
  if max_blobs c <? v1_blobs t then Reject (PrepareTooManyValues VBlob (v1_blobs t) (max_blobs c))
  else
    match validate_header_v1 c net (v1_header t) with
    | Some e => Reject (HeaderError Root e)
    | None =>
      match validate_message c (v1_message t) with
      | Some e => Reject (MessageError Root e)
      | None =>
        if max_references_per_intent c <? v1_references t
        then Reject (TooManyReferences Root (v1_references t) (max_references_per_intent c))
        else if max_instructions c <? v1_instructions t then Reject (TooManyInstructions Root)
        else if max_total_references c <? v1_references t
        then Reject (TooManyReferences Across (v1_references t) (max_total_references c))
        else AcceptV1
      end
    end.
