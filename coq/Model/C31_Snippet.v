(* C31 — executable model of the span -> snippet arithmetic of create_snippet
   (radix-transactions/src/manifest/diagnostic_snippets.rs), no proofs.
   `snippet true`  = the code as FIXED in /repo commit 22cafbbc61 (lines split on LF only, CR kept);
   `snippet false` = the code before the fix (str::lines(): the CR of a CRLF ending is stripped).
   Text = list of code points; a span is (start index, start line, end index, end line) with 0-based
   line indices as maintained by Position::advance (line_idx = number of LF before the index:
   `line_of`).  Explicit SnPanic for: usize underflow of `annotation_*_index -= skipped_chars`, and the
   renderer's precondition (annotate-snippets 0.10.2 display_list.rs: panic
   "SourceAnnotation range is beyond the end of buffer" iff source_len + 1 < range.1). *)
From Coq Require Import List NArith Bool.
Import ListNotations.
Open Scope N_scope.

Definition lenN {A} (l : list A) : N := N.of_nat (length l).

(* s.split('\n') *)
Fixpoint pieces (text : list N) : list (list N) :=
  match text with
  | [] => [[]]
  | c :: t =>
      if c =? 10 then [] :: pieces t
      else match pieces t with h :: r => (c :: h) :: r | [] => [[c]] end
  end.
(* if lines.last() == Some(&"") { lines.pop() } *)
Definition drop_last_empty (p : list (list N)) : list (list N) :=
  match rev p with [] :: r => rev r | _ => p end.
(* strip_suffix('\r') *)
Definition strip_cr (l : list N) : list N :=
  match rev l with 13 :: r => rev r | _ => l end.
(* str::lines(): pieces that ended with LF lose one trailing CR; a final piece without LF is kept as is;
   no trailing empty line *)
Definition lines_std (text : list N) : list (list N) :=
  let p := pieces text in
  map strip_cr (removelast p) ++ match last p [] with [] => [] | l => [l] end.

Definition lines_of (fixed : bool) (text : list N) : list (list N) :=
  if fixed then drop_last_empty (pieces text) else lines_std text.

Fixpoint sum_lens (ls : list (list N)) : N :=
  match ls with [] => 0 | l :: t => lenN l + 1 + sum_lens t end.

(* Position::advance keeps line_idx = number of LF before the index *)
Fixpoint line_of (text : list N) (idx : nat) : nat :=
  match idx, text with
  | O, _ | _, [] => O
  | S i, c :: t => ((if c =? 10 then 1 else 0) + line_of t i)%nat
  end.

Definition line_idx (text : list N) (i : N) : N := N.of_nat (line_of text (N.to_nat i)).

Inductive snres :=
| SnOk (line_start : N) (source : list (list N)) (range_start range_end : N)   (* rendered source lines, annotation range *)
| SnPanic.

(* bytes_len = s.len() (UTF-8 bytes) >= number of chars *)
Definition snippet (fixed : bool) (text : list N) (bytes_len : N) (start_idx start_line end_idx end_line : N) : snres :=
  let lines := lines_of fixed text in
  let cnt := lenN lines in
  let line_start := if 5 <? start_line + 1 then start_line + 1 - 5 else 1 in
  let line_end := N.min (end_line + 1 + 5) cnt in
  let skipped_lines := firstn (N.to_nat (line_start - 1)) lines in
  let shown := firstn (N.to_nat (line_end + 1 - line_start)) (skipn (N.to_nat (line_start - 1)) lines) in
  let skipped := sum_lens skipped_lines in
  let a0 := N.min start_idx bytes_len in
  let b0 := N.min end_idx bytes_len in
  let b1 := if a0 =? b0 then b0 + 1 else b0 in
  if (a0 <? skipped) || (b1 <? skipped) then SnPanic
  else
    let a := a0 - skipped in
    let b := b1 - skipped in
    if sum_lens shown + 1 <? b then SnPanic else SnOk line_start shown a b.
