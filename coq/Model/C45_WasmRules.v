(* C45 — WASM package validation: the decision pipeline of ScryptoV1WasmValidator::validate
   (radix-engine/src/vm/wasm/wasm_validator.rs) over a *module summary*, in the code's order:

     WasmModule::init                      (deserialize + wasmparser validation, features fixed)
       .enforce_no_start_function
       .enforce_import_constraints(version)
       .enforce_export_names
       .enforce_memory_limit_and_inject_max(max_memory_size_in_pages)
       .enforce_table_limit(max_initial_table_size)
       .enforce_br_table_limit(max_number_of_br_table_targets)
       .enforce_function_limit(max functions, max params, max locals)
       .enforce_global_limit(max_number_of_globals)
       .enforce_export_constraints(blueprints)
       [.inject_instruction_metering .inject_stack_metering .ensure_instantiatable .to_bytes
         — outside this model; see Props/C45.v]

   The summary is what the checks of prepare.rs read from the module (through ModuleInfo of
   radix-wasm-instrument): it is extracted from the module bytes by the correspondence harness with
   its own wasmparser pass.  Two facts are summary *inputs* because they are computed by libraries
   the model does not contain: `s_wp_valid` (the module parses and validates with wasmparser under
   MVP + mutable-global + sign-extension, floats allowed) and `exp_ident_ok` (syn accepts the export
   name as a Rust identifier).  Executable definitions only; proofs are in Proof/C45_WasmRules.v. *)
From Coq Require Import List NArith Bool.
Import ListNotations.
Require Import RV.Lib.Bytes RV.Gen.C45_wasm_limits.
Open Scope N_scope.

(* ---------------------------------------------------------------------------------------------- *)
(* module summary                                                                                 *)
(* ---------------------------------------------------------------------------------------------- *)
Inductive valtype := VI32 | VI64 | VF32 | VF64 | VOther.
Definition valtype_eqb (a b : valtype) : bool :=
  match a, b with
  | VI32, VI32 | VI64, VI64 | VF32, VF32 | VF64, VF64 | VOther, VOther => true
  | _, _ => false
  end.
Fixpoint valtypes_eqb (a b : list valtype) : bool :=
  match a, b with
  | [], [] => true
  | x :: a', y :: b' => valtype_eqb x y && valtypes_eqb a' b'
  | _, _ => false
  end.
Record functype := mkFT { ft_params : list valtype; ft_results : list valtype }.
Definition functype_eqb (a b : functype) : bool :=
  valtypes_eqb (ft_params a) (ft_params b) && valtypes_eqb (ft_results a) (ft_results b).

Inductive import_kind := IKFunc (type_index : N) | IKTable | IKMemory | IKGlobal | IKTag.
Record import := mkImp { imp_module : bytes; imp_name : bytes; imp_kind : import_kind }.
Record limits := mkLim { lim_initial : N; lim_max : option N }.
Inductive export_kind := EKFunc | EKTable | EKMemory | EKGlobal | EKTag.
Record export := mkExp { exp_name : bytes; exp_ident_ok : bool; exp_kind : export_kind; exp_index : N }.
(* a function body: the counts of its local declaration groups, and the number of targets
   (excluding the default) of each br_table it contains, in order *)
Record body := mkBody { b_locals : list N; b_br_tables : list N }.

Record summary := mkSum {
  s_wp_valid : bool;                  (* parses + validates (features of init, floats allowed) *)
  s_uses_float : bool;                (* an f32/f64 value type or floating-point operator occurs *)
  s_has_start : bool;                 (* start section present *)
  s_types : list functype;            (* type section *)
  s_imports : list import;            (* import section, in order *)
  s_funcs : list N;                   (* function section: type index of each local function *)
  s_tables : option (list limits);    (* table section (None = absent) *)
  s_memories : option (list limits);  (* memory section *)
  s_globals : N;                      (* number of globals defined in the global section *)
  s_exports : option (list export);   (* export section *)
  s_bodies : list body                (* code section *)
}.

Record config := mkCfg {
  max_memory_size_in_pages : N;
  max_initial_table_size : N;
  max_number_of_br_table_targets : N;
  max_number_of_functions : N;
  max_number_of_function_params : N;
  max_number_of_function_locals : N;
  max_number_of_globals : N
}.
(* ScryptoV1WasmValidator::new(_) : the constants read from the code by gen_c45 *)
Definition config_v1 : config :=
  mkCfg c45_max_memory_size_in_pages c45_max_initial_table_size c45_max_number_of_br_table_targets
        c45_max_number_of_functions c45_max_number_of_function_params
        c45_max_number_of_function_locals c45_max_number_of_globals.

Definition U32_MAX : N := 4294967295.

(* ---------------------------------------------------------------------------------------------- *)
(* verdicts: PrepareError classes (message strings dropped)                                       *)
(* ---------------------------------------------------------------------------------------------- *)
Inductive verdict :=
| VInvalid                          (* DeserializationError | ValidationError *)
| VStartFunctionNotAllowed
| VImportNotAllowed | VInvalidFunctionType | VProtocolVersionMismatch
| VInvalidExportName
| VMissingMemorySection | VNoMemoryDefinition | VTooManyMemoryDefinition
| VMemorySizeLimitExceeded | VMemoryNotExported
| VMoreThanOneTable | VInitialTableSizeLimitExceeded
| VTooManyTargetsInBrTable
| VTooManyFunctions | VTooManyFunctionParams | VTooManyFunctionLocals | VOverflow
| VTooManyGlobals
| VNoExportSection | VMissingExport
| VModuleInfoError                  (* an index lookup of ModuleInfo failed *)
| VPassed (memory_max_out : N).     (* all rule checks passed; declared memory maximum after
                                       enforce_memory_limit_and_inject_max *)

Definition verdict_eqb (a b : verdict) : bool :=
  match a, b with
  | VInvalid, VInvalid | VStartFunctionNotAllowed, VStartFunctionNotAllowed
  | VImportNotAllowed, VImportNotAllowed | VInvalidFunctionType, VInvalidFunctionType
  | VProtocolVersionMismatch, VProtocolVersionMismatch | VInvalidExportName, VInvalidExportName
  | VMissingMemorySection, VMissingMemorySection | VNoMemoryDefinition, VNoMemoryDefinition
  | VTooManyMemoryDefinition, VTooManyMemoryDefinition
  | VMemorySizeLimitExceeded, VMemorySizeLimitExceeded | VMemoryNotExported, VMemoryNotExported
  | VMoreThanOneTable, VMoreThanOneTable
  | VInitialTableSizeLimitExceeded, VInitialTableSizeLimitExceeded
  | VTooManyTargetsInBrTable, VTooManyTargetsInBrTable | VTooManyFunctions, VTooManyFunctions
  | VTooManyFunctionParams, VTooManyFunctionParams | VTooManyFunctionLocals, VTooManyFunctionLocals
  | VOverflow, VOverflow | VTooManyGlobals, VTooManyGlobals | VNoExportSection, VNoExportSection
  | VMissingExport, VMissingExport | VModuleInfoError, VModuleInfoError => true
  | VPassed x, VPassed y => x =? y
  | _, _ => false
  end.

(* ---------------------------------------------------------------------------------------------- *)
(* helpers mirroring ModuleInfo                                                                    *)
(* ---------------------------------------------------------------------------------------------- *)
Definition nth_N {A} (l : list A) (i : N) : option A := nth_error l (N.to_nat i).
Definition imported_func_types (imps : list import) : list N :=
  flat_map (fun i => match imp_kind i with IKFunc ti => [ti] | _ => [] end) imps.
(* ModuleInfo.function_map: imported functions first, then the function section *)
Definition function_map (s : summary) : list N := imported_func_types (s_imports s) ++ s_funcs s.
(* ModuleInfo::num_local_functions = function_map.len() - imported_functions_count *)
Definition num_local_functions (s : summary) : N := N.of_nat (length (s_funcs s)).

(* WasmModule::function_type_matches *)
Definition function_type_matches (types : list functype) (type_index : N) (ft : functype) : bool :=
  match nth_N types type_index with
  | Some t => functype_eqb t ft
  | None => false
  end.
(* WasmModule::function_matches *)
Definition function_matches (s : summary) (func_index : N) (ft : functype) : bool :=
  match nth_N (function_map s) func_index with
  | Some ti => function_type_matches (s_types s) ti ft
  | None => false
  end.

(* first error of a list of checks (None = all passed) *)
Fixpoint first_err {A} (f : A -> option verdict) (l : list A) : option verdict :=
  match l with
  | [] => None
  | x :: r => match f x with Some e => Some e | None => first_err f r end
  end.

(* ---------------------------------------------------------------------------------------------- *)
(* the checks, one per enforce_* function                                                         *)
(* ---------------------------------------------------------------------------------------------- *)
(* WasmModule::init — deserialization and wasmparser validation with `floats: false` *)
Definition check_init (s : summary) : option verdict :=
  if negb (s_wp_valid s) then Some VInvalid
  else if s_uses_float s then Some VInvalid
  else None.

Definition check_no_start (s : summary) : option verdict :=
  if s_has_start s then Some VStartFunctionNotAllowed else None.

(* whitelist row -> expected function type *)
Definition host_sig (nparams result : N) : functype :=
  mkFT (repeat VI32 (N.to_nat nparams))
       (match result with 0 => [] | 1 => [VI32] | _ => [VI64] end).
Fixpoint lookup_host (name : bytes) (tbl : list (bytes * (N * N * N))) : option (N * N * N) :=
  match tbl with
  | [] => None
  | (n, row) :: r => if beqb n name then Some row else lookup_host name r
  end.
Definition check_import (ver : N) (types : list functype) (i : import) : option verdict :=
  if beqb (imp_module i) c45_env_module then
    match lookup_host (imp_name i) c45_host_imports with
    | Some (np, res, minv) =>
        if ver <? minv then Some VProtocolVersionMismatch
        else match imp_kind i with
             | IKFunc ti =>
                 if function_type_matches types ti (host_sig np res) then None
                 else Some VInvalidFunctionType
             | _ => Some VImportNotAllowed
             end
    | None => Some VImportNotAllowed
    end
  else Some VImportNotAllowed.
Definition check_imports (ver : N) (s : summary) : option verdict :=
  first_err (check_import ver (s_types s)) (s_imports s).

Definition check_export_names (s : summary) : option verdict :=
  match s_exports s with
  | None => None
  | Some es => if forallb exp_ident_ok es then None else Some VInvalidExportName
  end.

Definition is_memory_export (e : export) : bool :=
  match exp_kind e with EKMemory => beqb (exp_name e) c45_export_memory | _ => false end.
(* returns the declared maximum after injection, or the error *)
Definition check_memory (cfg : config) (s : summary) : verdict + N :=
  match s_memories s with
  | None => inl VMissingMemorySection
  | Some [] => inl VNoMemoryDefinition
  | Some [m] =>
      let lim := max_memory_size_in_pages cfg in
      if lim <? lim_initial m then inl VMemorySizeLimitExceeded
      else
        let after_max :=
          match lim_max m with
          | Some mx => if lim <? mx then inl VMemorySizeLimitExceeded else inr mx
          | None => inr lim          (* memory.maximum = Some(max_memory_size_in_pages) injected *)
          end in
        match after_max with
        | inl e => inl e
        | inr mx =>
            if existsb is_memory_export (match s_exports s with Some es => es | None => [] end)
            then inr mx else inl VMemoryNotExported
        end
  | Some _ => inl VTooManyMemoryDefinition
  end.

Definition check_table (cfg : config) (s : summary) : option verdict :=
  match s_tables s with
  | None => None
  | Some ts =>
      if (1 <? N.of_nat (length ts)) then Some VMoreThanOneTable
      else match ts with
           | t :: _ => if max_initial_table_size cfg <? lim_initial t
                       then Some VInitialTableSizeLimitExceeded else None
           | [] => None
           end
  end.

Definition check_br_tables (cfg : config) (s : summary) : option verdict :=
  first_err (fun b => first_err (fun n => if max_number_of_br_table_targets cfg <? n
                                          then Some VTooManyTargetsInBrTable else None)
                                (b_br_tables b))
            (s_bodies s).

(* the parameter check AS WRITTEN: `for func_idx in 0..num_local_functions()` indexes
   function_map — whose first entries are the *imported* functions — with the local index *)
Definition check_param_at (cfg : config) (s : summary) (func_idx : N) : option verdict :=
  match nth_N (function_map s) func_idx with
  | None => Some VModuleInfoError
  | Some ti =>
      match nth_N (s_types s) ti with
      | None => Some VModuleInfoError
      | Some ft =>
          if max_number_of_function_params cfg <? N.of_nat (length (ft_params ft))
          then Some VTooManyFunctionParams else None
      end
  end.
(* locals of one body: checked u32 sum of the group counts, then the limit *)
Fixpoint sum_locals_checked (acc : N) (groups : list N) : option N :=
  match groups with
  | [] => Some acc
  | c :: r => let a := acc + c in if U32_MAX <? a then None else sum_locals_checked a r
  end.
Definition check_locals (cfg : config) (b : body) : option verdict :=
  match sum_locals_checked 0 (b_locals b) with
  | None => Some VOverflow
  | Some n => if max_number_of_function_locals cfg <? n then Some VTooManyFunctionLocals else None
  end.
Definition check_functions (cfg : config) (s : summary) : option verdict :=
  if max_number_of_functions cfg <? num_local_functions s then Some VTooManyFunctions
  else match first_err (check_param_at cfg s)
                       (map N.of_nat (seq 0 (length (s_funcs s)))) with
       | Some e => Some e
       | None => first_err (check_locals cfg) (s_bodies s)
       end.

Definition check_globals (cfg : config) (s : summary) : option verdict :=
  if max_number_of_globals cfg <? s_globals s then Some VTooManyGlobals else None.

Definition i64_to_i64 : functype := mkFT [VI64] [VI64].
Definition export_provides (s : summary) (name : bytes) (e : export) : bool :=
  beqb (exp_name e) name &&
  match exp_kind e with
  | EKFunc => function_matches s (exp_index e) i64_to_i64
  | _ => false
  end.
(* `required` = the export names of all blueprint definitions (schema.exports()), in order *)
Definition check_export_constraints (s : summary) (required : list bytes) : option verdict :=
  match s_exports s with
  | None => Some VNoExportSection
  | Some es =>
      first_err (fun name => if existsb (export_provides s name) es then None
                             else Some VMissingExport) required
  end.

(* ---------------------------------------------------------------------------------------------- *)
(* ScryptoV1WasmValidator::validate up to (excluding) the instrumentation steps                    *)
(* ---------------------------------------------------------------------------------------------- *)
Definition orelse (a : option verdict) (k : verdict) : verdict :=
  match a with Some e => e | None => k end.

Definition validate (cfg : config) (ver : N) (s : summary) (required : list bytes) : verdict :=
  orelse (check_init s) (
  orelse (check_no_start s) (
  orelse (check_imports ver s) (
  orelse (check_export_names s) (
  match check_memory cfg s with
  | inl e => e
  | inr mx =>
  orelse (check_table cfg s) (
  orelse (check_br_tables cfg s) (
  orelse (check_functions cfg s) (
  orelse (check_globals cfg s) (
  orelse (check_export_constraints s required) (
  VPassed mx)))))
  end)))).

Definition accepted (v : verdict) : bool := match v with VPassed _ => true | _ => false end.
