(* C14/C15 — executable model of the DatabaseUpdates types
   (radix-substate-store-interface/src/interface.rs) and of InMemorySubstateDatabase
   (radix-substate-store-impls/src/memory_db.rs).  Model only, no proofs.

   Modelled as written:
     DbPartitionKey { node_key: Vec<u8>, partition_num: u8 }  with derived Ord = (node_key, then num)
     DatabaseUpdates / NodeDatabaseUpdates / PartitionDatabaseUpdates::{Delta, Reset} / DatabaseUpdate
     InMemorySubstateDatabase::{standard, get_raw_substate_by_db_key, list_raw_values_from_db_key,
                                commit, list_partition_keys}
   Abstractions:
     - BTreeMap<K, V> = association list sorted by K (RV.Lib.SortedMap): `lookup` = get,
       `insert`, `remove`, iteration = the list; the derived Ord of Vec<u8>/DbSortKey is `blt`;
     - IndexMap<K, V> (the update types) = association list in insertion order; the code only
       iterates them in order, so the list is the whole behaviour; the IndexMap invariant "keys are
       unique" is the predicate `updates_wf` (needed by the theorems only at the partition level);
     - `partitions.entry(pk).or_default()` followed by in-place mutation and the final
       `if partition.is_empty() { remove }` is `insert pk p' db` / `remove pk db` on the new value p';
     - iterators are modelled by the list of all items they yield. *)
From Coq Require Import List Arith NArith Bool.
Import ListNotations.
Require Import RV.Lib.Bytes RV.Lib.SortedMap.
Open Scope N_scope.

Definition pkey := (bytes * N)%type.                 (* DbPartitionKey *)
Definition pk_ltb (a b : pkey) : bool :=
  blt (fst a) (fst b) || (beqb (fst a) (fst b) && (snd a <? snd b)).
Definition pk_eqb (a b : pkey) : bool := beqb (fst a) (fst b) && (snd a =? snd b).

Definition pmap := list (bytes * bytes).             (* BTreeMap<DbSortKey, DbSubstateValue> *)
Definition memdb := list (pkey * pmap).              (* BTreeMap<DbPartitionKey, BTreeMap<..>> *)

Inductive db_update := USet (v : bytes) | UDelete.   (* DatabaseUpdate *)
Inductive part_updates :=                            (* PartitionDatabaseUpdates *)
| PDelta (l : list (bytes * db_update))
| PReset (l : list (bytes * bytes)).
Definition node_updates := list (N * part_updates).  (* NodeDatabaseUpdates.partition_updates *)
Definition db_updates := list (bytes * node_updates). (* DatabaseUpdates.node_updates *)

(* IndexMap invariant actually needed: partition numbers unique inside one node entry *)
Definition updates_wf (u : db_updates) : Prop :=
  Forall (fun e : bytes * node_updates => NoDup (map fst (snd e))) u.

(* for (sort_key, update) in substate_updates { match update { Set(v) => insert, Delete => remove } } *)
Definition apply_delta (l : list (bytes * db_update)) (p : pmap) : pmap :=
  fold_left (fun p e => match snd e with
                        | USet v => insert blt (fst e) v p
                        | UDelete => remove blt (fst e) p
                        end) l p.
Definition apply_part (pu : part_updates) (p : pmap) : pmap :=
  match pu with
  | PDelta l => apply_delta l p
  | PReset l => of_list blt l                        (* BTreeMap::from_iter *)
  end.

Definition mem_new : memdb := [].

Definition mem_get (db : memdb) (pk : pkey) (sk : bytes) : option bytes :=
  match lookup pk_ltb pk db with
  | Some p => lookup blt sk p
  | None => None
  end.

(* .skip_while(|(key, _)| Some(key) < from)  on the sorted partition; `None` skips nothing.
   (range_from k = skip the leading entries with key < k) *)
Definition from_cursor {V} (from : option bytes) (p : list (bytes * V)) : list (bytes * V) :=
  match from with
  | Some f => range_from blt f p
  | None => p
  end.
Definition mem_list (db : memdb) (pk : pkey) (from : option bytes) : list (bytes * bytes) :=
  match lookup pk_ltb pk db with
  | Some p => from_cursor from p
  | None => []
  end.

Definition mem_commit_part (db : memdb) (pk : pkey) (pu : part_updates) : memdb :=
  let p := match lookup pk_ltb pk db with Some p => p | None => [] end in
  let p' := apply_part pu p in
  match p' with
  | [] => remove pk_ltb pk db
  | _ => insert pk_ltb pk p' db
  end.
Definition mem_commit_node (db : memdb) (nk : bytes) (nu : node_updates) : memdb :=
  fold_left (fun db e => mem_commit_part db (nk, fst e) (snd e)) nu db.
Definition mem_commit (db : memdb) (u : db_updates) : memdb :=
  fold_left (fun db e => mem_commit_node db (fst e) (snd e)) u db.

Definition mem_list_partition_keys (db : memdb) : list pkey := map fst db.

(* the specification used by C14 and C15: the database after a history of commits *)
Definition apply_commits (base : memdb) (cs : list db_updates) : memdb := fold_left mem_commit cs base.

(* representation invariant of InMemorySubstateDatabase: sorted at both levels, no empty partition *)
Definition db_wf (db : memdb) : Prop :=
  sorted pk_ltb db /\ Forall (fun e : pkey * pmap => sorted blt (snd e) /\ snd e <> []) db.
Definition db_wfb (db : memdb) : bool :=
  sortedb pk_ltb db && forallb (fun e : pkey * pmap => sortedb blt (snd e) && negb (match snd e with [] => true | _ => false end)) db.
