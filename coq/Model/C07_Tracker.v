(* C07 — executable model of the replay-protection ring ("transaction tracker").
   Model only: no proofs here.

   Code modelled (as written):
     radix-engine/src/blueprints/transaction_tracker/package.rs
        TransactionTrackerSubstateV1::{partition_for_expiry_epoch, advance}
     radix-engine/src/system/system_callback.rs
        validate_epoch_range, validate_intent_hash_uncosted (boot), update_transaction_tracker (commit)
     radix-engine/src/transaction/transaction_receipt.rs   Nullification::of_intent
     radix-transactions/src/validation  validate_header_v1 / validate_intent_header_v2 (epoch part)
        and AcrossIntentAggregation::update_headers (overall epoch range of a V2 transaction)
   Abstractions:
     - an intent hash is a number (only equality is used: the substate key is the SBOR encoding of
       the 32-byte hash);
     - the tracker's partitions 65..255 of the TRANSACTION_TRACKER node are one association list of
       records (partition, hash, status); `set_substate` replaces, `delete_partition` filters;
     - what the transaction does between boot and commit is an input (`exec_outcome`): it succeeds,
       fails after the loan was repaid (committed failure) or is rejected/aborted (nothing written);
     - u8/u64 arithmetic: every overflow/underflow (overflow checks ON), the two `assert!`s of
       partition_for_expiry_epoch and the two `expect`s are explicit panics. *)
From Coq Require Import List NArith Bool.
Import ListNotations.
Open Scope N_scope.

Definition U64_MAX : N := 18446744073709551615.
Definition U8_MAX : N := 255.

(* ---- TransactionTrackerSubstateV1 ------------------------------------------------------------ *)
Record tracker := mkTracker {
  start_epoch : N;          (* u64 *)
  start_partition : N;      (* u8 *)
  p_lo : N;                 (* partition_range_start_inclusive : u8 *)
  p_hi : N;                 (* partition_range_end_inclusive : u8 *)
  epp : N                   (* epochs_per_partition : u64 *)
}.

Inductive pres := PSome (p : N) | PNone | PPanic.

Definition partition_for (t : tracker) (epoch : N) : pres :=
  (* let num_partitions = end - start + 1;   (u8 arithmetic) *)
  if p_hi t <? p_lo t then PPanic else
  let num := p_hi t - p_lo t + 1 in
  if U8_MAX <? num then PPanic else
  (* let max_epoch_exclusive = start_epoch + num as u64 * epochs_per_partition; *)
  let prod := num * epp t in
  if U64_MAX <? prod then PPanic else
  let maxe := start_epoch t + prod in
  if U64_MAX <? maxe then PPanic else
  if (epoch <? start_epoch t) || (maxe <=? epoch) then PNone else
  (* division by zero cannot be reached (epp = 0 gives maxe = start_epoch), kept as written *)
  if epp t =? 0 then PPanic else
  let pn := start_partition t + (epoch - start_epoch t) / epp t in
  if U64_MAX <? pn then PPanic else
  let pn := if p_hi t <? pn then pn - num else pn in
  if pn <? p_lo t then PPanic else          (* assert!(partition_number >= range_start) *)
  if p_hi t <? pn then PPanic else          (* assert!(partition_number <= range_end) *)
  PSome pn.

(* advance: None = arithmetic overflow panic; Some (tracker', discarded partition) *)
Definition advance (t : tracker) : option (tracker * N) :=
  let se := start_epoch t + epp t in
  if U64_MAX <? se then None else
  if start_partition t =? p_hi t then
    Some (mkTracker se (p_lo t) (p_lo t) (p_hi t) (epp t), start_partition t)
  else if U8_MAX <? start_partition t + 1 then None
  else Some (mkTracker se (start_partition t + 1) (p_lo t) (p_hi t) (epp t), start_partition t).

(* ---- the store of intent statuses -------------------------------------------------------------- *)
Inductive status := CommittedSuccess | CommittedFailure | Cancelled.
Definition record := (N * N * status)%type.       (* partition, hash, status *)

Definition key_eqb (p h : N) (r : record) : bool := (fst (fst r) =? p) && (snd (fst r) =? h).
Definition lookup (s : list record) (p h : N) : option status :=
  match find (key_eqb p h) s with Some r => Some (snd r) | None => None end.
Definition write (s : list record) (p h : N) (st : status) : list record :=
  (p, h, st) :: filter (fun r => negb (key_eqb p h r)) s.
Definition delete_partition (s : list record) (p : N) : list record :=
  filter (fun r => negb (fst (fst r) =? p)) s.

Record state := mkState { cur : N; trk : tracker; store : list record }.

(* ---- transactions ------------------------------------------------------------------------------ *)
Inductive kind := KTx | KSub.
Record nullif := mkNull { n_kind : kind; n_hash : N; n_expiry : N }.
(* an executable: overall epoch range + the intent hash nullifications in order (root first) *)
Record submit := mkSubmit { s_start : N; s_end : N; s_nulls : list nullif }.

Inductive exec_outcome := ExSuccess | ExFailure | ExReject.

Inductive reject :=
| NotYetValid | NoLongerValid
| PrevCommitted (k : kind) (h : N) | PrevCancelled (k : kind) (h : N)
| ExecRejected.
Inductive result := RCommit (success : bool) | RReject (r : reject) | RPanic | REpochOverflow.

Definition validate_epoch_range (c s e : N) : option reject :=
  if c <? s then Some NotYetValid
  else if e <=? c then Some NoLongerValid
  else None.

Inductive chk := ChkOk | ChkReject (r : reject) | ChkPanic.

Definition validate_intent_hash (st : state) (n : nullif) : chk :=
  match partition_for (trk st) (n_expiry n) with
  | PSome p =>
      match lookup (store st) p (n_hash n) with
      | Some Cancelled => ChkReject (PrevCancelled (n_kind n) (n_hash n))
      | Some _ => ChkReject (PrevCommitted (n_kind n) (n_hash n))
      | None => ChkOk
      end
  | _ => ChkPanic      (* .expect("Transaction tracker should cover all valid epoch ranges") *)
  end.

Fixpoint validate_nulls (st : state) (ns : list nullif) : chk :=
  match ns with
  | [] => ChkOk
  | n :: ns' => match validate_intent_hash st n with
                | ChkOk => validate_nulls st ns'
                | r => r
                end
  end.

(* Nullification::of_intent: subintents are not recorded when the transaction fails *)
Definition recorded (is_success : bool) (n : nullif) : bool :=
  match n_kind n with KTx => true | KSub => is_success end.

(* the write loop of update_transaction_tracker; None = the `expect` panics *)
Fixpoint write_nulls (t : tracker) (s : list record) (is_success : bool) (ns : list nullif)
  : option (list record) :=
  match ns with
  | [] => Some s
  | n :: ns' =>
      if recorded is_success n then
        match partition_for t (n_expiry n) with
        | PSome p => write_nulls t (write s p (n_hash n)
                        (if is_success then CommittedSuccess else CommittedFailure)) is_success ns'
        | _ => None
        end
      else write_nulls t s is_success ns'
  end.

(* update_transaction_tracker(track, next_epoch, nullifications, is_success) *)
Definition update_tracker (st : state) (next_epoch : N) (ns : list nullif) (is_success : bool)
  : option state :=
  match write_nulls (trk st) (store st) is_success ns with
  | None => None
  | Some s1 =>
      (* start_epoch + epochs_per_partition is u64 arithmetic *)
      if U64_MAX <? start_epoch (trk st) + epp (trk st) then None else
      if start_epoch (trk st) + epp (trk st) <=? next_epoch then
        match advance (trk st) with
        | None => None
        | Some (t', discarded) => Some (mkState next_epoch t' (delete_partition s1 discarded))
        end
      else Some (mkState next_epoch (trk st) s1)
  end.

Inductive step :=
| Submit (sub : submit) (oc : exec_outcome)    (* a user transaction *)
| NextEpoch                                   (* a round update that changes the epoch *)
| SystemCommit.                               (* any other committed transaction without intents *)

Definition do_step (st : state) (x : step) : result * state :=
  match x with
  | Submit sub oc =>
      match validate_epoch_range (cur st) (s_start sub) (s_end sub) with
      | Some r => (RReject r, st)
      | None =>
          match validate_nulls st (s_nulls sub) with
          | ChkPanic => (RPanic, st)
          | ChkReject r => (RReject r, st)
          | ChkOk =>
              match oc with
              | ExReject => (RReject ExecRejected, st)
              | _ =>
                  let ok := match oc with ExSuccess => true | _ => false end in
                  match update_tracker st (cur st) (s_nulls sub) ok with
                  | None => (RPanic, st)
                  | Some st' => (RCommit ok, st')
                  end
              end
          end
      end
  | NextEpoch =>
      if U64_MAX <=? cur st then (REpochOverflow, st)    (* Epoch::next() = None: runtime error *)
      else match update_tracker st (cur st + 1) [] true with
           | None => (RPanic, st)
           | Some st' => (RCommit true, st')
           end
  | SystemCommit =>
      match update_tracker st (cur st) [] true with
      | None => (RPanic, st)
      | Some st' => (RCommit true, st')
      end
  end.

Fixpoint run (st : state) (xs : list step) : list result * state :=
  match xs with
  | [] => ([], st)
  | x :: xs' => let '(r, st') := do_step st x in
                let '(rs, st'') := run st' xs' in (r :: rs, st'')
  end.
Definition exec (st : state) (xs : list step) : state := snd (run st xs).

(* ---- static validation of epoch windows (radix-transactions) ------------------------------------ *)
(* validate_header_v1 / validate_intent_header_v2, epoch part: true = accepted *)
Definition header_ok (max_range s e : N) : bool :=
  if e <=? s then false
  else if U64_MAX <? s + max_range then false     (* Epoch::after = checked_add -> None *)
  else negb (s + max_range <? e).

(* an intent as signed: kind, hash, start_epoch_inclusive, end_epoch_exclusive *)
Record intent := mkIntent { i_kind : kind; i_hash : N; i_start : N; i_end : N }.

(* per intent: header check, then AcrossIntentAggregation::update_headers; None = validation error *)
Fixpoint aggregate (max_range : N) (is : list intent) (rs re : N) : option (N * N) :=
  match is with
  | [] => Some (rs, re)
  | i :: is' =>
      if header_ok max_range (i_start i) (i_end i) then
        let rs' := if rs <? i_start i then i_start i else rs in
        let re' := if i_end i <? re then i_end i else re in
        if re' <=? rs' then None else aggregate max_range is' rs' re'
      else None
  end.

(* ValidatedNotarizedTransaction::create_executable: overall range + one nullification per intent,
   expiry = that intent's end_epoch_exclusive *)
Definition to_submit (max_range : N) (is : list intent) : option submit :=
  match aggregate max_range is 0 U64_MAX with
  | Some (rs, re) => Some (mkSubmit rs re (map (fun i => mkNull (i_kind i) (i_hash i) (i_end i)) is))
  | None => None
  end.

(* the tracker TransactionTrackerBlueprint::create builds *)
Definition tracker_new (lo hi e current_epoch : N) : tracker := mkTracker current_epoch lo lo hi e.
