(* C33 — executable model of radix-transactions/src/validation/signature_validator.rs
   (AllPendingSignatureValidations::{new_with_root, add_non_root, validate_all, validate_signatures},
   SignedIntentTreeStructure::construct_pending_signature_validations) and of the way
   validate_notarized_v1 / validate_transaction_tree_v2 call them.  No proofs in this file.

   Hashes, public keys, signatures-with-public-key (SignatureWithPublicKeyV1) and bare signatures
   (SignatureV1) are opaque identifiers (N).  The cryptographic primitives are Section variables:
     recover h s  = verify_and_recover(&h, &s)         : Option<PublicKey>
     verify h k s = verify(&h, &k, &s)                 : bool
   usize counters are N: every count is the length of an in-memory slice and the total is a sum of
   at most 1 + #subintents such lengths plus 1, so the usize additions cannot overflow.
   The validations that run between construct_pending_signature_validations and validate_all
   (header, message, manifest, subintent structure: properties C34/C35/C36) are outside this model;
   the model describes the result for transactions that pass them. *)
From Coq Require Import List NArith Bool.
Import ListNotations.
Open Scope N_scope.

Inductive version := V1 | V2.

(* the three fields of TransactionValidationConfig read by the signature validator *)
Record config := mkConfig {
  max_signer_signatures_per_intent : N;
  max_total_signature_validations : N;
  v1_transactions_allow_notary_to_duplicate_signer : bool }.

(* TransactionValidationConfig::allow_notary_to_duplicate_signer *)
Definition allow_notary_to_duplicate_signer (c : config) (v : version) : bool :=
  match v with
  | V1 => v1_transactions_allow_notary_to_duplicate_signer c
  | V2 => false
  end.

(* PendingIntentSignatureValidations *)
Inductive pending :=
| TransactionIntent (notary_is_signatory : bool) (notary_public_key : N) (notary_signature : N)
                    (notarized_hash : N) (intent_signatures : list N) (signed_hash : N)
| PreviewTransactionIntent (notary_is_signatory : bool) (notary_public_key : N)
                    (intent_public_keys : list N)
| Subintent (intent_signatures : list N) (signed_hash : N)
| PreviewSubintent (intent_public_keys : list N).

(* PendingSubintentSignatureValidations and for_subintent *)
Inductive batch :=
| BatchSignatures (intent_signatures : list N)
| BatchPublicKeys (intent_public_keys : list N).
Definition for_subintent (b : batch) (signed_hash : N) : pending :=
  match b with
  | BatchSignatures sigs => Subintent sigs signed_hash
  | BatchPublicKeys keys => PreviewSubintent keys
  end.

Inductive intent_hash := IHTransaction (h : N) | IHSubintent (h : N).

(* TransactionValidationErrorLocation (Unlocatable is never produced here) *)
Inductive location :=
| RootTransactionIntent (h : N)
| RootSubintent (h : N)
| NonRootSubintent (index : N) (h : N)
| AcrossTransaction.
Definition for_root (ih : intent_hash) : location :=
  match ih with IHTransaction h => RootTransactionIntent h | IHSubintent h => RootSubintent h end.

(* SignatureValidationError (SerializationError is never produced here) *)
Inductive sigerr :=
| TooManySignatures (total limit : N)
| InvalidIntentSignature
| InvalidNotarySignature
| DuplicateSigner
| NotaryIsSignatorySoShouldNotAlsoBeASigner
| IncorrectNumberOfSubintentSignatureBatches.

(* Result<SignatureValidationSummary, TransactionValidationError::SignatureValidationError(loc, err)> *)
Inductive result :=
| Accepted (root_signer_keys : list N) (non_root_signer_keys : list (list N))
           (total_signature_validations : N)
| Rejected (l : location) (e : sigerr).

Definition len {A} (l : list A) : N := N.of_nat (length l).

(* PendingIntentSignatureValidations::intent_signature_validations / notary_signature_validations *)
Definition intent_signature_validations (p : pending) : N :=
  match p with
  | TransactionIntent _ _ _ _ sigs _ => len sigs
  | PreviewTransactionIntent _ _ keys => len keys
  | Subintent sigs _ => len sigs
  | PreviewSubintent keys => len keys
  end.
Definition notary_signature_validations (p : pending) : N :=
  match p with
  | TransactionIntent _ _ _ _ _ _ | PreviewTransactionIntent _ _ _ => 1
  | Subintent _ _ | PreviewSubintent _ => 0
  end.

(* IndexSet<PublicKey>: insertion ordered, insert returns false (and changes nothing) on a duplicate *)
Definition mem (k : N) (s : list N) : bool := existsb (N.eqb k) s.
Definition insert (k : N) (s : list N) : bool * list N :=
  if mem k s then (false, s) else (true, s ++ [k]).

(* AllPendingSignatureValidations *)
Record all_pending := mkAP {
  ap_version : version;
  ap_config : config;
  ap_root : pending * location;
  ap_non_roots : list (pending * location);
  ap_total : N }.

Definition new_with_root (v : version) (c : config) (root_intent_hash : intent_hash)
    (signatures : pending) : (location * sigerr) + all_pending :=
  let n := intent_signature_validations signatures in
  let error_location := for_root root_intent_hash in
  if max_signer_signatures_per_intent c <? n
  then inl (error_location, TooManySignatures n (max_signer_signatures_per_intent c))
  else inr (mkAP v c (signatures, error_location) [] (n + notary_signature_validations signatures)).

Definition add_non_root (ap : all_pending) (subintent_index : N) (subintent_hash : N)
    (signatures : pending) : (location * sigerr) + all_pending :=
  let n := intent_signature_validations signatures in
  let error_location := NonRootSubintent subintent_index subintent_hash in
  if max_signer_signatures_per_intent (ap_config ap) <? n
  then inl (error_location,
            TooManySignatures n (max_signer_signatures_per_intent (ap_config ap)))
  else inr (mkAP (ap_version ap) (ap_config ap) (ap_root ap)
                 (ap_non_roots ap ++ [(signatures, error_location)]) (ap_total ap + n)).

(* the `for (index, (subintent, signatures)) in subintents.zip(batches).enumerate()` loop *)
Fixpoint add_all (ap : all_pending) (index : N) (l : list (N * batch))
    : (location * sigerr) + all_pending :=
  match l with
  | [] => inr ap
  | (h, b) :: l' =>
      match add_non_root ap index h (for_subintent b h) with
      | inl e => inl e
      | inr ap' => add_all ap' (index + 1) l'
      end
  end.

(* SignedIntentTreeStructure::construct_pending_signature_validations
   subintents = hashes of intent_tree().non_root_subintents(), batches = non_root_subintent_signatures() *)
Definition construct_pending (v : version) (c : config) (root_intent_hash : intent_hash)
    (root : pending) (subintents : list N) (batches : list batch)
    : (location * sigerr) + all_pending :=
  match new_with_root v c root_intent_hash root with
  | inl e => inl e
  | inr ap =>
      if negb (len subintents =? len batches)
      then inl (AcrossTransaction, IncorrectNumberOfSubintentSignatureBatches)
      else add_all ap 0 (combine subintents batches)
  end.

Section Primitives.
  Variable recover : N -> N -> option N.     (* verify_and_recover(hash, signature_with_public_key) *)
  Variable verify : N -> N -> N -> bool.     (* verify(hash, public_key, signature) *)

  (* `for signature in intent_signatures { recover or InvalidIntentSignature; insert or DuplicateSigner }` *)
  Fixpoint recover_into (h : N) (sigs : list N) (acc : list N) : sigerr + list N :=
    match sigs with
    | [] => inr acc
    | s :: rest =>
        match recover h s with
        | None => inl InvalidIntentSignature
        | Some k =>
            let (fresh, acc') := insert k acc in
            if negb fresh then inl DuplicateSigner else recover_into h rest acc'
        end
    end.

  (* `for key in intent_public_keys { insert or DuplicateSigner }` *)
  Fixpoint keys_into (keys : list N) (acc : list N) : sigerr + list N :=
    match keys with
    | [] => inr acc
    | k :: rest =>
        let (fresh, acc') := insert k acc in
        if negb fresh then inl DuplicateSigner else keys_into rest acc'
    end.

  (* `if notary_is_signatory && !keys.insert(notary_public_key) && !config.allow_...(version) { Err }` *)
  Definition add_notary (c : config) (v : version) (notary_is_signatory : bool)
      (notary_public_key : N) (ks : list N) : sigerr + list N :=
    if notary_is_signatory then
      let (fresh, ks') := insert notary_public_key ks in
      if negb fresh && negb (allow_notary_to_duplicate_signer c v)
      then inl NotaryIsSignatorySoShouldNotAlsoBeASigner
      else inr ks'
    else inr ks.

  (* AllPendingSignatureValidations::validate_signatures *)
  Definition validate_signatures (p : pending) (c : config) (v : version) : sigerr + list N :=
    match p with
    | TransactionIntent nis npk nsig notarized_hash sigs signed_hash =>
        match recover_into signed_hash sigs [] with
        | inl e => inl e
        | inr ks =>
            if negb (verify notarized_hash npk nsig) then inl InvalidNotarySignature
            else add_notary c v nis npk ks
        end
    | PreviewTransactionIntent nis npk keys =>
        match keys_into keys [] with
        | inl e => inl e
        | inr ks => add_notary c v nis npk ks
        end
    | Subintent sigs signed_hash => recover_into signed_hash sigs []
    | PreviewSubintent keys => keys_into keys []
    end.

  (* `.into_iter().map(validate_signatures(..).map_err(located)).collect::<Result<_, _>>()` *)
  Fixpoint validate_non_roots (c : config) (v : version) (l : list (pending * location))
      : (location * sigerr) + list (list N) :=
    match l with
    | [] => inr []
    | (p, loc) :: l' =>
        match validate_signatures p c v with
        | inl e => inl (loc, e)
        | inr ks =>
            match validate_non_roots c v l' with
            | inl e => inl e
            | inr kss => inr (ks :: kss)
            end
        end
    end.

  (* AllPendingSignatureValidations::validate_all *)
  Definition validate_all (ap : all_pending) : result :=
    let c := ap_config ap in
    if max_total_signature_validations c <? ap_total ap
    then Rejected AcrossTransaction
                  (TooManySignatures (ap_total ap) (max_total_signature_validations c))
    else
      match validate_signatures (fst (ap_root ap)) c (ap_version ap) with
      | inl e => Rejected (snd (ap_root ap)) e
      | inr root_keys =>
          match validate_non_roots c (ap_version ap) (ap_non_roots ap) with
          | inl (loc, e) => Rejected loc e
          | inr non_root_keys => Accepted root_keys non_root_keys (ap_total ap)
          end
      end.

  (* validate_transaction_tree_v2 (all three SignedIntentTreeStructure impls), signature part *)
  Definition validate_tree (c : config) (v : version) (root_intent_hash : intent_hash)
      (root : pending) (subintents : list N) (batches : list batch) : result :=
    match construct_pending v c root_intent_hash root subintents batches with
    | inl (loc, e) => Rejected loc e
    | inr ap => validate_all ap
    end.

  (* validate_notarized_v1, signature part: new_with_root(V1, ..) then validate_all *)
  Definition validate_v1 (c : config) (transaction_intent_hash : N) (root : pending) : result :=
    match new_with_root V1 c (IHTransaction transaction_intent_hash) root with
    | inl (loc, e) => Rejected loc e
    | inr ap => validate_all ap
    end.
End Primitives.
