(* C17 — the SPECIFICATION: sparse-Merkle commitment of a finite map, bit by bit, and the three-tier
   commitment of a substate database.  Independent of the tree algorithm (Model/C17_Jmt.v).
   NO PROOFS HERE.

     smt {}            = 32 zero bytes                       (SPARSE_MERKLE_PLACEHOLDER_HASH)
     smt {k |-> v}     = H (key bytes ++ v)                  (LeafNode::leaf_hash)
     smt S (|S| >= 2)  = H (smt S_0 ++ smt S_1)              S_b = entries whose next key bit is b

   A map is an association list with distinct keys; keys are nibble lists (two per key byte, high
   nibble first), a nibble is four bits, most significant first.  `lh k v` is the leaf hash of the
   entry whose already consumed key bits followed by `k` form its key; descending by bit b replaces
   it by `fun k => lh (b :: k)`. *)
From Coq Require Import List NArith Bool.
Import ListNotations.
Require Import RV.Model.C17_Jmt.
Open Scope N_scope.

Definition bits4 (n : N) : list bool :=
  [N.testbit n 3; N.testbit n 2; N.testbit n 1; N.testbit n 0].
Definition bits_of_nibbles (l : list N) : list bool := flat_map bits4 l.
Definition nib_of_bits (b3 b2 b1 b0 : bool) : N :=
  (if b3 then 8 else 0) + (if b2 then 4 else 0) + (if b1 then 2 else 0) + (if b0 then 1 else 0).
Fixpoint nibbles_of_bits (l : list bool) : list N :=
  match l with
  | b3 :: b2 :: b1 :: b0 :: r => nib_of_bits b3 b2 b1 b0 :: nibbles_of_bits r
  | _ => []
  end.

(* entries whose first remaining key bit is b, that bit removed *)
Definition sel {V} (b : bool) (S : list (list bool * V)) : list (list bool * V) :=
  flat_map (fun kv => match fst kv with
                      | c :: r => if Bool.eqb c b then [(r, snd kv)] else []
                      | [] => []
                      end) S.

Section SMT.
  Variable H : list N -> list N.

  Fixpoint smt (fuel : nat) (lh : list bool -> list N -> list N) (S : list (list bool * list N))
    : list N :=
    match S with
    | [] => ZERO_HASH
    | [(k, v)] => lh k v
    | _ =>
      match fuel with
      | O => ZERO_HASH
      | S f => H (smt f (fun k => lh (false :: k)) (sel false S) ++
                  smt f (fun k => lh (true :: k)) (sel true S))
      end
    end.

  (* leaf hash at the root: H (key bytes ++ value hash) *)
  Definition lhb_root : list bool -> list N -> list N :=
    fun k v => H (pack (nibbles_of_bits k) ++ v).

  (* commitment of a map from nibble-list keys to 32-byte values; n = any bound on the key lengths
     (in nibbles): the recursion consumes one bit per step and a prefix-free map of keys shorter
     than n is exhausted after 4 n steps (theorem C17_smt_bound_irrelevant) *)
  Definition smt_root (n : nat) (S : list (list N * list N)) : list N :=
    smt (4 * n) lhb_root (map (fun kv => (bits_of_nibbles (fst kv), snd kv)) S).

  (* ---- substate database: entity key -> partition key -> sort key -> value ---- *)
  Definition pmap := list (list N * list N).                 (* sort key -> value *)
  Definition emap := list (list N * pmap).                   (* partition key -> partition *)
  Definition dbmap := list (list N * emap).                  (* entity key -> entity *)

  Definition partition_root (n : nat) (p : pmap) : list N :=
    smt_root n (map (fun kv => (fst kv, H (snd kv))) p).
  Definition entity_root (n : nat) (e : emap) : list N :=
    smt_root n (map (fun kp => (fst kp, partition_root n (snd kp))) e).
  Definition db_root (n : nat) (d : dbmap) : list N :=
    smt_root n (map (fun ke => (fst ke, entity_root n (snd ke))) d).
End SMT.

(* ---- what a commit means on the database (DatabaseUpdates semantics) ---- *)
Section ASSOC.
  Context {V : Type}.
  Fixpoint a_get (k : list N) (l : list (list N * V)) : option V :=
    match l with
    | [] => None
    | (k', v) :: r => if leqb k k' then Some v else a_get k r
    end.
  Definition a_remove (k : list N) (l : list (list N * V)) : list (list N * V) :=
    filter (fun e => negb (leqb k (fst e))) l.
  Definition a_set (k : list N) (v : V) (l : list (list N * V)) : list (list N * V) :=
    (k, v) :: a_remove k l.
End ASSOC.

Definition apply_pupdate (p : pmap) (u : pupdate) : pmap :=
  match u with
  | Delta l => fold_left (fun acc ku => match snd ku with
                                        | Some v => a_set (fst ku) v acc
                                        | None => a_remove (fst ku) acc end) l p
  | Reset l => fold_left (fun acc kv => a_set (fst kv) (snd kv) acc) l []
  end.

(* empty partitions / entities are absent *)
Definition apply_eupdate (e : emap) (pus : list (list N * pupdate)) : emap :=
  fold_left (fun acc pu =>
               let p := match a_get (fst pu) acc with Some p => p | None => [] end in
               match apply_pupdate p (snd pu) with
               | [] => a_remove (fst pu) acc
               | p' => a_set (fst pu) p' acc
               end) pus e.

Definition apply_commit (d : dbmap) (u : db_updates) : dbmap :=
  fold_left (fun acc eu =>
               let e := match a_get (fst eu) acc with Some e => e | None => [] end in
               match apply_eupdate e (snd eu) with
               | [] => a_remove (fst eu) acc
               | e' => a_set (fst eu) e' acc
               end) u d.

Definition apply_commits (d : dbmap) (us : list db_updates) : dbmap := fold_left apply_commit us d.
