(* C03 / C04 — executable model of the resource bookkeeping of the engine (no proofs here).

   Code modelled (as written):
   * radix-engine-interface/src/blueprints/resource/resource.rs
       LiquidFungibleResource::{put (checked_add + expect = PANIC on overflow), take_by_amount
       (balance < amount -> InsufficientBalance; checked_sub -> DecimalOverflow)},
       LiquidNonFungibleResource::{put (IndexSet::extend = set union), take_by_ids (swap_remove per id,
       MissingNonFungibleLocalId)}
   * radix-engine/src/blueprints/resource/fungible/fungible_resource_manager.rs
       check_mint_amount (check_fungible_amount: non-negative multiple of 10^(18-div); <= 2^152),
       mint (bucket + event + TotalSupply checked_add iff TrackTotalSupply), burn_internal (drop
       bucket + event + TotalSupply checked_sub), create_with_initial_supply, drop_empty_bucket,
       create_empty_bucket, create_empty_vault
   * .../non_fungible/non_fungible_resource_manager.rs  mint_non_fungible (update_total_supply
       first, then per id: data entry must not exist), burn_internal (supply, event, tombstones)
   * .../fungible/fungible_vault.rs take / put / recall / lock_fee (XRD only), internal_take/put
   * .../non_fungible/non_fungible_vault.rs internal_take_non_fungibles (amount -= |ids| without
       a prior comparison, then every id must be in the index), internal_take_by_amount (amount
       compared first, drains the first n index entries), internal_put (amount += |ids|, index
       insert = overwrite)
   * .../fungible_bucket.rs / non_fungible_bucket.rs take / put
   * radix-engine/src/system/system_callback.rs finalize_fees_for_commit (royalty deposits, fee
       payments in reverse lock order, refunds, the three assert!s, validator-reward deposit, burn
       event for the burnt share — the XRD TotalSupply field is NOT touched there).

   Amounts are attos (Z); a Decimal is an I192: [-2^191, 2^191-1].  Non-fungible amounts are
   |ids| * 10^18 as in the code (Decimal::from(len)).  Node ids of new vaults / buckets are
   supplied by the caller and checked fresh (the kernel's id allocator is the subject of C01).
   Proof locking (liquid <-> locked inside one container) is C10's subject and not modelled;
   authorisation / freeze flags / role checks only make operations fail earlier. *)
From Coq Require Import List ZArith NArith Bool.
Import ListNotations.
Open Scope Z_scope.

(* ---------- association lists keyed by N (first occurrence wins) ---------- *)
Fixpoint aget {V} (k : N) (l : list (N * V)) : option V :=
  match l with
  | [] => None
  | (k', v) :: t => if N.eqb k k' then Some v else aget k t
  end.
Fixpoint aset {V} (k : N) (v : V) (l : list (N * V)) : list (N * V) :=
  match l with
  | [] => [(k, v)]
  | (k', v') :: t => if N.eqb k k' then (k, v) :: t else (k', v') :: aset k v t
  end.
Fixpoint adel {V} (k : N) (l : list (N * V)) : list (N * V) :=
  match l with
  | [] => []
  | (k', v') :: t => if N.eqb k k' then t else (k', v') :: adel k t
  end.

(* ---------- outcomes ---------- *)
Inductive err :=
| EInsufficient      (* ResourceError::InsufficientBalance / LockFeeInsufficientBalance *)
| EInvalidAmount     (* check_fungible_amount failed (negative or finer than the divisibility) *)
| EMaxMint           (* MaxMintAmountExceeded *)
| EOverflow          (* DecimalOverflow / UnexpectedDecimalComputationError *)
| ENotFound          (* no such node *)
| ENodeExists        (* the caller-supplied node id is not fresh *)
| EWrongResource     (* bucket of another resource / wrong resource kind *)
| EDropNonEmpty
| EExists            (* NonFungibleAlreadyExists *)
| ETombstone         (* writing a locked (burnt) non-fungible data entry *)
| EMissingId         (* MissingId / MissingNonFungibleLocalId *)
| ENotEnoughAmount   (* NonFungibleVaultError::NotEnoughAmount *)
| ENotXrd.           (* LockFeeNotRadixToken *)

Inductive res (A : Type) := Ok (a : A) | Err (e : err) | Panic.
Arguments Ok {A} a. Arguments Err {A} e. Arguments Panic {A}.
Definition bind {A B} (x : res A) (f : A -> res B) : res B :=
  match x with Ok a => f a | Err e => Err e | Panic => Panic end.
Notation "'do' x <- a ; b" := (bind a (fun x => b)) (at level 200, x name, a at level 100, b at level 200).
Notation "'do' ' p <- a ; b" := (bind a (fun x => match x with p => b end)) (at level 200, p pattern, a at level 100, b at level 200).

(* ---------- constants ---------- *)
Definition DEC_MAX : Z := 2 ^ 191 - 1.
Definition DEC_MIN : Z := - 2 ^ 191.
Definition in_dec (x : Z) : bool := (DEC_MIN <=? x) && (x <=? DEC_MAX).
Definition MAX_MINT : Z := 2 ^ 152.
Definition ONE : Z := 10 ^ 18.
Definition XRD : N := 0%N.   (* the resource id the harness gives to XRD *)

Definition cnt (ids : list N) : Z := Z.of_nat (length ids) * ONE.

(* check_fungible_amount *)
Definition check_amount (a div : Z) : bool := (0 <=? a) && (a mod (10 ^ (18 - div)) =? 0).
(* checked_add / checked_sub on Decimal *)
Definition cadd (a b : Z) : option Z := if in_dec (a + b) then Some (a + b) else None.
Definition csub (a b : Z) : option Z := if in_dec (a - b) then Some (a - b) else None.

(* ---------- state ---------- *)
Record rinfo := mkR { r_nf : bool; r_div : Z; r_supply : option Z }.

Record state := mkS {
  s_res  : list (N * rinfo);
  s_fv   : list (N * (N * Z));              (* fungible vault -> (resource, liquid balance) *)
  s_nv   : list (N * (N * (Z * list N)));   (* non-fungible vault -> (resource, (amount field, id index)) *)
  s_fb   : list (N * (N * Z));              (* fungible buckets in flight *)
  s_nb   : list (N * (N * list N));         (* non-fungible buckets in flight *)
  s_data : list (N * N * bool);             (* non-fungible data entries: true = live, false = tombstone *)
  s_fees : list (N * Z * bool)              (* fee reserve: (vault, locked amount, contingent), lock order *)
}.

Definition empty : state := mkS [] [] [] [] [] [] [].

Definition set_res  s x := mkS x (s_fv s) (s_nv s) (s_fb s) (s_nb s) (s_data s) (s_fees s).
Definition set_fv   s x := mkS (s_res s) x (s_nv s) (s_fb s) (s_nb s) (s_data s) (s_fees s).
Definition set_nv   s x := mkS (s_res s) (s_fv s) x (s_fb s) (s_nb s) (s_data s) (s_fees s).
Definition set_fb   s x := mkS (s_res s) (s_fv s) (s_nv s) x (s_nb s) (s_data s) (s_fees s).
Definition set_nb   s x := mkS (s_res s) (s_fv s) (s_nv s) (s_fb s) x (s_data s) (s_fees s).
Definition set_data s x := mkS (s_res s) (s_fv s) (s_nv s) (s_fb s) (s_nb s) x (s_fees s).
Definition set_fees s x := mkS (s_res s) (s_fv s) (s_nv s) (s_fb s) (s_nb s) (s_data s) x.

(* ---------- events ---------- *)
Inductive event :=
| EvMintF (r : N) (a : Z) | EvBurnF (r : N) (a : Z)
| EvMintN (r : N) (ids : list N) | EvBurnN (r : N) (ids : list N)
| EvWithdraw (v : N) (a : Z) | EvDeposit (v : N) (a : Z) | EvRecall (v : N) (a : Z)
| EvWithdrawN (v : N) (ids : list N) | EvDepositN (v : N) (ids : list N) | EvRecallN (v : N) (ids : list N)
| EvLockFee (v : N) (a : Z) | EvPayFee (v : N) (a : Z)
| EvVaultCreate (r v : N).

(* ---------- LiquidFungibleResource ---------- *)
(* take_by_amount on the container [k] of the map [l] *)
Definition f_take (l : list (N * (N * Z))) (k : N) (a : Z) : res (list (N * (N * Z)) * N) :=
  match aget k l with
  | None => Err ENotFound
  | Some (r, bal) =>
      if bal <? a then Err EInsufficient
      else match csub bal a with
           | None => Err EOverflow
           | Some nb => Ok (aset k (r, nb) l, r)
           end
  end.
(* put: checked_add(..).expect("Overflow") *)
Definition f_put (l : list (N * (N * Z))) (k : N) (r : N) (a : Z) : res (list (N * (N * Z))) :=
  match aget k l with
  | None => Err ENotFound
  | Some (r', bal) =>
      if negb (N.eqb r r') then Err EWrongResource
      else match cadd bal a with
           | None => Panic
           | Some nb => Ok (aset k (r', nb) l)
           end
  end.

(* ---------- LiquidNonFungibleResource ---------- *)
Fixpoint mem (x : N) (l : list N) : bool :=
  match l with [] => false | y :: t => N.eqb x y || mem x t end.
Fixpoint remove1 (x : N) (l : list N) : list N :=
  match l with [] => [] | y :: t => if N.eqb x y then t else y :: remove1 x t end.
(* take_by_ids / index removal: every id must be present *)
Fixpoint take_ids (have ids : list N) : option (list N) :=
  match ids with
  | [] => Some have
  | x :: t => if mem x have then take_ids (remove1 x have) t else None
  end.
(* IndexSet::extend / index insert: set union, existing entries are silently kept *)
Fixpoint put_ids (have ids : list N) : list N :=
  match ids with
  | [] => have
  | x :: t => put_ids (if mem x have then have else have ++ [x]) t
  end.

(* ---------- non-fungible data store ---------- *)
Fixpoint dget (r i : N) (d : list (N * N * bool)) : option bool :=
  match d with
  | [] => None
  | (r', i', b) :: t => if N.eqb r r' && N.eqb i i' then Some b else dget r i t
  end.
Fixpoint dset (r i : N) (b : bool) (d : list (N * N * bool)) : list (N * N * bool) :=
  match d with
  | [] => [(r, i, b)]
  | (r', i', b') :: t => if N.eqb r r' && N.eqb i i' then (r, i, b) :: t else (r', i', b') :: dset r i b t
  end.
(* create_non_fungibles with check_non_existence = true *)
Fixpoint data_mint (r : N) (ids : list N) (d : list (N * N * bool)) : res (list (N * N * bool)) :=
  match ids with
  | [] => Ok d
  | i :: t =>
      match dget r i d with
      | Some true => Err EExists
      | Some false => Err ETombstone
      | None => data_mint r t (dset r i true d)
      end
  end.
Fixpoint data_burn (r : N) (ids : list N) (d : list (N * N * bool)) : list (N * N * bool) :=
  match ids with
  | [] => d
  | i :: t => data_burn r t (dset r i false d)
  end.

(* ---------- total supply ---------- *)
(* update of the TotalSupply field by [delta] iff the resource tracks its supply *)
Definition supply_add (s : state) (r : N) (delta : Z) : res state :=
  match aget r (s_res s) with
  | None => Err ENotFound
  | Some ri =>
      match r_supply ri with
      | None => Ok s
      | Some t =>
          match cadd t delta with
          | None => Err EOverflow
          | Some t' => Ok (set_res s (aset r (mkR (r_nf ri) (r_div ri) (Some t')) (s_res s)))
          end
      end
  end.

Definition fresh {V} (k : N) (l : list (N * V)) : bool := match aget k l with None => true | Some _ => false end.

Definition check_mint_amount (a div : Z) : res unit :=
  if negb (check_amount a div) then Err EInvalidAmount
  else if MAX_MINT <? a then Err EMaxMint else Ok tt.

(* ---------- operations ---------- *)
Record fee_params := mkFee {
  fp_success : bool;
  fp_total_cost : Z;                 (* fee_reserve_finalization.total_cost() *)
  fp_royalties : list (N * Z);       (* royalty_cost_breakdown: (vault, amount) *)
  fp_total_royalty : Z;              (* total_royalty_cost_in_xrd *)
  fp_to_rewards : Z;                 (* to_proposer + to_validator_set *)
  fp_to_burn : Z;
  fp_rewards_vault : N;
  fp_free_credit : Z
}.

Inductive op :=
| OCreateF (r : N) (div : Z) (track : bool) (initial : option (Z * N))   (* initial supply, bucket id *)
| OCreateN (r : N) (track : bool) (initial : option (list N * N))
| OMintF (r : N) (a : Z) (b : N)
| OMintN (r : N) (ids : list N) (b : N)
| OBurn (b : N)
| OCreateVault (r v : N)
| OCreateBucket (r b : N)
| ODropEmpty (b : N)
| OVaultTake (v : N) (a : Z) (b : N)            (* fungible vault take(amount, Exact) *)
| OVaultTakeN (v : N) (n : Z) (b : N)           (* non-fungible vault take by amount: first n index entries *)
| OVaultTakeIds (v : N) (ids : list N) (b : N)
| OVaultPut (v b : N)
| OVaultRecall (v : N) (a : Z) (b : N)
| OVaultRecallIds (v : N) (ids : list N) (b : N)
| OBucketTake (b : N) (a : Z) (b' : N)
| OBucketTakeIds (b : N) (ids : list N) (b' : N)
| OBucketPut (b b' : N)                          (* put b' into b *)
| OLockFee (v : N) (a : Z) (contingent : bool)
| OPayFee (p : fee_params).

Definition all_fresh (s : state) (k : N) : bool :=
  fresh k (s_fv s) && fresh k (s_nv s) && fresh k (s_fb s) && fresh k (s_nb s).

(* fee payments: locked_fees.iter().rev(); returns refunded vault map, PayFee events, collected, required *)
Fixpoint pay_fees (success : bool) (fees : list (N * Z * bool)) (fv : list (N * (N * Z))) (required collected : Z)
  : res (list (N * (N * Z)) * list event * Z * Z) :=
  match fees with
  | [] => Ok (fv, [], required, collected)
  | (v, locked, contingent) :: t =>
      let amount := if contingent then (if success then Z.min locked required else 0) else Z.min locked required in
      (* locked.take_by_amount(amount).unwrap() *)
      if locked <? amount then Panic else
      match csub locked amount, cadd collected amount, csub required amount with
      | Some rest, Some collected', Some required' =>
          do fv' <- f_put fv v XRD rest;
          do '(fv'', evs, rq, col) <- pay_fees success t fv' required' collected';
          Ok (fv'', EvPayFee v amount :: evs, rq, col)
      | _, _, _ => Panic
      end
  end.

Fixpoint pay_royalties (rs : list (N * Z)) (fv : list (N * (N * Z))) : res (list (N * (N * Z)) * list event) :=
  match rs with
  | [] => Ok (fv, [])
  | (v, a) :: t =>
      do fv' <- f_put fv v XRD a;
      do '(fv'', evs) <- pay_royalties t fv';
      Ok (fv'', EvDeposit v a :: evs)
  end.

Definition finalize_fees (p : fee_params) (s : state) : res (state * list event) :=
  do '(fv1, ev1) <- pay_royalties (fp_royalties p) (s_fv s);
  do '(fv2, ev2, required, collected) <- pay_fees (fp_success p) (rev (s_fees s)) fv1 (fp_total_cost p) 0;
  (* free credit is used last *)
  let fc := if 0 <? fp_free_credit p then Z.min (fp_free_credit p) required else 0 in
  match cadd collected fc, csub required fc with
  | Some collected, Some required =>
      (* assert!(required == 0) *)
      if negb (required =? 0) then Panic else
      match csub collected (fp_total_royalty p), cadd (fp_to_rewards p) (fp_to_burn p) with
      | Some remaining, Some to_distribute =>
          if negb (remaining =? to_distribute) then Panic else
          do '(fv3, ev3) <-
             (if negb (fp_to_rewards p =? 0) then
                (* collected_fees.take_by_amount(total_amount).unwrap() *)
                if collected <? fp_to_rewards p then Panic else
                do fv3 <- f_put fv2 (fp_rewards_vault p) XRD (fp_to_rewards p);
                Ok (fv3, [EvDeposit (fp_rewards_vault p) (fp_to_rewards p)])
              else Ok (fv2, []));
          let ev4 := if 0 <? fp_to_burn p then [EvBurnF XRD (fp_to_burn p)] else [] in
          Ok (set_fees (set_fv s fv3) [], ev1 ++ ev2 ++ ev3 ++ ev4)
      | _, _ => Panic
      end
  | _, _ => Panic
  end.

Definition step (s : state) (o : op) : res (state * list event) :=
  match o with
  | OCreateF r div track initial =>
      if negb (fresh r (s_res s)) then Err ENodeExists else
      (* verify_divisibility *)
      if negb ((0 <=? div) && (div <=? 18)) then Err EInvalidAmount else
      match initial with
      | None => Ok (set_res s ((r, mkR false div (if track then Some 0 else None)) :: s_res s), [])
      | Some (a, b) =>
          if negb (all_fresh s b) then Err ENodeExists else
          do _ <- check_mint_amount a div;
          let s1 := set_res s ((r, mkR false div (if track then Some a else None)) :: s_res s) in
          Ok (set_fb s1 ((b, (r, a)) :: s_fb s1), [EvMintF r a])
      end
  | OCreateN r track initial =>
      if negb (fresh r (s_res s)) then Err ENodeExists else
      match initial with
      | None => Ok (set_res s ((r, mkR true 0 (if track then Some 0 else None)) :: s_res s), [])
      | Some (ids, b) =>
          if negb (all_fresh s b) then Err ENodeExists else
          do d <- data_mint r ids (s_data s);
          let s1 := set_res s ((r, mkR true 0 (if track then Some (cnt ids) else None)) :: s_res s) in
          Ok (set_nb (set_data s1 d) ((b, (r, ids)) :: s_nb s1), [EvMintN r ids])
      end
  | OMintF r a b =>
      match aget r (s_res s) with
      | None => Err ENotFound
      | Some ri =>
          if r_nf ri then Err EWrongResource else
          if negb (all_fresh s b) then Err ENodeExists else
          do _ <- check_mint_amount a (r_div ri);
          let s1 := set_fb s ((b, (r, a)) :: s_fb s) in
          do s2 <- supply_add s1 r a;
          Ok (s2, [EvMintF r a])
      end
  | OMintN r ids b =>
      match aget r (s_res s) with
      | None => Err ENotFound
      | Some ri =>
          if negb (r_nf ri) then Err EWrongResource else
          if negb (all_fresh s b) then Err ENodeExists else
          do s1 <- supply_add s r (cnt ids);
          do d <- data_mint r ids (s_data s1);
          Ok (set_nb (set_data s1 d) ((b, (r, ids)) :: s_nb s1), [EvMintN r ids])
      end
  | OBurn b =>
      match aget b (s_fb s), aget b (s_nb s) with
      | Some (r, a), _ =>
          let s1 := set_fb s (adel b (s_fb s)) in
          do s2 <- supply_add s1 r (- a);
          Ok (s2, [EvBurnF r a])
      | None, Some (r, ids) =>
          let s1 := set_nb s (adel b (s_nb s)) in
          do s2 <- supply_add s1 r (- cnt ids);
          Ok (set_data s2 (data_burn r ids (s_data s2)), [EvBurnN r ids])
      | None, None => Err ENotFound
      end
  | OCreateVault r v =>
      match aget r (s_res s) with
      | None => Err ENotFound
      | Some ri =>
          if negb (all_fresh s v) then Err ENodeExists else
          if r_nf ri then Ok (set_nv s ((v, (r, (0, []))) :: s_nv s), [EvVaultCreate r v])
          else Ok (set_fv s ((v, (r, 0)) :: s_fv s), [EvVaultCreate r v])
      end
  | OCreateBucket r b =>
      match aget r (s_res s) with
      | None => Err ENotFound
      | Some ri =>
          if negb (all_fresh s b) then Err ENodeExists else
          if r_nf ri then Ok (set_nb s ((b, (r, [])) :: s_nb s), [])
          else Ok (set_fb s ((b, (r, 0)) :: s_fb s), [])
      end
  | ODropEmpty b =>
      match aget b (s_fb s), aget b (s_nb s) with
      | Some (r, a), _ => if a =? 0 then Ok (set_fb s (adel b (s_fb s)), []) else Err EDropNonEmpty
      | None, Some (r, ids) =>
          match ids with [] => Ok (set_nb s (adel b (s_nb s)), []) | _ => Err EDropNonEmpty end
      | None, None => Err ENotFound
      end
  | OVaultTake v a b =>
      match aget v (s_fv s) with
      | None => Err ENotFound
      | Some (r, _) =>
          match aget r (s_res s) with
          | None => Err ENotFound
          | Some ri =>
              if negb (check_amount a (r_div ri)) then Err EInvalidAmount else
              if negb (all_fresh s b) then Err ENodeExists else
              do '(fv, _) <- f_take (s_fv s) v a;
              Ok (set_fb (set_fv s fv) ((b, (r, a)) :: s_fb s), [EvWithdraw v a])
          end
      end
  | OVaultRecall v a b =>
      match aget v (s_fv s) with
      | None => Err ENotFound
      | Some (r, _) =>
          match aget r (s_res s) with
          | None => Err ENotFound
          | Some ri =>
              if negb (check_amount a (r_div ri)) then Err EInvalidAmount else
              if negb (all_fresh s b) then Err ENodeExists else
              do '(fv, _) <- f_take (s_fv s) v a;
              Ok (set_fb (set_fv s fv) ((b, (r, a)) :: s_fb s), [EvRecall v a])
          end
      end
  | OVaultTakeN v n b =>
      match aget v (s_nv s) with
      | None => Err ENotFound
      | Some (r, (amt, ids)) =>
          if negb (all_fresh s b) then Err ENodeExists else
          if (n <? 0) then Err EInvalidAmount else
          if amt <? n * ONE then Err ENotEnoughAmount else
          match csub amt (n * ONE) with
          | None => Err EOverflow
          | Some amt' =>
              let taken := firstn (Z.to_nat n) ids in
              let rest := skipn (Z.to_nat n) ids in
              Ok (set_nb (set_nv s (aset v (r, (amt', rest)) (s_nv s))) ((b, (r, taken)) :: s_nb s), [EvWithdrawN v taken])
          end
      end
  | OVaultTakeIds v ids b =>
      match aget v (s_nv s) with
      | None => Err ENotFound
      | Some (r, (amt, have)) =>
          if negb (all_fresh s b) then Err ENodeExists else
          match csub amt (cnt ids) with
          | None => Err EOverflow
          | Some amt' =>
              match take_ids have ids with
              | None => Err EMissingId
              | Some rest =>
                  Ok (set_nb (set_nv s (aset v (r, (amt', rest)) (s_nv s))) ((b, (r, ids)) :: s_nb s), [EvWithdrawN v ids])
              end
          end
      end
  | OVaultRecallIds v ids b =>
      match aget v (s_nv s) with
      | None => Err ENotFound
      | Some (r, (amt, have)) =>
          if negb (all_fresh s b) then Err ENodeExists else
          match csub amt (cnt ids) with
          | None => Err EOverflow
          | Some amt' =>
              match take_ids have ids with
              | None => Err EMissingId
              | Some rest =>
                  Ok (set_nb (set_nv s (aset v (r, (amt', rest)) (s_nv s))) ((b, (r, ids)) :: s_nb s), [EvRecallN v ids])
              end
          end
      end
  | OVaultPut v b =>
      match aget b (s_fb s), aget b (s_nb s) with
      | Some (r, a), _ =>
          (* drop_fungible_bucket, then internal_put (skipped when the bucket is empty) *)
          match aget v (s_fv s) with
          | None => Err ENotFound
          | Some (r', _) =>
              if negb (N.eqb r r') then Err EWrongResource else
              let s1 := set_fb s (adel b (s_fb s)) in
              if a =? 0 then Ok (s1, [EvDeposit v a]) else
              do fv <- f_put (s_fv s1) v r a;
              Ok (set_fv s1 fv, [EvDeposit v a])
          end
      | None, Some (r, ids) =>
          match aget v (s_nv s) with
          | None => Err ENotFound
          | Some (r', (amt, have)) =>
              if negb (N.eqb r r') then Err EWrongResource else
              let s1 := set_nb s (adel b (s_nb s)) in
              match ids with
              | [] => Ok (s1, [EvDepositN v ids])
              | _ =>
                  match cadd amt (cnt ids) with
                  | None => Err EOverflow
                  | Some amt' => Ok (set_nv s1 (aset v (r', (amt', put_ids have ids)) (s_nv s1)), [EvDepositN v ids])
                  end
              end
          end
      | None, None => Err ENotFound
      end
  | OBucketTake b a b' =>
      match aget b (s_fb s) with
      | None => Err ENotFound
      | Some (r, _) =>
          match aget r (s_res s) with
          | None => Err ENotFound
          | Some ri =>
              if negb (check_amount a (r_div ri)) then Err EInvalidAmount else
              if negb (all_fresh s b') then Err ENodeExists else
              do '(fb, _) <- f_take (s_fb s) b a;
              Ok (set_fb s ((b', (r, a)) :: fb), [])
          end
      end
  | OBucketTakeIds b ids b' =>
      match aget b (s_nb s) with
      | None => Err ENotFound
      | Some (r, have) =>
          if negb (all_fresh s b') then Err ENodeExists else
          match take_ids have ids with
          | None => Err EMissingId
          | Some rest => Ok (set_nb s ((b', (r, ids)) :: aset b (r, rest) (s_nb s)), [])
          end
      end
  | OBucketPut b b' =>
      if N.eqb b b' then Err ENotFound else
      match aget b' (s_fb s), aget b' (s_nb s) with
      | Some (r, a), _ =>
          let fb1 := adel b' (s_fb s) in
          do fb <- f_put fb1 b r a;
          Ok (set_fb s fb, [])
      | None, Some (r, ids) =>
          let nb1 := adel b' (s_nb s) in
          match aget b nb1 with
          | None => Err ENotFound
          | Some (r', have) =>
              if negb (N.eqb r r') then Err EWrongResource else
              Ok (set_nb s (aset b (r', put_ids have ids) nb1), [])
          end
      | None, None => Err ENotFound
      end
  | OLockFee v a contingent =>
      match aget v (s_fv s) with
      | None => Err ENotFound
      | Some (r, _) =>
          if negb (N.eqb r XRD) then Err ENotXrd else
          match aget r (s_res s) with
          | None => Err ENotFound
          | Some ri =>
              if negb (check_amount a (r_div ri)) then Err EInvalidAmount else
              do '(fv, _) <- f_take (s_fv s) v a;
              Ok (set_fees (set_fv s fv) (s_fees s ++ [(v, a, contingent)]), [EvLockFee v a])
          end
      end
  | OPayFee p => finalize_fees p s
  end.

Fixpoint run (s : state) (ops : list op) : res (state * list event) :=
  match ops with
  | [] => Ok (s, [])
  | o :: t =>
      do '(s1, e1) <- step s o;
      do '(s2, e2) <- run s1 t;
      Ok (s2, e1 ++ e2)
  end.

(* a transaction boundary: nothing in flight, fee reserve settled *)
Definition at_rest (s : state) : bool :=
  match s_fb s, s_nb s, s_fees s with [], [], [] => true | _, _, _ => false end.

(* ---------- observables ---------- *)
Fixpoint fsum (r : N) (l : list (N * (N * Z))) : Z :=
  match l with
  | [] => 0
  | (_, (r', x)) :: t => (if N.eqb r r' then x else 0) + fsum r t
  end.
Fixpoint nsum (r : N) (l : list (N * (N * (Z * list N)))) : Z :=
  match l with
  | [] => 0
  | (_, (r', (a, _))) :: t => (if N.eqb r r' then a else 0) + nsum r t
  end.
Fixpoint vids (r : N) (l : list (N * (N * (Z * list N)))) : list N :=
  match l with
  | [] => []
  | (_, (r', (_, ids))) :: t => (if N.eqb r r' then ids else []) ++ vids r t
  end.
Fixpoint bids (r : N) (l : list (N * (N * list N))) : list N :=
  match l with
  | [] => []
  | (_, (r', ids)) :: t => (if N.eqb r r' then ids else []) ++ bids r t
  end.
Fixpoint fees_sum (l : list (N * Z * bool)) : Z :=
  match l with [] => 0 | (_, a, _) :: t => a + fees_sum t end.

(* everything of resource r that exists: vaults + buckets in flight + (XRD) locked fees *)
Definition total (r : N) (s : state) : Z :=
  fsum r (s_fv s) + fsum r (s_fb s) + nsum r (s_nv s) + cnt (bids r (s_nb s))
  + (if N.eqb r XRD then fees_sum (s_fees s) else 0).
Definition vault_sum (r : N) (s : state) : Z := fsum r (s_fv s) + nsum r (s_nv s).
Definition all_ids (r : N) (s : state) : list N := vids r (s_nv s) ++ bids r (s_nb s).
Definition supply_of (r : N) (s : state) : option Z :=
  match aget r (s_res s) with Some ri => r_supply ri | None => None end.

Fixpoint minted (r : N) (evs : list event) : Z :=
  match evs with
  | [] => 0
  | EvMintF r' a :: t => (if N.eqb r r' then a else 0) + minted r t
  | EvMintN r' ids :: t => (if N.eqb r r' then cnt ids else 0) + minted r t
  | _ :: t => minted r t
  end.
Fixpoint burned (r : N) (evs : list event) : Z :=
  match evs with
  | [] => 0
  | EvBurnF r' a :: t => (if N.eqb r r' then a else 0) + burned r t
  | EvBurnN r' ids :: t => (if N.eqb r r' then cnt ids else 0) + burned r t
  | _ :: t => burned r t
  end.
Fixpoint minted_ids (r : N) (evs : list event) : list N :=
  match evs with
  | [] => []
  | EvMintN r' ids :: t => (if N.eqb r r' then ids else []) ++ minted_ids r t
  | _ :: t => minted_ids r t
  end.
Fixpoint burned_ids (r : N) (evs : list event) : list N :=
  match evs with
  | [] => []
  | EvBurnN r' ids :: t => (if N.eqb r r' then ids else []) ++ burned_ids r t
  | _ :: t => burned_ids r t
  end.

(* ---------- event replay (what an observer of the event stream reconstructs) ---------- *)
(* per vault: running balance; per resource: minted - burned.  LockFee is not a movement: the
   locked amount is either paid (PayFee) or refunded.  Same rules as the harness oracle. *)
Record replay_st := mkRp { rp_vault : list (N * Z); rp_supply : list (N * Z); rp_vids : list (N * list N) }.
Definition rp_empty := mkRp [] [] [].
Definition zget (k : N) (l : list (N * Z)) : Z := match aget k l with Some x => x | None => 0 end.
Definition lget (k : N) (l : list (N * list N)) : list N := match aget k l with Some x => x | None => [] end.
Definition rp_add_v (st : replay_st) (v : N) (d : Z) := mkRp (aset v (zget v (rp_vault st) + d) (rp_vault st)) (rp_supply st) (rp_vids st).
Definition rp_add_s (st : replay_st) (r : N) (d : Z) := mkRp (rp_vault st) (aset r (zget r (rp_supply st) + d) (rp_supply st)) (rp_vids st).
Definition rp_set_ids (st : replay_st) (v : N) (ids : list N) := mkRp (rp_vault st) (rp_supply st) (aset v ids (rp_vids st)).
Fixpoint remove_all (have ids : list N) : list N :=
  match ids with [] => have | x :: t => remove_all (remove1 x have) t end.
Definition replay1 (st : replay_st) (e : event) : replay_st :=
  match e with
  | EvMintF r a => rp_add_s st r a
  | EvBurnF r a => rp_add_s st r (- a)
  | EvMintN r ids => rp_add_s st r (cnt ids)
  | EvBurnN r ids => rp_add_s st r (- cnt ids)
  | EvDeposit v a => rp_add_v st v a
  | EvWithdraw v a | EvRecall v a | EvPayFee v a => rp_add_v st v (- a)
  | EvDepositN v ids => rp_set_ids (rp_add_v st v (cnt ids)) v (lget v (rp_vids st) ++ ids)
  | EvWithdrawN v ids | EvRecallN v ids => rp_set_ids (rp_add_v st v (- cnt ids)) v (remove_all (lget v (rp_vids st)) ids)
  | EvLockFee _ _ => st
  | EvVaultCreate _ _ => st
  end.
Definition replay (st : replay_st) (evs : list event) : replay_st := fold_left replay1 evs st.
