(* C22 — executable model of payload validation against a schema, at the level of SBOR values:
   `validates s t v` = the acceptance condition that the typed traverser
   (sbor/src/traversal/typed/typed_traverser.rs: map_container_start_event / map_terminal_value_event /
   value_kind_matches_type_kind) and the payload validator (sbor/src/payload_validation/
   payload_validator.rs: validate_container / validate_terminal_value / validate_terminal_value_batch,
   radix-common/src/data/scrypto/{custom_extension,custom_validation}.rs) impose on the value tree
   `v` (Model/C20_Sbor.v `value`) at type id `t` of schema `s`; and the declarative typing
   relation `HasType`.  The event-level state machine itself is Model/C22_Typed.v.
   Model only, no proofs.  Scrypto custom extension with the `()` validation context.
   Schemas may be cyclic; `validates` recurses on the (finite) value.                            *)
From Coq Require Import List NArith ZArith Bool.
Import ListNotations.
Require Import RV.Model.C20_Sbor RV.Model.C22_Types RV.Gen.C22_wellknown.
Open Scope N_scope.

(* Vec::get(index) with a usize index (structural on the list: indices may be huge) *)
Fixpoint nth_N {A} (l : list A) (i : N) {struct l} : option A :=
  match l with
  | [] => None
  | x :: t => if i =? 0 then Some x else nth_N t (i - 1)
  end.

(* S::resolve_well_known_type: the generated 256-entry lookup *)
Definition wk_lookup (i : N) : option tdata :=
  match find (fun p => fst p =? i) scrypto_well_known with Some p => Some (snd p) | None => None end.
Arguments wk_lookup : simpl never.

Definition any_tid : tid := WK any_type_index.

(* Schema::resolve_type_kind / resolve_type_validation / resolve_type_metadata *)
Definition resolve_kind (s : schema) (t : tid) : option tkind :=
  match t with WK i => option_map td_kind (wk_lookup i) | Loc i => nth_N (s_kinds s) i end.
Definition resolve_val (s : schema) (t : tid) : option tval :=
  match t with WK i => option_map td_val (wk_lookup i) | Loc i => nth_N (s_vals s) i end.
Definition resolve_meta (s : schema) (t : tid) : option tmeta :=
  match t with WK i => option_map td_meta (wk_lookup i) | Loc i => nth_N (s_metas s) i end.

(* ------------------------------------------------------------------------------------------ *)
(* value_kind_matches_type_kind + ScryptoCustomExtension::custom_value_kind_matches_type_kind   *)
Definition custom_matches (c : ckind) (k : tkind) : bool :=
  match c, k with
  | CSReference, TCustom TRef | CSOwn, TCustom TOwn | CSDecimal, TCustom TDec
  | CSPreciseDecimal, TCustom TPDec | CSNonFungibleLocalId, TCustom TNfid => true
  | _, _ => false
  end.
Definition kind_matches (vk : vkind) (k : tkind) : bool :=
  match k with
  | TAny => true
  | _ =>
    match vk with
    | KCustom c => custom_matches c k
    | _ =>
      match k, vk with
      | TBool, KBool | TString, KString | TArray _, KArray | TTuple _, KTuple | TEnum _, KEnum
      | TMap _ _, KMap => true
      | TInt i, KInt j => ikind_eqb i j
      | _, _ => false     (* incl. TCustom vs non-custom value kind: always false for Scrypto *)
      end
    end
  end.

(* ------------------------------------------------------------------------------------------ *)
(* validations                                                                                 *)
Definition opt_default {A} (d : A) (o : option A) : A := match o with Some x => x | None => d end.
Definition U32_MAX : N := 4294967295.
(* LengthValidation::is_valid *)
Definition len_ok (b : lbounds) (n : N) : bool :=
  (opt_default 0 (lb_min b) <=? n) && (n <=? opt_default U32_MAX (lb_max b)).
(* T::MIN_VALUE / T::MAX_VALUE *)
Definition ikind_min (i : ikind) : Z :=
  if ikind_signed i then (- 2 ^ (Z.of_N (8 * ikind_bytes i) - 1))%Z else 0%Z.
Definition ikind_max (i : ikind) : Z :=
  if ikind_signed i then (2 ^ (Z.of_N (8 * ikind_bytes i) - 1) - 1)%Z
  else (2 ^ Z.of_N (8 * ikind_bytes i) - 1)%Z.
Definition eff_min (i : ikind) (b : nbounds) : Z := opt_default (ikind_min i) (nb_min b).
Definition eff_max (i : ikind) (b : nbounds) : Z := opt_default (ikind_max i) (nb_max b).
(* NumericValidation::is_valid *)
Definition num_ok (i : ikind) (b : nbounds) (z : Z) : bool :=
  (eff_min i b <=? z)%Z && (z <=? eff_max i b)%Z.

(* NodeId predicates: functions of the entity byte (generated table) *)
Definition eflag (node : bytes) (bit : N) : bool :=
  match node with
  | [] => false
  | b :: _ => match nth_N entity_flags b with Some m => N.testbit m bit | None => false end
  end.
Definition is_global n := eflag n 0.
Definition is_internal n := eflag n 1.
Definition is_global_package n := eflag n 2.
Definition is_global_component n := eflag n 3.
Definition is_global_resource_manager n := eflag n 4.
Definition is_internal_vault n := eflag n 5.
Definition is_internal_kv_store n := eflag n 6.

(* apply_static_custom_validation_to_custom_value *)
Definition ref_ok (r : refval) (node : bytes) : bool :=
  match r with
  | RIsGlobal | RIsGlobalTyped _ => is_global node
  | RIsGlobalPackage => is_global_package node
  | RIsGlobalComponent => is_global_component node
  | RIsGlobalResourceManager => is_global_resource_manager node
  | RIsInternal | RIsInternalTyped _ => is_internal node
  end.
Definition own_ok (o : ownval) (node : bytes) : bool :=
  match o with
  | OIsBucket | OIsProof => is_internal node
  | OIsVault => is_internal_vault node
  | OIsKeyValueStore => is_internal_kv_store node
  | OIsGlobalAddressReservation | OIsTypedObject _ => true
  end.

(* validate_container, as acceptance on the container value *)
Definition container_val_ok (tv : tval) (v : value) : bool :=
  match tv with
  | VNone => true
  | VArr b => match v with VArray _ es => len_ok b (nlen es) | _ => false end
  | VMapV b => match v with VMap _ _ es => len_ok b (nlen es) | _ => false end
  | _ => false
  end.
(* validate_terminal_value (incl. apply_validation_for_custom_value), as acceptance on a leaf.
   A `u8` element of a byte array is validated by validate_terminal_value_batch (None | U8 bounds
   accepted, everything else SchemaInconsistency): the same acceptance as this function on
   `VInt U8 z`. *)
Definition leaf_val_ok (tv : tval) (v : value) : bool :=
  match v with
  | VCustom c =>
    match tv with
    | VNone => true
    | VCRef r => match c with SReference node => ref_ok r node | _ => false end
    | VCOwn o => match c with SOwn node => own_ok o node | _ => false end
    | _ => false
    end
  | _ =>
    match tv with
    | VNone => true
    | VNum i b => match v with VInt j z => ikind_eqb i j && num_ok i b z | _ => false end
    | VStr b => match v with VString s => len_ok b (nlen s) | _ => false end
    | _ => false
    end
  end.

Definition is_leaf (v : value) : bool :=
  match v with VBool _ | VInt _ _ | VString _ | VCustom _ => true | _ => false end.

(* IndexMap::get on enum variants *)
Definition find_variant (d : N) (vs : list (N * list tid)) : option (list tid) :=
  match find (fun p => fst p =? d) vs with Some p => Some (snd p) | None => None end.

Definition forall2b {A B} (f : A -> B -> bool) : list A -> list B -> bool :=
  fix go (l1 : list A) (l2 : list B) {struct l2} : bool :=
    match l2, l1 with
    | [], [] => true
    | y :: t2, x :: t1 => f x y && go t1 t2
    | _, _ => false
    end.

(* ------------------------------------------------------------------------------------------ *)
Fixpoint validates (s : schema) (t : tid) (v : value) {struct v} : bool :=
  match resolve_kind s t, resolve_val s t with
  | Some k, Some tv =>
    match v with
    | VTuple fs =>
      container_val_ok tv v &&
      match k with
      | TAny => forallb (validates s any_tid) fs
      | TTuple fts => forall2b (fun ft x => validates s ft x) fts fs       (* false unless lengths agree *)
      | _ => false
      end
    | VEnum d fs =>
      container_val_ok tv v &&
      match k with
      | TAny => forallb (validates s any_tid) fs
      | TEnum vs =>
        match find_variant d vs with
        | Some fts => forall2b (fun ft x => validates s ft x) fts fs
        | None => false
        end
      | _ => false
      end
    | VArray ek es =>
      container_val_ok tv v &&
      match k with
      | TAny => forallb (validates s any_tid) es
      | TArray e =>
        match resolve_kind s e with
        | Some ke => kind_matches ek ke && forallb (validates s e) es
        | None => false
        end
      | _ => false
      end
    | VMap kk vk es =>
      container_val_ok tv v &&
      match k with
      | TAny =>
        (fix go (l : list (value * value)) : bool :=
           match l with
           | [] => true
           | (a, b) :: r => validates s any_tid a && validates s any_tid b && go r
           end) es
      | TMap tk tvl =>
        match resolve_kind s tk, resolve_kind s tvl with
        | Some kk', Some vk' =>
          kind_matches kk kk' && kind_matches vk vk' &&
          (fix go (l : list (value * value)) : bool :=
             match l with
             | [] => true
             | (a, b) :: r => validates s tk a && validates s tvl b && go r
             end) es
        | _, _ => false
        end
      | _ => false
      end
    | _ => kind_matches (value_kind v) k && leaf_val_ok tv v
    end
  | _, _ => false
  end.

(* ------------------------------------------------------------------------------------------ *)
(* declarative typing relation                                                                  *)
Definition LenOk (b : lbounds) (n : N) : Prop :=
  opt_default 0 (lb_min b) <= n /\ n <= opt_default U32_MAX (lb_max b).
Definition NumOk (i : ikind) (b : nbounds) (z : Z) : Prop :=
  (eff_min i b <= z)%Z /\ (z <= eff_max i b)%Z.

Inductive ContainerValOk : tval -> value -> Prop :=
| CV_none : forall v, ContainerValOk VNone v
| CV_arr : forall b ek es, LenOk b (nlen es) -> ContainerValOk (VArr b) (VArray ek es)
| CV_map : forall b kk vk es, LenOk b (nlen es) -> ContainerValOk (VMapV b) (VMap kk vk es).

Inductive LeafValOk : tval -> value -> Prop :=
| LV_none : forall v, LeafValOk VNone v
| LV_num : forall i b z, NumOk i b z -> LeafValOk (VNum i b) (VInt i z)
| LV_str : forall b s, LenOk b (nlen s) -> LeafValOk (VStr b) (VString s)
| LV_ref : forall r node, ref_ok r node = true -> LeafValOk (VCRef r) (VCustom (SReference node))
| LV_own : forall o node, own_ok o node = true -> LeafValOk (VCOwn o) (VCustom (SOwn node)).

Inductive HasType (s : schema) : tid -> value -> Prop :=
| HT_leaf : forall t k tv v,
    resolve_kind s t = Some k -> resolve_val s t = Some tv ->
    is_leaf v = true -> kind_matches (value_kind v) k = true -> LeafValOk tv v ->
    HasType s t v
| HT_tuple : forall t tv fts fs,
    resolve_kind s t = Some (TTuple fts) -> resolve_val s t = Some tv ->
    ContainerValOk tv (VTuple fs) -> Forall2 (HasType s) fts fs ->
    HasType s t (VTuple fs)
| HT_tuple_any : forall t tv fs,
    resolve_kind s t = Some TAny -> resolve_val s t = Some tv ->
    ContainerValOk tv (VTuple fs) -> Forall (HasType s any_tid) fs ->
    HasType s t (VTuple fs)
| HT_enum : forall t tv vs d fts fs,
    resolve_kind s t = Some (TEnum vs) -> resolve_val s t = Some tv ->
    ContainerValOk tv (VEnum d fs) -> find_variant d vs = Some fts ->
    Forall2 (HasType s) fts fs ->
    HasType s t (VEnum d fs)
| HT_enum_any : forall t tv d fs,
    resolve_kind s t = Some TAny -> resolve_val s t = Some tv ->
    ContainerValOk tv (VEnum d fs) -> Forall (HasType s any_tid) fs ->
    HasType s t (VEnum d fs)
| HT_array : forall t tv e ke ek es,
    resolve_kind s t = Some (TArray e) -> resolve_val s t = Some tv ->
    ContainerValOk tv (VArray ek es) ->
    resolve_kind s e = Some ke -> kind_matches ek ke = true ->
    Forall (HasType s e) es ->
    HasType s t (VArray ek es)
| HT_array_any : forall t tv ek es,
    resolve_kind s t = Some TAny -> resolve_val s t = Some tv ->
    ContainerValOk tv (VArray ek es) -> Forall (HasType s any_tid) es ->
    HasType s t (VArray ek es)
| HT_map : forall t tv tk tvl kk' vk' kk vk es,
    resolve_kind s t = Some (TMap tk tvl) -> resolve_val s t = Some tv ->
    ContainerValOk tv (VMap kk vk es) ->
    resolve_kind s tk = Some kk' -> resolve_kind s tvl = Some vk' ->
    kind_matches kk kk' = true -> kind_matches vk vk' = true ->
    Forall (fun p => HasType s tk (fst p) /\ HasType s tvl (snd p)) es ->
    HasType s t (VMap kk vk es)
| HT_map_any : forall t tv kk vk es,
    resolve_kind s t = Some TAny -> resolve_val s t = Some tv ->
    ContainerValOk tv (VMap kk vk es) ->
    Forall (fun p => HasType s any_tid (fst p) /\ HasType s any_tid (snd p)) es ->
    HasType s t (VMap kk vk es).

(* ------------------------------------------------------------------------------------------ *)
(* payload level: validate_payload_against_schema as "decode, then validate the value" (the
   streaming implementation is Model/C22_Typed.v; the two are compared case by case in
   Corr/C22_run.v)                                                                              *)
Definition validates_payload (s : schema) (t : tid) (md : N) (payload : bytes) : bool :=
  match decode_payload Scrypto md payload with
  | Ok v => validates s t v
  | _ => false
  end.
