(* C14 — executable model of radix-substate-store-impls/src/substate_database_overlay.rs and of
   radix-rust/src/iterators/overlaying_iterator.rs, over the in-memory root database of
   Model/C14_Store.v.  Model only, no proofs.

   Modelled as written:
     StagingDatabaseUpdates / StagingNodeDatabaseUpdates / StagingPartitionDatabaseUpdates (BTreeMaps)
     the From conversions in both directions (collect into BTreeMap / into IndexMap)
     merge_database_updates (the four (this, other) cases), SubstateDatabaseOverlay::commit
     get_raw_substate_by_db_key, list_raw_values_from_db_key (Reset: range(from..); Delta:
       OverlayingIterator(root listing from the cursor, substate_updates.range(from..)))
     commit_overlay_into_root_store (mem::take + root.commit(overlay.into()))
     OverlayingIterator::next (peek both, Less / Equal / Greater, skip deletes)
   The root store `D` is the in-memory database model (the property quantifies over base contents). *)
From Coq Require Import List Arith NArith Bool.
Import ListNotations.
Require Import RV.Lib.Bytes RV.Lib.SortedMap RV.Model.C14_Store.
Open Scope N_scope.

Inductive staging_part :=
| SDelta (m : list (bytes * db_update))   (* BTreeMap<DbSortKey, DatabaseUpdate> *)
| SReset (m : pmap).                      (* BTreeMap<DbSortKey, DbSubstateValue> *)
Definition staging_node := list (N * staging_part).      (* BTreeMap<DbPartitionNum, ..> *)
Definition staging := list (bytes * staging_node).       (* BTreeMap<DbNodeKey, ..> *)

(* From<PartitionDatabaseUpdates> for StagingPartitionDatabaseUpdates: into_iter().collect() *)
Definition to_staging_part (pu : part_updates) : staging_part :=
  match pu with
  | PDelta l => SDelta (of_list blt l)
  | PReset l => SReset (of_list blt l)
  end.
Definition to_staging_node (nu : node_updates) : staging_node :=
  of_list N.ltb (map (fun e => (fst e, to_staging_part (snd e))) nu).
(* From<Staging..> for ..DatabaseUpdates: BTreeMap::into_iter().collect() — sorted order *)
Definition from_staging_part (sp : staging_part) : part_updates :=
  match sp with SDelta m => PDelta m | SReset m => PReset m end.
Definition from_staging_node (sn : staging_node) : node_updates :=
  map (fun e => (fst e, from_staging_part (snd e))) sn.
Definition from_staging (s : staging) : db_updates :=
  map (fun e => (fst e, from_staging_node (snd e))) s.

(* the match on (this, other) inside merge_database_updates *)
Definition merge_part (this : staging_part) (other : part_updates) : staging_part :=
  match this, other with
  | SDelta m, PDelta l => SDelta (extend blt m l)           (* this.extend(other) *)
  | SReset m, PDelta l => SReset (apply_delta l m)          (* insert / remove one by one *)
  | _, PReset _ => to_staging_part other                    (* *this = other.into() *)
  end.
Definition merge_node (this : staging_node) (other : node_updates) : staging_node :=
  fold_left (fun t e =>
    match lookup N.ltb (fst e) t with
    | Some sp => insert N.ltb (fst e) (merge_part sp (snd e)) t      (* get_mut, updated in place *)
    | None => insert N.ltb (fst e) (to_staging_part (snd e)) t
    end) other this.
Definition merge (this : staging) (other : db_updates) : staging :=
  fold_left (fun t e =>
    match lookup blt (fst e) t with
    | Some sn => insert blt (fst e) (merge_node sn (snd e)) t
    | None => insert blt (fst e) (to_staging_node (snd e)) t
    end) other this.

(* OverlayingIterator: the list of everything `next()` yields.
   u = underlying (K, V) items, o = overlaying (K, Option<V>) items, both in key order. *)
Fixpoint overlaying_iter (u : list (bytes * bytes)) : list (bytes * option bytes) -> list (bytes * bytes) :=
  fix go (o : list (bytes * option bytes)) : list (bytes * bytes) :=
    match o with
    | [] => u                                           (* overlaying exhausted: underlying.next() *)
    | (ko, change) :: o' =>
        let emit rest := match change with Some v => (ko, v) :: rest | None => rest end in
        match u with
        | [] => emit (go o')
        | (ku, vu) :: u' =>
            if blt ku ko then (ku, vu) :: overlaying_iter u' o       (* Less: return underlying *)
            else if blt ko ku then emit (go o')                      (* Greater: leave underlying *)
            else emit (overlaying_iter u' o')                        (* Equal: drop underlying *)
        end
    end.

(* the same iterator at any key / value type (used by list_partition_keys on DbPartitionKey, ()) *)
Fixpoint overlaying_iter_gen {K V : Type} (ltb : K -> K -> bool) (u : list (K * V)) : list (K * option V) -> list (K * V) :=
  fix go (o : list (K * option V)) : list (K * V) :=
    match o with
    | [] => u
    | (ko, change) :: o' =>
        let emit rest := match change with Some v => (ko, v) :: rest | None => rest end in
        match u with
        | [] => emit (go o')
        | (ku, vu) :: u' =>
            if ltb ku ko then (ku, vu) :: overlaying_iter_gen ltb u' o
            else if ltb ko ku then emit (go o')
            else emit (overlaying_iter_gen ltb u' o')
        end
    end.

Definition change_of (u : db_update) : option bytes :=
  match u with USet v => Some v | UDelete => None end.

Record overlay := { ov_staging : staging; ov_root : memdb }.
Definition overlay_new (root : memdb) : overlay := {| ov_staging := []; ov_root := root |}.

Definition ov_commit (o : overlay) (u : db_updates) : overlay :=
  {| ov_staging := merge (ov_staging o) u; ov_root := ov_root o |}.

Definition ov_lookup_part (s : staging) (pk : pkey) : option staging_part :=
  match lookup blt (fst pk) s with
  | Some sn => lookup N.ltb (snd pk) sn
  | None => None
  end.

Definition ov_get (o : overlay) (pk : pkey) (sk : bytes) : option bytes :=
  match ov_lookup_part (ov_staging o) pk with
  | Some (SDelta m) =>
      match lookup blt sk m with
      | Some (USet v) => Some v                 (* Found(Some) *)
      | Some UDelete => None                    (* Found(None) *)
      | None => mem_get (ov_root o) pk sk       (* NotFound *)
      end
  | Some (SReset m) => lookup blt sk m          (* Found(Some) / Found(None) *)
  | None => mem_get (ov_root o) pk sk
  end.

Definition ov_list (o : overlay) (pk : pkey) (from : option bytes) : list (bytes * bytes) :=
  match ov_lookup_part (ov_staging o) pk with
  | Some (SReset m) => from_cursor from m
  | Some (SDelta m) =>
      let underlying := mem_list (ov_root o) pk from in
      let overlaying := map_vals change_of (from_cursor from m) in
      overlaying_iter underlying overlaying
  | None => mem_list (ov_root o) pk from
  end.

(* commit_overlay_into_root_store *)
Definition ov_commit_into_root (o : overlay) : overlay :=
  {| ov_staging := []; ov_root := mem_commit (ov_root o) (from_staging (ov_staging o)) |}.

(* ListableSubstateDatabase::list_partition_keys of the overlay:
     overlying  = staged node keys x staged partition numbers (BTreeMap order), each mapped to Some(())
     underlying = root.list_partition_keys() mapped to ((), )
     OverlayingIterator(underlying, overlying).map(|(key, _)| key) *)
Definition ov_list_partition_keys (o : overlay) : list pkey :=
  let overlying :=
    flat_map (fun e : bytes * staging_node =>
                map (fun e' : N * staging_part => ((fst e, fst e'), Some tt)) (snd e)) (ov_staging o) in
  let underlying := map (fun pk => (pk, tt)) (mem_list_partition_keys (ov_root o)) in
  map fst (overlaying_iter_gen pk_ltb underlying overlying).

(* database_updates() / into_database_updates() / deconstruct().1 : self.overlay.into() *)
Definition ov_database_updates (o : overlay) : db_updates := from_staging (ov_staging o).

Definition ov_run (base : memdb) (cs : list db_updates) : overlay := fold_left ov_commit cs (overlay_new base).
