(* C15 — executable model of the RocksDB-backed substate stores
   (radix-substate-store-impls/src/rocks_db.rs: RocksdbSubstateStore, and the substate column family of
   rocks_db_with_merkle_tree/mod.rs: RocksDBWithMerkleTreeSubstateStore — the code of get / list /
   commit (substate part) / list_partition_keys / key layout is the same in both).
   The in-memory store is Model/C14_Store.v.  Model only, no proofs.

   Modelled as written:
     encode_to_rocksdb_bytes:  be32(len node_key) ++ node_key ++ [partition_num] ++ sort_key
     decode_from_rocksdb_bytes (slice / index panics = None)
     get_raw_substate_by_db_key = get_cf(encode(pk, sk))
     list_raw_values_from_db_key = iterator_cf(From(encode(pk, from or [])), Forward)
                                   .map(decode).take_while(partition == pk).map((sort key, value))
     commit: Delta -> put_cf / delete_cf per entry; Reset -> delete_range_cf(encode(pk, []),
             encode(pk, [0xFF; 2 * MAX_SUBSTATE_KEY_SIZE])) then put_cf per entry
     list_partition_keys = iterator_cf(Start).map(decode .0).dedup()
   RocksDB itself is abstract: a record of operations `kv_ops` on an unknown state type; what is
   assumed about it (an ordered byte-keyed map) is `kv_spec` (Proof/C15_Stores.v).  The reference
   instance used for evaluation is the sorted association list (`list_kv`).
   `u32::try_from(node_key.len()).unwrap()` panics for node keys of 2^32 bytes or more: `enc` is
   total here and the theorems carry the precondition `pk_ok` (length < 2^32). *)
From Coq Require Import List Arith NArith Bool.
Import ListNotations.
Require Import RV.Lib.Bytes RV.Lib.SortedMap RV.Model.C14_Store RV.Gen.C15_consts.
Open Scope N_scope.

Definition enc_header (pk : pkey) : bytes :=
  be_encode 4 (N.of_nat (length (fst pk))) ++ fst pk ++ [snd pk].
Definition enc (pk : pkey) (sk : bytes) : bytes := enc_header pk ++ sk.

(* encode_to_rocksdb_bytes with its panic made explicit: u32::try_from(node_key.len()).unwrap();
   None = panic.  `enc` is its value whenever it returns (theorem C15_encode_total_iff). *)
Definition rocks_encode (pk : pkey) (sk : bytes) : option bytes :=
  if N.of_nat (length (fst pk)) <? 2 ^ 32 then Some (enc pk sk) else None.

(* decode_from_rocksdb_bytes; None = panic (slice index out of range) *)
Definition rocks_decode (b : bytes) : option (pkey * bytes) :=
  match slice_to 4 b with
  | None => None
  | Some l4 =>
      let len := N.to_nat (be_decode l4) in
      let off := (4 + len)%nat in
      match slice_to off b with                      (* buffer[4..off] *)
      | None => None
      | Some pre =>
          match index off b with                     (* buffer[off] *)
          | None => None
          | Some pn =>
              match slice_from (off + 1) b with      (* buffer[off + 1..] *)
              | None => None
              | Some sk => Some ((skipn 4 pre, pn), sk)
              end
          end
      end
  end.

(* the exclusive upper end of the reset range: sort key = 2 * MAX_SUBSTATE_KEY_SIZE bytes of 0xFF *)
Definition reset_upper : bytes := repeat 255 (2 * MAX_SUBSTATE_KEY_SIZE).

Record kv_ops (S : Type) := {
  kv_empty : S;
  kv_get : S -> bytes -> option bytes;                       (* get_cf *)
  kv_put : S -> bytes -> bytes -> S;                         (* put_cf *)
  kv_delete : S -> bytes -> S;                               (* delete_cf *)
  kv_delete_range : S -> bytes -> bytes -> S;                (* delete_range_cf [from, to) *)
  kv_iter_from : S -> bytes -> list (bytes * bytes);         (* iterator_cf(From(k, Forward)) *)
  kv_iter_start : S -> list (bytes * bytes)                  (* iterator_cf(Start) *)
}.
Arguments kv_empty {S}. Arguments kv_get {S}. Arguments kv_put {S}. Arguments kv_delete {S}.
Arguments kv_delete_range {S}. Arguments kv_iter_from {S}. Arguments kv_iter_start {S}.

Section Rocks.
  Context {S : Type}.
  Variable ops : kv_ops S.

  Definition rocks_new : S := kv_empty ops.

  Definition rocks_get (s : S) (pk : pkey) (sk : bytes) : option bytes := kv_get ops s (enc pk sk).

  (* .map(decode).take_while(|((p, _), _)| p == pk).map(|((_, sk), v)| (sk, v)), all items collected;
     None = decode panicked on an item that was reached *)
  Fixpoint rocks_scan (pk : pkey) (items : list (bytes * bytes)) : option (list (bytes * bytes)) :=
    match items with
    | [] => Some []
    | (k, v) :: r =>
        match rocks_decode k with
        | None => None
        | Some (pk', sk) =>
            if pk_eqb pk' pk then option_map (cons (sk, v)) (rocks_scan pk r) else Some []
        end
    end.
  Definition rocks_list (s : S) (pk : pkey) (from : option bytes) : option (list (bytes * bytes)) :=
    let from_sort_key := match from with Some f => f | None => [] end in
    rocks_scan pk (kv_iter_from ops s (enc pk from_sort_key)).

  Definition rocks_commit_part (s : S) (pk : pkey) (pu : part_updates) : S :=
    match pu with
    | PDelta l =>
        fold_left (fun s e => match snd e with
                              | USet v => kv_put ops s (enc pk (fst e)) v
                              | UDelete => kv_delete ops s (enc pk (fst e))
                              end) l s
    | PReset l =>
        let s1 := kv_delete_range ops s (enc pk []) (enc pk reset_upper) in
        fold_left (fun s e => kv_put ops s (enc pk (fst e)) (snd e)) l s1
    end.
  Definition rocks_commit_node (s : S) (nk : bytes) (nu : node_updates) : S :=
    fold_left (fun s e => rocks_commit_part s (nk, fst e) (snd e)) nu s.
  Definition rocks_commit (s : S) (u : db_updates) : S :=
    fold_left (fun s e => rocks_commit_node s (fst e) (snd e)) u s.

  (* itertools dedup: drops consecutive duplicates *)
  Fixpoint dedup (l : list pkey) : list pkey :=
    match l with
    | [] => []
    | x :: r => match r with
                | [] => [x]
                | y :: _ => if pk_eqb x y then dedup r else x :: dedup r
                end
    end.
  Fixpoint decode_all (items : list (bytes * bytes)) : option (list pkey) :=
    match items with
    | [] => Some []
    | (k, _) :: r =>
        match rocks_decode k with
        | None => None
        | Some (pk, _) => option_map (cons pk) (decode_all r)
        end
    end.
  Definition rocks_list_partition_keys (s : S) : option (list pkey) :=
    option_map dedup (decode_all (kv_iter_start ops s)).

  Definition rocks_run (cs : list db_updates) : S := fold_left rocks_commit cs rocks_new.

  (* the read entry points with the encoder panic explicit (outer None = panic) *)
  Definition rocks_get_p (s : S) (pk : pkey) (sk : bytes) : option (option bytes) :=
    match rocks_encode pk sk with
    | Some k => Some (kv_get ops s k)
    | None => None
    end.
  Definition rocks_list_p (s : S) (pk : pkey) (from : option bytes) : option (list (bytes * bytes)) :=
    match rocks_encode pk (match from with Some f => f | None => [] end) with
    | Some k => rocks_scan pk (kv_iter_from ops s k)
    | None => None
    end.
End Rocks.

(* the reference ordered map: a sorted association list *)
Definition in_range (a b k : bytes) : bool := ble a k && blt k b.
Definition list_kv : kv_ops (list (bytes * bytes)) := {|
  kv_empty := [];
  kv_get := fun s k => lookup blt k s;
  kv_put := fun s k v => insert blt k v s;
  kv_delete := fun s k => remove blt k s;
  kv_delete_range := fun s a b => filter (fun e => negb (in_range a b (fst e))) s;
  kv_iter_from := fun s k => range_from blt k s;
  kv_iter_start := fun s => s
|}.

(* size limits of the property statement: node keys shorter than 2^32 bytes (else encode panics),
   sort keys made of bytes and shorter than the reset bound *)
Definition pk_ok (pk : pkey) : Prop := N.of_nat (length (fst pk)) < 2 ^ 32.
Definition sk_ok (sk : bytes) : Prop := bytes_ok sk = true /\ (length sk < 2 * MAX_SUBSTATE_KEY_SIZE)%nat.
Definition part_updates_ok (pu : part_updates) : Prop :=
  match pu with
  | PDelta l => Forall (fun e : bytes * db_update => sk_ok (fst e)) l
  | PReset l => Forall (fun e : bytes * bytes => sk_ok (fst e)) l
  end.
Definition updates_ok (u : db_updates) : Prop :=
  Forall (fun e : bytes * node_updates =>
            Forall (fun e' : N * part_updates => pk_ok (fst e, fst e') /\ part_updates_ok (snd e')) (snd e)) u.
