(* C19 — the commit of RocksDBWithMerkleTreeSubstateStore composed with the state tree model:
   substates = the abstract database of C17 (Model/C17_Smt.v: dbmap, apply_commit), tree = the
   three-tier tree of C17 (Model/C17_Jmt.v: put_at_next_version returns the new root hash, the new
   logical tree and the store operations: node inserts and stale parts), node column family = the
   explicit versioned node store of C18 (Model/C18_Store.v).  Model only, no proofs.

   As in Model/C19_CrashCommit.v a commit is the sequence of atomic write steps the code performs and
   a crash leaves a prefix.  The write layout is the one of the code as written (and tied to the code
   by Corr/C19_run.v on the byte-level model): ONE batch holding the substate operations (their joint
   effect on the database: `apply_commit`; their key-level form is Model/C19_CrashCommit.v), the new
   nodes in the order the tree computation produced them, the stale-parts record (pruning disabled
   only) and the metadata; then, pruning enabled, the deletions of the pruning loop AS WRITTEN:
     for part in stale_tree_parts: Node(k) -> delete_cf(k) (unconditionally);
                                   Subtree(k) -> queue-driven walk: a key found in the store is deleted
                                   and the child keys recorded in the stored node are queued.
   Every delete_cf is one step.  The walk reads the store as it is AT THAT MOMENT, i.e. after the
   batch (all inserts precede all deletions — unlike TypedInMemoryTreeStore, which applies the
   operations in the order they are issued: Model/C18_Store.v `apply_ops`).
   IO errors: every RocksDB call of `commit` is followed by unwrap/expect, so an IO error at a write
   is a panic before that write took effect: `CIoPanic k` = the store after the first k steps. *)
From Coq Require Import List NArith Bool.
Import ListNotations.
Require Import RV.Model.C17_Jmt RV.Model.C17_Smt RV.Model.C18_Store.
Open Scope N_scope.

Record cstore := mkC {
  c_db : dbmap;                                   (* SUBSTATES_CF, as the database it denotes *)
  c_meta : option (N * list N);                   (* META_CF: (current_state_version, root hash) *)
  c_nodes : store;                                (* MERKLE_NODES_CF *)
  c_stale : list (N * list stale_part)            (* STALE_MERKLE_TREE_PARTS_CF *)
}.
Definition c_version (s : cstore) : N := match c_meta s with Some (v, _) => v | None => 0 end.
Definition c_root (s : cstore) : list N := match c_meta s with Some (_, r) => r | None => ZERO_HASH end.

Inductive cwop :=
| CSetDb (d : dbmap)                              (* joint effect of the substate put/delete/delete_range operations *)
| CInsert (k : skey) (n : snode)
| CStaleRecord (v : N) (parts : list stale_part)
| CMeta (v : N) (root : list N)
| CDelete (k : skey).
Inductive cstep := CBatch (ws : list cwop) | CDirect (w : cwop).

Definition capply (s : cstore) (w : cwop) : cstore :=
  match w with
  | CSetDb d => mkC d (c_meta s) (c_nodes s) (c_stale s)
  | CInsert k n => mkC (c_db s) (c_meta s) (st_insert k n (c_nodes s)) (c_stale s)
  | CStaleRecord v ps => mkC (c_db s) (c_meta s) (c_nodes s) (c_stale s ++ [(v, ps)])
  | CMeta v r => mkC (c_db s) (Some (v, r)) (c_nodes s) (c_stale s)
  | CDelete k => mkC (c_db s) (c_meta s) (st_remove k (c_nodes s)) (c_stale s)
  end.
Definition capply_step (s : cstore) (st : cstep) : cstore :=
  match st with CBatch ws => fold_left capply ws s | CDirect w => capply s w end.
Definition crun (steps : list cstep) (s : cstore) : cstore := fold_left capply_step steps s.
Definition ccrash (k : nat) (steps : list cstep) (s : cstore) : cstore := crun (firstn k steps) s.

(* the keys the walk over one stale subtree deletes, in order (the deletions of `prune_subtree`) *)
Fixpoint subtree_dels (fuel : nat) (queue : list skey) (s : store) : list skey :=
  match queue with
  | [] => []
  | k :: q =>
    match fuel with
    | O => []
    | S f =>
      match st_get k s with
      | Some n => k :: subtree_dels f (q ++ child_keys k n) (st_remove k s)
      | None => subtree_dels f q s
      end
    end
  end.
Definition remove_all (ds : list skey) (s : store) : store := fold_left (fun s k => st_remove k s) ds s.
(* all delete_cf calls of the pruning loop, in order *)
Fixpoint prune_dels (parts : list stale_part) (s : store) : list skey :=
  match parts with
  | [] => []
  | StaleNode v p :: r => (v, p) :: prune_dels r (st_remove (v, p) s)
  | StaleSubtree v p :: r =>
    let ds := subtree_dels (prune_fuel s) [(v, p)] s in
    ds ++ prune_dels r (remove_all ds s)
  end.

Definition stale_parts_of (ops : list store_op) : list stale_part :=
  flat_map (fun op => match op with OpStale p => [p] | _ => [] end) ops.
Definition inserts_of (ops : list store_op) : list cwop :=
  flat_map (fun op => match op with OpInsert v p n => [CInsert (v, p) n] | _ => [] end) ops.

Section COMMIT.
  Variable H : list N -> list N.
  Variable fuel : nat.

  Inductive coutcome := CSteps (steps : list cstep) (st' : tree_state) | CPanic | CFuel.

  (* `st` is the logical tree the stored nodes of the current version represent (what the tree
     computation reads through ReadableTreeStore::get_node) *)
  Definition ccommit (pruning : bool) (st : tree_state) (s : cstore) (u : db_updates) : coutcome :=
    if 2 ^ 64 <=? c_version s + 1 then CPanic else
    match put_at_next_version H fuel st u with
    | Ok (root, st', ops) =>
      let next := c_version s + 1 in
      let batch := CSetDb (apply_commit (c_db s) u) :: inserts_of ops
                   ++ (if pruning then [] else [CStaleRecord next (stale_parts_of ops)])
                   ++ [CMeta next root] in
      let nodes1 := c_nodes (fold_left capply (inserts_of ops) s) in
      CSteps (CBatch batch ::
              (if pruning then map (fun k => CDirect (CDelete k)) (prune_dels (stale_parts_of ops) nodes1) else []))
             st'
    | Panic => CPanic
    | OutOfFuel => CFuel
    end.

  (* an IO error reported by the k-th write: unwrap/expect panics, the store holds the first k steps *)
  Definition cio_panic (k : nat) (steps : list cstep) (s : cstore) : cstore := ccrash k steps s.
End COMMIT.
