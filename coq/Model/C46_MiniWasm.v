(* C46 — MiniWasm: a structured-control subset of WebAssembly (i64 arithmetic and comparisons,
   locals, globals, linear memory of i64 cells, block / loop / if / br / br_if / return / call,
   unreachable) with a fuel-based big-step semantics and explicit traps, plus the pseudo-instruction
   `Charge c` that stands for the two instructions the gas instrumentation inserts
   (`i64.const c; call $gas`): it subtracts c from the remaining budget and traps with OutOfGas when
   the budget is insufficient; it touches nothing else.  `Tick c` is a ghost instruction used only to
   state cost theorems: it adds c to the ghost counter `spent` (placing `Tick (cost i)` in front of every
   instruction i makes `spent` the sum of the costs of the executed instructions).
   Blocks have type [] -> []: leaving a block by a branch restores the operand stack of its entry
   (what the WebAssembly validator guarantees for such blocks).  Values are integers mod 2^64;
   conditions are "non-zero".  Executable definitions only. *)
From Coq Require Import List ZArith Bool.
Import ListNotations.
Open Scope Z_scope.

Definition W : Z := 2 ^ 64.
Definition wrap (z : Z) : Z := z mod W.

Inductive binop := Add | Sub | Mul | DivU | RemU | And | Or | Xor | Eq | Ne | LtU | GtU | LeU | GeU.

Inductive instr :=
| Const (z : Z)
| Bin (o : binop)
| Eqz
| Drop
| Nop
| Unreachable
| LocalGet (n : nat) | LocalSet (n : nat) | LocalTee (n : nat)
| GlobalGet (n : nat) | GlobalSet (n : nat)
| Load (off : Z)                 (* i64.load: address = popped value + off, in cells *)
| Store (off : Z)
| Block (body : list instr)
| Loop (body : list instr)
| If (thn els : list instr)
| Br (n : nat) | BrIf (n : nat)
| Return
| Call (f : nat)
| Charge (c : Z)
| Tick (c : Z).                  (* ghost: records that an instruction of cost c is executed *)

Record func := mkFunc { f_params : nat; f_locals : nat; f_result : bool; f_body : list instr }.
Definition prog := list func.

Record state := mkSt {
  stack : list Z; locals : list Z; globals : list Z; mem : list Z;
  gas : Z;          (* remaining budget *)
  charged : Z;      (* total charged so far *)
  spent : Z         (* ghost: sum of the Tick amounts executed so far *)
}.
Definition set_stack (s : state) (k : list Z) : state :=
  mkSt k (locals s) (globals s) (mem s) (gas s) (charged s) (spent s).
Definition set_locals (s : state) (l : list Z) : state :=
  mkSt (stack s) l (globals s) (mem s) (gas s) (charged s) (spent s).
Definition set_globals (s : state) (g : list Z) : state :=
  mkSt (stack s) (locals s) g (mem s) (gas s) (charged s) (spent s).
Definition set_mem (s : state) (m : list Z) : state :=
  mkSt (stack s) (locals s) (globals s) m (gas s) (charged s) (spent s).

Inductive outcome :=
| Normal (s : state)
| Branch (n : nat) (s : state)
| Ret (s : state)
| Trap            (* unreachable, division by zero, out-of-bounds memory access, ill-formed stack *)
| OutOfGas
| OutOfFuel.

Fixpoint update {A} (l : list A) (n : nat) (v : A) : option (list A) :=
  match l, n with
  | [], _ => None
  | _ :: r, O => Some (v :: r)
  | x :: r, S k => match update r k v with Some r' => Some (x :: r') | None => None end
  end.

Definition b2z (b : bool) : Z := if b then 1 else 0.
Definition eval_bin (o : binop) (a b : Z) : option Z :=
  match o with
  | Add => Some (wrap (a + b)) | Sub => Some (wrap (a - b)) | Mul => Some (wrap (a * b))
  | DivU => if b =? 0 then None else Some (a / b)
  | RemU => if b =? 0 then None else Some (a mod b)
  | And => Some (Z.land a b) | Or => Some (Z.lor a b) | Xor => Some (Z.lxor a b)
  | Eq => Some (b2z (a =? b)) | Ne => Some (b2z (negb (a =? b)))
  | LtU => Some (b2z (a <? b)) | GtU => Some (b2z (b <? a))
  | LeU => Some (b2z (a <=? b)) | GeU => Some (b2z (b <=? a))
  end.

Definition addr_of (base off : Z) (m : list Z) : option nat :=
  let a := base + off in
  if (0 <=? a) && (a <? Z.of_nat (length m)) then Some (Z.to_nat a) else None.

(* straight-line instructions: Some outcome, or None when the instruction is a control instruction *)
Definition step_simple (i : instr) (s : state) : option outcome :=
  match i with
  | Const z => Some (Normal (set_stack s (wrap z :: stack s)))
  | Bin o => Some (match stack s with
                   | b :: a :: k => match eval_bin o a b with
                                    | Some v => Normal (set_stack s (v :: k))
                                    | None => Trap
                                    end
                   | _ => Trap end)
  | Eqz => Some (match stack s with a :: k => Normal (set_stack s (b2z (a =? 0) :: k)) | _ => Trap end)
  | Drop => Some (match stack s with _ :: k => Normal (set_stack s k) | _ => Trap end)
  | Nop => Some (Normal s)
  | Unreachable => Some Trap
  | LocalGet n => Some (match nth_error (locals s) n with
                        | Some v => Normal (set_stack s (v :: stack s)) | None => Trap end)
  | LocalSet n => Some (match stack s with
                        | v :: k => match update (locals s) n v with
                                    | Some l => Normal (set_locals (set_stack s k) l) | None => Trap end
                        | _ => Trap end)
  | LocalTee n => Some (match stack s with
                        | v :: _ => match update (locals s) n v with
                                    | Some l => Normal (set_locals s l) | None => Trap end
                        | _ => Trap end)
  | GlobalGet n => Some (match nth_error (globals s) n with
                         | Some v => Normal (set_stack s (v :: stack s)) | None => Trap end)
  | GlobalSet n => Some (match stack s with
                         | v :: k => match update (globals s) n v with
                                     | Some g => Normal (set_globals (set_stack s k) g) | None => Trap end
                         | _ => Trap end)
  | Load off => Some (match stack s with
                      | a :: k => match addr_of a off (mem s) with
                                  | Some n => match nth_error (mem s) n with
                                              | Some v => Normal (set_stack s (v :: k)) | None => Trap end
                                  | None => Trap end
                      | _ => Trap end)
  | Store off => Some (match stack s with
                       | v :: a :: k => match addr_of a off (mem s) with
                                        | Some n => match update (mem s) n v with
                                                    | Some m => Normal (set_mem (set_stack s k) m)
                                                    | None => Trap end
                                        | None => Trap end
                       | _ => Trap end)
  | Charge c => Some (if gas s <? c then OutOfGas
                      else Normal (mkSt (stack s) (locals s) (globals s) (mem s) (gas s - c) (charged s + c) (spent s)))
  | Tick c => Some (Normal (mkSt (stack s) (locals s) (globals s) (mem s) (gas s) (charged s) (spent s + c)))
  | _ => None
  end.

(* split the arguments off the operand stack (last argument on top) *)
Fixpoint take_args (n : nat) (k : list Z) (acc : list Z) : option (list Z * list Z) :=
  match n with
  | O => Some (acc, k)
  | S m => match k with v :: r => take_args m r (v :: acc) | [] => None end
  end.

Fixpoint exec (fuel : nat) (p : prog) (s : state) (is : list instr) {struct fuel} : outcome :=
  match fuel with
  | O => OutOfFuel
  | S f =>
    match is with
    | [] => Normal s
    | i :: rest =>
      match step_simple i s with
      | Some (Normal s') => exec f p s' rest
      | Some o => o
      | None =>
        match i with
        | Block b =>
            match exec f p s b with
            | Normal s' => exec f p s' rest
            | Branch O s' => exec f p (set_stack s' (stack s)) rest
            | Branch (S n) s' => Branch n s'
            | o => o
            end
        | Loop b =>
            match exec f p s b with
            | Normal s' => exec f p s' rest
            | Branch O s' => exec f p (set_stack s' (stack s)) (Loop b :: rest)
            | Branch (S n) s' => Branch n s'
            | o => o
            end
        | If t e =>
            match stack s with
            | c :: k =>
                let s0 := set_stack s k in
                match exec f p s0 (if c =? 0 then e else t) with
                | Normal s' => exec f p s' rest
                | Branch O s' => exec f p (set_stack s' k) rest
                | Branch (S n) s' => Branch n s'
                | o => o
                end
            | [] => Trap
            end
        | Br n => Branch n s
        | BrIf n =>
            match stack s with
            | c :: k => if c =? 0 then exec f p (set_stack s k) rest else Branch n (set_stack s k)
            | [] => Trap
            end
        | Return => Ret s
        | Call g =>
            match nth_error p g with
            | None => Trap
            | Some fn =>
                match take_args (f_params fn) (stack s) [] with
                | None => Trap
                | Some (args, k) =>
                    let callee := mkSt [] (args ++ repeat 0 (f_locals fn)) (globals s) (mem s) (gas s) (charged s) (spent s) in
                    let finish (s' : state) :=
                      if f_result fn then
                        match stack s' with
                        | v :: _ => Some (mkSt (v :: k) (locals s) (globals s') (mem s') (gas s') (charged s') (spent s'))
                        | [] => None
                        end
                      else Some (mkSt k (locals s) (globals s') (mem s') (gas s') (charged s') (spent s')) in
                    match exec f p callee (f_body fn) with
                    | Normal s' | Ret s' | Branch _ s' =>
                        match finish s' with Some s'' => exec f p s'' rest | None => Trap end
                    | o => o
                    end
                end
            end
        | _ => Trap
        end
      end
    end
  end.

(* ---------------------------------------------------------------------------------------------- *)
(* erasing the instrumentation                                                                     *)
(* ---------------------------------------------------------------------------------------------- *)
Fixpoint erase_i (i : instr) : list instr :=
  match i with
  | Charge _ => []
  | Tick _ => []
  | Block b => [Block (flat_map erase_i b)]
  | Loop b => [Loop (flat_map erase_i b)]
  | If t e => [If (flat_map erase_i t) (flat_map erase_i e)]
  | x => [x]
  end.
Definition erase (is : list instr) : list instr := flat_map erase_i is.
Definition erase_func (f : func) : func := mkFunc (f_params f) (f_locals f) (f_result f) (erase (f_body f)).
Definition erase_prog (p : prog) : prog := map erase_func p.

(* sum of the Charge constants of a straight-line prefix etc. is not needed: the semantics itself
   accumulates `charged` *)
