(* C49 — executable model of the execution limits of the Radix Engine. No proofs here.

   Code modelled (as written):
   * radix-engine/src/system/system_modules/limits/module.rs
       LimitsModule::process_substate_key / process_substate_value / process_io_access,
       before_invoke (depth check `==`, then payload size `>`), the on_* handlers (which of the
       three process_* functions they call, in which order);
   * radix-engine/src/system/system_modules/module_mixer.rs
       SystemModuleMixer::add_log / assert_can_add_event / add_event_unchecked /
       checked_add_event / set_panic_message (count checks `>=`, size checks `>`, the
       EnabledModules::LIMITS and ::TRANSACTION_RUNTIME guards);
   * radix-engine/src/kernel/call_frame.rs  depth of a child frame = parent.depth + 1.

   All sizes and counters are Rust `usize` (64 bit on the harness platform); the harness builds
   with overflow checks on, so `+=` above 2^64-1 and `-=` below 0 are panics: explicit RPanic. *)
From Coq Require Import List NArith Bool.
Import ListNotations.
Open Scope N_scope.

Definition USIZE_MAX : N := 18446744073709551615.

(* LimitParameters, in the field order of the Rust struct *)
Record config := mkConfig {
  max_call_depth : N;
  max_heap : N;          (* max_heap_substate_total_bytes *)
  max_track : N;         (* max_track_substate_total_bytes *)
  max_key : N;           (* max_substate_key_size *)
  max_value : N;         (* max_substate_value_size *)
  max_invoke : N;        (* max_invoke_input_size -> config.max_invoke_payload_size *)
  max_event_size : N;
  max_log_size : N;
  max_panic_size : N;    (* max_panic_message_size *)
  max_logs : N;          (* max_number_of_logs *)
  max_events : N         (* max_number_of_events *)
}.

(* EnabledModules bits that matter here *)
Record flags := mkFlags { limits_on : bool; runtime_on : bool }.

(* TransactionLimitsError *)
Inductive lerr :=
| KeyExceeded (n : N)                 (* MaxSubstateKeySizeExceeded(len) *)
| ValueExceeded (n : N)               (* MaxSubstateSizeExceeded(len) *)
| InvokeExceeded (n : N)              (* MaxInvokePayloadSizeExceeded(len) *)
| CallDepthReached                    (* MaxCallDepthLimitReached *)
| TrackExceeded (actual mx : N)
| HeapExceeded (actual mx : N)
| LogTooLarge (actual mx : N)
| EventTooLarge (actual mx : N)
| PanicTooLarge (actual mx : N)
| TooManyLogs
| TooManyEvents.

Inductive res := ROk | RErr (e : lerr) | RPanic.

(* heap/track: LimitsModule counters; logs/events: transaction_runtime.{logs,events}.len();
   depth: depth of the current call frame *)
Record state := mkState { heap : N; track : N; logs : N; events : N; depth : N }.
Definition state0 : state := mkState 0 0 0 0 0.

Definition set_heap (s : state) (h : N) := mkState h (track s) (logs s) (events s) (depth s).
Definition set_track (s : state) (t : N) := mkState (heap s) t (logs s) (events s) (depth s).
Definition set_logs (s : state) (l : N) := mkState (heap s) (track s) l (events s) (depth s).
Definition set_events (s : state) (e : N) := mkState (heap s) (track s) (logs s) e (depth s).
Definition set_depth (s : state) (d : N) := mkState (heap s) (track s) (logs s) (events s) d.

(* checked usize arithmetic *)
Definition uadd (a b : N) : option N := if a + b <=? USIZE_MAX then Some (a + b) else None.
Definition usub (a b : N) : option N := if b <=? a then Some (a - b) else None.
Definition obind {A B} (o : option A) (f : A -> option B) : option B :=
  match o with Some a => f a | None => None end.
Definition odef (o : option N) : N := match o with Some n => n | None => 0 end.
Definition is_none (o : option N) : bool := match o with Some _ => false | None => true end.

(* SubstateKey, only what the limit looks at: the length of the map key *)
Inductive skey := KMap (len : N) | KSorted (len : N) | KField.

(* process_substate_key: `map_key.len() + 2` for sorted keys *)
Definition key_size (k : skey) : option N :=
  match k with KMap l => Some l | KSorted l => uadd l 2 | KField => Some 1 end.

Definition process_key (c : config) (k : skey) : res :=
  match key_size k with
  | None => RPanic
  | Some len => if max_key c <? len then RErr (KeyExceeded len) else ROk
  end.

Definition process_value (c : config) (len : N) : res :=
  if max_value c <? len then RErr (ValueExceeded len) else ROk.

(* IOAccess; klen = canonical_substate_key.len() *)
Inductive io :=
| IoRead | IoReadNotFound
| IoHeap (klen : N) (old new : option N)
| IoTrack (klen : N) (old new : option N).

(* the four statements of process_io_access on one counter, in the order of the code *)
Definition upd_counter (cnt klen : N) (old new : option N) : option N :=
  obind (if is_none old then uadd cnt klen else Some cnt) (fun c1 =>
  obind (if is_none new then usub c1 klen else Some c1) (fun c2 =>
  obind (uadd c2 (odef new)) (fun c3 =>
  usub c3 (odef old)))).

(* the two comparisons at the end of process_io_access: heap first, then track *)
Definition check_totals (c : config) (s : state) : res :=
  if max_heap c <? heap s then RErr (HeapExceeded (heap s) (max_heap c))
  else if max_track c <? track s then RErr (TrackExceeded (track s) (max_track c))
  else ROk.

Definition process_io (c : config) (s : state) (a : io) : state * res :=
  match a with
  | IoRead | IoReadNotFound => (s, check_totals c s)
  | IoHeap k o n =>
      match upd_counter (heap s) k o n with
      | None => (s, RPanic)
      | Some h => let s' := set_heap s h in (s', check_totals c s')
      end
  | IoTrack k o n =>
      match upd_counter (track s) k o n with
      | None => (s, RPanic)
      | Some t => let s' := set_track s t in (s', check_totals c s')
      end
  end.

(* key then value, stop at the first non-Ok (the `?` operator) *)
Definition process_key_value (c : config) (k : skey) (vlen : N) : res :=
  match process_key c k with ROk => process_value c vlen | r => r end.

Fixpoint process_create_node (c : config) (kvs : list (skey * N)) : res :=
  match kvs with
  | [] => ROk
  | (k, v) :: rest =>
      match process_key_value c k v with ROk => process_create_node c rest | r => r end
  end.

(* The kernel callbacks of the LimitsModule, handler by handler as written in
   `impl SystemModule for LimitsModule` (before_invoke is OInvoke below). Each constructor is one
   variant of the event enum the handler matches on; what is not a Start / IOAccess variant is
   ignored by the module. CreateNodeEvent::Start carries every (key, value) of the new node in
   the iteration order of the two nested BTreeMaps. *)
Inductive hev :=
| HCreateNodeStart (kvs : list (skey * N)) | HCreateNodeIO (a : io) | HCreateNodeEnd
| HDropNodeStart | HDropNodeIO (a : io) | HDropNodeEnd
| HMoveModuleIO (a : io)
| HOpenStart (k : skey) | HOpenIO (a : io) | HOpenEnd
| HReadIO (a : io) | HReadOnRead
| HWriteStart (len : N) | HWriteIO (a : io)
| HSetStart (k : skey) (len : N) | HSetIO (a : io)
| HRemoveStart (k : skey) | HRemoveIO (a : io)
| HScanKeysStart | HScanKeysIO (a : io)
| HDrainStart | HDrainIO (a : io)
| HScanSortedStart | HScanSortedIO (a : io).

Definition handle (c : config) (s : state) (e : hev) : state * res :=
  match e with
  (* on_create_node *)
  | HCreateNodeStart kvs => (s, process_create_node c kvs)
  | HCreateNodeIO a => process_io c s a
  | HCreateNodeEnd => (s, ROk)
  (* on_drop_node *)
  | HDropNodeIO a => process_io c s a
  | HDropNodeStart | HDropNodeEnd => (s, ROk)
  (* on_move_module *)
  | HMoveModuleIO a => process_io c s a
  (* on_open_substate *)
  | HOpenStart k => (s, process_key c k)
  | HOpenIO a => process_io c s a
  | HOpenEnd => (s, ROk)
  (* on_read_substate *)
  | HReadIO a => process_io c s a
  | HReadOnRead => (s, ROk)
  (* on_write_substate *)
  | HWriteStart len => (s, process_value c len)
  | HWriteIO a => process_io c s a
  (* on_set_substate: key, then value *)
  | HSetStart k len => (s, process_key_value c k len)
  | HSetIO a => process_io c s a
  (* on_remove_substate *)
  | HRemoveStart k => (s, process_key c k)
  | HRemoveIO a => process_io c s a
  (* on_scan_keys / on_drain_substates / on_scan_sorted_substates *)
  | HScanKeysStart => (s, ROk)
  | HScanKeysIO a => process_io c s a
  | HDrainStart => (s, ROk)
  | HDrainIO a => process_io c s a
  | HScanSortedStart => (s, ROk)
  | HScanSortedIO a => process_io c s a
  end.

(* The limit-relevant events of an execution.
   OKey        OpenSubstateEvent::Start, RemoveSubstateEvent::Start   -> process_substate_key
   OValue      WriteSubstateEvent::Start                              -> process_substate_value
   OKeyValue   SetSubstateEvent::Start                                -> key, then value
   OCreateNode CreateNodeEvent::Start: all (key,value) of the node, in iteration order
   OIo         every *Event::IOAccess                                 -> process_io_access
   OInvoke     before_invoke (size = invocation.len()); on success the kernel pushes a frame
   OReturn     the callee frame is popped
   OLog / OEvent / OAssertCanAddEvent / OAddEventUnchecked / OPanicMsg: the mixer functions
   OLockFeeEmit  system.rs lock_fee(): add_event_unchecked(LockFeeEvent).expect("Event should
               never exceed size.") - an Err is a Rust panic (caught by the native VM) *)
Inductive op :=
| OKey (k : skey)
| OValue (len : N)
| OKeyValue (k : skey) (len : N)
| OCreateNode (kvs : list (skey * N))
| OIo (a : io)
| OInvoke (size : N)
| OReturn
| OLog (size : N)
| OEvent (size : N)
| OAssertCanAddEvent
| OAddEventUnchecked (size : N)
| OPanicMsg (size : N)
| OLockFeeEmit (size : N)
| OH (e : hev).        (* a kernel callback dispatched to the LimitsModule handler *)

Definition before_invoke (c : config) (s : state) (size : N) : res :=
  if depth s =? max_call_depth c then RErr CallDepthReached
  else if max_invoke c <? size then RErr (InvokeExceeded size)
  else ROk.

Definition assert_can_add_event (c : config) (f : flags) (s : state) : res :=
  if limits_on f && (max_events c <=? events s) then RErr TooManyEvents else ROk.

Definition add_event_unchecked (c : config) (f : flags) (s : state) (size : N) : state * res :=
  if limits_on f && (max_event_size c <? size) then (s, RErr (EventTooLarge size (max_event_size c)))
  else ((if runtime_on f then set_events s (events s + 1) else s), ROk).

Definition add_log (c : config) (f : flags) (s : state) (size : N) : state * res :=
  if limits_on f && (max_logs c <=? logs s) then (s, RErr TooManyLogs)
  else if limits_on f && (max_log_size c <? size) then (s, RErr (LogTooLarge size (max_log_size c)))
  else ((if runtime_on f then set_logs s (logs s + 1) else s), ROk).

Definition set_panic_message (c : config) (f : flags) (size : N) : res :=
  if limits_on f && (max_panic_size c <? size) then RErr (PanicTooLarge size (max_panic_size c)) else ROk.

(* One event. The module callbacks are only dispatched when EnabledModules::LIMITS is set. *)
Definition step (c : config) (f : flags) (s : state) (o : op) : state * res :=
  match o with
  | OKey k => (s, if limits_on f then process_key c k else ROk)
  | OValue l => (s, if limits_on f then process_value c l else ROk)
  | OKeyValue k l => (s, if limits_on f then process_key_value c k l else ROk)
  | OCreateNode kvs => (s, if limits_on f then process_create_node c kvs else ROk)
  | OIo a => if limits_on f then process_io c s a else (s, ROk)
  | OInvoke size =>
      match (if limits_on f then before_invoke c s size else ROk) with
      | ROk => (set_depth s (depth s + 1), ROk)
      | r => (s, r)
      end
  | OReturn => (set_depth s (depth s - 1), ROk)
  | OLog size => add_log c f s size
  | OEvent size =>
      match assert_can_add_event c f s with
      | ROk => add_event_unchecked c f s size
      | r => (s, r)
      end
  | OAssertCanAddEvent => (s, assert_can_add_event c f s)
  | OAddEventUnchecked size => add_event_unchecked c f s size
  | OPanicMsg size => (s, set_panic_message c f size)
  | OLockFeeEmit size =>
      match add_event_unchecked c f s size with
      | (s', ROk) => (s', ROk)
      | (s', _) => (s', RPanic)
      end
  | OH e => if limits_on f then handle c s e else (s, ROk)
  end.

(* the call-depth check with `>=` instead of `==` (not the code: used to state that the two agree
   on every reachable state) *)
Definition before_invoke_ge (c : config) (s : state) (size : N) : res :=
  if max_call_depth c <=? depth s then RErr CallDepthReached
  else if max_invoke c <? size then RErr (InvokeExceeded size)
  else ROk.

(* driving the module object directly: every call is answered, the object lives on after an Err *)
Fixpoint run_all (c : config) (f : flags) (s : state) (ops : list op) : list res * state :=
  match ops with
  | [] => ([], s)
  | o :: rest =>
      let '(s', r) := step c f s o in
      match r with
      | RPanic => ([RPanic], s')      (* the harness stops a sequence at a panic *)
      | _ => let '(rs, s'') := run_all c f s' rest in (r :: rs, s'')
      end
  end.

(* The call stack of a transaction: the transaction processor runs in the root frame (depth 0);
   every invocation made from a frame of depth d runs in a frame of depth d + 1. *)

(* a transaction: the first non-Ok answer aborts it.  inl = final state, inr = (index, answer) *)
Fixpoint run (c : config) (f : flags) (s : state) (ops : list op) (i : N) : state + (N * res) :=
  match ops with
  | [] => inl s
  | o :: rest =>
      let '(s', r) := step c f s o in
      match r with
      | ROk => run c f s' rest (i + 1)
      | _ => inr (i, r)
      end
  end.

Definition tx_outcome (c : config) (f : flags) (ops : list op) : res :=
  match run c f state0 ops 0 with inl _ => ROk | inr (_, r) => r end.

(* ---- how a TransactionLimitsError reaches the receipt (as written) ----
   Normally: RuntimeError::SystemModuleError(SystemModuleError::TransactionLimitsError(e)).
   When the error is raised by an IO access made while a blueprint payload is validated against its
   schema (SystemServiceTypeInfoLookup reads the TypeInfo of an owned / referenced node, an IO access
   counted by the LimitsModule), validate_blueprint_payload turns the validation error into text:
   SystemError(TypeCheckError(BlueprintPayloadValidationError(.., msg))) with e printed inside msg.
   Either way the transaction is failed, which is what the property asks. *)
Inductive surfaced := SLimit (e : lerr) | SMaskedTypeCheck (e : lerr).
Definition surface (during_payload_validation : bool) (e : lerr) : surfaced :=
  if during_payload_validation then SMaskedTypeCheck e else SLimit e.
Definition surfaced_err (x : surfaced) : lerr := match x with SLimit e | SMaskedTypeCheck e => e end.
Definition receipt_failed (x : option surfaced) : bool := match x with Some _ => true | None => false end.
