(* C10 — executable model of resource containers with proof locks.  Model only: no proofs here.

   Code modelled (as written):
     radix-engine-interface/src/blueprints/resource/resource.rs
        LiquidFungibleResource::{put, take_by_amount}, LockedFungibleResource::{is_locked, amount},
        LiquidNonFungibleResource::{put, take_by_amount, take_by_ids},
        LockedNonFungibleResource::{is_locked, amount, ids}
     radix-engine-interface/src/blueprints/resource/mod.rs   check_fungible_amount, check_non_fungible_amount
     radix-engine/src/blueprints/resource/fungible/{fungible_vault.rs, fungible_bucket.rs}
        lock_amount, unlock_amount, take (= take_advanced Exact), recall, internal_take, internal_put,
        get_amount, create_proof_of_amount, create_proof_of_all
     radix-engine/src/blueprints/resource/non_fungible/{non_fungible_vault.rs, non_fungible_bucket.rs}
        lock_non_fungibles, unlock_non_fungibles, take_non_fungibles, take (by amount, bucket only),
        recall_non_fungibles, create_proof_of_non_fungibles, create_proof_of_all
     radix-engine/src/blueprints/resource/fungible/fungible_proof.rs, non_fungible_proof.rs
        FungibleProofSubstate::new / clone_proof / teardown (single-container evidence)

   Abstractions (each is unobservable through the modelled API):
     - Decimal = Z (attos) with the I192 range test made explicit in `dadd`/`dsub` (checked_add/sub);
     - `amounts : IndexMap<Decimal, usize>` and `ids : IndexMap<NonFungibleLocalId, usize>` are
       association lists; `swap_remove` is modelled as plain removal (the order of these maps is
       never observed: only max-of-keys, membership and the counts are);  usize counts are N;
     - the liquid ids of a bucket (IndexSet) keep their order and `swap_remove` is modelled as
       written, because `take_by_amount` takes the first n ids; a non-fungible vault keeps its
       liquid ids in a sorted index whose iteration order is the database key order, so
       take-by-amount on a *vault* is not modelled (ids are always given explicitly there);
     - vault and bucket versions of lock/unlock/take are the same code up to error wrappers, so one
       definition serves both; the error enum keeps the distinctions the harness can observe.
   Rust panics (`expect` in unlock_amount / unlock_non_fungibles, `expect("Overflow")` in put) are
   the explicit outcome `Panic`. *)
From Coq Require Import List ZArith NArith Bool.
Import ListNotations.
Open Scope Z_scope.

Inductive err :=
| EInsufficient | EWorktopInsufficient | EAssertion | EInvalidAmount | ELocked | EEmptyProof
| EBucketNotFound | EProofNotFound | EAuthZoneEmpty | EDropNonEmpty | EOrphan | EUnauthorized
| EOverflow | EPanic | EOther.

Inductive result (A : Type) := Ok (a : A) | Err (e : err) | Panic.
Arguments Ok {A} a. Arguments Err {A} e. Arguments Panic {A}.

Definition bind {A B} (r : result A) (f : A -> result B) : result B :=
  match r with Ok a => f a | Err e => Err e | Panic => Panic end.
Notation "'let!' x ':=' r 'in' k" := (bind r (fun x => k)) (at level 200, x pattern, right associativity).

(* --- Decimal (I192 attos) --- *)
Definition DEC_MAX : Z := 2 ^ 191 - 1.
Definition DEC_MIN : Z := - 2 ^ 191.
Definition dec_ok (x : Z) : bool := (DEC_MIN <=? x) && (x <=? DEC_MAX).
Definition dadd (a b : Z) : option Z := if dec_ok (a + b) then Some (a + b) else None.
Definition dsub (a b : Z) : option Z := if dec_ok (a - b) then Some (a - b) else None.

(* check_fungible_amount: non-negative and a multiple of 10^(18 - divisibility) *)
Definition unit_of (div : Z) : Z := 10 ^ (18 - div).
Definition check_fungible_amount (div a : Z) : bool := (0 <=? a) && (a mod unit_of div =? 0).
(* check_non_fungible_amount: u32::try_from(Decimal): whole number in [0, u32::MAX] *)
Definition ONE : Z := 10 ^ 18.
Definition check_non_fungible_amount (a : Z) : option N :=
  if (0 <=? a) && (a mod ONE =? 0) && (a / ONE <=? 4294967295) then Some (Z.to_N (a / ONE)) else None.

(* ------------------------------------------------------------------------------------------ *)
(* Fungible containers                                                                         *)
(* ------------------------------------------------------------------------------------------ *)
Record fcont := { fliq : Z; flocked : list (Z * N) }.

(* LockedFungibleResource::amount: `max = ZERO; for k in keys { if k > max { max = k } }` *)
Fixpoint fmax_from (m : Z) (l : list (Z * N)) : Z :=
  match l with
  | [] => m
  | (k, _) :: t => fmax_from (if k >? m then k else m) t
  end.
Definition fmax (l : list (Z * N)) : Z := fmax_from 0 l.
Definition f_is_locked (c : fcont) : bool := match flocked c with [] => false | _ => true end.

(* LiquidFungibleResource::take_by_amount *)
Definition liq_take (liq amt : Z) : result Z :=
  if liq <? amt then Err EInsufficient
  else match dsub liq amt with Some r => Ok r | None => Err EOverflow end.
(* LiquidFungibleResource::put: checked_add(..).expect("Overflow") *)
Definition liq_put (liq amt : Z) : result Z :=
  match dadd liq amt with Some r => Ok r | None => Panic end.
(* internal_put: `if resource.is_empty() { return Ok(()) }` then put *)
Definition f_internal_put (amt : Z) (c : fcont) : result fcont :=
  if amt =? 0 then Ok c
  else let! l := liq_put (fliq c) amt in Ok {| fliq := l; flocked := flocked c |}.

(* amounts.entry(a).or_default() += 1 *)
Fixpoint cnt_incr (a : Z) (l : list (Z * N)) : list (Z * N) :=
  match l with
  | [] => [(a, 1%N)]
  | (k, n) :: t => if k =? a then (k, (n + 1)%N) :: t else (k, n) :: cnt_incr a t
  end.
Fixpoint cnt_find (a : Z) (l : list (Z * N)) : option N :=
  match l with
  | [] => None
  | (k, n) :: t => if k =? a then Some n else cnt_find a t
  end.
Fixpoint cnt_remove (a : Z) (l : list (Z * N)) : list (Z * N) :=
  match l with
  | [] => []
  | (k, n) :: t => if k =? a then t else (k, n) :: cnt_remove a t
  end.

(* lock_amount *)
Definition f_lock (a : Z) (c : fcont) : result fcont :=
  let max_locked := fmax (flocked c) in
  let! liq :=
    if a >? max_locked then
      match dsub a max_locked with
      | None => Err EOverflow
      | Some delta => liq_take (fliq c) delta
      end
    else Ok (fliq c) in
  Ok {| fliq := liq; flocked := cnt_incr a (flocked c) |}.

(* unlock_amount *)
Definition f_unlock (a : Z) (c : fcont) : result fcont :=
  let max_locked := fmax (flocked c) in
  match cnt_find a (flocked c) with
  | None => Panic                                   (* expect("Attempted to unlock an amount that is not locked") *)
  | Some cnt =>
    let l1 := cnt_remove a (flocked c) in
    let l2 := if (1 <? cnt)%N then l1 ++ [(a, (cnt - 1)%N)] else l1 in
    match dsub max_locked (fmax l2) with
    | None => Err EOverflow
    | Some delta => f_internal_put delta {| fliq := fliq c; flocked := l2 |}
    end
  end.

(* take / take_advanced(Exact) / recall: check_fungible_amount then internal_take; returns the
   container and the amount of the new bucket *)
Definition f_take (div a : Z) (c : fcont) : result (fcont * Z) :=
  if negb (check_fungible_amount div a) then Err EInvalidAmount
  else let! l := liq_take (fliq c) a in Ok ({| fliq := l; flocked := flocked c |}, a).

(* get_amount = liquid + locked (checked_add) *)
Definition f_amount (c : fcont) : result Z :=
  match dadd (fliq c) (fmax (flocked c)) with Some r => Ok r | None => Err EOverflow end.

(* create_proof_of_amount: check amount, lock, then FungibleProofSubstate::new rejects zero *)
Definition f_create_proof (div a : Z) (c : fcont) : result fcont :=
  if negb (check_fungible_amount div a) then Err EInvalidAmount
  else let! c' := f_lock a c in
       if a =? 0 then Err EEmptyProof else Ok c'.

(* put of another (dropped) bucket's liquid amount: vault internal_put skips empty, bucket put
   always adds; both give the same state *)
Definition f_put (amt : Z) (c : fcont) : result fcont := f_internal_put amt c.

Definition f_new (amt : Z) : fcont := {| fliq := amt; flocked := [] |}.

(* ------------------------------------------------------------------------------------------ *)
(* Non-fungible containers                                                                     *)
(* ------------------------------------------------------------------------------------------ *)
Open Scope N_scope.
Record ncont := { nliq : list N; nlocked : list (N * N) }.

Fixpoint mem (x : N) (l : list N) : bool :=
  match l with [] => false | y :: t => (y =? x) || mem x t end.

(* IndexSet::swap_remove: the last element takes the place of the removed one *)
Fixpoint replace_first (x y : N) (l : list N) : list N :=     (* replace first occurrence of x by y *)
  match l with [] => [] | z :: t => if z =? x then y :: t else z :: replace_first x y t end.
Definition swap_remove (x : N) (l : list N) : option (list N) :=
  if mem x l then
    match rev l with
    | [] => None
    | last :: rinit =>
        let init := rev rinit in
        if last =? x then Some init else Some (replace_first x last init)
    end
  else None.

(* take_by_ids: `for id in ids { if !swap_remove(id) { return Err(Missing) } }` *)
Fixpoint liq_take_ids (ids : list N) (l : list N) : result (list N) :=
  match ids with
  | [] => Ok l
  | i :: t => match swap_remove i l with None => Err EInsufficient | Some l' => liq_take_ids t l' end
  end.
(* IndexSet::extend *)
Fixpoint liq_extend (l : list N) (ids : list N) : list N :=
  match ids with [] => l | i :: t => liq_extend (if mem i l then l else l ++ [i]) t end.

Fixpoint ncnt_find (a : N) (l : list (N * N)) : option N :=
  match l with [] => None | (k, n) :: t => if k =? a then Some n else ncnt_find a t end.
Fixpoint ncnt_remove (a : N) (l : list (N * N)) : list (N * N) :=
  match l with [] => [] | (k, n) :: t => if k =? a then t else (k, n) :: ncnt_remove a t end.
Fixpoint ncnt_incr (a : N) (l : list (N * N)) : list (N * N) :=
  match l with
  | [] => [(a, 1)]
  | (k, n) :: t => if k =? a then (k, n + 1) :: t else (k, n) :: ncnt_incr a t
  end.
Definition nkeys (l : list (N * N)) : list N := map fst l.

Definition n_is_locked (c : ncont) : bool := match nlocked c with [] => false | _ => true end.
Definition n_amount (c : ncont) : N := N.of_nat (length (nliq c)) + N.of_nat (length (nlocked c)).
(* bucket get_non_fungible_local_ids: liquid ids extended by the locked ids *)
Definition n_ids (c : ncont) : list N := liq_extend (nliq c) (nkeys (nlocked c)).

(* lock_non_fungibles *)
Definition n_lock (ids : list N) (c : ncont) : result ncont :=
  let delta := filter (fun i => match ncnt_find i (nlocked c) with None => true | Some _ => false end) ids in
  let! l := liq_take_ids delta (nliq c) in
  Ok {| nliq := l; nlocked := fold_left (fun m i => ncnt_incr i m) ids (nlocked c) |}.

(* unlock_non_fungibles: returns None on the `expect` panic *)
Fixpoint n_unlock_loop (ids : list N) (locked : list (N * N)) (freed : list N) : option (list (N * N) * list N) :=
  match ids with
  | [] => Some (locked, freed)
  | i :: t =>
    match ncnt_find i locked with
    | None => None
    | Some cnt =>
      let l1 := ncnt_remove i locked in
      if 1 <? cnt then n_unlock_loop t (l1 ++ [(i, cnt - 1)]) freed
      else n_unlock_loop t l1 (if mem i freed then freed else freed ++ [i])
    end
  end.
Definition n_unlock (ids : list N) (c : ncont) : result ncont :=
  match n_unlock_loop ids (nlocked c) [] with
  | None => Panic
  | Some (locked, freed) => Ok {| nliq := liq_extend (nliq c) freed; nlocked := locked |}
  end.

(* take_non_fungibles / recall_non_fungibles / burn_non_fungibles *)
Definition n_take_ids (ids : list N) (c : ncont) : result (ncont * list N) :=
  let! l := liq_take_ids ids (nliq c) in Ok ({| nliq := l; nlocked := nlocked c |}, ids).

(* bucket take by amount: the first n liquid ids *)
Definition n_take_amount (a : Z) (c : ncont) : result (ncont * list N) :=
  match check_non_fungible_amount a with
  | None => Err EInvalidAmount
  | Some n =>
    if N.of_nat (length (nliq c)) <? n then Err EInsufficient
    else let ids := firstn (N.to_nat n) (nliq c) in n_take_ids ids c
  end.

Definition n_create_proof (ids : list N) (c : ncont) : result ncont :=
  let! c' := n_lock ids c in
  match ids with [] => Err EEmptyProof | _ => Ok c' end.

Definition n_put (ids : list N) (c : ncont) : ncont := {| nliq := liq_extend (nliq c) ids; nlocked := nlocked c |}.
Definition n_new (ids : list N) : ncont := {| nliq := liq_extend [] ids; nlocked := [] |}.
