(* Model/C27_DecText.v — executable model of FromStr and Display of Decimal / PreciseDecimal
   (decimal.rs, precise_decimal.rs, after the fixes 28f2ef7a5e / 20a6252733 that reject a sign in the
   fractional part), over byte strings (list N).  The decimal integer parser of bnum
   (BInt::from_str_radix -> BUint::from_buf_radix_internal, radix 10: 19-digit chunks, base 10^19) is
   modelled at chunk granularity so that the error kind reported for strings that are both too long
   and malformed agrees with the implementation.  No proofs. *)
From Coq Require Import ZArith NArith List Bool.
Import ListNotations.
Require Import RV.Lib.DecCore.
Open Scope Z_scope.

Definition str := list N.
Definition ch_minus : N := 45%N.
Definition ch_plus : N := 43%N.
Definition ch_dot : N := 46%N.
Definition ch_zero : N := 48%N.

Definition is_digit (b : N) : bool := (48 <=? b)%N && (b <=? 57)%N.
Definition digit_val (b : N) : Z := Z.of_N b - 48.

(* value of a run of decimal digits, None if some byte is not a digit (byte_to_digit >= radix) *)
Fixpoint horner (ds : str) (acc : Z) : option Z :=
  match ds with
  | [] => Some acc
  | d :: r => if is_digit d then horner r (acc * 10 + digit_val d) else None
  end.

(* the chunks after the first: multiply by 10^19 (carry out of the top digit = PosOverflow), parse
   the next 19 bytes (InvalidDigit), checked_add (PosOverflow) *)
Fixpoint uint_chunks (fuel : nat) (bits : Z) (s : str) (out : Z) : res Z :=
  match s with
  | [] => Ok out
  | _ =>
    match fuel with
    | O => Err EFuel
    | S k =>
      let out1 := out * 10 ^ 19 in
      if 2 ^ bits <=? out1 then Err EOverflow else
      match horner (firstn 19 s) 0 with
      | None => Err EInvalidDigit
      | Some n =>
        let out2 := out1 + n in
        if 2 ^ bits <=? out2 then Err EOverflow else uint_chunks k bits (skipn 19 s) out2
      end
    end
  end.

(* BUint::from_buf_radix_internal::<true,true>(digits, 10): `s` is the digit region (non-empty) *)
Definition parse_uint (bits : Z) (s : str) : res Z :=
  let len := Z.of_nat (length s) in
  let r := len mod 19 in
  let split := Z.to_nat (if r =? 0 then 19 else r) in
  match horner (firstn split s) 0 with
  | None => Err EInvalidDigit
  | Some first => uint_chunks (length s) bits (skipn split s) first
  end.

(* BInt::from_str_radix(src, 10) composed with the error mapping of impl_from_string *)
Definition int_from_str (bits : Z) (s : str) : res Z :=
  match s with
  | [] => Err EEmpty
  | c :: rest =>
    let negative := (c =? ch_minus)%N in
    let leading_sign := negative || (c =? ch_plus)%N in
    if leading_sign && (match rest with [] => true | _ => false end) then Err EInvalidDigit else
    let* u := parse_uint bits (if leading_sign then rest else s) in
    if negative then
      if (2 ^ (bits - 1) <=? u) && negb (u =? 2 ^ (bits - 1)) then Err EOverflow   (* NegOverflow *)
      else Ok (- u)
    else if 2 ^ (bits - 1) <=? u then Err EOverflow                                   (* PosOverflow *)
    else Ok u
  end.

(* s.split('.') *)
Fixpoint split_dot (s : str) (cur : str) : list str :=
  match s with
  | [] => [rev cur]
  | c :: r => if (c =? ch_dot)%N then rev cur :: split_dot r [] else split_dot r (c :: cur)
  end.
Definition starts_with (c : N) (s : str) : bool :=
  match s with x :: _ => (x =? c)%N | [] => false end.

Definition map_int_err (empty : err) (r : res Z) : res Z :=
  match r with
  | Ok v => Ok v
  | Err EOverflow => Err EOverflow
  | Err EInvalidDigit => Err EInvalidDigit
  | Err EEmpty => Err empty
  | Err e => Err e
  | Panic => Panic
  end.

(* FromStr for Decimal / PreciseDecimal *)
Definition dec_from_str (f : fmt) (s : str) : res Z :=
  let t := fty f in
  let v := split_dot s [] in
  if (2 <? Z.of_nat (length v)) then Err ETwoPoints else
  let v0 := nth 0 v [] in
  let* integer_part := map_int_err EEmptyInt (int_from_str (fbits f) v0) in
  let* subunits := or_err EOverflow (cmul t integer_part (one f)) in
  if Z.of_nat (length v) =? 2 then
    let v1 := nth 1 v [] in
    let sc := scale f - Z.of_nat (length v1) in
    if sc <? 0 then Err ETooManyPlaces else
    if starts_with ch_plus v1 || starts_with ch_minus v1 then Err EInvalidDigit else
    let* fractional_part := map_int_err EEmptyFrac (int_from_str (fbits f) v1) in
    let* p := ppow t 10 sc in
    let* fractional_subunits := unwrap (cmul t fractional_part p) in   (* .expect("No overflow possible") *)
    if (integer_part <? 0) || starts_with ch_minus v0
    then or_err EOverflow (csub t subunits fractional_subunits)
    else or_err EOverflow (cadd t subunits fractional_subunits)
  else Ok subunits.

(* the same before the fix (sign accepted in the fraction), to state the repaired defect *)
Definition dec_from_str_prefix (f : fmt) (s : str) : res Z :=
  let t := fty f in
  let v := split_dot s [] in
  if (2 <? Z.of_nat (length v)) then Err ETwoPoints else
  let v0 := nth 0 v [] in
  let* integer_part := map_int_err EEmptyInt (int_from_str (fbits f) v0) in
  let* subunits := or_err EOverflow (cmul t integer_part (one f)) in
  if Z.of_nat (length v) =? 2 then
    let v1 := nth 1 v [] in
    let sc := scale f - Z.of_nat (length v1) in
    if sc <? 0 then Err ETooManyPlaces else
    let* fractional_part := map_int_err EEmptyFrac (int_from_str (fbits f) v1) in
    let* p := ppow t 10 sc in
    let* fractional_subunits := unwrap (cmul t fractional_part p) in
    if (integer_part <? 0) || starts_with ch_minus v0
    then or_err EOverflow (csub t subunits fractional_subunits)
    else or_err EOverflow (cadd t subunits fractional_subunits)
  else Ok subunits.

(* ---------------------------------------------------------------------------------------------- *)
(* Display *)

(* decimal digits of a non-negative integer, most significant first ("0" for 0) *)
Fixpoint digits_go (fuel : nat) (n : Z) (acc : str) : str :=
  match fuel with
  | O => acc
  | S k => if n <=? 0 then acc else digits_go k (n / 10) (Z.to_N (48 + n mod 10) :: acc)
  end.
Definition digits (n : Z) : str :=
  if n <=? 0 then [ch_zero] else digits_go (S (Z.to_nat (Z.log2 n))) n [].
(* Display of the bnum integer *)
Definition show_int (z : Z) : str := if z <? 0 then ch_minus :: digits (- z) else digits z.
(* "{:0w}" of a non-negative integer *)
Definition pad0 (w : nat) (s : str) : str := repeat ch_zero (w - length s) ++ s.
Fixpoint trim_zeros_rev (s : str) : str :=   (* on the reversed string *)
  match s with c :: r => if (c =? ch_zero)%N then trim_zeros_rev r else s | [] => [] end.
Definition trim_end_zeros (s : str) : str := rev (trim_zeros_rev (rev s)).

Definition dec_to_string (f : fmt) (x : Z) : str :=
  let q := Z.quot x (one f) in
  let r := Z.rem x (one f) in
  if negb (r =? 0) then
    let sign := if (r <? 0) && (q =? 0) then [ch_minus] else [] in
    let rem_str := pad0 (Z.to_nat (scale f)) (show_int (Z.abs r)) in
    sign ++ show_int q ++ [ch_dot] ++ trim_end_zeros rem_str
  else show_int q.

(* ---------------------------------------------------------------------------------------------- *)
(* the grammar of the property: [+-]? digit+ ( '.' digit{1,SCALE} )?  and its exact value *)
Definition all_digits (s : str) : bool := forallb is_digit s.
Definition nonempty (s : str) : bool := match s with [] => false | _ => true end.
Definition strip_sign (s : str) : bool * str :=
  match s with
  | c :: r => if (c =? ch_minus)%N then (true, r) else if (c =? ch_plus)%N then (false, r) else (false, s)
  | [] => (false, [])
  end.
Definition dval (s : str) : Z := match horner s 0 with Some v => v | None => 0 end.
(* Some (exact value in subunits) if s is in the grammar: the text is split at '.', the integral part
   is an optional sign followed by one or more digits, the optional fractional part is 1..SCALE digits *)
Definition grammar_value (f : fmt) (s : str) : option Z :=
  match split_dot s [] with
  | [ip] =>
      let '(neg, ib) := strip_sign ip in
      if nonempty ib && all_digits ib then Some ((if neg then -1 else 1) * (dval ib * one f)) else None
  | [ip; fp] =>
      let '(neg, ib) := strip_sign ip in
      if nonempty ib && all_digits ib && nonempty fp && all_digits fp
         && (Z.of_nat (length fp) <=? scale f)
      then Some ((if neg then -1 else 1) * (dval ib * one f + dval fp * 10 ^ (scale f - Z.of_nat (length fp))))
      else None
  | _ => None
  end.
Definition parse_spec (f : fmt) (s : str) : option Z :=
  match grammar_value f s with
  | Some v => if in_f f v then Some v else None
  | None => None
  end.

Inductive top := TParse (s : str) | TPrint (x : Z).
Inductive tout := OParse (r : res Z) | OPrint (s : str).
