(* Model/C24_Dec.v — executable model of the checked arithmetic and the conversions of Decimal and
   PreciseDecimal (decimal.rs, precise_decimal.rs, bnum_integer/convert.rs), generic in the format
   `f` (DEC = I192/I256/10^18, PDEC = I256/I384/10^36).  A value is its subunit integer.  No proofs. *)
From Coq Require Import ZArith List Bool.
Import ListNotations.
Require Import RV.Lib.DecCore RV.Model.C25_Round.
Open Scope Z_scope.

(* checked_add / checked_sub / checked_neg: the wrapper's checked op on the stored integer *)
Definition dec_add (f : fmt) (a b : Z) : res Z := cadd (fty f) a b.
Definition dec_sub (f : fmt) (a b : Z) : res Z := csub (fty f) a b.
Definition dec_neg (f : fmt) (a : Z) : res Z := cneg (fty f) a.
(* checked_abs: `if *self != MIN { Some(self.0.abs()) } else { None }`; bnum abs panics on MIN *)
Definition dec_abs (f : fmt) (a : Z) : res Z :=
  if negb (a =? fmin f) then pan (fty f) (Z.abs a) else Err ENone.

(* checked_mul:
     let a = W::from(self.0); let b = W::from(other.0);
     let c = a.checked_mul(b)?; let c = c.checked_div(W::from(ONE.0))?; F::try_from(c).ok() *)
Definition dec_mul (f : fmt) (a b : Z) : res Z :=
  let* a' := from_bnum (fty f) (wty f) a in
  let* b' := from_bnum (fty f) (wty f) b in
  let* c := cmul (wty f) a' b' in
  let* o := from_bnum (fty f) (wty f) (one f) in
  let* c := cdiv (wty f) c o in
  to_none (try_from_bnum (wty f) (fty f) c).

(* checked_div:
     let c = a.checked_mul(W::from(ONE.0))?; let c = c.checked_div(b)?; F::try_from(c).ok() *)
Definition dec_div (f : fmt) (a b : Z) : res Z :=
  let* a' := from_bnum (fty f) (wty f) a in
  let* b' := from_bnum (fty f) (wty f) b in
  let* o := from_bnum (fty f) (wty f) (one f) in
  let* c := cmul (wty f) a' o in
  let* c := cdiv (wty f) c b' in
  to_none (try_from_bnum (wty f) (fty f) c).

(* the variants before the fix of try_from_bnum (used only to state the repaired defect) *)
Definition dec_mul_prefix (f : fmt) (a b : Z) : res Z :=
  let* a' := from_bnum (fty f) (wty f) a in
  let* b' := from_bnum (fty f) (wty f) b in
  let* c := cmul (wty f) a' b' in
  let* o := from_bnum (fty f) (wty f) (one f) in
  let* c := cdiv (wty f) c o in
  to_none (try_from_bnum_prefix (wty f) (fty f) c).

(* ---------------------------------------------------------------------------------------------- *)
(* conversions *)

(* From<Decimal> for PreciseDecimal: Self(I256::from(val.attos()) * I256::TEN.pow(36 - 18)) *)
Definition dec_to_pdec (a : Z) : res Z :=
  let* a' := from_bnum I192 I256 a in
  let* p := ppow I256 10 (scale PDEC - scale DEC) in
  pmul I256 a' p.

(* CheckedTruncate<Decimal> for PreciseDecimal:
     let rounded = self.checked_round(18, mode)?;
     let a_256 = rounded.0.checked_div(I256::TEN.pow(36 - 18))?;
     Some(Decimal::from_attos(a_256.try_into().ok()?)) *)
Definition pdec_truncate (p : Z) (m : rmode) : res Z :=
  let* rounded := checked_round PDEC p (scale DEC) m in
  let* d := ppow I256 10 (scale PDEC - scale DEC) in
  let* a := cdiv I256 rounded d in
  to_none (try_from_bnum I256 I192 a).
(* TryFrom<PreciseDecimal> for Decimal: checked_truncate(ToZero).ok_or(Overflow) *)
Definition pdec_to_dec (p : Z) : res Z := or_err EOverflow (pdec_truncate p ToZero).

(* From<i8 … u128, isize, usize> for F: Self(F::from(val) * ONE.0)
   (F::from(val) is bnum's lossless From for a primitive that fits; `*` panics on overflow) *)
Definition dec_from_prim (f : fmt) (src : ity) (v : Z) : res Z :=
  let* v' := (if in_ity (fty f) v then Ok v else Panic) in
  pmul (fty f) v' (one f).

(* TryFrom<I192 … U512> for F:
     match F::try_from(val) { Ok(v) => v.checked_mul(ONE.0) or Overflow, Err(_) => Overflow }
   For src = the format's own integer type the conversion is the identity, and for a narrower
   source it is the widening `From` (core's blanket `impl<T, U: Into<T>> TryFrom<U> for T`);
   otherwise it is `impl_try_from_bnum`. *)
Definition dec_try_from_int (f : fmt) (src : ity) (v : Z) : res Z :=
  let* v' := or_err EOverflow
     (if (ibits src =? fbits f) && isigned src then Ok v
      else if ibits src <? fbits f then from_bnum src (fty f) v
      else try_from_bnum src (fty f) v) in
  or_err EOverflow (cmul (fty f) v' (one f)).

(* TryFrom<F> for primitive integer `dst`:
     let rounded = val.checked_round(0, ToZero).ok_or(Overflow)?;
     let fraction = val.checked_sub(rounded).ok_or(Overflow)?;
     if !fraction.is_zero() { Err(InvalidDigit) }
     else { let i = rounded.0 / F::TEN.pow(SCALE); dst::try_from(i).map_err(|_| Overflow) } *)
Definition dec_to_prim (f : fmt) (dst : ity) (v : Z) : res Z :=
  let* rounded := or_err EOverflow (checked_round f v 0 ToZero) in
  let* fraction := or_err EOverflow (csub (fty f) v rounded) in
  if negb (fraction =? 0) then Err EInvalidDigit else
  let* p := ppow (fty f) 10 (scale f) in
  let* i := pdiv (fty f) rounded p in
  if in_ity dst i then Ok i else Err EOverflow.

(* ---------------------------------------------------------------------------------------------- *)
(* operations as data, for the correspondence *)
Inductive op :=
| OAdd (a b : Z) | OSub (a b : Z) | OMul (a b : Z) | ODiv (a b : Z) | ONeg (a : Z) | OAbs (a : Z)
| ODecToPdec (a : Z)            (* format ignored *)
| OPdecToDec (p : Z)            (* format ignored *)
| OTruncate (p : Z) (m : rmode) (* format ignored *)
| OFromPrim (src : ity) (v : Z)
| OTryFromInt (src : ity) (v : Z)
| OToPrim (dst : ity) (v : Z).

Definition run (f : fmt) (o : op) : res Z :=
  match o with
  | OAdd a b => dec_add f a b
  | OSub a b => dec_sub f a b
  | OMul a b => dec_mul f a b
  | ODiv a b => dec_div f a b
  | ONeg a => dec_neg f a
  | OAbs a => dec_abs f a
  | ODecToPdec a => dec_to_pdec a
  | OPdecToDec p => pdec_to_dec p
  | OTruncate p m => pdec_truncate p m
  | OFromPrim s v => dec_from_prim f s v
  | OTryFromInt s v => dec_try_from_int f s v
  | OToPrim d v => dec_to_prim f d v
  end.
