(* C36 — executable models, no proofs.
   (1) `validate`: the id state machine of StaticManifestInterpreter
       (radix-transactions/src/manifest/static_manifest_interpreter.rs) as written: bucket / proof /
       address-reservation / named-address / blob / child-intent state, proof locks on buckets,
       next-call-assertion requirement, end-of-manifest requirements, the six ValidationRuleset flags.
   (2) `rt_run`: the id machine of the run-time processor (IntentProcessorObjects in
       radix-engine/src/system/transaction/intent_processor.rs + instructions.rs): id -> node maps,
       sequential id allocator, take_/get_ failing with *NotFound.
   Instructions are abstracted to their id-level content (`instr`); the harness derives it from the
   real `ManifestInstruction::effect()` of every instruction and a pre-order walk of the argument
   value.  Ids are u32 in the code, N here (a manifest has far fewer than 2^32 instructions).
   `proof_locks -= 1` underflow is an explicit Panic. *)
From Coq Require Import List NArith Bool.
Import ListNotations.
Open Scope N_scope.

Inductive arg :=
| ABucket (b : N) | AProof (p : N) | AReservation (r : N) | ANamed (a : N) | ABlob (h : N) | AExpr.
Inductive inv_kind :=
| KMethod (named : option N) | KFunction (named : option N) | KDirect
| KYieldToParent | KYieldToChild (idx : N).
Inductive assertion :=
| AsWorktop (valid : bool)                       (* worktop assertions; valid = the code's validity test *)
| AsNextCall (valid : bool)
| AsBucket (b : N) (valid_f valid_nf : bool).    (* validity for fungible / non-fungible use *)
Inductive instr :=
| ICreateBucket (fungible : bool)                (* TAKE_*_FROM_WORKTOP *)
| ICreateProofAZ                                 (* POP_FROM_AUTH_ZONE, CREATE_PROOF_FROM_AUTH_ZONE_* *)
| ICreateProofBucket (b : N)                     (* CREATE_PROOF_FROM_BUCKET_* *)
| IConsumeBucket (b : N)                         (* RETURN_TO_WORKTOP, BURN_RESOURCE *)
| IConsumeProof (p : N)                          (* PUSH_TO_AUTH_ZONE, DROP_PROOF *)
| ICloneProof (p : N)
| IDropMany (named az : bool)                    (* DROP_NAMED_PROOFS / DROP_ALL_PROOFS / DROP_AUTH_ZONE_* *)
| IInvoke (k : inv_kind) (args : list arg)       (* CALL_*, YIELD_TO_*; args in traversal order *)
| IAllocate                                      (* ALLOCATE_GLOBAL_ADDRESS *)
| IAssert (a : assertion)
| IVerifyParent.

Record ruleset := mkRuleset {
  r_dup_blobs : bool; r_blob_refs : bool; r_lock : bool; r_dangling : bool;
  r_dyn_addr : bool; r_assert : bool }.
Definition ruleset_all := mkRuleset true true true true true true.
Definition ruleset_babylon := mkRuleset false false true false false false.

Record manifest := mkManifest {
  m_subintent : bool; m_prealloc : N; m_children : N; m_blobs : list N; m_instrs : list instr }.

Inductive verr :=
| EDuplicateBlob (h : N) | EBlobNotRegistered (h : N)
| EBucketNotYetCreated (b : N) | EBucketAlreadyUsed (b : N) | EBucketLocked (b : N)
| EProofNotYetCreated (p : N) | EProofAlreadyUsed (p : N)
| EResNotYetCreated (r : N) | EResAlreadyUsed (r : N)
| ENamedNotYetCreated (a : N) | EChildNotRegistered (i : N)
| EDanglingBucket (b : N) | EDanglingRes (r : N)
| ENotSupportedInTxIntent | ESubintentEnd | EProofToOtherIntent | EInvalidConstraint
| ENextCallNotInvocation | EEndedExpectingNextCall.
Inductive res (A : Type) := Ok (a : A) | Err (e : verr) | Panic.
Arguments Ok {A} a. Arguments Err {A} e. Arguments Panic {A}.
Definition bind {A B} (r : res A) (f : A -> res B) : res B :=
  match r with Ok a => f a | Err e => Err e | Panic => Panic end.

(* ---- static interpreter state ------------------------------------------------------------------ *)
Record bstate := mkB { b_fungible : bool; b_locks : N; b_consumed : bool }.
Record pstate := mkP { p_src : option N; p_consumed : bool }.
Record sstate := mkS {
  s_buckets : list bstate; s_proofs : list pstate; s_res : list bool (* consumed? *);
  s_named : N; s_blobs : list N; s_req : bool (* RequiredInvocationDueToNextCallAssertion *) }.

Definition nth_N {A} (l : list A) (i : N) : option A := nth_error l (N.to_nat i).
Fixpoint upd_nat {A} (l : list A) (i : nat) (x : A) : list A :=
  match l, i with
  | [], _ => []
  | _ :: t, O => x :: t
  | h :: t, S i' => h :: upd_nat t i' x
  end.
Definition upd_N {A} (l : list A) (i : N) (x : A) : list A := upd_nat l (N.to_nat i) x.
Definition lenN {A} (l : list A) : N := N.of_nat (length l).
Definition memN (x : N) (l : list N) : bool := existsb (N.eqb x) l.

Definition set_buckets s v := mkS v (s_proofs s) (s_res s) (s_named s) (s_blobs s) (s_req s).
Definition set_proofs s v := mkS (s_buckets s) v (s_res s) (s_named s) (s_blobs s) (s_req s).
Definition set_res s v := mkS (s_buckets s) (s_proofs s) v (s_named s) (s_blobs s) (s_req s).
Definition set_named s v := mkS (s_buckets s) (s_proofs s) (s_res s) v (s_blobs s) (s_req s).
Definition set_blobs s v := mkS (s_buckets s) (s_proofs s) (s_res s) (s_named s) v (s_req s).
Definition set_req s v := mkS (s_buckets s) (s_proofs s) (s_res s) (s_named s) (s_blobs s) v.

Definition get_existing_bucket (s : sstate) (b : N) : res bstate :=
  match nth_N (s_buckets s) b with
  | Some st => if b_consumed st then Err (EBucketAlreadyUsed b) else Ok st
  | None => Err (EBucketNotYetCreated b)
  end.
Definition get_existing_proof (s : sstate) (p : N) : res pstate :=
  match nth_N (s_proofs s) p with
  | Some st => if p_consumed st then Err (EProofAlreadyUsed p) else Ok st
  | None => Err (EProofNotYetCreated p)
  end.
Definition get_existing_res (s : sstate) (r : N) : res unit :=
  match nth_N (s_res s) r with
  | Some consumed => if consumed then Err (EResAlreadyUsed r) else Ok tt
  | None => Err (EResNotYetCreated r)
  end.
Definition get_existing_named (s : sstate) (a : N) : res unit :=
  if a <? s_named s then Ok tt else Err (ENamedNotYetCreated a).

Definition consume_bucket (rs : ruleset) (s : sstate) (b : N) : res sstate :=
  bind (get_existing_bucket s b) (fun st =>
    if r_lock rs && (0 <? b_locks st) then Err (EBucketLocked b)
    else Ok (set_buckets s (upd_N (s_buckets s) b (mkB (b_fungible st) (b_locks st) true)))).
Definition handle_new_proof (s : sstate) (src : option N) : res sstate :=
  bind (match src with
        | Some b => bind (get_existing_bucket s b) (fun st =>
            Ok (set_buckets s (upd_N (s_buckets s) b (mkB (b_fungible st) (b_locks st + 1) (b_consumed st)))))
        | None => Ok s
        end) (fun s1 => Ok (set_proofs s1 (s_proofs s1 ++ [mkP src false]))).
Definition consume_proof (s : sstate) (p : N) : res sstate :=
  bind (get_existing_proof s p) (fun st =>
    let s1 := set_proofs s (upd_N (s_proofs s) p (mkP (p_src st) true)) in
    match p_src st with
    | Some b => bind (get_existing_bucket s1 b) (fun bs =>
        if b_locks bs =? 0 then Panic
        else Ok (set_buckets s1 (upd_N (s_buckets s1) b (mkB (b_fungible bs) (b_locks bs - 1) (b_consumed bs)))))
    | None => Ok s1
    end).
Definition consume_res (s : sstate) (r : N) : res sstate :=
  bind (get_existing_res s r) (fun _ => Ok (set_res s (upd_N (s_res s) r true))).
Definition new_res (s : sstate) : sstate := set_res s (s_res s ++ [false]).

Fixpoint unconsumed_proofs (l : list pstate) (i : N) : list N :=
  match l with
  | [] => []
  | st :: t => if p_consumed st then unconsumed_proofs t (i + 1) else i :: unconsumed_proofs t (i + 1)
  end.
Fixpoint fold_res {A S} (f : S -> A -> res S) (s : S) (l : list A) : res S :=
  match l with
  | [] => Ok s
  | a :: t => bind (f s a) (fun s' => fold_res f s' t)
  end.

Definition yields_across (k : inv_kind) : bool :=
  match k with KYieldToParent | KYieldToChild _ => true | _ => false end.
Definition handle_arg (rs : ruleset) (k : inv_kind) (s : sstate) (a : arg) : res sstate :=
  match a with
  | ANamed n => bind (get_existing_named s n) (fun _ => Ok s)
  | ABucket b => consume_bucket rs s b
  | AProof p => if yields_across k then Err EProofToOtherIntent else consume_proof s p
  | AExpr => Ok s
  | ABlob h => if r_blob_refs rs && negb (memN h (s_blobs s)) then Err (EBlobNotRegistered h) else Ok s
  | AReservation r => consume_res s r
  end.
Definition handle_invocation (rs : ruleset) (m : manifest) (s : sstate) (k : inv_kind) (args : list arg)
  : res sstate :=
  bind (match k with
        | KMethod (Some n) | KFunction (Some n) =>
            if r_dyn_addr rs then get_existing_named s n else Ok tt
        | KMethod None | KFunction None | KDirect => Ok tt
        | KYieldToParent => if m_subintent m then Ok tt else Err ENotSupportedInTxIntent
        | KYieldToChild i => if m_children m <=? i then Err (EChildNotRegistered i) else Ok tt
        end) (fun _ => fold_res (handle_arg rs k) s args).

Definition handle_assertion (rs : ruleset) (s : sstate) (a : assertion) : res sstate :=
  if r_assert rs then
    match a with
    | AsWorktop valid => if valid then Ok s else Err EInvalidConstraint
    | AsNextCall valid => if valid then Ok (set_req s true) else Err EInvalidConstraint
    | AsBucket b vf vnf =>
        bind (get_existing_bucket s b) (fun st =>
          if (if b_fungible st then vf else vnf) then Ok s else Err EInvalidConstraint)
    end
  else Ok s.

Definition is_invocation (i : instr) : bool := match i with IInvoke _ _ => true | _ => false end.
Definition handle_instruction (rs : ruleset) (m : manifest) (s : sstate) (i : instr) : res sstate :=
  bind (if s_req s then
          if is_invocation i then Ok (set_req s false) else Err ENextCallNotInvocation
        else Ok s) (fun s =>
  match i with
  | ICreateBucket f => Ok (set_buckets s (s_buckets s ++ [mkB f 0 false]))
  | ICreateProofAZ => handle_new_proof s None
  | ICreateProofBucket b => handle_new_proof s (Some b)
  | IConsumeBucket b => consume_bucket rs s b
  | IConsumeProof p => consume_proof s p
  | ICloneProof p => bind (get_existing_proof s p) (fun st => handle_new_proof s (p_src st))
  | IDropMany named _ =>
      if named then fold_res consume_proof s (unconsumed_proofs (s_proofs s) 0) else Ok s
  | IInvoke k args => handle_invocation rs m s k args
  | IAllocate => let s1 := new_res s in Ok (set_named s1 (s_named s1 + 1))
  | IAssert a => handle_assertion rs s a
  | IVerifyParent => if m_subintent m then Ok s else Err ENotSupportedInTxIntent
  end).

Fixpoint register_blobs (rs : ruleset) (s : sstate) (l : list N) : res sstate :=
  match l with
  | [] => Ok s
  | h :: t =>
      if memN h (s_blobs s) && r_dup_blobs rs then Err (EDuplicateBlob h)
      else register_blobs rs (if memN h (s_blobs s) then s else set_blobs s (s_blobs s ++ [h])) t
  end.
Definition verify_final (m : manifest) : res unit :=
  if m_subintent m then
    match last (map Some (m_instrs m)) None with
    | Some (IInvoke KYieldToParent _) => Ok tt
    | _ => Err ESubintentEnd
    end
  else Ok tt.
Fixpoint first_index {A} (f : A -> bool) (l : list A) (i : N) : option N :=
  match l with [] => None | x :: t => if f x then Some i else first_index f t (i + 1) end.
Definition wrap_up (rs : ruleset) (s : sstate) : res unit :=
  if s_req s then Err EEndedExpectingNextCall
  else if r_dangling rs then
    match first_index (fun st => negb (b_consumed st)) (s_buckets s) 0 with
    | Some b => Err (EDanglingBucket b)
    | None =>
        match first_index negb (s_res s) 0 with
        | Some r => Err (EDanglingRes r)
        | None => Ok tt
        end
    end
  else Ok tt.

Definition s_init (m : manifest) : sstate :=
  mkS [] [] (repeat false (N.to_nat (m_prealloc m))) 0 [] false.
(* the state after all instructions (or the first error) *)
Definition run_instrs (rs : ruleset) (m : manifest) (s : sstate) : res sstate :=
  fold_res (handle_instruction rs m) s (m_instrs m).
Definition validate (rs : ruleset) (m : manifest) : res unit :=
  bind (register_blobs rs (s_init m) (m_blobs m)) (fun s =>
  bind (run_instrs rs m s) (fun s =>
  bind (verify_final m) (fun _ => wrap_up rs s))).

(* ---- run-time id machine ------------------------------------------------------------------------ *)
(* proof entries carry their source bucket as a ghost field (the processor maps a proof id to a node
   id only); `check_locks` = true turns the machine into the lifecycle specification, in which a
   bucket cannot be consumed while a live proof was created from it (at run time that is enforced by
   the bucket node itself, not by the id maps) *)
Record rstate := mkR {
  rt_buckets : list N; rt_proofs : list (N * option N); rt_res : list N; rt_named : N;
  rt_nb : N; rt_np : N; rt_nr : N }.
Inductive rerr := NFBucket (b : N) | NFProof (p : N) | NFRes (r : N) | NFAddr (a : N) | NFBlob (h : N)
                | LockedBucket (b : N).
Inductive rres := ROk (r : rstate) | RErr (e : rerr).
Definition rbind (x : rres) (f : rstate -> rres) : rres := match x with ROk r => f r | RErr e => RErr e end.

Definition removeN (x : N) (l : list N) : list N := filter (fun y => negb (N.eqb x y)) l.
Definition has_proof (p : N) (l : list (N * option N)) : option (option N) :=
  match find (fun e => N.eqb p (fst e)) l with Some e => Some (snd e) | None => None end.
Definition remove_proof (p : N) (l : list (N * option N)) := filter (fun e => negb (N.eqb p (fst e))) l.
Definition locked (b : N) (l : list (N * option N)) : bool :=
  existsb (fun e => match snd e with Some b' => N.eqb b b' | None => false end) l.

Definition rt_get_bucket (r : rstate) (b : N) : rres :=
  if memN b (rt_buckets r) then ROk r else RErr (NFBucket b).
Definition rt_take_bucket (check_locks : bool) (r : rstate) (b : N) : rres :=
  if memN b (rt_buckets r) then
    if check_locks && locked b (rt_proofs r) then RErr (LockedBucket b)
    else ROk (mkR (removeN b (rt_buckets r)) (rt_proofs r) (rt_res r) (rt_named r) (rt_nb r) (rt_np r) (rt_nr r))
  else RErr (NFBucket b).
Definition rt_new_bucket (r : rstate) : rstate :=
  mkR (rt_buckets r ++ [rt_nb r]) (rt_proofs r) (rt_res r) (rt_named r) (rt_nb r + 1) (rt_np r) (rt_nr r).
Definition rt_new_proof (r : rstate) (src : option N) : rstate :=
  mkR (rt_buckets r) (rt_proofs r ++ [(rt_np r, src)]) (rt_res r) (rt_named r) (rt_nb r) (rt_np r + 1) (rt_nr r).
Definition rt_take_proof (r : rstate) (p : N) : rres :=
  match has_proof p (rt_proofs r) with
  | Some _ => ROk (mkR (rt_buckets r) (remove_proof p (rt_proofs r)) (rt_res r) (rt_named r) (rt_nb r) (rt_np r) (rt_nr r))
  | None => RErr (NFProof p)
  end.
Definition rt_take_res (r : rstate) (x : N) : rres :=
  if memN x (rt_res r) then
    ROk (mkR (rt_buckets r) (rt_proofs r) (removeN x (rt_res r)) (rt_named r) (rt_nb r) (rt_np r) (rt_nr r))
  else RErr (NFRes x).
Definition rt_get_addr (r : rstate) (a : N) : rres := if a <? rt_named r then ROk r else RErr (NFAddr a).
Definition rt_new_res (r : rstate) : rstate :=
  mkR (rt_buckets r) (rt_proofs r) (rt_res r ++ [rt_nr r]) (rt_named r) (rt_nb r) (rt_np r) (rt_nr r + 1).

Fixpoint rfold {A} (f : rstate -> A -> rres) (r : rstate) (l : list A) : rres :=
  match l with [] => ROk r | a :: t => rbind (f r a) (fun r' => rfold f r' t) end.
(* transform(args, IntentProcessorObjectsWithApi): replace_* in traversal order *)
Definition rt_arg (cl : bool) (blobs : list N) (r : rstate) (a : arg) : rres :=
  match a with
  | ABucket b => rt_take_bucket cl r b
  | AProof p => rt_take_proof r p
  | AReservation x => rt_take_res r x
  | ANamed n => rt_get_addr r n
  | ABlob h => if memN h blobs then ROk r else RErr (NFBlob h)
  | AExpr => ROk r
  end.
Definition rt_step (cl : bool) (blobs : list N) (r : rstate) (i : instr) : rres :=
  match i with
  | ICreateBucket _ => ROk (rt_new_bucket r)
  | ICreateProofAZ => ROk (rt_new_proof r None)
  | ICreateProofBucket b => rbind (rt_get_bucket r b) (fun r => ROk (rt_new_proof r (Some b)))
  | IConsumeBucket b => rt_take_bucket cl r b
  | IConsumeProof p => rt_take_proof r p
  | ICloneProof p =>
      match has_proof p (rt_proofs r) with
      | Some src => ROk (rt_new_proof r src)
      | None => RErr (NFProof p)
      end
  | IDropMany named _ =>
      if named then ROk (mkR (rt_buckets r) [] (rt_res r) (rt_named r) (rt_nb r) (rt_np r) (rt_nr r)) else ROk r
  | IInvoke k args =>
      rbind (match k with
             | KMethod (Some n) | KFunction (Some n) => rt_get_addr r n
             | _ => ROk r
             end) (fun r => rfold (rt_arg cl blobs) r args)
  | IAllocate =>
      let r1 := rt_new_res r in
      ROk (mkR (rt_buckets r1) (rt_proofs r1) (rt_res r1) (rt_named r1 + 1) (rt_nb r1) (rt_np r1) (rt_nr r1))
  | IAssert (AsBucket b _ _) => rt_get_bucket r b
  | IAssert _ => ROk r
  | IVerifyParent => ROk r
  end.
Definition rt_init (m : manifest) : rstate :=
  mkR [] [] (map N.of_nat (seq 0 (N.to_nat (m_prealloc m)))) 0 0 0 (m_prealloc m).
Definition rt_run (cl : bool) (m : manifest) : rres :=
  rfold (rt_step cl (m_blobs m)) (rt_init m) (m_instrs m).

(* ---- the effect table: what each run-time instruction does with manifest ids (hand-transcribed
   from radix-engine/src/system/transaction/instructions.rs), compared in Props/C36.v with the table
   generated from ManifestInstruction::effect() of every instruction (Gen/C36_effects.v) ---------- *)
Inductive eclass :=
| CCreateBucket | CCreateProofAZ | CCreateProofBucket | CConsumeBucket | CConsumeProof | CCloneProof
| CDropMany (named az_sig az_nonsig : bool) | CInvoke | CAllocate | CAssertWorktop | CAssertNextCall
| CAssertBucket | CVerifyParent.
From Coq Require Import String.
Open Scope string_scope.
(* what `TxnNormalInstruction::execute` / `MultiThreadInstruction::execute` of each instruction does
   with the id maps of IntentProcessorObjects (create_manifest_X, take_X, get_X, proof_mapping.drain,
   transform(args)) and with the auth zone (LocalAuthZone::drop_X), in the order of InstructionV2 *)
Definition rt_effect_table : list (string * eclass) := [
  ("TAKE_FROM_WORKTOP", CCreateBucket);                       (* worktop.take; create_manifest_bucket *)
  ("TAKE_NON_FUNGIBLES_FROM_WORKTOP", CCreateBucket);
  ("TAKE_ALL_FROM_WORKTOP", CCreateBucket);
  ("RETURN_TO_WORKTOP", CConsumeBucket);                      (* take_bucket; worktop.put *)
  ("BURN_RESOURCE", CConsumeBucket);                          (* take_bucket; burn *)
  ("ASSERT_WORKTOP_CONTAINS_ANY", CAssertWorktop);
  ("ASSERT_WORKTOP_CONTAINS", CAssertWorktop);
  ("ASSERT_WORKTOP_CONTAINS_NON_FUNGIBLES", CAssertWorktop);
  ("ASSERT_WORKTOP_RESOURCES_ONLY", CAssertWorktop);
  ("ASSERT_WORKTOP_RESOURCES_INCLUDE", CAssertWorktop);
  ("ASSERT_NEXT_CALL_RETURNS_ONLY", CAssertNextCall);         (* next_call_return_constraints = Some *)
  ("ASSERT_NEXT_CALL_RETURNS_INCLUDE", CAssertNextCall);
  ("ASSERT_BUCKET_CONTENTS", CAssertBucket);                  (* get_bucket *)
  ("CREATE_PROOF_FROM_BUCKET_OF_AMOUNT", CCreateProofBucket); (* get_bucket; create_manifest_proof *)
  ("CREATE_PROOF_FROM_BUCKET_OF_NON_FUNGIBLES", CCreateProofBucket);
  ("CREATE_PROOF_FROM_BUCKET_OF_ALL", CCreateProofBucket);
  ("CREATE_PROOF_FROM_AUTH_ZONE_OF_AMOUNT", CCreateProofAZ);  (* LocalAuthZone::create_proof_X; create_manifest_proof *)
  ("CREATE_PROOF_FROM_AUTH_ZONE_OF_NON_FUNGIBLES", CCreateProofAZ);
  ("CREATE_PROOF_FROM_AUTH_ZONE_OF_ALL", CCreateProofAZ);
  ("CLONE_PROOF", CCloneProof);                               (* get_proof; clone; create_manifest_proof *)
  ("DROP_PROOF", CConsumeProof);                              (* take_proof; drop *)
  ("PUSH_TO_AUTH_ZONE", CConsumeProof);                       (* take_proof; LocalAuthZone::push *)
  ("POP_FROM_AUTH_ZONE", CCreateProofAZ);                     (* LocalAuthZone::pop; create_manifest_proof *)
  ("DROP_AUTH_ZONE_PROOFS", CDropMany false true true);       (* LocalAuthZone::drop_proofs *)
  ("DROP_AUTH_ZONE_REGULAR_PROOFS", CDropMany false false true);   (* drop_regular_proofs *)
  ("DROP_AUTH_ZONE_SIGNATURE_PROOFS", CDropMany false true false); (* drop_signature_proofs *)
  ("DROP_NAMED_PROOFS", CDropMany true false false);          (* proof_mapping.drain(..) *)
  ("DROP_ALL_PROOFS", CDropMany true true true);              (* proof_mapping.drain(..); drop_proofs *)
  ("CALL_FUNCTION", CInvoke);                                 (* resolve_package_address; transform(args) *)
  ("CALL_METHOD", CInvoke);                                   (* resolve_global_address; transform(args) *)
  ("CALL_ROYALTY_METHOD", CInvoke);
  ("CALL_METADATA_METHOD", CInvoke);
  ("CALL_ROLE_ASSIGNMENT_METHOD", CInvoke);
  ("CALL_DIRECT_VAULT_METHOD", CInvoke);                      (* transform(args) *)
  ("ALLOCATE_GLOBAL_ADDRESS", CAllocate);                     (* create_manifest_address_reservation; create_manifest_address *)
  ("YIELD_TO_PARENT", CInvoke);                               (* transform(args) *)
  ("YIELD_TO_CHILD", CInvoke);
  ("VERIFY_PARENT", CVerifyParent)
].
