(* Model/C26_RootPow.v — executable model of checked_powi / checked_sqrt / checked_cbrt /
   checked_nth_root of Decimal and PreciseDecimal (decimal.rs, precise_decimal.rs), generic in the
   format.  Integer roots of bnum (`sqrt`, `cbrt`) and num-bigint (`cbrt`, `nth_root`) are modelled by
   the floor root (Z.sqrt / Lib.DecCore.iroot), with the sign handling of those libraries (root of the
   absolute value, negated): an assumption named in the trusted base and exercised by the
   correspondence.  No proofs. *)
From Coq Require Import ZArith List Bool.
Import ListNotations.
Require Import RV.Lib.DecCore RV.Model.C25_Round RV.Model.C24_Dec.
Open Scope Z_scope.

Definition I64 := SI 64.
Definition I64_MIN : Z := - 2 ^ 63.
Definition I64_MAX : Z := 2 ^ 63 - 1.

(* checked_powi (exponentiation by squaring, recursive).  `fuel` bounds the recursion depth; 66 is
   enough for every i64 exponent (theorem C26_powi_total). *)
Fixpoint powi_go (fuel : nat) (f : fmt) (x exp : Z) : res Z :=
  match fuel with
  | O => Err EFuel
  | S k =>
    let* one_w := from_bnum (fty f) (wty f) (one f) in     (* I256::from(Self::ONE.0) *)
    let* base_w := from_bnum (fty f) (wty f) x in          (* I256::from(self.0) *)
    if exp <? 0 then
      let* oo := pmul (wty f) one_w one_w in               (* one_256 * one_256 *)
      let* q := cdiv (wty f) oo base_w in                  (* .checked_div(base_256)? *)
      let* d := to_none (try_from_bnum (wty f) (fty f) q) in   (* I192::try_from(..).ok()? *)
      let* e := cmul I64 exp (-1) in                       (* mul(exp, -1)? *)
      powi_go k f d e
    else if exp =? 0 then Ok (one f)
    else if exp =? 1 then Ok x
    else if Z.rem exp 2 =? 0 then
      let* sq := cmul (wty f) base_w base_w in             (* base.checked_mul(base)? *)
      let* q := pdiv (wty f) sq one_w in                   (* / one_256 *)
      let* d := to_none (try_from_bnum (wty f) (fty f) q) in
      let* e := cdiv I64 exp 2 in                          (* div(exp, 2)? *)
      powi_go k f d e
    else
      let* sq := cmul (wty f) base_w base_w in
      let* q := pdiv (wty f) sq one_w in
      let* d := to_none (try_from_bnum (wty f) (fty f) q) in
      let* e1 := csub I64 exp 1 in                         (* sub(exp, 1)? *)
      let* e := cdiv I64 e1 2 in
      let* b := powi_go k f d e in                         (* sub_dec.checked_powi(exp)? *)
      dec_mul f x b                                        (* self.checked_mul(b) *)
  end.
Definition powi_fuel : nat := 66.
Definition dec_powi (f : fmt) (x exp : Z) : res Z := powi_go powi_fuel f x exp.

(* checked_sqrt *)
Definition dec_sqrt (f : fmt) (x : Z) : res Z :=
  if x <? 0 then Err ENone else
  if x =? 0 then Ok 0 else
  let* xw := from_bnum (fty f) (wty f) x in
  let* ow := from_bnum (fty f) (wty f) (one f) in
  let* n := pmul (wty f) xw ow in                          (* self_256 * I256::from(ONE) *)
  to_none (try_from_bnum (wty f) (fty f) (Z.sqrt n)).      (* I192::try_from(n.sqrt()).ok()? *)

(* checked_cbrt: Decimal goes through I320, PreciseDecimal through BigInt.
   `rt n y` is the integer root function (troot in the model proper; see root_hint in Lib/DecCore). *)
Definition dec_cbrt_with (rt : Z -> Z -> Z) (f : fmt) (x : Z) : res Z :=
  if x =? 0 then Ok 0 else
  match cbrt_bits f with
  | Some c =>
      let* xc := from_bnum (fty f) (SI c) x in
      let* oc := from_bnum (fty f) (SI c) (one f) in
      let* o2 := ppow (SI c) oc 2 in
      let* n := pmul (SI c) xc o2 in
      to_none (try_from_bnum (SI c) (fty f) (rt 3 n))
  | None =>
      to_none (try_from_bigint (fty f) (rt 3 (x * one f ^ 2)))
  end.
Definition dec_cbrt := dec_cbrt_with troot.

(* checked_nth_root (n is a u32); the final `.unwrap()` is a potential panic *)
Definition dec_nth_root_with (rt : Z -> Z -> Z) (f : fmt) (x n : Z) : res Z :=
  if ((x <? 0) && Z.even n) || (n =? 0) then Err ENone
  else if n =? 1 then Ok x
  else if x =? 0 then Ok 0
  else unwrap (try_from_bigint (fty f) (rt n (x * one f ^ (n - 1)))).
Definition dec_nth_root := dec_nth_root_with troot.

(* ---------------------------------------------------------------------------------------------- *)
(* specification notions *)

(* r is the n-th root of y truncated toward zero *)
Definition TruncRoot (n y r : Z) : Prop :=
  Z.abs r ^ n <= Z.abs y < (Z.abs r + 1) ^ n /\ (0 <= y -> 0 <= r) /\ (y <= 0 -> r <= 0).

(* q is the exact value of (x/ONE)^e in subunits: x^e / ONE^(e-1) for e >= 1, 1 for e = 0,
   ONE^(|e|+1) / x^|e| for e < 0 (x <> 0) *)
Definition ExactPow (f : fmt) (x e q : Z) : Prop :=
  (1 <= e /\ q * one f ^ (e - 1) = x ^ e) \/ (e = 0 /\ q = one f) \/
  (e < 0 /\ x <> 0 /\ q * x ^ (- e) = one f ^ (- e + 1)).

(* the known finding: exp = i64::MIN with base 1 or -1 *)
Definition KnownPowi (f : fmt) (x exp : Z) : Prop := exp = I64_MIN /\ (x = one f \/ x = - one f).

Inductive rpop := PPowi (x e : Z) | PSqrt (x : Z) | PCbrt (x : Z) | PNthRoot (x n : Z).
Definition run_rp_with (rt : Z -> Z -> Z) (f : fmt) (o : rpop) : res Z :=
  match o with
  | PPowi x e => dec_powi f x e
  | PSqrt x => dec_sqrt f x
  | PCbrt x => dec_cbrt_with rt f x
  | PNthRoot x n => dec_nth_root_with rt f x n
  end.
Definition run_rp := run_rp_with troot.
