(* C29 — executable model of radix-common/src/time/{utc_date_time.rs, instant.rs}.
   Model only: no proofs here.

   Code modelled (as written, same order of checks, same truncating `/` and `%`):
     UtcDateTime::{new, from_instant, to_instant, num_leap_years_up_to_exclusive, is_leap_year,
                   add_days, add_hours, add_minutes, add_seconds}
     Instant::{add_days, add_hours, add_minutes, add_seconds}   (checked_mul / checked_add on i64)
     impl Display for UtcDateTime  ("{:04}-{:02}-{:02}T{:02}:{:02}:{:02}Z")
     impl FromStr for UtcDateTime  (AFTER the `fix:` commit: `s.is_ascii()` is checked first; the
        char-count test and the byte-index slices are still modelled separately — a slice whose
        end points are not on a char boundary is `Panic` — so "never panics" is a theorem about
        the mixture, not an artefact)
     core::num  <u32|u8>::from_str  (optional leading '+', digits, overflow = error)

   Conventions: integers are Z. i64 / u32 / u8 overflow (the harness and the test profile build
   with overflow checks), `expect`, slice indexing out of bounds are the explicit outcome `Panic`.
   A `UtcDateTime` value is a record of six Z (fields are u32,u8,u8,u8,u8,u8 in the code: the
   functions below are meaningful for field values in those ranges).  Strings are lists of bytes
   (Z, 0..255) that are valid UTF-8 (guaranteed by `&str`). *)
From Coq Require Import List ZArith Bool.
Import ListNotations.
Open Scope Z_scope.

(* ---------------------------------------------------------------------------------------------- *)
(* outcomes *)

Inductive dt_error :=
  InvalidYear | InvalidMonth | InvalidDayOfMonth | InvalidHour | InvalidMinute | InvalidSecond
| InstantIsOutOfRange.

Inductive parse_error := InvalidFormat | DateTimeError (e : dt_error).

Inductive res (E A : Type) : Type := Ok (a : A) | Err (e : E) | Panic.
Arguments Ok {E A} a.
Arguments Err {E A} e.
Arguments Panic {E A}.

Definition bind {E A B} (r : res E A) (k : A -> res E B) : res E B :=
  match r with Ok a => k a | Err e => Err e | Panic => Panic end.
Notation "x <- r ;; k" := (bind r (fun x => k)) (at level 61, r at next level, right associativity).

Record dt := mkdt { year : Z; month : Z; day : Z; hour : Z; minute : Z; second : Z }.

(* ---------------------------------------------------------------------------------------------- *)
(* machine integer ranges *)

Definition I64_MIN : Z := -9223372036854775808.
Definition I64_MAX : Z := 9223372036854775807.
Definition U32_MAX : Z := 4294967295.
Definition U8_MAX : Z := 255.
Definition in_i64 (z : Z) : bool := (I64_MIN <=? z) && (z <=? I64_MAX).
Definition in_u32 (z : Z) : bool := (0 <=? z) && (z <=? U32_MAX).
Definition in_u8 (z : Z) : bool := (0 <=? z) && (z <=? U8_MAX).

(* the value of a checked i64 / u32 / u8 operation: Panic when the mathematical result is out of range *)
Definition i64 {E} (z : Z) : res E Z := if in_i64 z then Ok z else Panic.
Definition u32 {E} (z : Z) : res E Z := if in_u32 z then Ok z else Panic.
Definition u8 {E} (z : Z) : res E Z := if in_u8 z then Ok z else Panic.

(* ---------------------------------------------------------------------------------------------- *)
(* constants of the code *)

Definition SECONDS_IN_A_MINUTE : Z := 60.
Definition SECONDS_IN_AN_HOUR : Z := 3600.
Definition SECONDS_IN_A_DAY : Z := 86400.
Definition UNIX_EPOCH_YEAR : Z := 1970.
Definition SECONDS_IN_A_NON_LEAP_YEAR : Z := 365 * 24 * 60 * 60.
Definition SECONDS_IN_A_LEAP_YEAR : Z := 366 * 24 * 60 * 60.
Definition DAYS_PER_4Y : Z := 365 * 4 + 1.
Definition DAYS_PER_100Y : Z := 365 * 100 + 24.
Definition DAYS_PER_400Y : Z := 365 * 400 + 97.
Definition LEAP_YEAR_DAYS_IN_MONTHS : list Z := [31; 29; 31; 30; 31; 30; 31; 31; 30; 31; 30; 31].
Definition SHIFT_FROM_UNIX_TIME_TO_MARCH_Y2K : Z := 946684800 + 86400 * (31 + 29).
Definition MIN_SUPPORTED_TIMESTAMP : Z := -62135596800.
Definition MAX_SUPPORTED_TIMESTAMP : Z := 135536014634284799.

(* array indexing: None = index out of bounds (a panic) *)
Definition idx (l : list Z) (i : Z) : option Z :=
  if i <? 0 then None else nth_error l (Z.to_nat i).

(* ---------------------------------------------------------------------------------------------- *)
(* UtcDateTime::is_leap_year, num_leap_years_up_to_exclusive *)

Definition is_leap_year (y : Z) : bool :=
  (y mod 4 =? 0) && (negb (y mod 100 =? 0) || (y mod 400 =? 0)).

(* fn num_leap_years_up_to_exclusive(year: u32) -> u32 { let prev = year - 1; prev/4 - prev/100 + prev/400 } *)
Definition num_leap_years_up_to_exclusive {E} (y : Z) : res E Z :=
  prev <- u32 (y - 1) ;;
  a <- u32 (prev / 4 - prev / 100) ;;
  u32 (a + prev / 400).

(* ---------------------------------------------------------------------------------------------- *)
(* UtcDateTime::new *)

Definition new (y m d h mi s : Z) : res dt_error dt :=
  if y =? 0 then Err InvalidYear else
  if negb ((1 <=? m) && (m <=? 12)) then Err InvalidMonth else
  match idx LEAP_YEAR_DAYS_IN_MONTHS (m - 1) with
  | None => Panic
  | Some dim =>
    if (d <? 1) || (dim <? d) || (negb (is_leap_year y) && (m =? 2) && (28 <? d))
    then Err InvalidDayOfMonth else
    if 23 <? h then Err InvalidHour else
    if 59 <? mi then Err InvalidMinute else
    if 59 <? s then Err InvalidSecond else
    Ok (mkdt y m d h mi s)
  end.

(* ---------------------------------------------------------------------------------------------- *)
(* UtcDateTime::from_instant *)

(* `let mut q = a / b; let mut r = a % b; if r < 0 { r += b; q -= 1 }`  (Rust `/`,`%` truncate) *)
Definition quot_rem_fix (a b : Z) : Z * Z :=
  let q := Z.quot a b in
  let r := Z.rem a b in
  if r <? 0 then (q - 1, r + b) else (q, r).

(* `[T]::rotate_left(k)` *)
Definition rotate_left {A} (k : nat) (l : list A) : list A := skipn k l ++ firstn k l.

(* `while tbl[month] as i64 <= remaining_days { remaining_days -= tbl[month]; month += 1 }`
   the list argument is the part of the table from index `month` on; None = index out of bounds *)
Fixpoint month_loop (tbl : list Z) (month rd : Z) : option (Z * Z) :=
  match tbl with
  | [] => None
  | x :: tl => if x <=? rd then month_loop tl (month + 1) (rd - x) else Some (month, rd)
  end.

Definition from_instant (t : Z) : res dt_error dt :=
  if (t <? MIN_SUPPORTED_TIMESTAMP) || (MAX_SUPPORTED_TIMESTAMP <? t) then Err InstantIsOutOfRange else
  secs_since_march_y2k <- i64 (t - SHIFT_FROM_UNIX_TIME_TO_MARCH_Y2K) ;;
  let '(days_since_march_y2k, remaining_secs) := quot_rem_fix secs_since_march_y2k SECONDS_IN_A_DAY in
  let '(num_400_year_cycles, remaining_days) := quot_rem_fix days_since_march_y2k DAYS_PER_400Y in
  let n100 := Z.quot remaining_days DAYS_PER_100Y in
  let num_100_year_cycles := if n100 =? 4 then n100 - 1 else n100 in
  let remaining_days := remaining_days - num_100_year_cycles * DAYS_PER_100Y in
  let n4 := Z.quot remaining_days DAYS_PER_4Y in
  let num_4_year_cycles := if n4 =? 25 then n4 - 1 else n4 in
  let remaining_days := remaining_days - num_4_year_cycles * DAYS_PER_4Y in
  let ny := Z.quot remaining_days 365 in
  let remaining_years := if ny =? 4 then ny - 1 else ny in
  let remaining_days := remaining_days - remaining_years * 365 in
  year <- i64 (remaining_years + 4 * num_4_year_cycles + 100 * num_100_year_cycles
               + 400 * num_400_year_cycles + 2000) ;;
  match month_loop (rotate_left 2 LEAP_YEAR_DAYS_IN_MONTHS) 0 remaining_days with
  | None => Panic
  | Some (month, remaining_days) =>
    let month := month + 2 in
    let '(month, year) := if 12 <=? month then (month - 12, year + 1) else (month, year) in
    let month := month + 1 in
    let day_of_month := remaining_days + 1 in
    let hour := Z.quot remaining_secs SECONDS_IN_AN_HOUR in
    let minute := Z.rem (Z.quot remaining_secs SECONDS_IN_A_MINUTE) SECONDS_IN_A_MINUTE in
    let second := Z.rem remaining_secs SECONDS_IN_A_MINUTE in
    y <- u32 year ;; mo <- u8 month ;; d <- u8 day_of_month ;;
    h <- u8 hour ;; mi <- u8 minute ;; s <- u8 second ;;
    Ok (mkdt y mo d h mi s)
  end.

(* ---------------------------------------------------------------------------------------------- *)
(* UtcDateTime::to_instant *)

(* `for n in 0..self.month - 1 { acc += TBL[n] * DAY; if !leap && n == 1 { acc -= DAY } }`
   iterating n = from, from+1, ... (cnt iterations); None = index out of bounds *)
Fixpoint months_fwd (leap : bool) (cnt : nat) (n acc : Z) : option Z :=
  match cnt with
  | O => Some acc
  | S c =>
    match idx LEAP_YEAR_DAYS_IN_MONTHS n with
    | None => None
    | Some dm =>
      let acc := acc + dm * SECONDS_IN_A_DAY in
      let acc := if negb leap && (n =? 1) then acc - SECONDS_IN_A_DAY else acc in
      months_fwd leap c (n + 1) acc
    end
  end.

(* `let mut curr = 11; while curr > target { acc += TBL[curr] * DAY; if !leap && curr == 1 { acc -= DAY }; curr -= 1 }`
   returns (acc, final curr); fuel = 12 suffices since curr starts at 11 and target >= 0 *)
Fixpoint months_bwd (fuel : nat) (leap : bool) (curr target acc : Z) : option (Z * Z) :=
  if curr >? target then
    match fuel with
    | O => None
    | S f =>
      match idx LEAP_YEAR_DAYS_IN_MONTHS curr with
      | None => None
      | Some dm =>
        let acc := acc + dm * SECONDS_IN_A_DAY in
        let acc := if negb leap && (curr =? 1) then acc - SECONDS_IN_A_DAY else acc in
        if curr <? 1 then None (* u8 underflow of curr -= 1 *) else months_bwd f leap (curr - 1) target acc
      end
    end
  else Some (acc, curr).

Definition to_instant {E} (d : dt) : res E Z :=
  let is_leap := is_leap_year (year d) in
  if UNIX_EPOCH_YEAR <=? year d then
    l1 <- num_leap_years_up_to_exclusive (year d) ;;
    e1 <- u32 (UNIX_EPOCH_YEAR + 1) ;;
    l0 <- num_leap_years_up_to_exclusive e1 ;;
    nleap <- u32 (l1 - l0) ;;
    dy <- u32 (year d - UNIX_EPOCH_YEAR) ;;
    nnon <- i64 (dy - nleap) ;;
    a <- i64 (nnon * SECONDS_IN_A_NON_LEAP_YEAR) ;;
    b <- i64 (nleap * SECONDS_IN_A_LEAP_YEAR) ;;
    secs_year <- i64 (a + b) ;;
    m1 <- u8 (month d - 1) ;;
    match months_fwd is_leap (Z.to_nat m1) 0 0 with
    | None => Panic
    | Some secs_months =>
      d1 <- u8 (day d - 1) ;;
      total <- i64 (secs_year + secs_months + d1 * SECONDS_IN_A_DAY + hour d * SECONDS_IN_AN_HOUR
                    + minute d * SECONDS_IN_A_MINUTE + second d) ;;
      Ok total
    end
  else
    l0 <- num_leap_years_up_to_exclusive UNIX_EPOCH_YEAR ;;
    y1 <- u32 (year d + 1) ;;
    l1 <- num_leap_years_up_to_exclusive y1 ;;
    nleap <- u32 (l0 - l1) ;;
    dy0 <- u32 (UNIX_EPOCH_YEAR - year d) ;;
    dy <- u32 (dy0 - 1) ;;
    nnon <- i64 (dy - nleap) ;;
    a <- i64 (nnon * SECONDS_IN_A_NON_LEAP_YEAR) ;;
    b <- i64 (nleap * SECONDS_IN_A_LEAP_YEAR) ;;
    secs_year <- i64 (a + b) ;;
    m1 <- u8 (month d - 1) ;;
    match months_bwd 12 is_leap 11 m1 0 with
    | None => Panic
    | Some (secs_months, curr_month) =>
      match idx LEAP_YEAR_DAYS_IN_MONTHS (month d - 1) with
      | None => Panic
      | Some dim =>
        let days_in_month := if negb is_leap && (curr_month =? 1) then dim - 1 else dim in
        let remaining_days_in_month := days_in_month - day d in
        rh <- u8 (23 - hour d) ;;
        rm <- u8 (59 - minute d) ;;
        rs <- u8 (59 - second d) ;;
        total <- i64 (secs_year + secs_months + remaining_days_in_month * SECONDS_IN_A_DAY
                      + rh * SECONDS_IN_AN_HOUR + rm * SECONDS_IN_A_MINUTE + rs) ;;
        i64 (- total - 1)
      end
    end.

(* ---------------------------------------------------------------------------------------------- *)
(* Instant::add_* and UtcDateTime::add_*  (unit: 86400 days, 3600 hours, 60 minutes, 1 seconds) *)

Definition checked (z : Z) : option Z := if in_i64 z then Some z else None.

(* Instant::add_days/hours/minutes: n.checked_mul(UNIT).and_then(|x| t.checked_add(x));
   Instant::add_seconds: t.checked_add(n)   (unit = 1: the multiplication is absent, and n*1 = n
   is always in range, so the same expression describes it) *)
Definition instant_add (unit t n : Z) : option Z :=
  match checked (n * unit) with
  | None => None
  | Some x => checked (t + x)
  end.

(* self.to_instant().add_X(n).and_then(|i| Self::from_instant(&i).ok()) *)
Definition dt_add (unit : Z) (d : dt) (n : Z) : res dt_error (option dt) :=
  t <- to_instant d ;;
  match instant_add unit t n with
  | None => Ok None
  | Some t' =>
    match from_instant t' with
    | Ok d' => Ok (Some d')
    | Err _ => Ok None
    | Panic => Panic
    end
  end.

(* derived `Ord` on the struct: lexicographic on the fields in declaration order *)
Definition dt_key (d : dt) : list Z := [year d; month d; day d; hour d; minute d; second d].
Fixpoint lex_compare (a b : list Z) : comparison :=
  match a, b with
  | [], [] => Eq
  | [], _ => Lt
  | _, [] => Gt
  | x :: a', y :: b' => match x ?= y with Eq => lex_compare a' b' | c => c end
  end.
Definition dt_compare (a b : dt) : comparison := lex_compare (dt_key a) (dt_key b).

(* ---------------------------------------------------------------------------------------------- *)
(* Display: "{:04}-{:02}-{:02}T{:02}:{:02}:{:02}Z" *)

(* decimal digits, least significant first; fuel 20 covers every u64 *)
Fixpoint digits_rev (fuel : nat) (n : Z) : list Z :=
  match fuel with
  | O => []
  | S f => if n <? 10 then [48 + n] else (48 + n mod 10) :: digits_rev f (n / 10)
  end.
Definition dec_digits (n : Z) : list Z := rev (digits_rev 20 n).
(* `{:0w}`: left-pad with '0' to at least w characters *)
Definition pad0 (w : nat) (l : list Z) : list Z := repeat 48 (w - length l) ++ l.

Definition print (d : dt) : list Z :=
  pad0 4 (dec_digits (year d)) ++ [45] ++ pad0 2 (dec_digits (month d)) ++ [45]
  ++ pad0 2 (dec_digits (day d)) ++ [84] ++ pad0 2 (dec_digits (hour d)) ++ [58]
  ++ pad0 2 (dec_digits (minute d)) ++ [58] ++ pad0 2 (dec_digits (second d)) ++ [90].

(* ---------------------------------------------------------------------------------------------- *)
(* FromStr *)

(* UTF-8 continuation byte 10xxxxxx *)
Definition is_cont (b : Z) : bool := (128 <=? b) && (b <? 192).
Definition is_ascii (b : Z) : bool := b <? 128.

(* `s.chars()`: each char is represented by its bytes (lead byte followed by its continuation
   bytes); for valid UTF-8 this is exactly the sequence of encoded code points *)
Fixpoint chars_aux (s : list Z) : list Z * list (list Z) :=
  match s with
  | [] => ([], [])
  | b :: tl =>
    let '(conts, cs) := chars_aux tl in
    if is_cont b then (b :: conts, cs) else ([], (b :: conts) :: cs)
  end.
Definition chars (s : list Z) : list (list Z) := snd (chars_aux s).

(* chars[k] == c  for an ASCII c *)
Definition char_is (cs : list (list Z)) (k : nat) (c : Z) : bool :=
  match nth_error cs k with
  | Some [b] => b =? c
  | _ => false
  end.

(* str::is_char_boundary *)
Definition is_char_boundary (s : list Z) (i : nat) : bool :=
  match i with
  | O => true
  | _ => match nth_error s i with
         | Some b => negb (is_cont b)
         | None => Nat.eqb i (length s)
         end
  end.

(* `&s[a..b]`: panics unless a <= b <= len and both are char boundaries *)
Definition slice {E} (s : list Z) (a b : nat) : res E (list Z) :=
  if Nat.leb a b && Nat.leb b (length s) && is_char_boundary s a && is_char_boundary s b
  then Ok (firstn (b - a) (skipn a s)) else Panic.

(* core::num from_str for an unsigned type with maximum `max`: None = ParseIntError *)
Fixpoint parse_digits (max acc : Z) (l : list Z) : option Z :=
  match l with
  | [] => Some acc
  | c :: tl =>
    if (48 <=? c) && (c <=? 57) then
      let acc' := acc * 10 + (c - 48) in
      if max <? acc' then None else parse_digits max acc' tl
    else None
  end.
Definition parse_uint (max : Z) (l : list Z) : option Z :=
  match l with
  | [] => None
  | [c] => if (c =? 43) || (c =? 45) then None else parse_digits max 0 l
  | c :: tl => if c =? 43 then parse_digits max 0 tl else parse_digits max 0 l
  end.

Definition parse_field (max : Z) (r : res parse_error (list Z)) : res parse_error Z :=
  l <- r ;; match parse_uint max l with Some v => Ok v | None => Err InvalidFormat end.

Definition from_str (s : list Z) : res parse_error dt :=
  let cs := chars s in
  if forallb is_ascii s
     && Nat.eqb (length cs) 20
     && char_is cs 4 45 && char_is cs 7 45 && char_is cs 10 84
     && char_is cs 13 58 && char_is cs 16 58 && char_is cs 19 90
  then
    y <- parse_field U32_MAX (slice s 0 4) ;;
    m <- parse_field U8_MAX (slice s 5 7) ;;
    d <- parse_field U8_MAX (slice s 8 10) ;;
    h <- parse_field U8_MAX (slice s 11 13) ;;
    mi <- parse_field U8_MAX (slice s 14 16) ;;
    sec <- parse_field U8_MAX (slice s 17 19) ;;
    match new y m d h mi sec with
    | Ok v => Ok v
    | Err e => Err (DateTimeError e)
    | Panic => Panic
    end
  else Err InvalidFormat.

(* the code before the fix (kept to state the refuted variant: the same function without the
   `is_ascii` conjunct) *)
Definition from_str_unfixed (s : list Z) : res parse_error dt :=
  let cs := chars s in
  if Nat.eqb (length cs) 20
     && char_is cs 4 45 && char_is cs 7 45 && char_is cs 10 84
     && char_is cs 13 58 && char_is cs 16 58 && char_is cs 19 90
  then
    y <- parse_field U32_MAX (slice s 0 4) ;;
    m <- parse_field U8_MAX (slice s 5 7) ;;
    d <- parse_field U8_MAX (slice s 8 10) ;;
    h <- parse_field U8_MAX (slice s 11 13) ;;
    mi <- parse_field U8_MAX (slice s 14 16) ;;
    sec <- parse_field U8_MAX (slice s 17 19) ;;
    match new y m d h mi sec with
    | Ok v => Ok v
    | Err e => Err (DateTimeError e)
    | Panic => Panic
    end
  else Err InvalidFormat.

(* ---------------------------------------------------------------------------------------------- *)
(* Specification: the proleptic Gregorian calendar (no reference to the algorithms above).

   A year has 365 days, or 366 if divisible by 4 and (not by 100 or by 400); months have the
   usual lengths; days are numbered consecutively with 1970-01-01 = day 0. *)

Definition greg_leap (y : Z) : bool :=
  (y mod 4 =? 0) && (negb (y mod 100 =? 0) || (y mod 400 =? 0)).
Definition year_len (y : Z) : Z := if greg_leap y then 366 else 365.
Definition month_len (leap : bool) (m : Z) : Z :=
  match m with
  | 1 => 31 | 2 => if leap then 29 else 28 | 3 => 31 | 4 => 30 | 5 => 31 | 6 => 30
  | 7 => 31 | 8 => 31 | 9 => 30 | 10 => 31 | 11 => 30 | 12 => 31 | _ => 0
  end.
(* days of the months 1 .. m-1 *)
Definition days_before_month (leap : bool) (m : Z) : Z :=
  fold_right Z.add 0 (map (fun k => month_len leap (Z.of_nat k)) (seq 1 (Z.to_nat (m - 1)))).
(* days of the years 1 .. y-1 in closed form (C29_spec_year_step shows it is the running sum of year_len) *)
Definition days_before_year (y : Z) : Z :=
  365 * (y - 1) + (y - 1) / 4 - (y - 1) / 100 + (y - 1) / 400.
Definition DAYS_0001_TO_1970 : Z := 719162.
(* day number of y-m-d relative to 1970-01-01 *)
Definition days_from_civil (y m d : Z) : Z :=
  days_before_year y + days_before_month (greg_leap y) m + (d - 1) - DAYS_0001_TO_1970.
Definition valid_dt (x : dt) : Prop :=
  1 <= year x <= U32_MAX /\ 1 <= month x <= 12 /\ 1 <= day x <= month_len (greg_leap (year x)) (month x)
  /\ 0 <= hour x <= 23 /\ 0 <= minute x <= 59 /\ 0 <= second x <= 59.
Definition valid_dtb (x : dt) : bool :=
  (1 <=? year x) && (year x <=? U32_MAX) && (1 <=? month x) && (month x <=? 12) && (1 <=? day x)
  && (day x <=? month_len (greg_leap (year x)) (month x))
  && (0 <=? hour x) && (hour x <=? 23) && (0 <=? minute x) && (minute x <=? 59)
  && (0 <=? second x) && (second x <=? 59).
(* seconds since 1970-01-01T00:00:00Z of a calendar date-time *)
Definition greg_seconds (x : dt) : Z :=
  days_from_civil (year x) (month x) (day x) * 86400 + hour x * 3600 + minute x * 60 + second x.

(* the calendar successor of a date (used to characterise the specification) *)
Definition next_date (y m d : Z) : Z * Z * Z :=
  if d <? month_len (greg_leap y) m then (y, m, d + 1)
  else if m <? 12 then (y, m + 1, 1) else (y + 1, 1, 1).

(* the textbook "civil from days" algorithm (H. Hinnant, chrono-compatible low-level date
   algorithms), a second, independent description of the calendar: day number -> (y, m, d) *)
Definition civil_from_days (z0 : Z) : Z * Z * Z :=
  let z := z0 + 719468 in
  let era := z / 146097 in
  let doe := z - era * 146097 in
  let yoe := (doe - doe / 1460 + doe / 36524 - doe / 146096) / 365 in
  let y := yoe + era * 400 in
  let doy := doe - (365 * yoe + yoe / 4 - yoe / 100) in
  let mp := (5 * doy + 2) / 153 in
  let d := doy - (153 * mp + 2) / 5 + 1 in
  let m := if mp <? 10 then mp + 3 else mp - 9 in
  (if m <=? 2 then y + 1 else y, m, d).
