(* C47 — host access to WASM linear memory (radix-engine/src/vm/wasm/wasmi.rs: read_memory,
   write_memory, read_slice, consume_buffer and the host functions built on them) and the buffer
   table of ScryptoRuntime (radix-engine/src/vm/wasm_runtime/scrypto_runtime.rs: allocate_buffer,
   buffer_consume).  Executable model only, no proofs.

   Conventions: a linear memory is its size in bytes together with a total byte-valued function
   (only indices < msize are meaningful).  `w` is the width of `usize` in bits: the build target of
   the harness and of the node is 64-bit (w = 64); the functions are written for any w so that the
   dependence on the target is explicit.  Arithmetic is the code's: `a + b` on usize is a checked
   addition (the harness builds with overflow checks ON) whose overflow is the outcome `Panic`;
   slice indexing out of range is `Panic`. *)
From Coq Require Import List NArith Bool.
Import ListNotations.
Open Scope N_scope.

Inductive err : Type :=
| MemoryAccessError
| BufferNotFound (id : N)
| TooManyBuffers.

Inductive res (A : Type) : Type :=
| Ok (a : A)
| Err (e : err)
| Panic.
Arguments Ok {A} a.
Arguments Err {A} e.
Arguments Panic {A}.

Definition U32_MAX : N := 4294967295.
Definition USIZE_BITS : N := 64.          (* x86_64 / aarch64 build targets *)

(* `x as usize` for a u32 or usize value x *)
Definition as_usize (w x : N) : N := x mod 2 ^ w.
(* usize `a + b` with overflow checks on: None = arithmetic-overflow panic *)
Definition uadd (w a b : N) : option N := if a + b <? 2 ^ w then Some (a + b) else None.

Record mem : Type := { msize : N; mget : N -> N }.

Fixpoint range_from (p : N) (n : nat) : list N :=
  match n with O => [] | S k => p :: range_from (p + 1) k end.
(* data[s..e].to_vec() for s <= e <= msize *)
Definition slice (m : mem) (s e : N) : list N := map (mget m) (range_from s (N.to_nat (e - s))).

(* fn read_memory(store, memory, ptr: u32, len: u32) -> Result<Vec<u8>, _>
     let ptr = ptr as usize; let len = len as usize;
     if ptr > data.len() || ptr + len > data.len() { return Err(MemoryAccessError) }
     Ok(data[ptr..ptr + len].to_vec())                                                  *)
Definition read_memory_w (w : N) (m : mem) (ptr len : N) : res (list N) :=
  let n := msize m in
  let p := as_usize w ptr in
  let l := as_usize w len in
  if n <? p then Err MemoryAccessError
  else match uadd w p l with
       | None => Panic
       | Some e =>
         if n <? e then Err MemoryAccessError
         else match uadd w p l with          (* second `ptr + len` in the slice expression *)
              | None => Panic
              | Some e2 => if (p <=? e2) && (e2 <=? n) then Ok (slice m p e2) else Panic
              end
       end.

(* fn read_slice(store, memory, v: Slice): ptr = (v >> 32) as u32, len = (v & 0xffffffff) as u32 *)
Definition slice_ptr (v : N) : N := (v / 4294967296) mod 4294967296.
Definition slice_len (v : N) : N := v mod 4294967296.
Definition read_slice_w (w : N) (m : mem) (v : N) : res (list N) :=
  read_memory_w w m (slice_ptr v) (slice_len v).

(* memory after copying `data` to offset `off` *)
Definition mem_store (m : mem) (off : N) (data : list N) : mem :=
  {| msize := msize m;
     mget := fun i => if (off <=? i) && (i <? off + N.of_nat (length data))
                      then nth (N.to_nat (i - off)) data 0 else mget m i |}.

(* wasmi 0.39 MemoryEntity::write(offset, buffer):
     self.data_mut().get_mut(offset..(offset + len_buffer)).ok_or(OutOfBoundsAccess)?.copy_from_slice(buffer) *)
Definition wasmi_write_w (w : N) (m : mem) (off : N) (data : list N) : res unit * mem :=
  let dl := N.of_nat (length data) in
  match uadd w off dl with
  | None => (Panic, m)
  | Some e => if (off <=? e) && (e <=? msize m) then (Ok tt, mem_store m off data)
              else (Err MemoryAccessError, m)     (* map_err(|_| MemoryAccessError) *)
  end.

(* fn write_memory(store, memory, ptr: u32, data: &[u8]) -> Result<(), _>
     if ptr as usize > mem_data.len() || ptr as usize + data.len() > mem_data.len() { return Err(MemoryAccessError) }
     memory.write(ctx, ptr as usize, data).map_err(|_| MemoryAccessError)               *)
Definition write_memory_w (w : N) (m : mem) (ptr : N) (data : list N) : res unit * mem :=
  let n := msize m in
  let p := as_usize w ptr in
  let dl := N.of_nat (length data) in
  if n <? p then (Err MemoryAccessError, m)
  else match uadd w p dl with
       | None => (Panic, m)
       | Some e => if n <? e then (Err MemoryAccessError, m) else wasmi_write_w w m p data
       end.

(* A host function that takes buffers: `read_memory(.., p_i, l_i)?` for its (ptr,len) parameter pairs
   in order (the first failure returns), then the runtime is called with the vectors read. *)
Fixpoint host_reads_w (w : N) (m : mem) (args : list (N * N)) : res (list (list N)) :=
  match args with
  | [] => Ok []
  | (p, l) :: t =>
    match read_memory_w w m p l with
    | Ok b => match host_reads_w w m t with
              | Ok bs => Ok (b :: bs)
              | Err e => Err e
              | Panic => Panic
              end
    | Err e => Err e
    | Panic => Panic
    end
  end.

Definition read_memory := read_memory_w USIZE_BITS.
Definition read_slice := read_slice_w USIZE_BITS.
Definition write_memory := write_memory_w USIZE_BITS.
Definition host_reads := host_reads_w USIZE_BITS.

(* ---------------------------------------------------------------------------------------------
   Buffer table of ScryptoRuntime: `buffers: IndexMap<BufferId, Vec<u8>>`, `next_buffer_id: u32`. *)
Definition imap := list (N * list N).       (* insertion-ordered, keys unique by construction *)

Fixpoint im_find (id : N) (l : imap) : option (list N) :=
  match l with
  | [] => None
  | (k, d) :: t => if k =? id then Some d else im_find id t
  end.
(* IndexMap::insert: replace the value in place when the key is present, otherwise push *)
Fixpoint im_insert (id : N) (d : list N) (l : imap) : imap :=
  match l with
  | [] => [(id, d)]
  | (k, d0) :: t => if k =? id then (k, d) :: t else (k, d0) :: im_insert id d t
  end.
(* first entry with key id: (entries before, value, entries after) *)
Fixpoint im_split (id : N) (l : imap) : option (imap * list N * imap) :=
  match l with
  | [] => None
  | (k, d) :: t =>
    if k =? id then Some ([], d, t)
    else match im_split id t with
         | Some (pre, x, post) => Some ((k, d) :: pre, x, post)
         | None => None
         end
  end.
(* IndexMap::swap_remove: the removed slot is filled with the last entry *)
Definition swap_tail (pre post : imap) : imap :=
  match rev post with
  | [] => pre
  | lst :: rp => pre ++ lst :: rev rp
  end.
Definition im_swap_remove (id : N) (l : imap) : option (list N * imap) :=
  match im_split id l with
  | None => None
  | Some (pre, x, post) => Some (x, swap_tail pre post)
  end.

Record bufs : Type := { btab : imap; bnext : N; bmax : N }.
(* bmax = 32 for ScryptoVmVersion V1_0 / V1_1, 4 for V1_2 *)
Definition bufs_new (max : N) : bufs := {| btab := []; bnext := 0; bmax := max |}.

(* fn allocate_buffer(&mut self, buffer: Vec<u8>) -> Result<Buffer, _>
     assert!(buffer.len() <= 0xffffffff);
     if self.buffers.len() >= max_number_of_buffers { return Err(TooManyBuffers) }
     let id = self.next_buffer_id; let len = buffer.len();
     self.buffers.insert(id, buffer); self.next_buffer_id += 1;
     Ok(Buffer::new(id, len as u32))                                                     *)
Definition allocate_buffer (st : bufs) (data : list N) : res (N * N) * bufs :=
  let len := N.of_nat (length data) in
  if U32_MAX <? len then (Panic, st)
  else if bmax st <=? N.of_nat (length (btab st)) then (Err TooManyBuffers, st)
  else
    let id := bnext st in
    let tab' := im_insert id data (btab st) in
    if U32_MAX <? bnext st + 1 then (Panic, {| btab := tab'; bnext := bnext st; bmax := bmax st |})
    else (Ok (id, len mod 4294967296), {| btab := tab'; bnext := bnext st + 1; bmax := bmax st |}).

(* fn buffer_consume(&mut self, id) = self.buffers.swap_remove(&id).ok_or(BufferNotFound(id)) *)
Definition buffer_consume (st : bufs) (id : N) : res (list N) * bufs :=
  match im_swap_remove id (btab st) with
  | Some (d, tab') => (Ok d, {| btab := tab'; bnext := bnext st; bmax := bmax st |})
  | None => (Err (BufferNotFound id), st)
  end.

(* host function consume_buffer(caller, buffer_id, destination_ptr):
     match runtime.buffer_consume(buffer_id) { Ok(slice) => write_memory(.., destination_ptr, &slice), Err(e) => Err(e) } *)
Definition consume_buffer_w (w : N) (st : bufs) (m : mem) (id dest : N) : res unit * bufs * mem :=
  match buffer_consume st id with
  | (Ok d, st') => let '(r, m') := write_memory_w w m dest d in (r, st', m')
  | (Err e, st') => (Err e, st', m)
  | (Panic, st') => (Panic, st', m)
  end.
Definition consume_buffer := consume_buffer_w USIZE_BITS.

(* histories of the buffer table *)
Inductive bop : Type := BAlloc (data : list N) | BConsume (id : N).
Inductive bout : Type :=
| OAlloc (id len : N)
| OData (d : list N)
| OErr (e : err)
| OPanic.

Definition bstep (st : bufs) (o : bop) : bout * bufs :=
  match o with
  | BAlloc d => match allocate_buffer st d with
                | (Ok (id, len), st') => (OAlloc id len, st')
                | (Err e, st') => (OErr e, st')
                | (Panic, st') => (OPanic, st')
                end
  | BConsume id => match buffer_consume st id with
                   | (Ok d, st') => (OData d, st')
                   | (Err e, st') => (OErr e, st')
                   | (Panic, st') => (OPanic, st')
                   end
  end.
(* a panic ends the run (the process unwinds) *)
Fixpoint brun (st : bufs) (ops : list bop) : list bout :=
  match ops with
  | [] => []
  | o :: t => let '(out, st') := bstep st o in
              match out with OPanic => [OPanic] | _ => out :: brun st' t end
  end.
(* state after a panic-free history *)
Fixpoint bexec (st : bufs) (ops : list bop) : option bufs :=
  match ops with
  | [] => Some st
  | o :: t => let '(out, st') := bstep st o in
              match out with OPanic => None | _ => bexec st' t end
  end.

(* Abstract specification of the table: a plain association list id -> data of the live buffers,
   ids handed out consecutively, an id is live from its allocation to its first consumption. *)
Record spec : Type := { slive : list (N * list N); snext : N; smax : N }.
Definition spec_new (max : N) : spec := {| slive := []; snext := 0; smax := max |}.
Fixpoint assoc_remove (id : N) (l : list (N * list N)) : list (N * list N) :=
  match l with
  | [] => []
  | (k, d) :: t => if k =? id then assoc_remove id t else (k, d) :: assoc_remove id t
  end.
Definition spec_step (sp : spec) (o : bop) : bout * spec :=
  match o with
  | BAlloc d =>
    let len := N.of_nat (length d) in
    if U32_MAX <? len then (OPanic, sp)
    else if smax sp <=? N.of_nat (length (slive sp)) then (OErr TooManyBuffers, sp)
    else if U32_MAX <? snext sp + 1 then (OPanic, sp)
    else (OAlloc (snext sp) len, {| slive := (snext sp, d) :: slive sp; snext := snext sp + 1; smax := smax sp |})
  | BConsume id =>
    match im_find id (slive sp) with
    | Some d => (OData d, {| slive := assoc_remove id (slive sp); snext := snext sp; smax := smax sp |})
    | None => (OErr (BufferNotFound id), sp)
    end
  end.
Fixpoint spec_run (sp : spec) (ops : list bop) : list bout :=
  match ops with
  | [] => []
  | o :: t => let '(out, sp') := spec_step sp o in
              match out with OPanic => [OPanic] | _ => out :: spec_run sp' t end
  end.

(* ---------------------------------------------------------------------------------------------
   Return path of a host function that hands data back to WASM.
   radix-engine-interface types/wasm.rs: Buffer::new(id, len) = (id as u64) << 32 | (len as u64),
   Buffer::id() = (v >> 32) as u32, Buffer::len() = (v & 0xffffffff) as u32 (for u32 id and len the OR
   of the disjoint halves is the sum).  wasmi.rs: `runtime.<method>(vectors read).map(|buffer| buffer.0)`,
   scrypto_runtime.rs: every such method ends with `self.allocate_buffer(result)`. *)
Definition buffer_pack (id len : N) : N := id * 4294967296 + len.
Definition buffer_id (v : N) : N := (v / 4294967296) mod 4294967296.
Definition buffer_len (v : N) : N := v mod 4294967296.

(* `f` is what the runtime computes from the vectors read (hash, call result, ...) *)
Definition host_call_w (w : N) (st : bufs) (m : mem) (pairs : list (N * N))
           (f : list (list N) -> list N) : res N * bufs :=
  match host_reads_w w m pairs with
  | Ok bss =>
    match allocate_buffer st (f bss) with
    | (Ok (id, len), st') => (Ok (buffer_pack id len), st')
    | (Err e, st') => (Err e, st')
    | (Panic, st') => (Panic, st')
    end
  | Err e => (Err e, st)
  | Panic => (Panic, st)
  end.
Definition host_call := host_call_w USIZE_BITS.

(* what a WASM program does with the result: buffer_consume(Buffer::id(v), dest) *)
Definition call_then_consume_w (w : N) (st : bufs) (m : mem) (pairs : list (N * N))
           (f : list (list N) -> list N) (dest : N) : res N * bufs * mem :=
  match host_call_w w st m pairs f with
  | (Ok v, st') =>
    match consume_buffer_w w st' m (buffer_id v) dest with
    | (Ok _, st'', m') => (Ok v, st'', m')
    | (Err e, st'', m') => (Err e, st'', m')
    | (Panic, st'', m') => (Panic, st'', m')
    end
  | (Err e, st') => (Err e, st', m)
  | (Panic, st') => (Panic, st', m)
  end.
Definition call_then_consume := call_then_consume_w USIZE_BITS.

(* ---------------------------------------------------------------------------------------------
   Test memories and data used by the correspondence cases (deterministic patterns, so that case
   files do not have to carry 64 KiB pages). *)
Definition PAGE : N := 65536.
Definition pat_byte (s i : N) : N := (i * 167 + i / 251 + s) mod 256.
Definition pat_mem (pages s : N) : mem := {| msize := pages * PAGE; mget := pat_byte s |}.
Definition dat_byte (t j : N) : N := (j * 3 + j / 256 + t) mod 256.
Definition pat_data (t : N) (n : N) : list N := map (dat_byte t) (range_from 0 (N.to_nat n)).
