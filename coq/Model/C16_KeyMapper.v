(* C16 — executable model of radix-substate-store-interface/src/db_key_mapper.rs
   (SpreadPrefixKeyMapper and the provided methods of DatabaseKeyMapper).  Model only, no proofs.

   Code modelled (as written):
     SpreadPrefixKeyMapper::{to_hash_prefixed, from_hash_prefixed}            (private helpers)
     to_db_node_key / from_db_node_key, to_db_partition_num / from_db_partition_num,
     to_db_partition_key / from_db_partition_key,
     field_/map_/sorted_ to_db_sort_key and from_db_sort_key, to_db_sort_key (dispatch on the kind),
     radix_rust::copy_u8_array (length check, panics on mismatch).
   Abstractions:
     - the hash function is the section variable `H : bytes -> bytes` (radix_common::crypto::hash =
       Blake2b-256); the code uses only `hash(x).0[..20]`;
     - NodeId = [u8; 30] and the sort prefix [u8; 2] are byte lists; their fixed length is a
       hypothesis of the theorems (type invariant of the Rust arrays) and is enforced on the way
       back by `copy_u8_array` exactly as in the code;
     - a Rust panic (slice index out of range, copy_u8_array length mismatch, `[0]` on an empty
       vector) is the result `None` (= Panic); `Some x` is a normal return. *)
From Coq Require Import List Arith NArith Bool.
Import ListNotations.
Require Import RV.Lib.Bytes.
Open Scope N_scope.

Definition HASHED_PREFIX_LENGTH : nat := 20.
Definition NODE_ID_LENGTH : nat := 30.
Definition HASH_LENGTH : nat := 32.

Inductive substate_key :=
| KField (f : N)                      (* SubstateKey::Field(u8) *)
| KMap (k : bytes)                    (* SubstateKey::Map(Vec<u8>) *)
| KSorted (p : bytes) (k : bytes).    (* SubstateKey::Sorted(([u8; 2], Vec<u8>)) *)

Inductive key_kind := KindField | KindMap | KindSorted.

(* radix_rust::copy_u8_array::<N> *)
Definition copy_u8_array (n : nat) (s : bytes) : option bytes :=
  if (length s =? n)%nat then Some s else None.

Section KeyMapper.
  Variable H : bytes -> bytes.

  (* let hashed_prefix = &hash(plain_bytes).0[..20]; [hashed_prefix, plain_bytes].concat() *)
  Definition to_hash_prefixed (plain : bytes) : option bytes :=
    match slice_to HASHED_PREFIX_LENGTH (H plain) with
    | Some hp => Some (hp ++ plain)
    | None => None
    end.
  (* &prefixed_bytes[20..] *)
  Definition from_hash_prefixed (b : bytes) : option bytes := slice_from HASHED_PREFIX_LENGTH b.

  Definition to_db_node_key (node_id : bytes) : option bytes := to_hash_prefixed node_id.
  Definition from_db_node_key (db : bytes) : option bytes :=
    match from_hash_prefixed db with
    | Some r => copy_u8_array NODE_ID_LENGTH r
    | None => None
    end.

  Definition to_db_partition_num (p : N) : N := p.
  Definition from_db_partition_num (p : N) : N := p.

  Definition to_db_partition_key (node_id : bytes) (p : N) : option (bytes * N) :=
    match to_db_node_key node_id with
    | Some nk => Some (nk, to_db_partition_num p)
    | None => None
    end.
  Definition from_db_partition_key (pk : bytes * N) : option (bytes * N) :=
    match from_db_node_key (fst pk) with
    | Some n => Some (n, from_db_partition_num (snd pk))
    | None => None
    end.

  Definition field_to_db_sort_key (f : N) : option bytes := Some [f].
  Definition field_from_db_sort_key (db : bytes) : option N := index 0 db.

  Definition map_to_db_sort_key (k : bytes) : option bytes := to_hash_prefixed k.
  Definition map_from_db_sort_key (db : bytes) : option bytes := from_hash_prefixed db.

  Definition sorted_to_db_sort_key (p k : bytes) : option bytes :=
    match to_hash_prefixed k with
    | Some hk => Some (p ++ hk)
    | None => None
    end.
  (* ( copy_u8_array(&db[..2]), from_hash_prefixed(&db[2..]).to_vec() ) — evaluated left to right *)
  Definition sorted_from_db_sort_key (db : bytes) : option (bytes * bytes) :=
    match slice_to 2 db with
    | None => None
    | Some p0 =>
        match copy_u8_array 2 p0 with
        | None => None
        | Some p =>
            match slice_from 2 db with
            | None => None
            | Some rest =>
                match from_hash_prefixed rest with
                | Some k => Some (p, k)
                | None => None
                end
            end
        end
    end.

  Definition to_db_sort_key (key : substate_key) : option bytes :=
    match key with
    | KField f => field_to_db_sort_key f
    | KMap k => map_to_db_sort_key k
    | KSorted p k => sorted_to_db_sort_key p k
    end.
  (* from_db_sort_key::<K> with K = FieldKey | MapKey | SortedKey *)
  Definition from_db_sort_key (kind : key_kind) (db : bytes) : option substate_key :=
    match kind with
    | KindField => option_map KField (field_from_db_sort_key db)
    | KindMap => option_map KMap (map_from_db_sort_key db)
    | KindSorted => option_map (fun pk => KSorted (fst pk) (snd pk)) (sorted_from_db_sort_key db)
    end.
End KeyMapper.

Definition kind_of (k : substate_key) : key_kind :=
  match k with KField _ => KindField | KMap _ => KindMap | KSorted _ _ => KindSorted end.

(* type invariants of the Rust values (u8 field key, [u8; 2] sort prefix) *)
Definition key_wf (k : substate_key) : Prop :=
  match k with
  | KField f => True
  | KMap _ => True
  | KSorted p _ => length p = 2%nat
  end.
