(* Model/C42_Index.v — second layer of the staking model: what validator.rs keeps besides the vaults.
   * the validator's own [sorted_key] and the consensus manager's RegisteredValidatorByStake sorted
     index, maintained by [index_update] / [update_validator] on every change of the stake or of the
     registration (Create / UpdateStake / Remove, with the `.unwrap()` of UpdateStake explicit);
   * register / unregister;
   * update_fee with its pending request, promotion and effective-epoch arithmetic, and the
     effective fee factor used by apply_emission;
   * the u64 epoch arithmetic of unstake (claim epoch) and update_fee (EpochMathOverflow).
   The vault arithmetic is the first layer, [sstep] of Model/C42_Staking.v.  No proofs here. *)
From Coq Require Import ZArith List Bool.
Import ListNotations.
Require Import RV.Model.C42_Staking.
Open Scope Z_scope.

Definition U64_MAX : Z := 2 ^ 64 - 1.
(* Epoch::after(n) / next(): checked_add on u64 *)
Definition epoch_after (e n : Z) : option Z := if e + n <=? U64_MAX then Some (e + n) else None.

(* to_sorted_key(registered, stake, address): None unless registered and stake non-zero; the
   address part of the key is the validator itself (its position in [svals]) *)
Definition to_sorted_key (reg : bool) (stake : Z) : option (option Z) :=
  if negb reg || (stake =? 0) then Some None
  else match sort_prefix stake with Some p => Some (Some p) | None => None end.

Record ist := {
  ibase : sys;
  ikeys : list (option Z);             (* per validator: sorted_key (the prefix), as stored in its substate *)
  iindex : list (option (Z * Z));      (* the consensus manager's index, by validator: (prefix, stake) of its entry *)
  ireq : list (option (Z * Z))         (* per validator: validator_fee_change_request (epoch_effective, new_fee_factor) *)
}.

Inductive ires (A : Type) := IOk (a : A) | IErr | IPanic.
Arguments IOk {A} a. Arguments IErr {A}. Arguments IPanic {A}.

Fixpoint set_nth {A} (n : nat) (x : A) (l : list A) : list A :=
  match l, n with
  | [], _ => []
  | _ :: l', O => x :: l'
  | y :: l', S k => y :: set_nth k x l'
  end.
Definition getk {A} (l : list (option A)) (i : Z) : option A :=
  match nth_error l (Z.to_nat i) with Some x => x | None => None end.

(* update_validator on the index *)
Definition idx_apply (idx : list (option (Z * Z))) (i : Z) (old new : option Z) (stake : Z)
  : ires (list (option (Z * Z))) :=
  match old, new with
  | None, None => IOk idx
  | None, Some p => IOk (set_nth (Z.to_nat i) (Some (p, stake)) idx)         (* Create *)
  | Some po, Some pn =>                                                       (* UpdateStake: remove(..).unwrap(), insert *)
      match getk idx i with
      | Some (p, _) => if p =? po then IOk (set_nth (Z.to_nat i) (Some (pn, stake)) idx) else IPanic
      | None => IPanic
      end
  | Some po, None =>                                                          (* Remove: a missing key is ignored *)
      match getk idx i with
      | Some (p, _) => if p =? po then IOk (set_nth (Z.to_nat i) None idx) else IOk idx
      | None => IOk idx
      end
  end.

(* index_update(validator, new_registered, new_stake) followed by `validator.sorted_key = new key` *)
Definition reindex (s : ist) (i : Z) (reg : bool) (stake : Z) : ires ist :=
  match to_sorted_key reg stake with
  | None => IErr                                   (* UnexpectedDecimalComputationError *)
  | Some newk =>
      match idx_apply (iindex s) i (getk (ikeys s) i) newk stake with
      | IOk idx => IOk {| ibase := ibase s; ikeys := set_nth (Z.to_nat i) newk (ikeys s); iindex := idx; ireq := ireq s |}
      | IErr => IErr
      | IPanic => IPanic
      end
  end.

Definition vreg (s : sys) (i : Z) : bool := match nth_error (svals s) (Z.to_nat i) with Some v => sreg v | None => false end.
Definition vstake (s : sys) (i : Z) : Z := match nth_error (svals s) (Z.to_nat i) with Some v => sv v | None => 0 end.
Definition vff (s : sys) (i : Z) : Z := match nth_error (svals s) (Z.to_nat i) with Some v => sff v | None => 0 end.

Definition with_base (s : ist) (b : sys) : ist :=
  {| ibase := b; ikeys := ikeys s; iindex := iindex s; ireq := ireq s |}.
(* reindex validator i with its current registration and stake *)
Definition reindex_cur (s : ist) (i : Z) : ires ist := reindex s i (vreg (ibase s) i) (vstake (ibase s) i).
Fixpoint reindex_list (s : ist) (ids : list Z) : ires ist :=
  match ids with
  | [] => IOk s
  | i :: ids' => match reindex_cur s i with IOk s' => reindex_list s' ids' | IErr => IErr | IPanic => IPanic end
  end.

(* the fee factor apply_emission uses for the concluded epoch *)
Definition effective_ff (stored : Z) (req : option (Z * Z)) (concluded : Z) : Z :=
  match req with Some (ee, nf) => if ee <=? concluded then nf else stored | None => stored end.

Inductive iop :=
| IStake (i x : Z)
| IUnstake (i n nue : Z)
| IClaim (i amt ce : Z)
| IFee (leader p q : Z)
| IEpoch (te minrel : Z) (active : list (Z * Z * Z * Z))
| IRegister (i : Z) (b : bool)
| IUpdateFee (i ff delay : Z).          (* delay = config.num_fee_increase_delay_epochs *)

Fixpoint base_steps (b : sys) (ops : list sop) : option sys :=
  match ops with
  | [] => Some b
  | o :: ops' => match sstep b o with Some b' => base_steps b' ops' | None => None end
  end.
Fixpoint seqZ (from : Z) (n : nat) : list Z :=
  match n with O => [] | S k => from :: seqZ (from + 1) k end.

Definition lift {A} (o : option A) : ires A := match o with Some a => IOk a | None => IErr end.
Definition ibind {A B} (r : ires A) (f : A -> ires B) : ires B :=
  match r with IOk a => f a | IErr => IErr | IPanic => IPanic end.
Notation "'let!' x ':=' r 'in' k" := (ibind r (fun x => k))
  (at level 200, x pattern, r at level 100, k at level 200, right associativity).

Definition istep (s : ist) (o : iop) : ires ist :=
  let b := ibase s in
  match o with
  | IStake i x =>
      let! b' := lift (sstep b (SStake i x)) in reindex_cur (with_base s b') i
  | IUnstake i n nue =>
      (* the claim epoch is computed with checked u64 arithmetic: EpochMathOverflow *)
      let! _ := lift (epoch_after (sepoch b) nue) in
      let! b' := lift (sstep b (SUnstake i n nue)) in reindex_cur (with_base s b') i
  | IClaim i amt ce => let! b' := lift (sstep b (SClaim i amt ce)) in IOk (with_base s b')
  | IFee l p q => let! b' := lift (sstep b (SFee l p q)) in IOk (with_base s b')
  | IRegister i b0 =>
      if (i <? 0) || (Z.of_nat (length (svals b)) <=? i) then IErr else
      if Bool.eqb (vreg b i) b0 then IOk s else                       (* "No update" *)
      let! s1 := reindex s i b0 (vstake b i) in
      let! b' := lift (sstep b (SSetReg i b0)) in IOk (with_base s1 b')
  | IUpdateFee i ff delay =>
      if (i <? 0) || (Z.of_nat (length (svals b)) <=? i) then IErr else
      if (ff <? 0) || (DD <? ff) then IErr else                       (* check_validator_fee_factor *)
      let cur := sepoch b in
      (* promote a pending change that became effective already *)
      let stored := match getk (ireq s) i with
                    | Some (ee, nf) => if ee <=? cur then nf else vff b i
                    | None => vff b i
                    end in
      let! ee := lift (if stored <? ff then epoch_after cur delay else epoch_after cur 1) in
      let! b' := lift (sstep b (SSetFee i stored)) in
      IOk {| ibase := b'; ikeys := ikeys s; iindex := iindex s; ireq := set_nth (Z.to_nat i) (Some (ee, ff)) (ireq s) |}
  | IEpoch te minrel active =>
      let n := length (svals b) in
      let ids := seqZ 0 n in
      let stored := map (vff b) ids in
      let eff := map (fun i => effective_ff (vff b i) (getk (ireq s) i) (sepoch b)) ids in
      (* apply_emission reads the effective fee factor; it does not store it *)
      let! es := lift (emissions te minrel active) in
      let! rs := lift (rewards minrel active (sprop b) (srv b)) in
      let! b1 := lift (base_steps b (map (fun p : Z * Z => SSetFee (fst p) (snd p)) (combine ids eff))) in
      let! b2 := lift (sstep b1 (SEpoch te minrel active)) in
      let! b3 := lift (base_steps b2 (map (fun p : Z * Z => SSetFee (fst p) (snd p)) (combine ids stored))) in
      (* index_update inside apply_emission, then inside apply_reward, for the validators concerned *)
      reindex_list (with_base s b3) (map fst es ++ map fst rs)
  end.

Fixpoint irun (s : ist) (ops : list iop) : ist :=
  match ops with
  | [] => s
  | o :: ops' => irun (match istep s o with IOk s' => s' | _ => s end) ops'
  end.

(* the registered validators with non-zero stake, as an index scan would list them (order abstracted):
   (validator, stake) *)
Fixpoint scan_of (idx : list (option (Z * Z))) (i : Z) : list (Z * Z) :=
  match idx with
  | [] => []
  | Some (_, st) :: l => (i, st) :: scan_of l (i + 1)
  | None :: l => scan_of l (i + 1)
  end.
