(* C22 — executable model of the streaming implementation:
   TypedTraverser::next_event_internal (typed_traverser.rs) on top of the untyped traverser model
   Model/C21_Traverser.v, and run_validation / validate_event_with_type (payload_validator.rs),
   for the Scrypto extension with the `()` context.  Model only, no proofs.
   The typed container stack has its top at the head.  Rust panics (`unwrap`/`expect` in
   get_type_id, map_container_end_event, `next_event` after the end) are explicit `PPanic`.      *)
From Coq Require Import List NArith ZArith Bool.
Import ListNotations.
Require Import RV.Model.C20_Sbor RV.Model.C21_Traverser RV.Model.C22_Types RV.Model.C22_Schema.
Open Scope N_scope.

Inductive ctype :=
| CTuple (t : tid) (fs : list tid) | CEnumV (t : tid) (fs : list tid)
| CArray (t e : tid) | CMap (t k v : tid) | CAny (t : tid).

(* TypeMismatchError constructors *)
Inductive mismatch :=
| MType | MChildElem | MChildKey | MChildVal | MTupleLen | MEnumLen | MUnknownVariant.
(* ValidationError constructors (payloads dropped) *)
Inductive verrclass := VELength | VENum (i : ikind) | VECustom.
Inductive perr :=
| PDecode (e : dec_err)             (* TraversalError(DecodeError(e)) *)
| PTypeIdNotFound                   (* TraversalError(TypeIdNotFound) *)
| PMismatch (m : mismatch)          (* TraversalError(ValueMismatchWithType(m)) *)
| PValidation (c : verrclass)       (* ValidationError(..) *)
| PSchemaInconsistency.
Inductive pres := POk | PErr (e : perr) | PPanic | POutOfFuel.

(* ContainerType::get_child_type_for_element / _map_key / _map_value *)
Definition child_for_element (c : ctype) (idx : N) : option tid :=
  match c with
  | CTuple _ ts | CEnumV _ ts => nth_N ts idx
  | CArray _ e => Some e
  | CAny _ => Some any_tid
  | CMap _ _ _ => None
  end.
Definition child_for_key (c : ctype) : option tid :=
  match c with CMap _ k _ => Some k | CAny _ => Some any_tid | _ => None end.
Definition child_for_val (c : ctype) : option tid :=
  match c with CMap _ _ v => Some v | CAny _ => Some any_tid | _ => None end.

(* TypedTraverserState::get_type_id; None = the `.unwrap()` / `.expect(..)` panics *)
Definition get_type_id (root : tid) (cs : list ctype) (stack : list ancestor) : option tid :=
  match stack with
  | [] => Some root
  | a :: _ =>
    match cs with
    | [] => None
    | top :: _ =>
      match a_hdr a with
      | HMap _ _ _ => if N.even (a_idx a) then child_for_key top else child_for_val top
      | _ => child_for_element top (a_idx a)
      end
    end
  end.

Section WithSchema.
Variable s : schema.

(* map_container_start_event *)
Definition map_container_start (t : tid) (h : header) : ctype + perr :=
  match resolve_kind s t with
  | None => inr PTypeIdNotFound
  | Some k =>
    match h with
    | HTuple len =>
      match k with
      | TAny => inl (CAny t)
      | TTuple fts => if nlen fts =? len then inl (CTuple t fts) else inr (PMismatch MTupleLen)
      | _ => inr (PMismatch MType)
      end
    | HEnum variant len =>
      match k with
      | TAny => inl (CAny t)
      | TEnum vs =>
        match find_variant variant vs with
        | Some fts => if nlen fts =? len then inl (CEnumV t fts) else inr (PMismatch MEnumLen)
        | None => inr (PMismatch MUnknownVariant)
        end
      | _ => inr (PMismatch MType)
      end
    | HArray ek _ =>
      match k with
      | TAny => inl (CAny t)
      | TArray e =>
        match resolve_kind s e with
        | None => inr PTypeIdNotFound
        | Some ke => if kind_matches ek ke then inl (CArray t e) else inr (PMismatch MChildElem)
        end
      | _ => inr (PMismatch MType)
      end
    | HMap kk vk _ =>
      match k with
      | TAny => inl (CAny t)
      | TMap tk tvl =>
        match resolve_kind s tk with
        | None => inr PTypeIdNotFound
        | Some kk' =>
          if negb (kind_matches kk kk') then inr (PMismatch MChildKey) else
          match resolve_kind s tvl with
          | None => inr PTypeIdNotFound
          | Some vk' =>
            if negb (kind_matches vk vk') then inr (PMismatch MChildVal) else inl (CMap t tk tvl)
          end
        end
      | _ => inr (PMismatch MType)
      end
    end
  end.

(* validate_container; None = Ok(()) *)
Definition validate_container (t : tid) (h : header) : option perr :=
  match resolve_val s t with
  | None => Some PSchemaInconsistency
  | Some VNone => None
  | Some (VArr b) =>
    match h with
    | HArray _ len => if len_ok b len then None else Some (PValidation VELength)
    | _ => Some PSchemaInconsistency
    end
  | Some (VMapV b) =>
    match h with
    | HMap _ _ len => if len_ok b len then None else Some (PValidation VELength)
    | _ => Some PSchemaInconsistency
    end
  | Some _ => Some PSchemaInconsistency
  end.

(* map_terminal_value_event, then validate_terminal_value *)
Definition check_terminal (t : tid) (v : value) : option perr :=
  match resolve_kind s t with
  | None => Some PTypeIdNotFound
  | Some k =>
    if negb (kind_matches (value_kind v) k) then Some (PMismatch MType) else
    match v with
    | VCustom c =>
      (* ScryptoCustomExtension::apply_validation_for_custom_value *)
      match resolve_val s t with
      | None => Some PSchemaInconsistency
      | Some VNone => None
      | Some (VCRef r) =>
        match c with
        | SReference node => if ref_ok r node then None else Some (PValidation VECustom)
        | _ => Some PSchemaInconsistency
        end
      | Some (VCOwn o) =>
        match c with
        | SOwn node => if own_ok o node then None else Some (PValidation VECustom)
        | _ => Some PSchemaInconsistency
        end
      | Some _ => Some PSchemaInconsistency
      end
    | _ =>
      match resolve_val s t with
      | None => Some PSchemaInconsistency
      | Some VNone => None
      | Some (VNum i b) =>
        match v with
        | VInt j z =>
          if ikind_eqb i j then (if num_ok i b z then None else Some (PValidation (VENum i)))
          else Some PSchemaInconsistency
        | _ => Some PSchemaInconsistency
        end
      | Some (VStr b) =>
        match v with
        | VString str => if len_ok b (nlen str) then None else Some (PValidation VELength)
        | _ => Some PSchemaInconsistency
        end
      | Some _ => Some PSchemaInconsistency   (* Array / Map / Custom validation on a terminal *)
      end
    end
  end.

(* map_terminal_value_batch_event, then validate_terminal_value_batch (bytes of a Vec<u8>) *)
Definition check_batch (t : tid) (b : bytes) : option perr :=
  match resolve_kind s t with
  | None => Some PTypeIdNotFound
  | Some k =>
    if negb (kind_matches (KInt U8) k) then Some (PMismatch MType) else
    match resolve_val s t with
    | None => Some PSchemaInconsistency
    | Some VNone => None
    | Some (VNum U8 nb) =>
      if forallb (fun x => num_ok U8 nb (Z.of_N x)) b then None else Some (PValidation (VENum U8))
    | Some _ => Some PSchemaInconsistency
    end
  end.

Variable root : tid.
Variable cfg : tconfig.

Inductive tyout := TyNext (cs : list ctype) (st : tstate) | TyDone (r : pres).

(* the typed layer applied to the untyped traverser's step result: map_*_event, then
   validate_event_with_type *)
Definition typed_out (cs : list ctype) (o : tout) : tyout :=
  match o with
  | TPanic => TyDone PPanic
  | TStep e st' =>
    match l_ev e with
    | EvContainerStart h =>
      match get_type_id root cs (t_stack st') with
      | None => TyDone PPanic
      | Some t =>
        match map_container_start t h with
        | inr err => TyDone (PErr err)
        | inl c =>
          match validate_container t h with
          | Some err => TyDone (PErr err)
          | None => TyNext (c :: cs) st'
          end
        end
      end
    | EvTerminal v =>
      match get_type_id root cs (t_stack st') with
      | None => TyDone PPanic
      | Some t =>
        match check_terminal t v with Some err => TyDone (PErr err) | None => TyNext cs st' end
      end
    | EvBatch b =>
      match get_type_id root cs (t_stack st') with
      | None => TyDone PPanic
      | Some t =>
        match check_batch t b with Some err => TyDone (PErr err) | None => TyNext cs st' end
      end
    | EvContainerEnd _ =>
      match cs with
      | [] => TyDone PPanic              (* container_stack.pop().unwrap() *)
      | _ :: cs' => TyNext cs' st'
      end
    | EvEnd => TyDone POk
    | EvError err => TyDone (PErr (PDecode err))
    end
  end.

(* one iteration of run_validation's loop: traverser.next_event(), validate_event_with_type *)
Definition typed_step (cs : list ctype) (st : tstate) : tyout :=
  typed_out cs (step Scrypto cfg st).

Fixpoint typed_run (fuel : nat) (cs : list ctype) (st : tstate) : pres :=
  match fuel with
  | O => POutOfFuel
  | S f =>
    match typed_step cs st with
    | TyDone r => r
    | TyNext cs' st' => typed_run f cs' st'
    end
  end.
End WithSchema.

(* validate_payload_against_schema::<ScryptoCustomExtension, ()>(payload, schema, id, &(), depth_limit) *)
Definition validate_payload (s : schema) (t : tid) (md : N) (payload : bytes) : pres :=
  let cfg := {| c_md := md; c_check_end := true; c_total := nlen payload |} in
  typed_run s t cfg (2 * length payload + 4) []
            {| t_act := AReadPrefix (payload_prefix Scrypto); t_stack := []; t_in := payload |}.
