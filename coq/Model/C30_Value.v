(* C30 — value layer of the manifest text format at TOKEN level, executable model, no proofs.
   * `print_value` : what format_manifest_value (radix-transactions/src/data/formatter.rs) prints for a
     manifest value, as the token sequence the lexer produces from it (whitespace / new lines dropped):
     Tuple(..), Enum<Nu8>(..), Array<Kind>(..), Bytes("hex") for Array<U8>, Map<K, V>(k => v, ..),
     literals, and the one-argument forms Ident("string") of custom values and NonFungibleGlobalId.
   * `parse_value` : Parser::parse_value / parse_enum_content / parse_array_content / parse_tuple_content /
     parse_map_content / parse_values_any / parse_values_one / parse_generics / parse_value_kind
     (radix-transactions/src/manifest/parser.rs) as written, over a token list, with the stack-depth
     tracking (PARSER_MAX_DEPTH) and fuel for the loops (POutOfFuel).
   Value kinds are their identifier strings (ValueKind::from_ident accepts exactly `kind_table`).
   Named enum discriminators (Enum<OwnerRole::Fixed>) are outside the model: PUnmodelled. *)
From Coq Require Import List NArith ZArith Bool String Ascii.
Import ListNotations.
Require Import RV.Model.C30_Text RV.Model.C31_Lexer.
Open Scope N_scope.

Definition s2l (s : string) : list N := map (fun a => N_of_ascii a) (list_ascii_of_string s).
Definition id_is (id : list N) (s : string) : bool := listN_eqb id (s2l s).

Definition PARSER_MAX_DEPTH : N := 20.      (* MANIFEST_SBOR_V1_MAX_DEPTH (24) - 4 *)

(* ValueKind::from_ident *)
Definition kind_table : list (list N) := map s2l
  ["Bool"; "I8"; "I16"; "I32"; "I64"; "I128"; "U8"; "U16"; "U32"; "U64"; "U128"; "String";
   "Enum"; "Array"; "Tuple"; "Map"; "Bytes"; "NonFungibleGlobalId";
   "Address"; "Bucket"; "Proof"; "Expression"; "Blob"; "Decimal"; "PreciseDecimal"; "NonFungibleLocalId";
   "AddressReservation"; "NamedAddress"; "Intent"; "NamedIntent"]%string.
Definition is_kind (id : list N) : bool := existsb (listN_eqb id) kind_table.
(* format_value_kind prints one of these *)
Definition printed_kinds : list (list N) := map s2l
  ["Bool"; "I8"; "I16"; "I32"; "I64"; "I128"; "U8"; "U16"; "U32"; "U64"; "U128"; "String";
   "Enum"; "Array"; "Tuple"; "Map";
   "Address"; "Bucket"; "Proof"; "Expression"; "Blob"; "Decimal"; "PreciseDecimal"; "NonFungibleLocalId";
   "AddressReservation"]%string.
(* ManifestValueIdent: the forms Ident(<one value>) *)
Definition one_arg_idents : list (list N) := map s2l
  ["Some"; "Ok"; "Err"; "Bytes"; "NonFungibleGlobalId"; "Address"; "Bucket"; "Proof"; "Expression"; "Blob";
   "Decimal"; "PreciseDecimal"; "NonFungibleLocalId"; "AddressReservation"; "NamedAddress"; "Intent"; "NamedIntent"]%string.
Definition is_one_arg (id : list N) : bool := existsb (listN_eqb id) one_arg_idents.
(* what the formatter prints as Ident("...") for custom values / NonFungibleGlobalId *)
Definition leaf_idents : list (list N) := map s2l
  ["NonFungibleGlobalId"; "Address"; "Bucket"; "Proof"; "Expression"; "Blob";
   "Decimal"; "PreciseDecimal"; "NonFungibleLocalId"; "AddressReservation"; "NamedAddress"]%string.

(* ---- the printed side ------------------------------------------------------------------------------- *)
Inductive mv :=
| MBool (b : bool)
| MInt (signed : bool) (bits : N) (v : Z)
| MStr (s : list N)
| MTuple (fs : list mv)
| MEnum (d : N) (fs : list mv)
| MArray (k : list N) (es : list mv)           (* element kind other than U8 *)
| MBytes (hex : list N)                         (* Array<U8> *)
| MMap (k v : list N) (es : list (mv * mv))
| MLeaf (id : list N) (arg : list N).          (* custom value / NonFungibleGlobalId: Ident("arg") *)

Fixpoint sep_by {A} (s : list A) (l : list (list A)) : list A :=
  match l with [] => [] | [x] => x | x :: t => x ++ s ++ sep_by s t end.
Fixpoint print_value (v : mv) : list token :=
  match v with
  | MBool b => [TBool b]
  | MInt sg bits x => [TInt sg bits x]
  | MStr s => [TString s]
  | MTuple fs => TIdent (s2l "Tuple") :: TOpenP :: sep_by [TComma] (map print_value fs) ++ [TCloseP]
  | MEnum d fs =>
      TIdent (s2l "Enum") :: TLt :: TInt false 8 (Z.of_N d) :: TGt :: TOpenP ::
      sep_by [TComma] (map print_value fs) ++ [TCloseP]
  | MArray k es =>
      TIdent (s2l "Array") :: TLt :: TIdent k :: TGt :: TOpenP :: sep_by [TComma] (map print_value es) ++ [TCloseP]
  | MBytes h => [TIdent (s2l "Bytes"); TOpenP; TString h; TCloseP]
  | MMap k v es =>
      TIdent (s2l "Map") :: TLt :: TIdent k :: TComma :: TIdent v :: TGt :: TOpenP ::
      sep_by [TComma] (map (fun kv => print_value (fst kv) ++ TFatArrow :: print_value (snd kv)) es) ++ [TCloseP]
  | MLeaf id arg => [TIdent id; TOpenP; TString arg; TCloseP]
  end.

(* ---- the parsed side: ast::Value (spans dropped) ------------------------------------------------------- *)
Inductive ast :=
| ABool (b : bool)
| AInt (signed : bool) (bits : N) (v : Z)
| AStr (s : list N)
| AEnum (d : N) (fs : list ast)
| AArray (k : list N) (es : list ast)
| ATuple (fs : list ast)
| AMap (k v : list N) (es : list (ast * ast))
| ANone
| AOne (id : list N) (v : ast).                 (* Some / Ok / Err / Bytes / NonFungibleGlobalId / custom *)

Fixpoint ast_of (v : mv) : ast :=
  match v with
  | MBool b => ABool b
  | MInt sg bits x => AInt sg bits x
  | MStr s => AStr s
  | MTuple fs => ATuple (map ast_of fs)
  | MEnum d fs => AEnum d (map ast_of fs)
  | MArray k es => AArray k (map ast_of es)
  | MBytes h => AOne (s2l "Bytes") (AStr h)
  | MMap k v es => AMap k v (map (fun kv => (ast_of (fst kv), ast_of (snd kv))) es)
  | MLeaf id arg => AOne id (AStr arg)
  end.

Inductive perr := PEof | PUnexpected | PMaxDepth | PNumValues | PNumTypes | PUnmodelled.
Inductive pres (A : Type) := POk (a : A) (rest : list token) | PErr (e : perr) | POutOfFuel.
Arguments POk {A} a rest. Arguments PErr {A} e. Arguments POutOfFuel {A}.
Definition pbind {A B} (r : pres A) (f : A -> list token -> pres B) : pres B :=
  match r with POk a rest => f a rest | PErr e => PErr e | POutOfFuel => POutOfFuel end.

Definition tok_eqb (a b : token) : bool :=
  match a, b with
  | TOpenP, TOpenP | TCloseP, TCloseP | TLt, TLt | TGt, TGt | TComma, TComma | TSemi, TSemi | TFatArrow, TFatArrow => true
  | _, _ => false                                (* only punctuation is ever compared *)
  end.
(* advance_exact *)
Definition expect (t : token) (ts : list token) : pres unit :=
  match ts with [] => PErr PEof | x :: r => if tok_eqb x t then POk tt r else PErr PUnexpected end.
(* self.peek()?.token != close *)
Definition peek_is (t : token) (ts : list token) : pres bool :=
  match ts with [] => PErr PEof | x :: _ => POk (tok_eqb x t) ts end.

(* parse_generics(n): `<` kind {, kind} `>` with exactly n kinds *)
Fixpoint generics_loop (fuel : nat) (ts : list token) (acc : list (list N)) : pres (list (list N)) :=
  match fuel with
  | O => POutOfFuel
  | S f =>
      pbind (peek_is TGt ts) (fun is_close ts =>
        if is_close then POk (rev acc) ts
        else match ts with
             | TIdent id :: r =>
                 if is_kind id then
                   pbind (peek_is TGt r) (fun c2 r =>
                     if c2 then generics_loop f r (id :: acc)
                     else pbind (expect TComma r) (fun _ r => generics_loop f r (id :: acc)))
                 else PErr PUnexpected
             | [] => PErr PEof
             | _ => PErr PUnexpected
             end)
  end.
Definition parse_generics (fuel : nat) (n : nat) (ts : list token) : pres (list (list N)) :=
  pbind (expect TLt ts) (fun _ ts =>
  pbind (generics_loop fuel ts []) (fun ks ts =>
  pbind (expect TGt ts) (fun _ ts =>
    if Nat.eqb (List.length ks) n then POk ks ts else PErr PNumTypes))).

Fixpoint parse_value (fuel : nat) (depth : N) (ts : list token) : pres ast :=
  match fuel with
  | O => POutOfFuel
  | S f =>
      let d := depth + 1 in
      if PARSER_MAX_DEPTH <? d then match ts with [] => PErr PEof | _ => PErr PMaxDepth end
      else
        match ts with
        | [] => PErr PEof
        | TBool b :: r => POk (ABool b) r
        | TInt sg bits v :: r => POk (AInt sg bits v) r
        | TString s :: r => POk (AStr s) r
        | TIdent id :: r =>
            if id_is id "Enum" then
              pbind (expect TLt r) (fun _ r =>
                match r with
                | [] => PErr PEof
                | TInt false 8 dv :: r1 =>
                    pbind (expect TGt r1) (fun _ r2 =>
                    pbind (values_any f d r2) (fun fs r3 => POk (AEnum (Z.to_N dv) fs) r3))
                | TIdent _ :: _ => PErr PUnmodelled
                | _ => PErr PUnexpected
                end)
            else if id_is id "Array" then
              pbind (parse_generics f 1 r) (fun ks r1 =>
              pbind (values_any f d r1) (fun es r2 => POk (AArray (hd [] ks) es) r2))
            else if id_is id "Tuple" then
              pbind (values_any f d r) (fun fs r1 => POk (ATuple fs) r1)
            else if id_is id "Map" then
              pbind (parse_generics f 2 r) (fun ks r1 =>
              pbind (expect TOpenP r1) (fun _ r2 =>
              pbind (map_loop f d r2 []) (fun es r3 =>
              pbind (expect TCloseP r3) (fun _ r4 => POk (AMap (hd [] ks) (hd [] (tl ks)) es) r4))))
            else if id_is id "None" then POk ANone r
            else if is_one_arg id then
              pbind (values_any f d r) (fun vs r1 =>
                match vs with [v] => POk (AOne id v) r1 | _ => PErr PNumValues end)
            else PErr PUnexpected
        | _ => PErr PUnexpected
        end
  end
(* parse_values_any(OpenParenthesis, CloseParenthesis) *)
with values_any (fuel : nat) (d : N) (ts : list token) : pres (list ast) :=
  match fuel with
  | O => POutOfFuel
  | S f =>
      pbind (expect TOpenP ts) (fun _ ts =>
      pbind (values_loop f d ts []) (fun vs ts =>
      pbind (expect TCloseP ts) (fun _ ts => POk vs ts)))
  end
with values_loop (fuel : nat) (d : N) (ts : list token) (acc : list ast) : pres (list ast) :=
  match fuel with
  | O => POutOfFuel
  | S f =>
      pbind (peek_is TCloseP ts) (fun is_close ts =>
        if is_close then POk (rev acc) ts
        else pbind (parse_value f d ts) (fun v ts =>
             pbind (peek_is TCloseP ts) (fun c2 ts =>
               if c2 then values_loop f d ts (v :: acc)
               else pbind (expect TComma ts) (fun _ ts => values_loop f d ts (v :: acc)))))
  end
with map_loop (fuel : nat) (d : N) (ts : list token) (acc : list (ast * ast)) : pres (list (ast * ast)) :=
  match fuel with
  | O => POutOfFuel
  | S f =>
      pbind (peek_is TCloseP ts) (fun is_close ts =>
        if is_close then POk (rev acc) ts
        else pbind (parse_value f d ts) (fun k ts =>
             pbind (expect TFatArrow ts) (fun _ ts =>
             pbind (parse_value f d ts) (fun v ts =>
             pbind (peek_is TCloseP ts) (fun c2 ts =>
               if c2 then map_loop f d ts ((k, v) :: acc)
               else pbind (expect TComma ts) (fun _ ts => map_loop f d ts ((k, v) :: acc)))))))
  end.

(* Parser::parse_value on a fresh parser. Every fuel step is followed by the consumption of a token
   within three nested calls (parse_value -> values_any -> values_loop), so 3 * tokens + 3 is enough for
   every input (validated by correspondence on mutated / truncated streams; proved for printed values) *)
Definition parse_tokens (ts : list token) : pres ast := parse_value (3 * List.length ts + 3) 0 ts.

(* nesting depth of a printed value as counted by the parser (a one-argument form counts its string) *)
Fixpoint vdepth (v : mv) : N :=
  match v with
  | MBool _ | MInt _ _ _ | MStr _ => 1
  | MTuple fs | MEnum _ fs | MArray _ fs => 1 + fold_right (fun x m => N.max (vdepth x) m) 0 fs
  | MBytes _ | MLeaf _ _ => 2
  | MMap _ _ es => 1 + fold_right (fun kv m => N.max (N.max (vdepth (fst kv)) (vdepth (snd kv))) m) 0 es
  end.
