(* Model/C42_Staking.v — executable model of the validator staking arithmetic and of the epoch-change
   distribution (radix-engine/src/blueprints/consensus_manager/{validator.rs,consensus_manager.rs}):
   calculate_stake_unit_amount, calculate_redemption_value, stake / unstake effects on the stake
   vault and the stake-unit supply, create_sort_prefix_from_stake, success_ratio,
   to_reliability_factor, apply_validator_emissions_and_rewards (emission split, reward split),
   Validator::apply_emission / apply_reward, and the selection of the next validator set in
   epoch_change (stable sort by stake descending, take max_validators).
   Amounts are integers (attos).  Decimal checked_mul / checked_div use an I256 intermediate and
   truncate toward zero; a None is [None].  No proofs here. *)
From Coq Require Import ZArith List Bool.
Import ListNotations.
Open Scope Z_scope.

Definition DD : Z := 10 ^ 18.
Definition in192 (z : Z) : bool := (- 2 ^ 191 <=? z) && (z <=? 2 ^ 191 - 1).
Definition in256 (z : Z) : bool := (- 2 ^ 255 <=? z) && (z <=? 2 ^ 255 - 1).

Definition obind {A B} (o : option A) (f : A -> option B) : option B :=
  match o with Some a => f a | None => None end.
Notation "'let?' x ':=' r 'in' k" := (obind r (fun x => k))
  (at level 200, x pattern, r at level 100, k at level 200, right associativity).

(* Decimal::checked_mul / checked_div / checked_add / checked_sub *)
Definition dmul (a b : Z) : option Z :=
  if in256 (a * b) then let c := Z.quot (a * b) DD in if in192 c then Some c else None else None.
Definition ddiv (a b : Z) : option Z :=
  if in256 (a * DD) then
    if b =? 0 then None else let c := Z.quot (a * DD) b in if in192 c then Some c else None
  else None.
Definition dadd (a b : Z) : option Z := if in192 (a + b) then Some (a + b) else None.
Definition dsub (a b : Z) : option Z := if in192 (a - b) then Some (a - b) else None.

(* ---------------------------------------------------------------------------------------------- *)
(* validator.rs *)

(* calculate_stake_unit_amount(xrd, total_stake_xrd, total_stake_unit_supply) *)
Definition stake_units (x v u : Z) : option Z :=
  if v =? 0 then Some x else let? r := ddiv u v in dmul x r.
(* calculate_redemption_value(units) against stake vault v and unit supply u *)
Definition redemption_value (units v u : Z) : option Z :=
  if u =? 0 then Some 0 else let? r := ddiv v u in dmul units r.

(* stake: mint units, put xrd into the stake vault: (units, v', u') *)
Definition stake (x v u : Z) : option (Z * Z * Z) :=
  let? m := stake_units x v u in
  if (m <? 0) || (2 ^ 152 <? m) then None else        (* mint limit of the resource manager *)
  let? u' := dadd u m in
  Some (m, v + x, u').
(* unstake: burn units, move the redemption value to the pending-withdraw vault: (claim, v', u') *)
Definition unstake (units v u : Z) : option (Z * Z * Z) :=
  let? c := redemption_value units v u in
  if (c <? 0) || (v <? c) then None else              (* vault.take *)
  if u <? units then None else
  Some (c, v - c, u - units).

(* create_sort_prefix_from_stake: u16::MAX - min(u16::MAX, whole(stake / 100000)), big-endian *)
Definition U16_MAX : Z := 65535.
Definition sort_prefix (stake : Z) : option Z :=
  let? s100k := ddiv stake (100000 * DD) in          (* stake.checked_div(100000) *)
  let? p := Some (10 ^ 18 * DD) in                    (* dec!(10).checked_powi(18) *)
  let? w := ddiv s100k p in                           (* whole units, as attos() *)
  Some (U16_MAX - (if U16_MAX <? w then U16_MAX else w)).

(* ---------------------------------------------------------------------------------------------- *)
(* consensus_manager.rs: reliability, emissions, rewards *)

(* ProposalStatistic::success_ratio *)
Definition success_ratio (made missed : Z) : option Z :=
  if made + missed =? 0 then Some DD else ddiv (made * DD) ((made + missed) * DD).
(* to_reliability_factor *)
Definition reliability_factor (rel minrel : Z) : option Z :=
  let? reserve := dsub rel minrel in
  if reserve <? 0 then Some 0 else
  let? maxun := dsub DD minrel in
  if maxun =? 0 then (if rel =? DD then Some DD else Some 0) else
  ddiv reserve maxun.

(* an applicable validator: (id, stake recorded in the active set, effective stake) *)
Definition info := (Z * Z * Z)%type.
(* ValidatorInfo::create_if_applicable over the active set [(id, stake, made, missed)] *)
Fixpoint infos (minrel : Z) (active : list (Z * Z * Z * Z)) : option (list info) :=
  match active with
  | [] => Some []
  | (id, stake, made, missed) :: rest =>
      if 0 <? stake then
        let? sr := success_ratio made missed in
        let? f := reliability_factor sr minrel in
        let? eff := dmul stake f in
        let? r := infos minrel rest in
        Some ((id, stake, eff) :: r)
      else infos minrel rest
  end.
Fixpoint sum_opt (l : list Z) : option Z :=
  match l with [] => Some 0 | x :: l' => let? s := sum_opt l' in dadd x s end.
(* the code accumulates left to right with checked_add; for in-range sums the order is irrelevant,
   here: left fold *)
Fixpoint sum_left (acc : Z) (l : list Z) : option Z :=
  match l with [] => Some acc | x :: l' => let? a := dadd acc x in sum_left a l' end.

Fixpoint map_opt {A B} (f : A -> option B) (l : list A) : option (list B) :=
  match l with [] => Some [] | a :: l' => let? b := f a in let? r := map_opt f l' in Some (b :: r) end.

(* emissions: [(id, emission)] for the applicable validators; None = computation error;
   Some [] when there is no applicable validator *)
Definition emissions (total_emission minrel : Z) (active : list (Z * Z * Z * Z)) : option (list (Z * Z)) :=
  let? is := infos minrel active in
  match is with
  | [] => Some []
  | _ =>
    let? stake_sum := sum_left 0 (map (fun i : info => snd (fst i)) is) in
    let? k := ddiv total_emission stake_sum in
    map_opt (fun i : info => let? e := dmul (snd i) k in Some (fst (fst i), e)) is
  end.

(* rewards: proposer rewards by active-set position, rewards vault balance *)
Fixpoint lookup (k : Z) (l : list (Z * Z)) : Z :=
  match l with [] => 0 | (k', v) :: l' => if k =? k' then v else lookup k l' end.
Fixpoint infos_idx (minrel : Z) (idx : Z) (active : list (Z * Z * Z * Z)) : option (list (Z * info)) :=
  match active with
  | [] => Some []
  | (id, stake, made, missed) :: rest =>
      if 0 <? stake then
        let? sr := success_ratio made missed in
        let? f := reliability_factor sr minrel in
        let? eff := dmul stake f in
        let? r := infos_idx minrel (idx + 1) rest in
        Some ((idx, (id, stake, eff)) :: r)
      else infos_idx minrel (idx + 1) rest
  end.
Definition rewards (minrel : Z) (active : list (Z * Z * Z * Z)) (proposer : list (Z * Z)) (vault : Z)
  : option (list (Z * Z)) :=
  let? is := infos_idx minrel 0 active in
  match is with
  | [] => Some []
  | _ =>
    let? total_eff := sum_left 0 (map (fun i : Z * info => snd (snd i)) is) in
    let? total_prop := sum_left 0 (map (fun i : Z * info => lookup (fst i) proposer) is) in
    let? claimable := dsub vault total_prop in
    let? rps := (if total_eff =? 0 then Some 0 else ddiv claimable total_eff) in
    let? l := map_opt (fun i : Z * info =>
                 let? m := dmul (snd (snd i)) rps in
                 let? t := dadd (lookup (fst i) proposer) m in
                 Some (fst (fst (snd i)), t)) is in
    Some (filter (fun it : Z * Z => negb (snd it =? 0)) l)
  end.

(* Validator::apply_emission on (v, u) with fee factor ff: (v', u') *)
Definition apply_emission (ff e v u : Z) : option (Z * Z) :=
  let? fee := dmul ff e in
  if (fee <? 0) || (e <? fee) then None else          (* bucket.take(fee) *)
  let? added := dsub e fee in
  let? post := dadd v added in
  let? units := stake_units fee post u in
  if (units <? 0) || (2 ^ 152 <? units) then None else
  let? u' := dadd u units in
  let? v' := dadd v e in
  Some (v', u').
(* Validator::apply_reward *)
Definition apply_reward (r v u : Z) : option (Z * Z) :=
  let? units := stake_units r v u in
  if (units <? 0) || (2 ^ 152 <? units) then None else
  let? u' := dadd u units in
  let? v' := dadd v r in
  Some (v', u').

(* ---------------------------------------------------------------------------------------------- *)
(* selection of the next validator set: stable sort by stake descending, take max *)

(* insertion into a list sorted by stake descending, after all elements with stake >= the new one
   (stable for a left-to-right insertion of the scan order) *)
Fixpoint insert_desc (x : Z * Z) (l : list (Z * Z)) : list (Z * Z) :=
  match l with
  | [] => [x]
  | y :: l' => if snd y <? snd x then x :: y :: l' else y :: insert_desc x l'
  end.
Fixpoint sort_desc (l : list (Z * Z)) : list (Z * Z) :=
  match l with [] => [] | x :: l' => insert_desc x (sort_desc l') end.
(* [scan] = the registered validators with non-zero stake in index-scan order: (id, stake) *)
Definition next_set (maxv : Z) (scan : list (Z * Z)) : list (Z * Z) :=
  firstn (Z.to_nat maxv) (sort_desc (rev scan)).
(* note: inserting the reversed scan right-to-left = inserting scan order left-to-right *)
