(* Model/C42_Staking.v — executable model of the validator staking arithmetic and of the epoch-change
   distribution (radix-engine/src/blueprints/consensus_manager/{validator.rs,consensus_manager.rs}):
   calculate_stake_unit_amount, calculate_redemption_value, stake / unstake effects on the stake
   vault and the stake-unit supply, create_sort_prefix_from_stake, success_ratio,
   to_reliability_factor, apply_validator_emissions_and_rewards (emission split, reward split),
   Validator::apply_emission / apply_reward, and the selection of the next validator set in
   epoch_change (stable sort by stake descending, take max_validators).
   Amounts are integers (attos).  Decimal checked_mul / checked_div use an I256 intermediate and
   truncate toward zero; a None is [None].  No proofs here. *)
From Coq Require Import ZArith List Bool.
Import ListNotations.
Open Scope Z_scope.

Definition DD : Z := 10 ^ 18.
Definition in192 (z : Z) : bool := (- 2 ^ 191 <=? z) && (z <=? 2 ^ 191 - 1).
Definition in256 (z : Z) : bool := (- 2 ^ 255 <=? z) && (z <=? 2 ^ 255 - 1).

Definition obind {A B} (o : option A) (f : A -> option B) : option B :=
  match o with Some a => f a | None => None end.
Notation "'let?' x ':=' r 'in' k" := (obind r (fun x => k))
  (at level 200, x pattern, r at level 100, k at level 200, right associativity).

(* Decimal::checked_mul / checked_div / checked_add / checked_sub *)
Definition dmul (a b : Z) : option Z :=
  if in256 (a * b) then let c := Z.quot (a * b) DD in if in192 c then Some c else None else None.
Definition ddiv (a b : Z) : option Z :=
  if in256 (a * DD) then
    if b =? 0 then None else let c := Z.quot (a * DD) b in if in192 c then Some c else None
  else None.
Definition dadd (a b : Z) : option Z := if in192 (a + b) then Some (a + b) else None.
Definition dsub (a b : Z) : option Z := if in192 (a - b) then Some (a - b) else None.

(* ---------------------------------------------------------------------------------------------- *)
(* validator.rs *)

(* calculate_stake_unit_amount(xrd, total_stake_xrd, total_stake_unit_supply) *)
Definition stake_units (x v u : Z) : option Z :=
  if v =? 0 then Some x else let? r := ddiv u v in dmul x r.
(* calculate_redemption_value(units) against stake vault v and unit supply u *)
Definition redemption_value (units v u : Z) : option Z :=
  if u =? 0 then Some 0 else let? r := ddiv v u in dmul units r.

(* stake: mint units, put xrd into the stake vault: (units, v', u') *)
Definition stake (x v u : Z) : option (Z * Z * Z) :=
  let? m := stake_units x v u in
  if (m <? 0) || (2 ^ 152 <? m) then None else        (* mint limit of the resource manager *)
  let? u' := dadd u m in
  Some (m, v + x, u').
(* unstake: burn units, move the redemption value to the pending-withdraw vault: (claim, v', u') *)
Definition unstake (units v u : Z) : option (Z * Z * Z) :=
  let? c := redemption_value units v u in
  if (c <? 0) || (v <? c) then None else              (* vault.take *)
  if u <? units then None else
  Some (c, v - c, u - units).

(* create_sort_prefix_from_stake: u16::MAX - min(u16::MAX, whole(stake / 100000)), big-endian *)
Definition U16_MAX : Z := 65535.
Definition sort_prefix (stake : Z) : option Z :=
  let? s100k := ddiv stake (100000 * DD) in          (* stake.checked_div(100000) *)
  let? p := Some (10 ^ 18 * DD) in                    (* dec!(10).checked_powi(18) *)
  let? w := ddiv s100k p in                           (* whole units, as attos() *)
  Some (U16_MAX - (if U16_MAX <? w then U16_MAX else w)).

(* ---------------------------------------------------------------------------------------------- *)
(* consensus_manager.rs: reliability, emissions, rewards *)

(* ProposalStatistic::success_ratio *)
Definition success_ratio (made missed : Z) : option Z :=
  if made + missed =? 0 then Some DD else ddiv (made * DD) ((made + missed) * DD).
(* to_reliability_factor *)
Definition reliability_factor (rel minrel : Z) : option Z :=
  let? reserve := dsub rel minrel in
  if reserve <? 0 then Some 0 else
  let? maxun := dsub DD minrel in
  if maxun =? 0 then (if rel =? DD then Some DD else Some 0) else
  ddiv reserve maxun.

(* an applicable validator: (id, stake recorded in the active set, effective stake) *)
Definition info := (Z * Z * Z)%type.
(* ValidatorInfo::create_if_applicable over the active set [(id, stake, made, missed)] *)
Fixpoint infos (minrel : Z) (active : list (Z * Z * Z * Z)) : option (list info) :=
  match active with
  | [] => Some []
  | (id, stake, made, missed) :: rest =>
      if 0 <? stake then
        let? sr := success_ratio made missed in
        let? f := reliability_factor sr minrel in
        let? eff := dmul stake f in
        let? r := infos minrel rest in
        Some ((id, stake, eff) :: r)
      else infos minrel rest
  end.
Fixpoint sum_opt (l : list Z) : option Z :=
  match l with [] => Some 0 | x :: l' => let? s := sum_opt l' in dadd x s end.
(* the code accumulates left to right with checked_add; for in-range sums the order is irrelevant,
   here: left fold *)
Fixpoint sum_left (acc : Z) (l : list Z) : option Z :=
  match l with [] => Some acc | x :: l' => let? a := dadd acc x in sum_left a l' end.

Fixpoint map_opt {A B} (f : A -> option B) (l : list A) : option (list B) :=
  match l with [] => Some [] | a :: l' => let? b := f a in let? r := map_opt f l' in Some (b :: r) end.

(* emissions: [(id, emission)] for the applicable validators; None = computation error;
   Some [] when there is no applicable validator *)
Definition emissions (total_emission minrel : Z) (active : list (Z * Z * Z * Z)) : option (list (Z * Z)) :=
  let? is := infos minrel active in
  match is with
  | [] => Some []
  | _ =>
    let? stake_sum := sum_left 0 (map (fun i : info => snd (fst i)) is) in
    let? k := ddiv total_emission stake_sum in
    map_opt (fun i : info => let? e := dmul (snd i) k in Some (fst (fst i), e)) is
  end.

(* rewards: proposer rewards by active-set position, rewards vault balance *)
Fixpoint lookup (k : Z) (l : list (Z * Z)) : Z :=
  match l with [] => 0 | (k', v) :: l' => if k =? k' then v else lookup k l' end.
Fixpoint infos_idx (minrel : Z) (idx : Z) (active : list (Z * Z * Z * Z)) : option (list (Z * info)) :=
  match active with
  | [] => Some []
  | (id, stake, made, missed) :: rest =>
      if 0 <? stake then
        let? sr := success_ratio made missed in
        let? f := reliability_factor sr minrel in
        let? eff := dmul stake f in
        let? r := infos_idx minrel (idx + 1) rest in
        Some ((idx, (id, stake, eff)) :: r)
      else infos_idx minrel (idx + 1) rest
  end.
Definition rewards (minrel : Z) (active : list (Z * Z * Z * Z)) (proposer : list (Z * Z)) (vault : Z)
  : option (list (Z * Z)) :=
  let? is := infos_idx minrel 0 active in
  match is with
  | [] => Some []
  | _ =>
    let? total_eff := sum_left 0 (map (fun i : Z * info => snd (snd i)) is) in
    let? total_prop := sum_left 0 (map (fun i : Z * info => lookup (fst i) proposer) is) in
    let? claimable := dsub vault total_prop in
    let? rps := (if total_eff =? 0 then Some 0 else ddiv claimable total_eff) in
    let? l := map_opt (fun i : Z * info =>
                 let? m := dmul (snd (snd i)) rps in
                 let? t := dadd (lookup (fst i) proposer) m in
                 Some (fst (fst (snd i)), t)) is in
    Some (filter (fun it : Z * Z => negb (snd it =? 0)) l)
  end.

(* Validator::apply_emission on (v, u) with fee factor ff: (v', u') *)
Definition apply_emission (ff e v u : Z) : option (Z * Z) :=
  let? fee := dmul ff e in
  if (fee <? 0) || (e <? fee) then None else          (* bucket.take(fee) *)
  let? added := dsub e fee in
  let? post := dadd v added in
  let? units := stake_units fee post u in
  if (units <? 0) || (2 ^ 152 <? units) then None else
  let? u' := dadd u units in
  let? v' := dadd v e in
  Some (v', u').
(* Validator::apply_reward *)
Definition apply_reward (r v u : Z) : option (Z * Z) :=
  let? units := stake_units r v u in
  if (units <? 0) || (2 ^ 152 <? units) then None else
  let? u' := dadd u units in
  let? v' := dadd v r in
  Some (v', u').

(* ---------------------------------------------------------------------------------------------- *)
(* selection of the next validator set: stable sort by stake descending, take max *)

(* insertion into a list sorted by stake descending, after all elements with stake >= the new one
   (stable for a left-to-right insertion of the scan order) *)
Fixpoint insert_desc (x : Z * Z) (l : list (Z * Z)) : list (Z * Z) :=
  match l with
  | [] => [x]
  | y :: l' => if snd y <? snd x then x :: y :: l' else y :: insert_desc x l'
  end.
Fixpoint sort_desc (l : list (Z * Z)) : list (Z * Z) :=
  match l with [] => [] | x :: l' => insert_desc x (sort_desc l') end.
(* [scan] = the registered validators with non-zero stake in index-scan order: (id, stake) *)
Definition next_set (maxv : Z) (scan : list (Z * Z)) : list (Z * Z) :=
  firstn (Z.to_nat maxv) (sort_desc (rev scan)).
(* note: inserting the reversed scan right-to-left = inserting scan order left-to-right *)

(* ---------------------------------------------------------------------------------------------- *)
(* the staking system as a state machine: validators (stake vault, stake-unit supply, pending
   withdraw vault, owner's locked stake units, fee factor, registration, outstanding claim NFTs),
   the consensus manager's rewards vault and proposer-reward counters, the epoch, and three ghost
   counters used to state conservation: XRD received from users (stakes, fees), XRD paid out to
   users (claims), XRD minted as emission. *)

Record vst := {
  sv : Z;                    (* stake_xrd_vault *)
  su : Z;                    (* total supply of the stake unit resource *)
  spend : Z;                 (* pending_xrd_withdraw_vault *)
  slock : Z;                 (* locked_owner_stake_unit_vault (stake units) *)
  sff : Z;                   (* validator_fee_factor *)
  sreg : bool;               (* is_registered *)
  sclaims : list (Z * Z)     (* claim NFTs: (claim_amount, claim_epoch) *)
}.
Record sys := {
  svals : list vst;
  srv : Z;                   (* rewards vault *)
  sprop : list (Z * Z);      (* proposer rewards by active-set position *)
  sepoch : Z;
  g_in : Z; g_out : Z; g_mint : Z
}.

Inductive sop :=
| SStake (i x : Z)
| SUnstake (i n nue : Z)                 (* nue = config.num_unstake_epochs *)
| SClaim (i amt ce : Z)                  (* claim_xrd with the claim NFT (amt, ce) *)
| SFee (leader p s : Z)                  (* fee distribution of a committed transaction:
                                            p to the proposer's counter, p + s into the rewards vault *)
| SEpoch (te minrel : Z) (active : list (Z * Z * Z * Z))
(* effects of update_fee (once effective) and register / unregister: they move no XRD; the delay
   rules of fee changes are not modelled *)
| SSetFee (i ff : Z)
| SSetReg (i : Z) (b : bool).

Fixpoint upd_nth {A} (n : nat) (f : A -> option A) (l : list A) : option (list A) :=
  match l, n with
  | [], _ => None
  | x :: l', O => let? y := f x in Some (y :: l')
  | x :: l', S k => let? r := upd_nth k f l' in Some (x :: r)
  end.
Definition upd_val (i : Z) (f : vst -> option vst) (s : sys) : option (list vst) :=
  if i <? 0 then None else upd_nth (Z.to_nat i) f (svals s).

Definition v_stake (x : Z) (v : vst) : option vst :=
  if x <? 0 then None else
  let? r := stake x (sv v) (su v) in
  let '(m, v', u') := r in
  Some {| sv := v'; su := u'; spend := spend v; slock := slock v; sff := sff v; sreg := sreg v;
          sclaims := sclaims v |}.
Definition v_unstake (n ce : Z) (v : vst) : option vst :=
  if n <? 0 then None else
  let? r := unstake n (sv v) (su v) in
  let '(c, v', u') := r in
  let? p' := dadd (spend v) c in                       (* unstake_vault.put *)
  Some {| sv := v'; su := u'; spend := p'; slock := slock v; sff := sff v; sreg := sreg v;
          sclaims := (c, ce) :: sclaims v |}.
Fixpoint remove_claim (a ce : Z) (l : list (Z * Z)) : option (list (Z * Z)) :=
  match l with
  | [] => None
  | (a', ce') :: l' => if (a =? a') && (ce =? ce') then Some l'
                       else let? r := remove_claim a ce l' in Some ((a', ce') :: r)
  end.
Definition v_claim (amt ce cur : Z) (v : vst) : option vst :=
  let? cl := remove_claim amt ce (sclaims v) in
  if cur <? ce then None else                           (* EpochUnlockHasNotOccurredYet *)
  if (amt <? 0) || (spend v <? amt) then None else      (* unstake_vault.take *)
  Some {| sv := sv v; su := su v; spend := spend v - amt; slock := slock v; sff := sff v;
          sreg := sreg v; sclaims := cl |}.
Definition v_emit (e : Z) (v : vst) : option vst :=
  let? r := apply_emission (sff v) e (sv v) (su v) in
  let '(v', u') := r in
  Some {| sv := v'; su := u'; spend := spend v; slock := slock v + (u' - su v); sff := sff v;
          sreg := sreg v; sclaims := sclaims v |}.
Definition v_reward (r : Z) (v : vst) : option vst :=
  let? x := apply_reward r (sv v) (su v) in
  let '(v', u') := x in
  Some {| sv := v'; su := u'; spend := spend v; slock := slock v + (u' - su v); sff := sff v;
          sreg := sreg v; sclaims := sclaims v |}.

Definition v_set_fee (ff : Z) (v : vst) : option vst :=
  if (ff <? 0) || (DD <? ff) then None else             (* check_validator_fee_factor *)
  Some {| sv := sv v; su := su v; spend := spend v; slock := slock v; sff := ff; sreg := sreg v;
          sclaims := sclaims v |}.
Definition v_set_reg (b : bool) (v : vst) : option vst :=
  Some {| sv := sv v; su := su v; spend := spend v; slock := slock v; sff := sff v; sreg := b;
          sclaims := sclaims v |}.

Fixpoint apply_list (f : Z -> vst -> option vst) (l : list (Z * Z)) (vs : list vst) : option (list vst) :=
  match l with
  | [] => Some vs
  | (id, a) :: l' =>
      if id <? 0 then None else
      let? vs1 := upd_nth (Z.to_nat id) (f a) vs in apply_list f l' vs1
  end.

Fixpoint add_prop (k p : Z) (l : list (Z * Z)) : list (Z * Z) :=
  match l with
  | [] => [(k, p)]
  | (k', v) :: l' => if k =? k' then (k', v + p) :: l' else (k', v) :: add_prop k p l'
  end.
Fixpoint zsum (l : list Z) : Z := match l with [] => 0 | x :: l' => x + zsum l' end.

Definition with_vals (s : sys) (vs : list vst) (din dout : Z) : sys :=
  {| svals := vs; srv := srv s; sprop := sprop s; sepoch := sepoch s;
     g_in := g_in s + din; g_out := g_out s + dout; g_mint := g_mint s |}.

Definition sstep (s : sys) (o : sop) : option sys :=
  match o with
  | SStake i x => let? vs := upd_val i (v_stake x) s in Some (with_vals s vs x 0)
  | SUnstake i n nue => let? vs := upd_val i (v_unstake n (sepoch s + nue)) s in Some (with_vals s vs 0 0)
  | SClaim i amt ce => let? vs := upd_val i (v_claim amt ce (sepoch s)) s in Some (with_vals s vs 0 amt)
  | SFee leader p q =>
      if (p <? 0) || (q <? 0) then None else
      Some {| svals := svals s; srv := srv s + (p + q); sprop := add_prop leader p (sprop s);
              sepoch := sepoch s; g_in := g_in s + (p + q); g_out := g_out s; g_mint := g_mint s |}
  | SEpoch te minrel active =>
      let? es := emissions te minrel active in
      let? rs := rewards minrel active (sprop s) (srv s) in
      (* rewards_vault.take(total_rewards) for every validator *)
      if existsb (fun it : Z * Z => snd it <? 0) rs || (srv s <? zsum (map snd rs)) then None else
      let? vs1 := apply_list v_emit es (svals s) in
      let? vs2 := apply_list v_reward rs vs1 in
      Some {| svals := vs2; srv := srv s - zsum (map snd rs); sprop := []; sepoch := sepoch s + 1;
              g_in := g_in s; g_out := g_out s; g_mint := g_mint s + zsum (map snd es) |}
  | SSetFee i ff => let? vs := upd_val i (v_set_fee ff) s in Some (with_vals s vs 0 0)
  | SSetReg i b => let? vs := upd_val i (v_set_reg b) s in Some (with_vals s vs 0 0)
  end.

(* a failed transaction leaves the state unchanged *)
Fixpoint srun (s : sys) (ops : list sop) : sys :=
  match ops with
  | [] => s
  | o :: ops' => srun (match sstep s o with Some s' => s' | None => s end) ops'
  end.

(* all XRD held by the staking system *)
Definition held (s : sys) : Z := zsum (map (fun v => sv v + spend v) (svals s)) + srv s.
