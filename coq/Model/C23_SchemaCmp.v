(* C23 — executable model of the schema comparison
   (sbor/src/schema/schema_comparison/{schema_comparison_kernel,schema_comparison_settings,
   schema_comparison_result,comparable_schema}.rs; TypeValidation/NumericValidation/LengthValidation
   ::compare in schema/type_data/type_validation.rs; ReferenceValidation/OwnValidation::compare in
   radix-common/src/data/scrypto/custom_schema.rs), for the Scrypto custom schema.
   Model only, no proofs.
   - all nine settings are modelled (completeness x3, structure x2, metadata x3, validation x1);
   - both entry points: fixed type roots (SingleTypeSchema::compare_with) and named type roots
     (TypeCollectionSchema::compare_with);
   - the result is the list of recorded errors (tags only; `is_valid` = the list is empty);
   - `panic!`/`expect` sites ("schema was not valid") are an explicit `CmpPanic`;
   - the comparison work list is a stack (Vec push/pop), the cache an association set; the loop
     consumes one unit of fuel per NEW (base id, compared id) pair (already cached requests are
     dropped structurally), fuel = (|base types| + 256) * (|compared types| + 256): the number of
     distinct resolvable pairs.                                                                  *)
From Coq Require Import List NArith ZArith Bool.
Import ListNotations.
Require Import RV.Model.C20_Sbor RV.Model.C22_Types RV.Model.C22_Schema.
Open Scope N_scope.

Inductive name_rule := DisallowAllChanges | AllowAddingNames | AllowAllChanges.

Record settings := {
  (* SchemaComparisonCompletenessSettings *)
  allow_root_unreachable_types_in_base_schema : bool;
  allow_root_unreachable_types_in_compared_schema : bool;
  allow_compared_to_have_more_root_types : bool;
  (* SchemaComparisonStructureSettings *)
  allow_new_enum_variants : bool;
  allow_replacing_with_any : bool;
  (* SchemaComparisonMetadataSettings *)
  type_name_changes : name_rule;
  field_name_changes : name_rule;
  variant_name_changes : name_rule;
  (* SchemaComparisonValidationSettings *)
  allow_validation_weakening : bool
}.

(* SchemaComparisonSettings::require_equality / allow_extension *)
Definition require_equality : settings :=
  {| allow_root_unreachable_types_in_base_schema := false;
     allow_root_unreachable_types_in_compared_schema := false;
     allow_compared_to_have_more_root_types := false;
     allow_new_enum_variants := false; allow_replacing_with_any := false;
     type_name_changes := DisallowAllChanges; field_name_changes := DisallowAllChanges;
     variant_name_changes := DisallowAllChanges;
     allow_validation_weakening := false |}.
Definition allow_extension : settings :=
  {| allow_root_unreachable_types_in_base_schema := false;
     allow_root_unreachable_types_in_compared_schema := false;
     allow_compared_to_have_more_root_types := true;
     allow_new_enum_variants := true; allow_replacing_with_any := true;
     type_name_changes := DisallowAllChanges; field_name_changes := DisallowAllChanges;
     variant_name_changes := DisallowAllChanges;
     allow_validation_weakening := true |}.

(* SchemaComparisonErrorDetail constructors (payloads dropped) *)
Inductive cerr :=
| EKindMismatch | ETupleFieldCount | EEnumVariants | EEnumFieldCount
| ETypeName | EFieldName | EVariantName | EVariantFieldName
| EValidationChange
| ERootMissing | ENewRoot | EUnreachBase | EUnreachCompared.

Inductive cres := CmpOk (errors : list cerr) | CmpPanic | CmpOutOfFuel.

(* ------------------------------------------------------------------------------------------ *)
(* equalities                                                                                  *)
Fixpoint bytes_eq (a b : bytes) : bool :=
  match a, b with
  | [], [] => true
  | x :: a', y :: b' => (x =? y) && bytes_eq a' b'
  | _, _ => false
  end.
Definition tid_eqb (a b : tid) : bool :=
  match a, b with WK i, WK j | Loc i, Loc j => i =? j | _, _ => false end.
Definition pair_eqb (p q : tid * tid) : bool := tid_eqb (fst p) (fst q) && tid_eqb (snd p) (snd q).
Definition pmem (p : tid * tid) (l : list (tid * tid)) : bool := existsb (pair_eqb p) l.
Definition sckind_eqb (a b : sckind) : bool :=
  match a, b with
  | TRef, TRef | TOwn, TOwn | TDec, TDec | TPDec, TPDec | TNfid, TNfid => true
  | _, _ => false
  end.
(* `==` on the leaf type kinds (the only ones the kernel compares with ==) *)
Definition leaf_kind (k : tkind) : bool :=
  match k with TAny | TBool | TInt _ | TString | TCustom _ => true | _ => false end.
Definition leaf_kind_eqb (a b : tkind) : bool :=
  match a, b with
  | TAny, TAny | TBool, TBool | TString, TString => true
  | TInt i, TInt j => ikind_eqb i j
  | TCustom c, TCustom d => sckind_eqb c d
  | _, _ => false
  end.
Definition is_any (k : tkind) : bool := match k with TAny => true | _ => false end.

Definition refval_eqb (a b : refval) : bool :=
  match a, b with
  | RIsGlobal, RIsGlobal | RIsGlobalPackage, RIsGlobalPackage
  | RIsGlobalComponent, RIsGlobalComponent | RIsGlobalResourceManager, RIsGlobalResourceManager
  | RIsInternal, RIsInternal => true
  | RIsGlobalTyped x, RIsGlobalTyped y | RIsInternalTyped x, RIsInternalTyped y => bytes_eq x y
  | _, _ => false
  end.
Definition ownval_eqb (a b : ownval) : bool :=
  match a, b with
  | OIsBucket, OIsBucket | OIsProof, OIsProof | OIsVault, OIsVault
  | OIsKeyValueStore, OIsKeyValueStore | OIsGlobalAddressReservation, OIsGlobalAddressReservation => true
  | OIsTypedObject x, OIsTypedObject y => bytes_eq x y
  | _, _ => false
  end.

(* ------------------------------------------------------------------------------------------ *)
(* validation comparison                                                                       *)
Inductive vchange := Unchanged | Strengthened | Weakened | Incomparable.
(* ValidationChange::combine *)
Definition combine_change (a b : vchange) : vchange :=
  match a, b with
  | Incomparable, _ | _, Incomparable => Incomparable
  | Unchanged, o | o, Unchanged => o
  | Strengthened, Strengthened => Strengthened
  | Strengthened, Weakened | Weakened, Strengthened => Incomparable
  | Weakened, Weakened => Weakened
  end.
(* NumericValidation::compare on effective bounds *)
Definition bounds_compare (bmin bmax cmin cmax : Z) : vchange :=
  let min_change := match (cmin ?= bmin)%Z with Lt => Weakened | Eq => Unchanged | Gt => Strengthened end in
  let max_change := match (cmax ?= bmax)%Z with Lt => Strengthened | Eq => Unchanged | Gt => Weakened end in
  combine_change min_change max_change.
Definition num_compare (i : ikind) (b c : nbounds) : vchange :=
  bounds_compare (eff_min i b) (eff_max i b) (eff_min i c) (eff_max i c).
(* LengthValidation::compare: NumericValidation<u32> over the same Option bounds *)
Definition lmin (b : lbounds) : Z := Z.of_N (opt_default 0 (lb_min b)).
Definition lmax (b : lbounds) : Z := Z.of_N (opt_default U32_MAX (lb_max b)).
Definition len_compare (b c : lbounds) : vchange := bounds_compare (lmin b) (lmax b) (lmin c) (lmax c).

Definition requires_global (r : refval) : bool :=
  match r with RIsInternal | RIsInternalTyped _ => false | _ => true end.
Definition requires_internal (r : refval) : bool := negb (requires_global r).
Definition ref_compare (b c : refval) : vchange :=
  if refval_eqb b c then Unchanged
  else match b, c with
       | RIsGlobal, _ => if requires_global c then Strengthened else Incomparable
       | _, RIsGlobal => if requires_global b then Weakened else Incomparable
       | RIsInternal, _ => if requires_internal c then Strengthened else Incomparable
       | _, RIsInternal => if requires_internal b then Weakened else Incomparable
       | _, _ => Incomparable
       end.
Definition own_compare (b c : ownval) : vchange :=
  if ownval_eqb b c then Unchanged else Incomparable.

(* compare_type_validation_internal: the ValidationChange *)
Definition val_change (b c : tval) : vchange :=
  match b, c with
  | VNone, VNone => Unchanged
  | _, VNone => Weakened
  | VNone, _ => Strengthened
  | VNum i x, VNum j y => if ikind_eqb i j then num_compare i x y else Incomparable
  | VStr x, VStr y | VArr x, VArr y | VMapV x, VMapV y => len_compare x y
  | VCRef x, VCRef y => ref_compare x y
  | VCOwn x, VCOwn y => own_compare x y
  | _, _ => Incomparable
  end.

(* ------------------------------------------------------------------------------------------ *)
(* names                                                                                       *)
Definition name_eqb (a b : option bytes) : bool :=
  match a, b with Some x, Some y => bytes_eq x y | None, None => true | _, _ => false end.
(* NameChange::of_changed_option(..).validate(rule) *)
Definition name_change_ok (rule : name_rule) (from to : option bytes) : bool :=
  if name_eqb from to then true
  else match rule with
       | AllowAllChanges => true
       | DisallowAllChanges => false
       | AllowAddingNames => match from, to with None, Some _ => true | _, _ => false end
       end.
Definition meta_name (m : tmeta) : option bytes := match m with TMeta n _ => n end.
(* TypeMetadata::get_field_name / get_enum_variant_data *)
Definition get_field_name (m : tmeta) (i : N) : option bytes :=
  match m with TMeta _ (Some (NamedFields l)) => nth_N l i | _ => None end.
Definition get_enum_variant_data (m : tmeta) (d : N) : option tmeta :=
  match m with
  | TMeta _ (Some (EnumVariants vs)) =>
    match find (fun p => fst p =? d) vs with Some p => Some (snd p) | None => None end
  | _ => None
  end.
Definition rule_eqb (a b : name_rule) : bool :=
  match a, b with
  | DisallowAllChanges, DisallowAllChanges | AllowAddingNames, AllowAddingNames
  | AllowAllChanges, AllowAllChanges => true
  | _, _ => false
  end.

Fixpoint range_N (n : nat) (from : N) : list N :=
  match n with O => [] | S m => from :: range_N m (from + 1) end.

Section WithSettings.
Variable st : settings.

(* SchemaComparisonMetadataSettings::checks_required *)
Definition checks_required : bool :=
  negb (rule_eqb (type_name_changes st) AllowAllChanges &&
        rule_eqb (field_name_changes st) AllowAllChanges &&
        rule_eqb (variant_name_changes st) AllowAllChanges).

(* field-name errors for indices 0..n-1 *)
Definition field_name_errs (e : cerr) (bm cm : tmeta) (n : nat) : list cerr :=
  flat_map (fun i => if name_change_ok (field_name_changes st) (get_field_name bm i) (get_field_name cm i)
                     then [] else [e]) (range_N n 0).

(* compare_type_metadata_internal; None = the `expect` panics *)
Definition meta_compare (bk : tkind) (bm cm : tmeta) : option (list cerr) :=
  if negb checks_required then Some [] else
  let e0 := if name_change_ok (type_name_changes st) (meta_name bm) (meta_name cm) then [] else [ETypeName] in
  match bk with
  | TTuple fts => Some (e0 ++ field_name_errs EFieldName bm cm (length fts))
  | TEnum vs =>
    (fix go (l : list (N * list tid)) (acc : list cerr) : option (list cerr) :=
       match l with
       | [] => Some acc
       | (d, fts) :: r =>
         match get_enum_variant_data bm d, get_enum_variant_data cm d with
         | Some bvm, Some cvm =>
           (* NB: the code validates the variant name with settings.field_name_changes *)
           let e1 := if name_change_ok (field_name_changes st) (meta_name bvm) (meta_name cvm)
                     then [] else [EVariantName] in
           go r (acc ++ e1 ++ field_name_errs EVariantFieldName bvm cvm (length fts))
         | _, _ => None
         end
       end) vs e0
  | _ => Some e0
  end.

(* compare_type_validation_internal *)
Definition val_compare (b c : tval) : list cerr :=
  match val_change b c with
  | Unchanged => []
  | Weakened => if allow_validation_weakening st then [] else [EValidationChange]
  | _ => [EValidationChange]
  end.

(* visit_type_kind_children *)
Definition kind_children (k : tkind) : list tid :=
  match k with
  | TArray e => [e]
  | TTuple fs => fs
  | TEnum vs => flat_map snd vs
  | TMap k v => [k; v]
  | _ => []
  end.

Definition has_key (d : N) (vs : list (N * list tid)) : bool := existsb (fun p => fst p =? d) vs.
Definition is_nil {A} (l : list A) : bool := match l with [] => true | _ => false end.

(* the Enum arm of compare_type_kind_internal *)
Definition enum_compare (bvs cvs : list (N * list tid)) : list cerr * list (tid * tid) :=
  let base_missing := filter (fun p => negb (has_key (fst p) cvs)) bvs in
  let compared_missing := filter (fun p => negb (has_key (fst p) bvs)) cvs in
  let e0 := if negb (is_nil base_missing) ||
               (negb (is_nil compared_missing) && negb (allow_new_enum_variants st))
            then [EEnumVariants] else [] in
  (fix go (l : list (N * list tid)) (errs : list cerr) (ch : list (tid * tid)) :=
     match l with
     | [] => (errs, ch)
     | (d, bf) :: r =>
       match find_variant d cvs with
       | None => go r errs ch
       | Some cf =>
         if nlen bf =? nlen cf then go r errs (ch ++ combine bf cf)
         else go r (errs ++ [EEnumFieldCount]) ch
       end
     end) bvs e0 [].

(* compare_type_kind_internal: (errors, children needing checking) *)
Definition kind_compare (bk ck : tkind) : list cerr * list (tid * tid) :=
  if is_any ck && negb (is_any bk) && allow_replacing_with_any st
  then ([], map (fun c => (c, any_tid)) (kind_children bk))
  else
    match bk with
    | TArray be =>
      match ck with TArray ce => ([], [(be, ce)]) | _ => ([EKindMismatch], []) end
    | TTuple bf =>
      match ck with
      | TTuple cf => if nlen bf =? nlen cf then ([], combine bf cf) else ([ETupleFieldCount], [])
      | _ => ([EKindMismatch], [])
      end
    | TEnum bvs =>
      match ck with TEnum cvs => enum_compare bvs cvs | _ => ([EKindMismatch], []) end
    | TMap bkey bval =>
      match ck with TMap ckey cval => ([], [(bkey, ckey); (bval, cval)]) | _ => ([EKindMismatch], []) end
    | _ => if leaf_kind_eqb bk ck then ([], []) else ([EKindMismatch], [])
    end.

Variable base compared : schema.

(* Schema::resolve_type_data *)
Definition resolve_data (s : schema) (t : tid) : option (tkind * tmeta * tval) :=
  match resolve_kind s t, resolve_meta s t, resolve_val s t with
  | Some k, Some m, Some v => Some (k, m, v)
  | _, _, _ => None
  end.

(* compare_types_internal: Some (errors, child checks required); None = panic *)
Definition shallow_general (a b : tid) : option (list cerr * list (tid * tid)) :=
  match resolve_data base a, resolve_data compared b with
  | Some (bk, bm, bv), Some (ck, cm, cv) =>
    let '(kerrs, ch) := kind_compare bk ck in
    if negb (is_nil kerrs) then Some (kerrs, ch) else
    match meta_compare bk bm cm with
    | None => None
    | Some merrs => Some (merrs ++ val_compare bv cv, ch)
    end
  | _, _ => None
  end.
Definition shallow (a b : tid) : option (list cerr * list (tid * tid)) :=
  match a, b with
  | WK i, WK j => if i =? j then Some ([], []) else shallow_general a b
  | _, _ => shallow_general a b
  end.

(* ------------------------------------------------------------------------------------------ *)
(* the work list                                                                               *)
Record cstate := { c_cache : list (tid * tid); c_work : list (tid * tid); c_errs : list cerr }.

(* requests whose pair is already cached return immediately *)
Fixpoint skip_cached (cache work : list (tid * tid)) : list (tid * tid) :=
  match work with
  | [] => []
  | p :: r => if pmem p cache then skip_cached cache r else work
  end.

Inductive dres := DDone (cs : cstate) | DPanic | DOutOfFuel.

(* `while let Some(request) = work_list.pop() { run_single_type_comparison(request) }` *)
Fixpoint drain (fuel : nat) (cs : cstate) : dres :=
  match skip_cached (c_cache cs) (c_work cs) with
  | [] => DDone {| c_cache := c_cache cs; c_work := []; c_errs := c_errs cs |}
  | (a, b) :: rest =>
    match fuel with
    | O => DOutOfFuel
    | S f =>
      match shallow a b with
      | None => DPanic
      | Some (errs, ch) =>
        let push := filter (fun p => negb (pmem p (c_cache cs))) ch in
        drain f {| c_cache := (a, b) :: c_cache cs;
                   c_work := rev push ++ rest;        (* Vec::push, popped from the end *)
                   c_errs := c_errs cs ++ errs |}
      end
    end
  end.

Definition cmp_fuel : nat :=
  N.to_nat ((nlen (s_kinds base) + 256) * (nlen (s_kinds compared) + 256)).

(* deep_compare_root_types *)
Definition deep_compare (cs : cstate) (a b : tid) : dres :=
  drain cmp_fuel {| c_cache := c_cache cs; c_work := (a, b) :: c_work cs; c_errs := c_errs cs |}.

(* ------------------------------------------------------------------------------------------ *)
(* reachability marking (mark_root_reachable_{base,compared}_types); None = panic *)
Fixpoint skip_seen (seen work : list N) : list N :=
  match work with
  | [] => []
  | i :: r => if existsb (N.eqb i) seen then skip_seen seen r else work
  end.
Definition local_children (k : tkind) : list N :=
  flat_map (fun t => match t with Loc i => [i] | WK _ => [] end) (kind_children k).
Fixpoint mark_loop (s : schema) (fuel : nat) (seen work : list N) : option (option (list N)) :=
  (* Some None = panic, None = out of fuel *)
  match skip_seen seen work with
  | [] => Some (Some seen)
  | i :: rest =>
    match fuel with
    | O => None
    | S f =>
      match resolve_kind s (Loc i) with
      | None => Some None
      | Some k => mark_loop s f (i :: seen) (rev (local_children k) ++ rest)
      end
    end
  end.
Definition mark_reachable (s : schema) (seen : list N) (root : tid) : option (option (list N)) :=
  match root with
  | WK _ => Some (Some seen)
  | Loc i => mark_loop s (S (length (s_kinds s))) seen [i]
  end.

(* check_for_completeness *)
Definition completeness_errs (seen_b seen_c : list N) : list cerr :=
  (if negb (allow_root_unreachable_types_in_base_schema st) &&
      (nlen seen_b <? nlen (s_metas base))
   then flat_map (fun i => if existsb (N.eqb i) seen_b then [] else [EUnreachBase])
                 (range_N (length (s_metas base)) 0)
   else []) ++
  (if negb (allow_root_unreachable_types_in_compared_schema st) &&
      (nlen seen_c <? nlen (s_metas compared))
   then flat_map (fun i => if existsb (N.eqb i) seen_c then [] else [EUnreachCompared])
                 (range_N (length (s_metas compared)) 0)
   else []).

Record kstate := { k_cs : cstate; k_seen_b : list N; k_seen_c : list N }.
Definition k_init : kstate :=
  {| k_cs := {| c_cache := []; c_work := []; c_errs := [] |}; k_seen_b := []; k_seen_c := [] |}.
Inductive kres := KOk (k : kstate) | KPanic | KOutOfFuel.

Definition add_err (k : kstate) (e : cerr) : kstate :=
  {| k_cs := {| c_cache := c_cache (k_cs k); c_work := c_work (k_cs k); c_errs := c_errs (k_cs k) ++ [e] |};
     k_seen_b := k_seen_b k; k_seen_c := k_seen_c k |}.
Definition mark_b (k : kstate) (a : tid) : kres :=
  match mark_reachable base (k_seen_b k) a with
  | Some (Some s) => KOk {| k_cs := k_cs k; k_seen_b := s; k_seen_c := k_seen_c k |}
  | Some None => KPanic | None => KOutOfFuel end.
Definition mark_c (k : kstate) (b : tid) : kres :=
  match mark_reachable compared (k_seen_c k) b with
  | Some (Some s) => KOk {| k_cs := k_cs k; k_seen_b := k_seen_b k; k_seen_c := s |}
  | Some None => KPanic | None => KOutOfFuel end.
Definition kbind (r : kres) (f : kstate -> kres) : kres :=
  match r with KOk k => f k | KPanic => KPanic | KOutOfFuel => KOutOfFuel end.

(* one iteration of the root loops: deep compare, then mark both sides *)
Definition root_step (k : kstate) (a b : tid) : kres :=
  match deep_compare (k_cs k) a b with
  | DPanic => KPanic | DOutOfFuel => KOutOfFuel
  | DDone cs =>
    kbind (mark_b {| k_cs := cs; k_seen_b := k_seen_b k; k_seen_c := k_seen_c k |} a)
          (fun k1 => mark_c k1 b)
  end.

Definition finish (r : kres) : cres :=
  match r with
  | KOk k => CmpOk (c_errs (k_cs k) ++ completeness_errs (k_seen_b k) (k_seen_c k))
  | KPanic => CmpPanic | KOutOfFuel => CmpOutOfFuel
  end.

(* compare_using_fixed_type_roots *)
Definition compare_fixed (roots : list (tid * tid)) : cres :=
  finish (fold_left (fun r p => kbind r (fun k => root_step k (fst p) (snd p))) roots (KOk k_init)).

(* compare_using_named_type_roots (IndexMap<String, LocalTypeId> as association lists) *)
Definition find_root (n : bytes) (roots : list (bytes * tid)) : option tid :=
  match find (fun p => bytes_eq (fst p) n) roots with Some p => Some (snd p) | None => None end.
Definition compare_named (broots croots : list (bytes * tid)) : cres :=
  let r1 := fold_left (fun r p => kbind r (fun k =>
              match find_root (fst p) croots with
              | Some b => root_step k (snd p) b
              | None => mark_b (add_err k ERootMissing) (snd p)
              end)) broots (KOk k_init) in
  let r2 := fold_left (fun r p => kbind r (fun k =>
              match find_root (fst p) broots with
              | Some _ => KOk k
              | None =>
                mark_c (if allow_compared_to_have_more_root_types st then k else add_err k ENewRoot) (snd p)
              end)) croots r1 in
  finish r2.

End WithSettings.
