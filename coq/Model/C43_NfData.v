(* C43 — executable model of the non-fungible data store of one non-fungible resource manager:
     radix-engine/src/blueprints/resource/non_fungible/non_fungible_resource_manager.rs
       create_non_fungibles (id-type check, open MUTABLE, check_non_existence, set),
       create_with_initial_supply / create_ruid_with_initial_supply (initial entries),
       mint_non_fungible, mint_ruid_non_fungible, mint_single_ruid_non_fungible,
       update_non_fungible_data (mutable-field lookup, open MUTABLE, set field), burn_internal
       (remove + lock = tombstone), assert_is_ruid / assert_is_not_ruid
     radix-engine/src/system/system.rs actor_open_key_value_entry: MUTABLE open of a Locked entry fails
   Model only, no proofs. One step = one transaction: a failing call changes nothing.
   RUID ids are produced by Runtime::generate_ruid (a hash of the transaction hash and a counter);
   the generator is outside the model: mint_ruid takes the generated ids as input. *)
From Coq Require Import List NArith Bool.
Import ListNotations.
Open Scope N_scope.

Inductive idtype := TString | TInteger | TBytes | TRUID.
Definition idtype_eqb (a b : idtype) : bool :=
  match a, b with TString, TString | TInteger, TInteger | TBytes, TBytes | TRUID, TRUID => true | _, _ => false end.
(* a local id: its kind and a number standing for its content *)
Definition nfid := (idtype * N)%type.
Definition nfid_eqb (a b : nfid) : bool := idtype_eqb (fst a) (fst b) && N.eqb (snd a) (snd b).

Definition data := list N.                 (* the tuple of field values *)
(* a key-value entry substate of the Data collection: value + lock status *)
Inductive entry :=
  | Live (d : data)                        (* Some(value), Unlocked *)
  | Tomb.                                  (* None, Locked: burned *)

Record rm := {
  r_idtype : idtype;
  r_nfields : nat;                         (* arity of the data tuple *)
  r_mutable : list (N * nat);              (* mutable_field_index: field name -> tuple index *)
  r_store : list (nfid * entry)            (* entries that exist as substates, newest first *)
}.

Fixpoint find (k : nfid) (l : list (nfid * entry)) : option entry :=
  match l with [] => None | (k', e) :: l' => if nfid_eqb k k' then Some e else find k l' end.
Fixpoint put (k : nfid) (e : entry) (l : list (nfid * entry)) : list (nfid * entry) :=
  match l with
  | [] => [(k, e)]
  | (k', e') :: l' => if nfid_eqb k k' then (k, e) :: l' else (k', e') :: put k e l'
  end.
Fixpoint lookup_field (name : N) (l : list (N * nat)) : option nat :=
  match l with [] => None | (n, i) :: l' => if N.eqb name n then Some i else lookup_field name l' end.
Fixpoint set_nth (i : nat) (v : N) (d : data) : option data :=
  match i, d with
  | O, _ :: d' => Some (v :: d')
  | S i', x :: d' => match set_nth i' v d' with Some r => Some (x :: r) | None => None end
  | _, [] => None                          (* index out of range: the code panics *)
  end.

Inductive err :=
  | EIdTypeMismatch          (* NonFungibleIdTypeDoesNotMatch *)
  | EAlreadyExists           (* NonFungibleAlreadyExists *)
  | ELocked                  (* SystemError::KeyValueEntryLocked *)
  | ENotFound                (* NonFungibleNotFound *)
  | EUnknownField            (* UnknownMutableFieldName *)
  | EInvalidIdType           (* InvalidNonFungibleIdType: ruid mint on non-ruid resource or vice versa *)
  | ENotHeld                 (* burn of ids that are not in the caller's bucket: fails before the manager *)
  | EPayload                 (* data does not match the schema *)
  | EUnauthorized            (* auth module: the caller does not satisfy the minter / burner / data-updater role *)
  | ENotMintable             (* assert_mintable: the resource was created without the mint feature *)
  | ENotBurnable             (* assert_burnable *)
  | EOther.
Inductive res (A : Type) := ROk (x : A) | RErr (e : err) | RPanic.
Arguments ROk {A} x. Arguments RErr {A} e. Arguments RPanic {A}.

Definition with_store (m : rm) (s : list (nfid * entry)) : rm :=
  {| r_idtype := r_idtype m; r_nfields := r_nfields m; r_mutable := r_mutable m; r_store := s |}.

(* create_non_fungibles: entries in order; the first failing entry aborts *)
Fixpoint create_nfs (ty : idtype) (nf : nat) (check : bool) (entries : list (nfid * data))
                    (s : list (nfid * entry)) : res (list (nfid * entry)) :=
  match entries with
  | [] => ROk s
  | (id, d) :: rest =>
      if negb (idtype_eqb (fst id) ty) then RErr EIdTypeMismatch
      else match find id s with
           | Some Tomb => RErr ELocked                      (* open MUTABLE on a locked entry *)
           | Some (Live _) =>
               if check then RErr EAlreadyExists
               else if Nat.eqb (length d) nf then create_nfs ty nf check rest (put id (Live d) s) else RErr EPayload
           | None =>
               if Nat.eqb (length d) nf then create_nfs ty nf check rest (put id (Live d) s) else RErr EPayload
           end
  end.

Inductive op :=
  | OMint (entries : list (nfid * data))        (* mint_non_fungible: IndexMap => keys distinct *)
  | OMintRuid (entries : list (nfid * data))    (* mint_ruid_non_fungible with the generated ids *)
  | OBurn (ids : list nfid)                     (* burn of a bucket holding exactly these ids *)
  | OUpdate (id : nfid) (field : N) (v : N).    (* update_non_fungible_data *)

Definition is_live (s : list (nfid * entry)) (id : nfid) : bool :=
  match find id s with Some (Live _) => true | _ => false end.

Definition step (m : rm) (o : op) : rm * res unit :=
  match o with
  | OMint entries =>
      if idtype_eqb (r_idtype m) TRUID then (m, RErr EInvalidIdType)       (* assert_is_not_ruid *)
      else match create_nfs (r_idtype m) (r_nfields m) true entries (r_store m) with
           | ROk s => (with_store m s, ROk tt)
           | RErr e => (m, RErr e)
           | RPanic => (m, RPanic)
           end
  | OMintRuid entries =>
      if negb (idtype_eqb (r_idtype m) TRUID) then (m, RErr EInvalidIdType) (* assert_is_ruid *)
      else match create_nfs TRUID (r_nfields m) false entries (r_store m) with
           | ROk s => (with_store m s, ROk tt)
           | RErr e => (m, RErr e)
           | RPanic => (m, RPanic)
           end
  | OBurn ids =>
      (* a bucket can only hold live ids; then every id: remove + lock *)
      if forallb (is_live (r_store m)) ids
      then (with_store m (fold_left (fun s id => put id Tomb s) ids (r_store m)), ROk tt)
      else (m, RErr ENotHeld)
  | OUpdate id field v =>
      match lookup_field field (r_mutable m) with
      | None => (m, RErr EUnknownField)
      | Some i =>
          match find id (r_store m) with
          | Some Tomb => (m, RErr ELocked)
          | None => (m, RErr ENotFound)
          | Some (Live d) =>
              match set_nth i v d with
              | Some d' => (with_store m (put id (Live d') (r_store m)), ROk tt)
              | None => (m, RPanic)               (* fields[field_index] out of range *)
              end
          end
      end
  end.

(* creation with initial supply: the entries come from an IndexMap (distinct keys); the id type is
   checked in create_object, the store starts empty *)
Definition create (ty : idtype) (nf : nat) (mutable : list (N * nat)) (initial : list (nfid * data)) : option rm :=
  let m0 := {| r_idtype := ty; r_nfields := nf; r_mutable := mutable; r_store := [] |} in
  match create_nfs ty nf false initial [] with
  | ROk s => Some (with_store m0 s)
  | _ => None
  end.

(* admission in front of every operation: the auth module checks the method's role (minter for
   mint / mint_ruid, burner for burn, non_fungible_data_updater for update_non_fungible_data)
   before the call — `auth` = did the caller satisfy it — and the body starts with assert_mintable /
   assert_burnable (feature flags fixed at creation; a resource created without mint (burn) roles has
   the feature off AND the role set to deny_all, so that ENotMintable / ENotBurnable are shadowed) *)
Record rcfg := { mintable : bool; burnable : bool }.
Definition astep (cfg : rcfg) (m : rm) (auth : bool) (o : op) : rm * res unit :=
  if negb auth then (m, RErr EUnauthorized) else
  match o with
  | OMint _ | OMintRuid _ => if mintable cfg then step m o else (m, RErr ENotMintable)
  | OBurn _ => if burnable cfg then step m o else (m, RErr ENotBurnable)
  | OUpdate _ _ _ => step m o
  end.

(* a transaction = several operations, all or nothing *)
Fixpoint tx_go (cfg : rcfg) (m : rm) (ops : list (bool * op)) : rm * res unit :=
  match ops with
  | [] => (m, ROk tt)
  | (auth, o) :: rest => match astep cfg m auth o with
                         | (m', ROk _) => tx_go cfg m' rest
                         | (_, e) => (m, e)
                         end
  end.
Definition tx_step (cfg : rcfg) (m : rm) (ops : list (bool * op)) : rm * res unit :=
  match tx_go cfg m ops with
  | (m', ROk u) => (m', ROk u)
  | (_, e) => (m, e)
  end.

Fixpoint run (m : rm) (ops : list op) : list (rm * op * rm * res unit) :=
  match ops with
  | [] => []
  | o :: ops' => let r := step m o in (m, o, fst r, snd r) :: run (fst r) ops'
  end.
Definition final (m : rm) (ops : list op) : rm := fold_left (fun m o => fst (step m o)) ops m.
