(* C31 — executable model of the whole manifest lexer (radix-transactions/src/manifest/lexer.rs:
   Lexer::next_token, tokenize_number + parse_int, tokenize_string (Model/C30_Text.v), tokenize_identifier,
   tokenize_punctuation, tokenize) over a list of code points, as written: same order of checks, same
   error kinds, same span indices (full_index of start and end).  No proofs.
   The loop of `tokenize` is modelled with fuel (LOutOfFuel) — C31_lex_total shows that
   length+1 is always enough and that no panic state is reachable. *)
From Coq Require Import List NArith ZArith Bool.
Import ListNotations.
Require Import RV.Model.C30_Text.
Open Scope N_scope.

Inductive token :=
| TBool (b : bool)
| TInt (signed : bool) (bits : N) (v : Z)          (* I8Literal .. U128Literal *)
| TString (s : list N)
| TIdent (s : list N)
| TOpenP | TCloseP | TLt | TGt | TComma | TSemi | TFatArrow.
Definition tok := (token * N * N)%type.             (* token, span.start.full_index, span.end.full_index *)

Inductive ntres :=
| NTOk (t : token) (rest : list N) (end_ : N)
| NTErr (k : lkind) (start end_ : N)
| NTPanic.
Inductive lres := LOk (ts : list tok) | LErr (k : lkind) (start end_ : N) | LPanic | LOutOfFuel.

Definition is_ws (c : N) : bool := (c =? 32) || (c =? 9) || (c =? 13) || (c =? 10).
Definition is_digit (c : N) : bool := (48 <=? c) && (c <=? 57).
Definition is_alpha (c : N) : bool := ((97 <=? c) && (c <=? 122)) || ((65 <=? c) && (c <=? 90)).
Definition is_ident_char (c : N) : bool := is_alpha c || is_digit c || (c =? 95) || (c =? 58).

(* skip comment and whitespace: `#` switches to comment mode without being consumed, the next
   iteration consumes it; a comment ends after LF *)
Fixpoint skip (l : list N) (pos : N) (in_comment : bool) : list N * N :=
  match l with
  | [] => ([], pos)
  | c :: t =>
      if in_comment then skip t (pos + 1) (negb (c =? 10))
      else if c =? 35 then skip t (pos + 1) true
      else if is_ws c then skip t (pos + 1) false
      else (l, pos)
  end.

(* `while self.peek()?.is_ascii_digit()`: digits are collected; at end of input peek fails *)
Fixpoint take_digits (l : list N) (pos : N) (acc : Z) : option (Z * list N * N) :=
  match l with
  | [] => None
  | c :: t => if is_digit c then take_digits t (pos + 1) (acc * 10 + Z.of_N (c - 48)) else Some (acc, l, pos)
  end.

(* int.parse::<T>(): unsigned types reject a leading '-' (also "-0"); range check *)
Definition parse_int (neg : bool) (mag : Z) (signed : bool) (bits : N) : option Z :=
  let v := if neg then (- mag)%Z else mag in
  if signed then
    if ((- 2 ^ (Z.of_N bits - 1) <=? v) && (v <=? 2 ^ (Z.of_N bits - 1) - 1))%Z then Some v else None
  else if neg then None
  else if (v <=? 2 ^ (Z.of_N bits) - 1)%Z then Some v else None.

(* the type suffix after ty_start; returns (signed, bits, rest, pos) or the error *)
Inductive tyres := TyOk (signed : bool) (bits : N) (rest : list N) (pos : N) | TyEof (pos : N) | TyBad (pos : N).
Definition lex_int_type (l : list N) (pos : N) : tyres :=
  match l with
  | [] => TyEof pos
  | c :: t =>
      if (c =? 105) || (c =? 117) then
        let sg := c =? 105 in
        match t with
        | [] => TyEof (pos + 1)
        | c1 :: t1 =>
            if c1 =? 49 then                                       (* '1' *)
              match t1 with
              | [] => TyEof (pos + 2)
              | c2 :: t2 =>
                  if c2 =? 50 then                                 (* "12" *)
                    match t2 with
                    | [] => TyEof (pos + 3)
                    | c3 :: t3 => if c3 =? 56 then TyOk sg 128 t3 (pos + 4) else TyBad (pos + 4)
                    end
                  else if c2 =? 54 then TyOk sg 16 t2 (pos + 3)
                  else TyBad (pos + 3)
              end
            else if c1 =? 51 then                                  (* '3' *)
              match t1 with
              | [] => TyEof (pos + 2)
              | c2 :: t2 => if c2 =? 50 then TyOk sg 32 t2 (pos + 3) else TyBad (pos + 3)
              end
            else if c1 =? 54 then                                  (* '6' *)
              match t1 with
              | [] => TyEof (pos + 2)
              | c2 :: t2 => if c2 =? 52 then TyOk sg 64 t2 (pos + 3) else TyBad (pos + 3)
              end
            else if c1 =? 56 then TyOk sg 8 t1 (pos + 2)
            else TyBad (pos + 2)
        end
      else TyBad (pos + 1)
  end.

(* tokenize_number; l starts at literal_start = pos *)
Definition lex_number (l : list N) (pos : N) : ntres :=
  let '(neg, l1, p1) := match l with 45 :: t => (true, t, pos + 1) | _ => (false, l, pos) end in
  match l1 with
  | [] => NTErr LUnexpectedEof p1 p1
  | c :: t =>
      let digits :=
        if c =? 48 then Some (Some (0%Z, t, p1 + 1))
        else if is_digit c then Some (take_digits t (p1 + 1) (Z.of_N (c - 48)))
        else None in
      match digits with
      | None => NTErr LInvalidIntegerLiteral pos (p1 + 1)
      | Some None => NTErr LUnexpectedEof (p1 + 1 + N.of_nat (length t)) (p1 + 1 + N.of_nat (length t))
      | Some (Some (mag, l2, p2)) =>
          match lex_int_type l2 p2 with
          | TyEof p => NTErr LUnexpectedEof p p
          | TyBad p => NTErr LInvalidIntegerType p2 p
          | TyOk sg bits rest p3 =>
              match parse_int neg mag sg bits with
              | Some v => NTOk (TInt sg bits v) rest p3
              | None => NTErr LInvalidInteger pos p3
              end
          end
      end
  end.

Fixpoint take_ident (l : list N) (pos : N) (acc : list N) : list N * list N * N :=
  match l with
  | [] => (rev acc, [], pos)
  | c :: t => if is_ident_char c then take_ident t (pos + 1) (c :: acc) else (rev acc, l, pos)
  end.
Fixpoint listN_eqb (a b : list N) : bool :=
  match a, b with [], [] => true | x :: a', y :: b' => N.eqb x y && listN_eqb a' b' | _, _ => false end.

(* one token; c :: t is the text at pos, c is not whitespace / '#' *)
Definition next_token (c : N) (t : list N) (pos : N) : ntres :=
  if (c =? 45) || is_digit c then lex_number (c :: t) pos
  else if c =? 34 then
    match lex_string t (pos + 1) pos [] with
    | SOk s e => NTOk (TString s) (skipn (N.to_nat (e - (pos + 1))) t) e
    | SErr k a b => NTErr k a b
    | SPanic => NTPanic
    end
  else if is_alpha c then
    let '(id, rest, p) := take_ident t (pos + 1) [c] in
    NTOk (if listN_eqb id [116; 114; 117; 101] then TBool true
          else if listN_eqb id [102; 97; 108; 115; 101] then TBool false else TIdent id) rest p
  else if c =? 40 then NTOk TOpenP t (pos + 1)
  else if c =? 41 then NTOk TCloseP t (pos + 1)
  else if c =? 60 then NTOk TLt t (pos + 1)
  else if c =? 62 then NTOk TGt t (pos + 1)
  else if c =? 44 then NTOk TComma t (pos + 1)
  else if c =? 59 then NTOk TSemi t (pos + 1)
  else if c =? 61 then
    match t with
    | [] => NTErr LUnexpectedEof (pos + 1) (pos + 1)
    | c1 :: t1 => if c1 =? 62 then NTOk TFatArrow t1 (pos + 2) else NTErr (LUnexpectedChar c1 (XExact 62)) (pos + 1) (pos + 2)
    end
  else if (c =? 123) || (c =? 125) || (c =? 38) then NTErr (LUnexpectedChar c XOneOf) pos (pos + 1)
  else NTErr (LUnexpectedChar c XDLQP) pos (pos + 1).

Fixpoint tokenize_fuel (fuel : nat) (l : list N) (pos : N) (acc : list tok) : lres :=
  match fuel with
  | O => LOutOfFuel
  | S f =>
      let '(l1, p1) := skip l pos false in
      match l1 with
      | [] => LOk (rev acc)
      | c :: t =>
          match next_token c t p1 with
          | NTOk tk rest p2 => tokenize_fuel f rest p2 ((tk, p1, p2) :: acc)
          | NTErr k a b => LErr k a b
          | NTPanic => LPanic
          end
      end
  end.
Definition tokenize (l : list N) : lres := tokenize_fuel (S (length l)) l 0 [].
