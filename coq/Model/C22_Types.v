(* C22/C23 — data types of SBOR schemas (sbor/src/schema/{schema.rs,type_link.rs,type_data/*}),
   instantiated for the Scrypto custom schema (radix-common/src/data/scrypto/custom_schema.rs).
   Types only (shared by the generated well-known table Gen/C22_wellknown.v and the models).
   - `LocalTypeId`            -> tid   (WellKnown(u8) | SchemaLocalIndex(usize))
   - `TypeKind<_, LocalTypeId>` -> tkind (enum variants: IndexMap<u8, Vec<L>> as an association list
                                  in insertion order; keys are unique in an IndexMap)
   - `TypeValidation`         -> tval  (numeric bounds are `Z`, length bounds are u32 as `N`)
   - `TypeMetadata`/`ChildNames` -> tmeta/cnames (names are UTF-8 byte lists)
   - `SchemaV1`               -> schema (three parallel vectors, exactly as in the code)           *)
From Coq Require Import List NArith ZArith Bool.
Import ListNotations.
Require Import RV.Model.C20_Sbor.
Open Scope N_scope.

Inductive tid := WK (i : N) | Loc (i : N).

(* ScryptoCustomTypeKind *)
Inductive sckind := TRef | TOwn | TDec | TPDec | TNfid.

Inductive tkind :=
| TAny | TBool | TInt (i : ikind) | TString
| TArray (elem : tid)
| TTuple (fields : list tid)
| TEnum (variants : list (N * list tid))
| TMap (key val : tid)
| TCustom (c : sckind).

(* NumericValidation<T> { min, max : Option<T> } / LengthValidation { min, max : Option<u32> } *)
Record nbounds := { nb_min : option Z; nb_max : option Z }.
Record lbounds := { lb_min : option N; lb_max : option N }.

(* ReferenceValidation / OwnValidation; the (Option<PackageAddress>, String) payload of the typed
   variants is only ever compared for equality: it is represented by its byte image *)
Inductive refval :=
| RIsGlobal | RIsGlobalPackage | RIsGlobalComponent | RIsGlobalResourceManager
| RIsGlobalTyped (id : bytes) | RIsInternal | RIsInternalTyped (id : bytes).
Inductive ownval :=
| OIsBucket | OIsProof | OIsVault | OIsKeyValueStore | OIsGlobalAddressReservation
| OIsTypedObject (id : bytes).

Inductive tval :=
| VNone
| VNum (i : ikind) (b : nbounds)          (* TypeValidation::I8 .. U128 *)
| VStr (b : lbounds) | VArr (b : lbounds) | VMapV (b : lbounds)
| VCRef (r : refval) | VCOwn (o : ownval).   (* TypeValidation::Custom(ScryptoCustomTypeValidation) *)

Inductive tmeta := TMeta (name : option bytes) (children : option cnames)
with cnames := NamedFields (names : list bytes) | EnumVariants (vs : list (N * tmeta)).

Definition unnamed : tmeta := TMeta None None.

Record schema := { s_kinds : list tkind; s_metas : list tmeta; s_vals : list tval }.

(* an entry of the well-known lookup: TypeData { kind, metadata, validation } *)
Record tdata := { td_kind : tkind; td_meta : tmeta; td_val : tval }.
