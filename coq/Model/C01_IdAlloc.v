(* C01 — model of radix-engine/src/kernel/id_allocator.rs (no proofs here).
   node id = the lower 30 bytes of hash(transaction_hash ++ le32(counter)) with byte 0 replaced by the
   entity-type byte; the counter starts at 0, is incremented per allocation, OutOfID at u32::MAX.
   The hash is a parameter: [H buf] stands for hash(buf).lower_bytes() (30 bytes). *)
From Coq Require Import List NArith Bool.
Import ListNotations.
Open Scope N_scope.

Definition U32_MAX : N := 4294967295.
Definition le32 (n : N) : list N :=
  [n mod 256; (n / 256) mod 256; (n / 65536) mod 256; (n / 16777216) mod 256].

Section IdAlloc.
  Variable H : list N -> list N.

  Record alloc := mkA { a_txh : list N; a_next : N }.
  Definition new (txh : list N) : alloc := mkA txh 0.

  (* the id produced with counter value n *)
  Definition id_at (txh : list N) (n : N) (ety : N) : list N := ety :: tl (H (txh ++ le32 n)).

  Definition allocate (a : alloc) (ety : N) : option (list N * alloc) :=
    if a_next a =? U32_MAX then None                       (* IdAllocationError::OutOfID *)
    else Some (id_at (a_txh a) (a_next a) ety, mkA (a_txh a) (a_next a + 1)).

  (* allocate for a list of entity types; stops at the first failure *)
  Fixpoint allocate_all (a : alloc) (etys : list N) : list (list N) * alloc :=
    match etys with
    | [] => ([], a)
    | e :: t => match allocate a e with
                | None => ([], a)
                | Some (id, a') => let '(ids, a'') := allocate_all a' t in (id :: ids, a'')
                end
    end.
End IdAlloc.
