(* C02 — the write sets of what create_commit_receipt does to the Track after the revert:
   finalize_fees_for_commit and update_transaction_tracker (system_callback.rs), as operation lists of
   the C12 Track model (they use only read_substate / set_substate / delete_partition). Model only.
   Node ids, partition numbers and keys of the well-known substates are parameters (N); the written
   values are parameters too (fee arithmetic is property C06, the tracker content property C07). *)
From Coq Require Import List NArith Bool.
Import ListNotations.
Require Import RV.Model.C12_Track.
Open Scope N_scope.

Record wellknown := {
  wk_main : N;            (* MAIN_BASE_PARTITION *)
  wk_balance : N;         (* FungibleVaultField::Balance *)
  wk_cm : N;              (* CONSENSUS_MANAGER *)
  wk_cm_state : N;        (* ConsensusManagerField::State *)
  wk_cm_rewards : N;      (* ConsensusManagerField::ValidatorRewards *)
  wk_tt : N;              (* TRANSACTION_TRACKER *)
  wk_tt_field : N         (* TransactionTrackerField::TransactionTracker *)
}.

(* read the vault balance, write the new one *)
Definition vault_update (w : wellknown) (e : N * value) : list op :=
  [OGet (fst e) (wk_main w) (wk_balance w); OSet (fst e) (wk_main w) (wk_balance w) (snd e)].

(* finalize_fees_for_commit: royalty recipients (empty after revert_royalty on failure), then every
   vault that locked a fee (in reverse lock order; the refund is written even if nothing is paid), then -
   only if something goes to the proposer or the validator set - the consensus manager state is read,
   the validator rewards field rewritten and the rewards vault credited *)
Definition finalize_fee_ops (w : wellknown) (royalties locked : list (N * value))
                            (rewards : option (value * N * value)) : list op :=
  flat_map (vault_update w) royalties ++ flat_map (vault_update w) locked ++
  match rewards with
  | Some (new_rewards, rewards_vault, new_balance) =>
      [OGet (wk_cm w) (wk_main w) (wk_cm_state w);
       OGet (wk_cm w) (wk_main w) (wk_cm_rewards w);
       OSet (wk_cm w) (wk_main w) (wk_cm_rewards w) new_rewards]
      ++ vault_update w (rewards_vault, new_balance)
  | None => []
  end.

(* read_epoch_uncosted + update_transaction_tracker: the tracker field is read, one entry is set per
   nullified intent (partition, key, status), the oldest partition is dropped when the epoch moved
   past it, the tracker field is rewritten *)
Definition tracker_ops (w : wellknown) (entries : list (N * N * value)) (discard : option N) (new_field : value) : list op :=
  [OGet (wk_cm w) (wk_main w) (wk_cm_state w); OGet (wk_tt w) (wk_main w) (wk_tt_field w)]
  ++ map (fun e => OSet (wk_tt w) (fst (fst e)) (snd (fst e)) (snd e)) entries
  ++ match discard with Some p => [ODeletePartition (wk_tt w) p] | None => [] end
  ++ [OSet (wk_tt w) (wk_main w) (wk_tt_field w) new_field].

(* operations that only read, write or mark a partition: what the finalisation is made of *)
Definition simple_op (o : op) : Prop :=
  match o with OGet _ _ _ | OSet _ _ _ _ | ODeletePartition _ _ => True | _ => False end.
Definition writes_key (ops : list op) (n p k : N) : Prop := exists v, In (OSet n p k v) ops.

(* the only keys a failed commit may change besides the force-written ones *)
Definition fee_or_tracker_key (w : wellknown) (royalties locked : list (N * value))
                              (rewards : option (value * N * value)) (n p k : N) : Prop :=
  (p = wk_main w /\ k = wk_balance w /\
     (In n (map fst royalties) \/ In n (map fst locked) \/ exists a b, rewards = Some (a, n, b)))
  \/ (n = wk_cm w /\ p = wk_main w /\ k = wk_cm_rewards w /\ rewards <> None)
  \/ n = wk_tt w.
