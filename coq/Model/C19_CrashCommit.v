(* C19 — executable model of the write layout of RocksDBWithMerkleTreeSubstateStore::commit
   (radix-substate-store-impls/src/rocks_db_with_merkle_tree/mod.rs) and of a crash inside it.
   Model only, no proofs.

   The database is four column families; a commit is the SEQUENCE OF ATOMIC WRITE STEPS the code
   performs, in the code's order:
     - a direct `self.db.put_cf / delete_cf / delete_range_cf` is one step,
     - `self.db.write(batch)` is one step that applies all operations staged into the WriteBatch, in
       staging order (RocksDB's WriteBatch atomicity is the stated assumption of this property),
   and a crash (process death) leaves the database after some PREFIX of the steps (`crash_state k`).

   Modelled as written (the repaired code: substate writes are staged into the same batch as the tree
   nodes and the metadata; `commit_steps_pre_fix` is the layout of the code before the `fix:` commit,
   where the substate writes were direct steps):
     metadata read (`unwrap_or` version 0 / zero hash), next_state_version = parent + 1 (u64, overflow
     checks on = panic), for every node / partition / entry of the updates in IndexMap order:
     Delta -> put / delete of encode_to_rocksdb_bytes(pk, sk); Reset -> delete_range [enc(pk,[]),
     enc(pk, 0xFF x 2*MAX_SUBSTATE_KEY_SIZE)) then puts; then the new tree nodes, the stale-parts record
     (only when pruning is disabled), the metadata; write(batch); then (pruning enabled) one direct
     delete_cf(MERKLE_NODES_CF) per stale node.
   Outside this model (inputs of the model, `tree_diff`): what compute_state_tree_update returns — the
   new nodes, the new root hash, the stale parts (C17, C18) — and the expansion of stale subtrees into
   node keys done by the pruning loop; IO errors (`unwrap`/`expect` on RocksDB results); power loss
   with an unsynced WAL (only process death is considered: completed writes are durable).
   The key encoding `enc`, `reset_upper` and the ordered-map semantics of a column family (`list_kv`)
   are those of Model/C15_Stores.v. *)
From Coq Require Import List Arith NArith Bool.
Import ListNotations.
Require Import RV.Lib.Bytes RV.Lib.SortedMap RV.Model.C14_Store RV.Model.C15_Stores RV.Gen.C15_consts.
Open Scope N_scope.

Inductive cf := CfSubstates | CfNodes | CfStale.

(* one RocksDB write operation (META_CF only ever holds key [] with the encoded Metadata record) *)
Inductive wop :=
| WPut (c : cf) (k v : bytes)
| WDelete (c : cf) (k : bytes)
| WDeleteRange (c : cf) (a b : bytes)
| WPutMeta (version : N) (root : bytes).

Definition kvmap := list (bytes * bytes).
Record store := mkStore {
  st_meta : option (N * bytes);     (* META_CF: None = no record yet *)
  st_subs : kvmap;                  (* SUBSTATES_CF *)
  st_nodes : kvmap;                 (* MERKLE_NODES_CF *)
  st_stale : kvmap                  (* STALE_MERKLE_TREE_PARTS_CF *)
}.

Definition get_cf (s : store) (c : cf) : kvmap :=
  match c with CfSubstates => st_subs s | CfNodes => st_nodes s | CfStale => st_stale s end.
Definition set_cf (s : store) (c : cf) (m : kvmap) : store :=
  match c with
  | CfSubstates => mkStore (st_meta s) m (st_nodes s) (st_stale s)
  | CfNodes => mkStore (st_meta s) (st_subs s) m (st_stale s)
  | CfStale => mkStore (st_meta s) (st_subs s) (st_nodes s) m
  end.

Definition apply_wop (s : store) (w : wop) : store :=
  match w with
  | WPut c k v => set_cf s c (kv_put list_kv (get_cf s c) k v)
  | WDelete c k => set_cf s c (kv_delete list_kv (get_cf s c) k)
  | WDeleteRange c a b => set_cf s c (kv_delete_range list_kv (get_cf s c) a b)
  | WPutMeta v r => mkStore (Some (v, r)) (st_subs s) (st_nodes s) (st_stale s)
  end.

(* an atomic write step *)
Inductive step := SDirect (w : wop) | SBatch (ws : list wop).
Definition apply_step (s : store) (st : step) : store :=
  match st with
  | SDirect w => apply_wop s w
  | SBatch ws => fold_left apply_wop ws s
  end.
Definition run (steps : list step) (s : store) : store := fold_left apply_step steps s.
(* the database found after a crash right before step k (k = length steps: the commit completed) *)
Definition crash_state (k : nat) (steps : list step) (s : store) : store := run (firstn k steps) s.
Fixpoint prefix_states (steps : list step) (s : store) : list store :=
  s :: match steps with [] => [] | st :: r => prefix_states r (apply_step s st) end.

(* get_current_version / get_current_root_hash *)
Definition zero_hash : bytes := repeat 0 32.
Definition cur_version (s : store) : N := match st_meta s with Some (v, _) => v | None => 0 end.
Definition cur_root (s : store) : bytes := match st_meta s with Some (_, r) => r | None => zero_hash end.
(* what the property statement compares: the substates and the recorded version and root *)
Definition proj (s : store) : kvmap * N * bytes := (st_subs s, cur_version s, cur_root s).

(* the substate operations of `commit`, in the code's order *)
Definition part_wops (pk : pkey) (pu : part_updates) : list wop :=
  match pu with
  | PDelta l =>
      map (fun e : bytes * db_update =>
             match snd e with
             | USet v => WPut CfSubstates (enc pk (fst e)) v
             | UDelete => WDelete CfSubstates (enc pk (fst e))
             end) l
  | PReset l =>
      WDeleteRange CfSubstates (enc pk []) (enc pk reset_upper)
      :: map (fun e : bytes * bytes => WPut CfSubstates (enc pk (fst e)) (snd e)) l
  end.
Definition node_wops (nk : bytes) (nu : node_updates) : list wop :=
  flat_map (fun e : N * part_updates => part_wops (nk, fst e) (snd e)) nu.
Definition subs_wops (u : db_updates) : list wop :=
  flat_map (fun e : bytes * node_updates => node_wops (fst e) (snd e)) u.

(* result of compute_state_tree_update + the pruning loop's key expansion (inputs of this model) *)
Record tree_diff := mkDiff {
  td_new_nodes : kvmap;          (* (encode_key(key), scrypto_encode(node)) of state_tree_diff.new_nodes *)
  td_stale_value : bytes;        (* scrypto_encode(stale_tree_parts) *)
  td_deleted : list bytes;       (* keys of the delete_cf calls of the pruning loop, in order *)
  td_root : bytes                (* new_root_hash *)
}.

Inductive outcome := CommitSteps (l : list step) | CommitPanic.

Definition tree_wops (pruning : bool) (next : N) (d : tree_diff) : list wop :=
  map (fun kv : bytes * bytes => WPut CfNodes (fst kv) (snd kv)) (td_new_nodes d)
  ++ (if pruning then [] else [WPut CfStale (be_encode 8 next) (td_stale_value d)])
  ++ [WPutMeta next (td_root d)].
Definition prune_steps (pruning : bool) (d : tree_diff) : list step :=
  if pruning then map (fun k => SDirect (WDelete CfNodes k)) (td_deleted d) else [].

(* the code as written now *)
Definition commit_steps (pruning : bool) (s : store) (u : db_updates) (d : tree_diff) : outcome :=
  let parent := cur_version s in
  if 2 ^ 64 <=? parent + 1 then CommitPanic            (* parent_state_version + 1 overflows u64 *)
  else
    let next := parent + 1 in
    CommitSteps (SBatch (subs_wops u ++ tree_wops pruning next d) :: prune_steps pruning d).

(* the code before the `fix:` commit: substate writes are direct, outside the batch *)
Definition commit_steps_pre_fix (pruning : bool) (s : store) (u : db_updates) (d : tree_diff) : outcome :=
  let parent := cur_version s in
  if 2 ^ 64 <=? parent + 1 then CommitPanic
  else
    let next := parent + 1 in
    CommitSteps (map SDirect (subs_wops u) ++ SBatch (tree_wops pruning next d) :: prune_steps pruning d).

(* ---- the hook's trace of a step list (correspondence of the layout) ---- *)
Inductive tag :=
| TDirectPutSub | TDirectDelSub | TDirectDelRangeSub
| TBatchPutSub | TBatchDelSub | TBatchDelRangeSub
| TBatchPutNode | TBatchPutStale | TBatchPutMeta | TWriteBatch | TDirectDelNode | TUnknown.

Definition wop_trace (direct : bool) (w : wop) : tag * bytes * bytes :=
  match w with
  | WPut CfSubstates k _ => (if direct then TDirectPutSub else TBatchPutSub, k, [])
  | WDelete CfSubstates k => (if direct then TDirectDelSub else TBatchDelSub, k, [])
  | WDeleteRange CfSubstates a b => (if direct then TDirectDelRangeSub else TBatchDelRangeSub, a, b)
  | WPut CfNodes k _ => (if direct then TUnknown else TBatchPutNode, k, [])
  | WPut CfStale k _ => (if direct then TUnknown else TBatchPutStale, k, [])
  | WPutMeta _ _ => (if direct then TUnknown else TBatchPutMeta, [], [])
  | WDelete CfNodes k => (if direct then TDirectDelNode else TUnknown, k, [])
  | _ => (TUnknown, [], [])
  end.
Definition step_trace (st : step) : list (tag * bytes * bytes) :=
  match st with
  | SDirect w => [wop_trace true w]
  | SBatch ws => map (wop_trace false) ws ++ [(TWriteBatch, [], [])]
  end.
