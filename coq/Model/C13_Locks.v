(* C13 — executable model of radix-engine/src/kernel/substate_locks.rs (SubstateLocks<D>).
   Model only: no proofs here, so that the model still evaluates when a proof breaks.

   Code modelled (as written):
     SubstateLockState::{no_lock,is_locked,try_lock,unlock}
     SubstateLocks::{new,lock,unlock,get,is_locked,node_is_locked}
   Abstractions:
     - a full substate key (NodeId, PartitionNumber, SubstateKey) is a triple of N; only equality
       and the node component are used by the code;
     - `substate_lock_states` / `node_num_locked` (NonIterMap with entry().or_insert(default)) are
       total functions with that default: absent and default entries are indistinguishable through
       the public API;
     - `locks` (IndexMap, swap_remove) is an association list: its order is never observed;
     - Rust panics (unwrap on a missing handle / missing state, `*n -= 1` and `*count -= 1`
       underflow, `next_lock_id += 1` overflow with overflow checks on) are the explicit output
       OPanic, after which the run stops. *)
From Coq Require Import List NArith Bool.
Import ListNotations.
Open Scope N_scope.

Definition skey := (N * N * N)%type.           (* node, partition, substate key *)
Definition node_of (k : skey) : N := fst (fst k).
Definition skey_eqb (a b : skey) : bool :=
  (fst (fst a) =? fst (fst b)) && (snd (fst a) =? snd (fst b)) && (snd a =? snd b).

Inductive lock_state := LRead (n : N) | LWrite.

Definition ls_is_locked (s : lock_state) : bool :=
  match s with LRead 0 => false | _ => true end.

(* try_lock: None = Err(SubstateLockError) *)
Definition ls_try_lock (s : lock_state) (read_only : bool) : option lock_state :=
  match s with
  | LRead n => if read_only then Some (LRead (n + 1))
               else if n =? 0 then Some LWrite else None
  | LWrite => None
  end.

(* unlock: None = arithmetic underflow panic *)
Definition ls_unlock (s : lock_state) : option lock_state :=
  match s with
  | LRead n => if n =? 0 then None else Some (LRead (n - 1))
  | LWrite => Some (LRead 0)
  end.

Record locks := {
  handles : list (N * (skey * N));     (* handle -> (key, data) *)
  lstate : skey -> lock_state;
  ncount : N -> N;
  next_id : N
}.

Definition locks_new : locks :=
  {| handles := []; lstate := fun _ => LRead 0; ncount := fun _ => 0; next_id := 0 |}.

Definition upd_k (f : skey -> lock_state) (k : skey) (v : lock_state) : skey -> lock_state :=
  fun k' => if skey_eqb k' k then v else f k'.
Definition upd_n (f : N -> N) (n : N) (v : N) : N -> N :=
  fun n' => if n' =? n then v else f n'.

Fixpoint find_handle (h : N) (l : list (N * (skey * N))) : option (skey * N) :=
  match l with
  | [] => None
  | (h', e) :: t => if h' =? h then Some e else find_handle h t
  end.
Fixpoint remove_handle (h : N) (l : list (N * (skey * N))) : list (N * (skey * N)) :=
  match l with
  | [] => []
  | (h', e) :: t => if h' =? h then t else (h', e) :: remove_handle h t
  end.

Definition U32_MAX : N := 4294967295.

Inductive op :=
| OpLock (k : skey) (read_only : bool) (data : N)
| OpUnlock (h : N)
| OpGet (h : N)
| OpIsLocked (k : skey)
| OpNodeIsLocked (n : N).

Inductive out :=
| OutLock (r : option N)
| OutEntry (k : skey) (data : N)      (* result of unlock / get *)
| OutBool (b : bool)
| OutPanic.

(* one request; None as new state = the process panicked *)
Definition step (s : locks) (o : op) : option locks * out :=
  match o with
  | OpLock k ro d =>
      match ls_try_lock (lstate s k) ro with
      | None => (Some s, OutLock None)
      | Some st' =>
          if next_id s =? U32_MAX then (None, OutPanic)       (* next_lock_id += 1 overflows *)
          else
            (Some {| handles := handles s ++ [(next_id s, (k, d))];
                     lstate := upd_k (lstate s) k st';
                     ncount := upd_n (ncount s) (node_of k) (ncount s (node_of k) + 1);
                     next_id := next_id s + 1 |},
             OutLock (Some (next_id s)))
      end
  | OpUnlock h =>
      match find_handle h (handles s) with
      | None => (None, OutPanic)                               (* swap_remove(..).unwrap() *)
      | Some (k, d) =>
          match ls_unlock (lstate s k) with
          | None => (None, OutPanic)                           (* *n -= 1 underflow *)
          | Some st' =>
              if ncount s (node_of k) =? 0 then (None, OutPanic)   (* *count -= 1 underflow *)
              else
                (Some {| handles := remove_handle h (handles s);
                         lstate := upd_k (lstate s) k st';
                         ncount := upd_n (ncount s) (node_of k) (ncount s (node_of k) - 1);
                         next_id := next_id s |},
                 OutEntry k d)
          end
      end
  | OpGet h =>
      match find_handle h (handles s) with
      | None => (None, OutPanic)                               (* get(..).unwrap() *)
      | Some (k, d) => (Some s, OutEntry k d)
      end
  | OpIsLocked k => (Some s, OutBool (ls_is_locked (lstate s k)))
  | OpNodeIsLocked n => (Some s, OutBool (negb (ncount s n =? 0)))
  end.

(* run a request sequence; the run stops at the first panic (the output list then ends in OutPanic) *)
Fixpoint run (s : locks) (ops : list op) : list out :=
  match ops with
  | [] => []
  | o :: t => match step s o with
              | (Some s', r) => r :: run s' t
              | (None, r) => [r]
              end
  end.

(* ---------------------------------------------------------------------------------------------
   Abstract reader/writer specification: the multiset of open handles with their mode.
   --------------------------------------------------------------------------------------------- *)
Record ohandle := { oh_id : N; oh_key : skey; oh_data : N; oh_ro : bool }.

Record spec := { open : list ohandle; s_next : N }.
Definition spec_new : spec := {| open := []; s_next := 0 |}.

Definition on_key (k : skey) (h : ohandle) : bool := skey_eqb (oh_key h) k.
Definition writer_on (k : skey) (h : ohandle) : bool := on_key k h && negb (oh_ro h).
Definition on_node (n : N) (h : ohandle) : bool := node_of (oh_key h) =? n.

(* a read lock is granted iff no writer is open on the substate; a write lock iff no handle at all *)
Definition spec_can_lock (o : list ohandle) (k : skey) (ro : bool) : bool :=
  if ro then negb (existsb (writer_on k) o) else negb (existsb (on_key k) o).

Fixpoint spec_find (h : N) (o : list ohandle) : option ohandle :=
  match o with
  | [] => None
  | x :: t => if oh_id x =? h then Some x else spec_find h t
  end.
Fixpoint spec_remove (h : N) (o : list ohandle) : list ohandle :=
  match o with
  | [] => []
  | x :: t => if oh_id x =? h then t else x :: spec_remove h t
  end.

Definition spec_step (s : spec) (o : op) : option spec * out :=
  match o with
  | OpLock k ro d =>
      if spec_can_lock (open s) k ro then
        if s_next s =? U32_MAX then (None, OutPanic)
        else (Some {| open := open s ++ [{| oh_id := s_next s; oh_key := k; oh_data := d; oh_ro := ro |}];
                      s_next := s_next s + 1 |}, OutLock (Some (s_next s)))
      else (Some s, OutLock None)
  | OpUnlock h =>
      match spec_find h (open s) with
      | None => (None, OutPanic)
      | Some x => (Some {| open := spec_remove h (open s); s_next := s_next s |},
                   OutEntry (oh_key x) (oh_data x))
      end
  | OpGet h =>
      match spec_find h (open s) with
      | None => (None, OutPanic)
      | Some x => (Some s, OutEntry (oh_key x) (oh_data x))
      end
  | OpIsLocked k => (Some s, OutBool (existsb (on_key k) (open s)))
  | OpNodeIsLocked n => (Some s, OutBool (existsb (on_node n) (open s)))
  end.

Fixpoint spec_run (s : spec) (ops : list op) : list out :=
  match ops with
  | [] => []
  | o :: t => match spec_step s o with
              | (Some s', r) => r :: spec_run s' t
              | (None, r) => [r]
              end
  end.
