(* C02 — model of System::determine_result_type (radix-engine/src/system/system_callback.rs) and of
   which receipts carry state updates. Model only. *)
From Coq Require Import List Bool.
Import ListNotations.
Require Import RV.Model.C12_Track.

(* interpretation_result: Ok(output) | Err(BootloadingError) | Err(RuntimeError e), e.abortion() is Some/None *)
Inductive interp := IOk | IErrBootloading | IErrRuntime (is_abort : bool).
(* fee_reserve.repay_all(): Ok | Err(e), e.abortion() is Some/None *)
Inductive repay := RepOk | RepErr (is_abort : bool).
Inductive result_type := CommitSuccess | CommitFailure | Reject | Abort.

Definition determine_result_type (i : interp) (r : repay) (fully_repaid : bool) : result_type :=
  match i with
  | IOk => match r with
           | RepOk => CommitSuccess
           | RepErr true => Abort
           | RepErr false => Reject                 (* SuccessButFeeLoanNotRepaid *)
           end
  | IErrBootloading => Reject
  | IErrRuntime true => Abort
  | IErrRuntime false => if fully_repaid then CommitFailure else Reject   (* ErrorBeforeLoanAndDeferredCostsRepaid *)
  end.

(* create_commit_receipt reverts the track on failure, then (fee finalisation and the tracker update,
   not modelled here: they are plain get/set operations on the same Track, i.e. operations of the C12
   model) finalises it; create_reject_receipt / create_abort_receipt build a receipt without a track.
   None = the receipt has no state-update component at all; Some None = revert panicked. *)
Definition receipt_state (rt : result_type) (t : track) : option (option track) :=
  match rt with
  | CommitSuccess => Some (Some t)
  | CommitFailure => Some (revert t)
  | Reject | Abort => None
  end.
