(* C50 — object encapsulation: the admission decisions of the system layer
   (radix-engine/src/system/system.rs, actor.rs) that tie what a call frame may do with a node to
   the *actor* of the frame:

     drop_object                         InvalidDropAccess check
     globalize_with_address_internal     reservation / InvalidGlobalizeAccess / CannotGlobalize checks
     new_object + new_object_internal    package of the actor, instance context for inner blueprints
     get_actor_object_id                 resolution of ACTOR_STATE_SELF / ACTOR_STATE_OUTER_OBJECT

   modelled AS WRITTEN, in the code's order, up to the point where the access decision is taken
   (`Granted`); what follows in the code (kernel ownership/visibility checks, schema validation,
   module checks, the node move itself) is outside this model.
   Blueprint ids are pairs of abstract codes (package, name); node ids are abstract codes; the type
   info of the nodes a frame can see is an association list.  No proofs here. *)
From Coq Require Import List NArith Bool.
Import ListNotations.
Open Scope N_scope.

Record bp := mkBp { bp_pkg : N; bp_name : N }.
Definition bp_eqb (a b : bp) : bool := (bp_pkg a =? bp_pkg b) && (bp_name a =? bp_name b).

(* OuterObjectInfo *)
Inductive outer := OSome (addr : N) | ONone.
(* ObjectInfo: blueprint id, outer object, ObjectType::Global{..} vs Owned *)
Record oinfo := mkOI { oi_bp : bp; oi_outer : outer; oi_global : bool }.
(* TypeInfoSubstate *)
Inductive tinfo :=
| TObject (i : oinfo)
| TKVStore
| TReservation (addr : N)      (* GlobalAddressReservation(address) *)
| TPhantom (b : bp).           (* GlobalAddressPhantom { blueprint_id } *)
Definition heap := list (N * tinfo).
Fixpoint lookup (h : heap) (n : N) : option tinfo :=
  match h with
  | [] => None
  | (k, v) :: r => if k =? n then Some v else lookup r n
  end.

(* MethodType and Actor (actor.rs) *)
Inductive mtype := MMain | MDirect | MModule (m : N).
Inductive actor :=
| ARoot
| AMethod (t : mtype) (node : N) (info : oinfo)     (* MethodActor: node_id + cached object_info *)
| AFunction (b : bp)
| AHook (b : bp) (receiver : option N).

(* codes fixed by the harness registry *)
Definition RESOURCE_PACKAGE : N := 0.
Definition FUNGIBLE_PROOF : bp := mkBp RESOURCE_PACKAGE 0.
Definition NON_FUNGIBLE_PROOF : bp := mkBp RESOURCE_PACKAGE 1.
(* AttachedModuleId::static_blueprint: module m lives in its own package *)
Definition module_bp (m : N) : bp := mkBp (100 + m) (100 + m).

(* MethodActor::get_blueprint_id / Actor::blueprint_id *)
Definition actor_bp (a : actor) : option bp :=
  match a with
  | ARoot => None
  | AMethod MMain _ i | AMethod MDirect _ i => Some (oi_bp i)
  | AMethod (MModule m) _ _ => Some (module_bp m)
  | AFunction b => Some b
  | AHook b _ => Some b
  end.
Definition actor_pkg (a : actor) : option N := option_map bp_pkg (actor_bp a).

(* Actor::instance_context *)
Definition instance_context (a : actor) : option N :=
  match a with
  | AMethod MMain n i | AMethod MDirect n i =>
      if oi_global i then Some n
      else match oi_outer i with OSome o => Some o | ONone => None end
  | _ => None
  end.

(* Actor::get_object_id : (node, module) *)
Definition get_object_id (a : actor) : option (N * option N) :=
  match a with
  | AMethod MMain n _ | AMethod MDirect n _ => Some (n, None)
  | AMethod (MModule m) n _ => Some (n, Some m)
  | AHook _ (Some n) => Some (n, None)
  | _ => None
  end.

Inductive outcome :=
| Granted                     (* the access decision is positive; later steps are outside the model *)
| ENodeNotVisible              (* kernel error reading the type info (node unknown to the frame) *)
| ENotAnObject
| EInvalidDropAccess
| EInvalidGlobalAddressReservation
| EPhantomMissing              (* unreachable!() in the code: reservation without phantom *)
| EInvalidGlobalizeAccess
| EMissingModule
| ECannotGlobalizeAlreadyGlobalized
| ECannotGlobalizeInvalidBlueprintId
| ENoPackageAddress
| EBlueprintDoesNotExist
| EInvalidChildObjectCreation
| EInvalidActorStateHandle
| EOuterObjectDoesNotExist
| ENotAKeyValueStore.

Definition outcome_eqb (a b : outcome) : bool :=
  match a, b with
  | Granted, Granted | ENodeNotVisible, ENodeNotVisible | ENotAnObject, ENotAnObject
  | EInvalidDropAccess, EInvalidDropAccess
  | EInvalidGlobalAddressReservation, EInvalidGlobalAddressReservation
  | EPhantomMissing, EPhantomMissing | EInvalidGlobalizeAccess, EInvalidGlobalizeAccess
  | EMissingModule, EMissingModule
  | ECannotGlobalizeAlreadyGlobalized, ECannotGlobalizeAlreadyGlobalized
  | ECannotGlobalizeInvalidBlueprintId, ECannotGlobalizeInvalidBlueprintId
  | ENoPackageAddress, ENoPackageAddress | EBlueprintDoesNotExist, EBlueprintDoesNotExist
  | EInvalidChildObjectCreation, EInvalidChildObjectCreation
  | EInvalidActorStateHandle, EInvalidActorStateHandle
  | EOuterObjectDoesNotExist, EOuterObjectDoesNotExist
  | ENotAKeyValueStore, ENotAKeyValueStore => true
  | _, _ => false
  end.

(* SystemService::get_object_info *)
Definition get_object_info (h : heap) (n : N) : outcome + oinfo :=
  match lookup h n with
  | None => inl ENodeNotVisible
  | Some (TObject i) => inr i
  | Some _ => inl ENotAnObject
  end.

Definition opt_bp_eqb (a : option bp) (b : bp) : bool :=
  match a with Some x => bp_eqb x b | None => false end.
Definition opt_N_eqb (a : option N) (b : N) : bool :=
  match a with Some x => x =? b | None => false end.

(* ---------------------------------------------------------------------------------------------- *)
(* drop_object                                                                                     *)
(* ---------------------------------------------------------------------------------------------- *)
Definition is_proof (b : bp) : bool := bp_eqb b FUNGIBLE_PROOF || bp_eqb b NON_FUNGIBLE_PROOF.
Definition drop_check (h : heap) (a : actor) (n : N) : outcome :=
  match get_object_info h n with
  | inl e => e
  | inr info =>
      let instance_context_check :=
        if is_proof (oi_bp info) then None
        else match oi_outer info with OSome o => Some o | ONone => None end in
      match instance_context_check with
      | Some o =>
          (* "If outer object exists, only outer object may drop object" *)
          if opt_N_eqb (instance_context a) o then Granted else EInvalidDropAccess
      | None =>
          (* "Otherwise, only blueprint may drop object" *)
          if opt_bp_eqb (actor_bp a) (oi_bp info) then Granted else EInvalidDropAccess
      end
  end.

(* ---------------------------------------------------------------------------------------------- *)
(* globalize_with_address_internal                                                                 *)
(* ---------------------------------------------------------------------------------------------- *)
(* `has_modules` = the modules map contains RoleAssignment and Metadata *)
Definition globalize_check (h : heap) (a : actor) (n : N) (reservation : N) (has_modules : bool)
  : outcome :=
  match lookup h reservation with
  | None => ENodeNotVisible
  | Some (TReservation addr) =>
      match lookup h addr with
      | Some (TPhantom reserved) =>
          if negb (opt_N_eqb (actor_pkg a) (bp_pkg reserved)) then EInvalidGlobalizeAccess
          else if negb has_modules then EMissingModule
          else
            match get_object_info h n with
            | inl e => e
            | inr info =>
                if oi_global info then ECannotGlobalizeAlreadyGlobalized
                else if negb (bp_eqb (oi_bp info) reserved) then ECannotGlobalizeInvalidBlueprintId
                else Granted
            end
      | _ => EPhantomMissing
      end
  | Some _ => EInvalidGlobalAddressReservation
  end.

(* ---------------------------------------------------------------------------------------------- *)
(* new_object / new_object_internal                                                                *)
(* ---------------------------------------------------------------------------------------------- *)
(* BlueprintType of the blueprint (actor's package, ident): None = no such blueprint *)
Inductive bptype := BOuter | BInner (outer_blueprint : N).
(* on admission: the ObjectInfo the new node gets *)
Definition new_object_check (h : heap) (defs : bp -> option bptype) (a : actor) (ident : N)
  : outcome + oinfo :=
  match actor_bp a with
  | None => inl ENoPackageAddress
  | Some ab =>
      let b := mkBp (bp_pkg ab) ident in
      match defs b with
      | None => inl EBlueprintDoesNotExist
      | Some BOuter => inr (mkOI b ONone false)
      | Some (BInner outer_name) =>
          match instance_context a with
          | None => inl EInvalidChildObjectCreation
          | Some o =>
              match get_object_info h o with
              | inl e => inl e
              | inr oi =>
                  if bp_name (oi_bp oi) =? outer_name then inr (mkOI b (OSome o) false)
                  else inl EInvalidChildObjectCreation
              end
          end
      end
  end.

(* ---------------------------------------------------------------------------------------------- *)
(* actor state handles: get_actor_object_id                                                        *)
(* ---------------------------------------------------------------------------------------------- *)
Definition ACTOR_STATE_SELF : N := 0.
Definition ACTOR_STATE_OUTER_OBJECT : N := 1.
(* returns the node (and module) whose fields / collections the handle gives access to *)
Definition resolve_state_handle (h : heap) (a : actor) (handle : N) : outcome + (N * option N) :=
  if negb ((handle =? ACTOR_STATE_SELF) || (handle =? ACTOR_STATE_OUTER_OBJECT))
  then inl EInvalidActorStateHandle
  else
    match get_object_id a with
    | None => inl ENotAnObject
    | Some (n, m) =>
        if handle =? ACTOR_STATE_SELF then inr (n, m)
        else match m with
             | Some _ => inl EOuterObjectDoesNotExist
             | None =>
                 match get_object_info h n with
                 | inl e => inl e
                 | inr i => match oi_outer i with
                            | OSome o => inr (o, None)
                            | ONone => inl EOuterObjectDoesNotExist
                            end
                 end
             end
    end.

(* ---------------------------------------------------------------------------------------------- *)
(* key_value_store_open_entry: key-value stores are not objects and have no blueprint; the system *)
(* layer only checks that the node IS a key-value store — the actor is not consulted at all        *)
(* ---------------------------------------------------------------------------------------------- *)
Definition kv_open_check (h : heap) (a : actor) (n : N) : outcome :=
  match lookup h n with
  | None => ENodeNotVisible
  | Some TKVStore => Granted
  | Some _ => ENotAKeyValueStore
  end.

(* ---------------------------------------------------------------------------------------------- *)
(* histories: the node table under new_object / globalize / drop                                   *)
(* ---------------------------------------------------------------------------------------------- *)
(* a method actor is *consistent* with the table when its cached object_info is the node's *)
Definition actor_consistent (h : heap) (a : actor) : bool :=
  match a with
  | AMethod _ n i =>
      match lookup h n with
      | Some (TObject j) => bp_eqb (oi_bp i) (oi_bp j) && Bool.eqb (oi_global i) (oi_global j) &&
                            match oi_outer i, oi_outer j with
                            | OSome x, OSome y => x =? y
                            | ONone, ONone => true
                            | _, _ => false
                            end
      | _ => false
      end
  | _ => true
  end.

Inductive sysop :=
| OpNew (a : actor) (ident : N) (fresh : N)                 (* new_object; node id allocated *)
| OpGlobalize (a : actor) (n reservation : N)               (* with both required modules *)
| OpDrop (a : actor) (n : N)
| OpAllocate (b : bp) (addr reservation : N).               (* allocate_global_address *)

Fixpoint remove (h : heap) (n : N) : heap :=
  match h with
  | [] => []
  | (k, v) :: r => if k =? n then remove r n else (k, v) :: remove r n
  end.

(* one system call on the node table; refused calls leave it unchanged *)
Definition sys_step (defs : bp -> option bptype) (h : heap) (o : sysop) : heap :=
  match o with
  | OpNew a ident fresh =>
      if negb (actor_consistent h a) then h else
      match lookup h fresh with
      | Some _ => h
      | None => match new_object_check h defs a ident with
                | inr i => (fresh, TObject i) :: h
                | inl _ => h
                end
      end
  | OpGlobalize a n reservation =>
      if negb (actor_consistent h a) then h else
      match globalize_check h a n reservation true, lookup h reservation, get_object_info h n with
      | Granted, Some (TReservation addr), inr i =>
          (* the phantom becomes the object (same blueprint info, ObjectType::Global);
             the owned node and the reservation are dropped *)
          (addr, TObject (mkOI (oi_bp i) (oi_outer i) true)) :: remove (remove (remove h addr) n) reservation
      | _, _, _ => h
      end
  | OpDrop a n =>
      if negb (actor_consistent h a) then h else
      match drop_check h a n, get_object_info h n with
      | Granted, inr i =>
          (* global nodes are owned by no frame: kernel_drop_node refuses them *)
          if oi_global i then h else remove h n
      | _, _ => h
      end
  | OpAllocate b addr reservation =>
      match lookup h addr, lookup h reservation with
      | None, None => if addr =? reservation then h
                      else (reservation, TReservation addr) :: (addr, TPhantom b) :: h
      | _, _ => h
      end
  end.
