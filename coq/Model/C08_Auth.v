(* C08 — executable model of access-rule evaluation.  Model only: no proofs here.

   Code modelled (as written):
     radix-engine/src/system/system_modules/auth/authorization.rs
        Authorization::{proof_matches, global_auth_zone_matches, auth_zone_stack_matches,
        auth_zone_stack_has_amount, auth_zone_stack_matches_rule, verify_proof_rule,
        verify_auth_rule, check_authorization_against_access_rule,
        check_authorization_against_role_key_internal, check_authorization_against_role_list}
     radix-engine/src/blueprints/resource/auth_zone/auth_zone_substates.rs
        AuthZone::local_implicit_non_fungible_proofs
     radix-engine-interface/src/blueprints/resource/proof_rule.rs  (rule types)
   Abstractions:
     - addresses, local ids, package / global-caller identities are numbers; a non-fungible global
       id is a pair (resource, local id); the implicit badges are pairs (PKG_RES, package) and
       (GC_RES, caller);
     - a proof is (resource, amount in attos, ids); a fungible proof has no ids.  Rules are assumed
       well-kinded: a NonFungible requirement names a non-fungible resource (otherwise
       `proof.non_fungible_local_ids` fails with a system error instead of a verdict);
     - auth zones are heap nodes linked by `parent` references; since each zone is created for a
       call frame and only refers to older zones, a chain is a list: `chain` = the zone and its
       ancestors, each reduced to what the evaluation reads (proofs, simulate-all resources,
       implicit non-fungible proofs).  The zone the check starts from contributes only its local
       implicit badges (direct caller package, global caller), its global caller's chain and its
       parent chain — its own proofs are skipped, as in the code. *)
From Coq Require Import List ZArith NArith Bool.
Import ListNotations.
Open Scope N_scope.

Definition gid := (N * N)%type.                       (* NonFungibleGlobalId *)
Definition gid_eqb (a b : gid) : bool := (fst a =? fst b) && (snd a =? snd b).

Inductive ron := RNF (g : gid) | RRes (r : N).       (* ResourceOrNonFungible *)

Inductive basic :=                                    (* BasicRequirement *)
| Require (x : ron)
| AmountOf (amt : Z) (r : N)
| CountOf (n : N) (l : list ron)
| AllOf (l : list ron)
| AnyOf (l : list ron).

Inductive comp :=                                     (* CompositeRequirement *)
| Basic (b : basic)
| CAnyOf (l : list comp)
| CAllOf (l : list comp).

Inductive rule := AllowAll | DenyAll | Protected (c : comp).     (* AccessRule *)

Record proof := { p_res : N; p_amt : Z; p_ids : list N }.

(* what the evaluation reads of one auth zone of a chain *)
Record zdata := { z_proofs : list proof; z_vres : list N; z_vnf : list gid }.

(* the auth zone a check starts from *)
Record azone := {
  az_pkg : option N;                                  (* direct_caller_package_address *)
  az_gc : option (N * bool * list zdata);             (* global_caller: identity, is_actually_frame_owned, leaf zone chain *)
  az_parent : list zdata                              (* parent chain ([] = no parent) *)
}.

Definition PKG_RES : N := 1000001.                    (* PACKAGE_OF_DIRECT_CALLER_RESOURCE *)
Definition GC_RES : N := 1000002.                     (* GLOBAL_CALLER_RESOURCE *)

Fixpoint memN (x : N) (l : list N) : bool := match l with [] => false | y :: t => (y =? x) || memN x t end.
Fixpoint memG (x : gid) (l : list gid) : bool := match l with [] => false | y :: t => gid_eqb y x || memG x t end.

(* proof_matches *)
Definition proof_matches (x : ron) (p : proof) : bool :=
  match x with
  | RNF g => (p_res p =? fst g) && memN (snd g) (p_ids p)
  | RRes r => p_res p =? r
  end.

(* the closure passed by auth_zone_stack_matches_rule *)
Definition zone_matches_rule (x : ron) (z : zdata) : bool :=
  (match x with
   | RNF g => memG g (z_vnf z) || memN (fst g) (z_vres z)
   | RRes _ => false
   end) || existsb (proof_matches x) (z_proofs z).
(* the closure passed by auth_zone_stack_has_amount *)
Definition zone_has_amount (r : N) (amt : Z) (z : zdata) : bool :=
  existsb (fun p => proof_matches (RRes r) p && (amt <=? p_amt p)%Z) (z_proofs z).

(* AuthZone::local_implicit_non_fungible_proofs *)
Definition local_implicit (a : azone) : list gid :=
  (match az_pkg a with Some p => [(PKG_RES, p)] | None => [] end) ++
  (match az_gc a with Some (g, false, _) => [(GC_RES, g)] | _ => [] end).

(* global_auth_zone_matches: walk the chain, stop at the first zone that passes *)
Definition chain_matches (check : zdata -> bool) (c : list zdata) : bool := existsb check c.

(* auth_zone_stack_matches *)
Definition stack_matches (a : azone) (check : zdata -> bool) : bool :=
  let li := local_implicit a in
  if (match li with [] => false | _ => true end) && check {| z_proofs := []; z_vres := []; z_vnf := li |} then true
  else if (match az_gc a with Some (_, _, c) => chain_matches check c | None => false end) then true
  else match az_parent a with [] => false | c => chain_matches check c end.

Definition stack_matches_rule (a : azone) (x : ron) : bool := stack_matches a (zone_matches_rule x).
Definition stack_has_amount (a : azone) (r : N) (amt : Z) : bool := stack_matches a (zone_has_amount r amt).

(* the CountOf loop: `left = count; for r in rs { if matches { left -= 1; if left == 0 { return true } } } false` *)
Fixpoint count_loop (a : azone) (left : N) (l : list ron) : bool :=
  match l with
  | [] => false
  | x :: t => if stack_matches_rule a x
              then (if left - 1 =? 0 then true else count_loop a (left - 1) t)
              else count_loop a left t
  end.

(* verify_proof_rule *)
Definition verify_basic (a : azone) (b : basic) : bool :=
  match b with
  | Require x => stack_matches_rule a x
  | AmountOf amt r => stack_has_amount a r amt
  | AllOf l => forallb (stack_matches_rule a) l
  | AnyOf l => existsb (stack_matches_rule a) l
  | CountOf n l => if n =? 0 then true else count_loop a n l
  end.

(* verify_auth_rule *)
Fixpoint verify_comp (a : azone) (c : comp) : bool :=
  match c with
  | Basic b => verify_basic a b
  | CAnyOf l => (fix any (l : list comp) : bool := match l with [] => false | x :: t => if verify_comp a x then true else any t end) l
  | CAllOf l => (fix all (l : list comp) : bool := match l with [] => true | x :: t => if verify_comp a x then all t else false end) l
  end.

(* check_authorization_against_access_rule: true = Authorized *)
Definition verify (a : azone) (r : rule) : bool :=
  match r with AllowAll => true | DenyAll => false | Protected c => verify_comp a c end.

(* check_authorization_against_role_key_internal: role 0 is "_self_", `roles` is the role
   assignment table of `addr` (None = entry absent or empty), `owner` the owner role's rule *)
Definition SELF_ROLE : N := 0.
Fixpoint role_find (k : N) (l : list (N * rule)) : option rule :=
  match l with [] => None | (k', r) :: t => if k' =? k then Some r else role_find k t end.
Definition role_rule (addr : N) (roles : list (N * rule)) (owner : rule) (key : N) : rule :=
  if key =? SELF_ROLE then Protected (Basic (Require (RNF (GC_RES, addr))))
  else match role_find key roles with Some r => r | None => owner end.
Definition verify_role (a : azone) (addr : N) (roles : list (N * rule)) (owner : rule) (key : N) : bool :=
  verify a (role_rule addr roles owner key).
(* check_authorization_against_role_list: authorized by the first role of the list that passes *)
Definition verify_role_list (a : azone) (addr : N) (roles : list (N * rule)) (owner : rule) (keys : list N) : bool :=
  existsb (verify_role a addr roles owner) keys.

(* ------------------------------------------------------------------------------------------ *)
(* Construction of the auth zone of a new call frame                                           *)
(* radix-engine/src/system/system_modules/auth/auth_module.rs  AuthModule::create_auth_zone    *)
(* (called by on_call_function / on_call_method before check_permission)                       *)
(* ------------------------------------------------------------------------------------------ *)
(* How the direct caller's node is visible to its own frame (`reference_origin`): a global object
   (or loaded from the substates of one), a directly accessed vault, an internal reference found
   in a substate, or a node passed into / created in the frame. *)
Inductive origin := OGlobal (addr : N) | ODirect | OSubstateRef | OFrameOwned.
(* Actor of the calling frame: Root, a blueprint function (global-caller identity of the blueprint,
   package), or a method (package, origin of its receiver). *)
Inductive caller := CRoot | CFunction (gcid pkg : N) | CMethod (pkg : N) (o : origin).
(* What is called: a function, or a method on a receiver (is it global? via direct access?). *)
Inductive recv := RFunction | RMethod (is_global direct_access : bool).

Definition FRAME_OWNED_MARKER : N := 999999.           (* FRAME_OWNED_GLOBAL_MARKER = TRANSACTION_TRACKER *)

(* an auth zone as created for a frame: direct caller package, global caller (identity,
   is_actually_frame_owned, the chain of its leaf zone), parent chain.  A zone's own chain is its
   current content followed by its parent chain; while a frame is suspended in a call its zone
   cannot change, so the content at call time is what every deeper check reads. *)
Record fzone := { fz_pkg : option N; fz_gc : option (N * bool * list zdata); fz_par : list zdata }.
Definition root_zone : fzone := {| fz_pkg := None; fz_gc := None; fz_par := [] |}.

Definition caller_pkg (c : caller) : option N :=
  match c with CRoot => None | CFunction _ p => Some p | CMethod p _ => Some p end.
(* is_global_context_change *)
Definition is_change (r : recv) : bool := match r with RFunction => true | RMethod g d => g || d end.

(* cz = the direct caller's zone, cdata = its content at the time of the call *)
Definition create_zone (cz : fzone) (cdata : zdata) (c : caller) (r : recv) : fzone :=
  let change := is_change r in
  let cchain := cdata :: fz_par cz in
  let gc :=
    match c with
    | CRoot => None
    | CMethod _ (OGlobal addr) => if change then Some (addr, false, cchain) else fz_gc cz
    | CMethod _ ODirect => None
    | CMethod _ OSubstateRef => None
    | CMethod _ OFrameOwned =>
        match fz_gc cz with Some _ => Some (FRAME_OWNED_MARKER, true, cchain) | None => None end
    | CFunction g _ => if change then Some (g, false, cchain) else fz_gc cz
    end in
  {| fz_pkg := caller_pkg c;
     fz_gc := gc;
     fz_par := if change then [] else match c with CRoot => [] | _ => cchain end |}.

Definition to_azone (z : fzone) : azone := {| az_pkg := fz_pkg z; az_gc := fz_gc z; az_parent := fz_par z |}.

(* a call chain, newest call first: (actor of the caller, content of the caller's zone, receiver) *)
Definition call := (caller * zdata * recv)%type.
Fixpoint build (l : list call) : fzone :=
  match l with
  | [] => root_zone
  | (c, d, r) :: t => create_zone (build t) d c r
  end.
(* authorization of the newest call of the chain against a role list *)
Definition verify_call (l : list call) (addr : N) (roles : list (N * rule)) (owner : rule) (keys : list N) : bool :=
  verify_role_list (to_azone (build l)) addr roles owner keys.
