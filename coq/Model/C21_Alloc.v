(* C21 — cost semantics of the Value decoder for memory reserved ahead of data.
   Value::decode_body_with_value_kind allocates, for every container,
   `Vec::with_capacity(if length <= 1024 { length } else { 1024 })` BEFORE decoding its children
   and then pushes one element per decoded child.  `cdec_*` are the decoder functions of
   Model/C20_Sbor.v instrumented with:  base = capacity currently reserved ahead of data by the
   enclosing open containers (elements), result = (decoder result, peak of that quantity during
   the call).  For an open container with declared length n that has pushed p elements the
   capacity reserved ahead of data is `reserve n - p`.  Model only, no proofs.                  *)
From Coq Require Import List NArith ZArith Bool.
Import ListNotations.
Require Import RV.Lib.Utf8 RV.Model.C20_Sbor.
Open Scope N_scope.

Definition reserve (n : N) : N := if n <=? 1024 then n else 1024.

Definition lift {A B} (r : dres A) (k : A -> dres B * N) (base : N) : dres B * N :=
  match r with
  | Ok a => k a | Err e => (Err e, base) | Panic => (Panic, base) | OutOfFuel => (OutOfFuel, base)
  end.
Definition resolve_kind (fl : flavour) (ek : option vkind) (st : bytes) : dres (vkind * bytes) :=
  match ek with Some k => Ok (k, st) | None => read_value_kind fl st end.

Section WithFlavour.
Variable fl : flavour.

Fixpoint cdec_body (fuel : nat) (md d : N) (k : vkind) (st : bytes) (base : N) {struct fuel}
  : dres (value * bytes) * N :=
  match fuel with
  | O => (OutOfFuel, base)
  | S f =>
    match k with
    | KTuple =>
      lift (read_size st) (fun '(n, st1) =>
        let '(r, pk) := cdec_elems f md d None n st1 base (reserve n) 0 in
        ('(fs, st2) <- r ;; Ok (VTuple fs, st2), pk)) base
    | KEnum =>
      lift ('(disc, st0) <- read_byte st ;; '(n, st1) <- read_size st0 ;; Ok (disc, n, st1))
        (fun '(disc, n, st1) =>
        let '(r, pk) := cdec_elems f md d None n st1 base (reserve n) 0 in
        ('(fs, st2) <- r ;; Ok (VEnum disc fs, st2), pk)) base
    | KArray =>
      lift ('(ek, st0) <- read_value_kind fl st ;; '(n, st1) <- read_size st0 ;; Ok (ek, n, st1))
        (fun '(ek, n, st1) =>
        let '(r, pk) := cdec_elems f md d (Some ek) n st1 base (reserve n) 0 in
        ('(es, st2) <- r ;; Ok (VArray ek es, st2), pk)) base
    | KMap =>
      lift ('(kk, st0) <- read_value_kind fl st ;; '(vk, st0') <- read_value_kind fl st0 ;;
            '(n, st1) <- read_size st0' ;; Ok (kk, vk, n, st1))
        (fun '(kk, vk, n, st1) =>
        let '(r, pk) := cdec_entries f md d kk vk n st1 base (reserve n) 0 in
        ('(es, st2) <- r ;; Ok (VMap kk vk es, st2), pk)) base
    | _ => (dec_body fl (S f) md d k st, base)   (* terminal values reserve nothing ahead of data *)
    end
  end
with cdec_elems (fuel : nat) (md d : N) (ek : option vkind) (n : N) (st : bytes)
                (base r p : N) {struct fuel} : dres (list value * bytes) * N :=
  match fuel with
  | O => (OutOfFuel, base + (r - p))
  | S f =>
    let here := base + (r - p) in
    if n =? 0 then (Ok ([], st), here) else
    lift (resolve_kind fl ek st) (fun '(k, st') =>
      let '(rv, pk1) := if md <? d + 1 then (Err (MaxDepthExceeded md), here)
                        else cdec_body f md (d + 1) k st' here in
      match rv with
      | Ok (v, st1) =>
        let '(rs, pk2) := cdec_elems f md d ek (n - 1) st1 base r (p + 1) in
        ('(vs, st2) <- rs ;; Ok (v :: vs, st2), N.max pk1 pk2)
      | Err e => (Err e, pk1) | Panic => (Panic, pk1) | OutOfFuel => (OutOfFuel, pk1)
      end) here
  end
with cdec_entries (fuel : nat) (md d : N) (kk vk : vkind) (n : N) (st : bytes)
                  (base r p : N) {struct fuel} : dres (list (value * value) * bytes) * N :=
  match fuel with
  | O => (OutOfFuel, base + (r - p))
  | S f =>
    let here := base + (r - p) in
    if n =? 0 then (Ok ([], st), here) else
    let '(rk, pk1) := if md <? d + 1 then (Err (MaxDepthExceeded md), here)
                      else cdec_body f md (d + 1) kk st here in
    match rk with
    | Ok (k, st1) =>
      let '(rx, pk2) := if md <? d + 1 then (Err (MaxDepthExceeded md), here)
                        else cdec_body f md (d + 1) vk st1 here in
      match rx with
      | Ok (x, st2) =>
        let '(rs, pk3) := cdec_entries f md d kk vk (n - 1) st2 base r (p + 1) in
        ('(es, st3) <- rs ;; Ok ((k, x) :: es, st3), N.max (N.max pk1 pk2) pk3)
      | Err e => (Err e, N.max pk1 pk2) | Panic => (Panic, N.max pk1 pk2)
      | OutOfFuel => (OutOfFuel, N.max pk1 pk2)
      end
    | Err e => (Err e, pk1) | Panic => (Panic, pk1) | OutOfFuel => (OutOfFuel, pk1)
    end
  end.

(* payload level: the peak of capacity reserved ahead of data while decoding `input` *)
Definition decode_peak (md : N) (input : bytes) : N :=
  match input with
  | [] => 0
  | p :: st =>
    if negb (p =? payload_prefix fl) then 0 else
    match read_value_kind fl st with
    | Ok (k, st') => if md <? 0 + 1 then 0 else snd (cdec_body (fuel_for input) md (0 + 1) k st' 0)
    | _ => 0
    end
  end.
End WithFlavour.
