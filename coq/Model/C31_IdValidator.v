(* C31 — executable model of BasicManifestValidator (radix-transactions/src/validation/id_validator.rs), the
   bucket / proof id bookkeeping the manifest generator drives while it assigns ids; no proofs.
   bucket_ids : bucket -> lock count (a map; here a function), proof_ids : proof -> kind (BTreeMap; here an
   association list, newest first; ids come from the sequential allocator and are never reused).
   Explicit VPanic for the two `panic!` sites ("Illegal state") and for usize underflow of `*cnt -= 1`.
   Address reservations / named addresses / intents are plain set inserts and removals without panic sites
   and are not modelled. *)
From Coq Require Import List NArith Bool.
Import ListNotations.
Open Scope N_scope.

Definition bmap := N -> option nat.
Definition upd (m : bmap) (k : N) (v : option nat) : bmap := fun x => if x =? k then v else m x.
Record st := mk { next_b : N; next_p : N; bk : bmap; pr : list (N * option N) }.   (* proof kind: Some b = BucketProof b, None = AuthZoneProof *)
Definition init : st := mk 0 0 (fun _ => None) [].

Fixpoint pfind (p : N) (ps : list (N * option N)) : option (option N) :=
  match ps with [] => None | (k, v) :: t => if k =? p then Some v else pfind p t end.
Fixpoint premove (p : N) (ps : list (N * option N)) : list (N * option N) :=
  match ps with [] => [] | (k, v) :: t => if k =? p then t else (k, v) :: premove p t end.

Inductive vres := VOk (s : st) | VErr | VPanic.

Definition new_bucket (s : st) : vres :=
  VOk (mk (next_b s + 1) (next_p s) (upd (bk s) (next_b s) (Some O)) (pr s)).
Definition drop_bucket (b : N) (s : st) : vres :=
  match bk s b with
  | Some O => VOk (mk (next_b s) (next_p s) (upd (bk s) b None) (pr s))
  | Some _ => VErr                      (* BucketLocked *)
  | None => VErr                        (* BucketNotFound *)
  end.
Definition add_proof (s : st) (bk' : bmap) (k : option N) : st :=
  mk (next_b s) (next_p s + 1) bk' ((next_p s, k) :: pr s).
Definition new_proof (k : option N) (s : st) : vres :=
  match k with
  | Some b => match bk s b with
              | Some c => VOk (add_proof s (upd (bk s) b (Some (S c))) k)
              | None => VErr            (* BucketNotFound *)
              end
  | None => VOk (add_proof s (bk s) None)
  end.
Definition clone_proof (p : N) (s : st) : vres :=
  match pfind p (pr s) with
  | Some (Some b) => match bk s b with
                     | Some c => VOk (add_proof s (upd (bk s) b (Some (S c))) (Some b))
                     | None => VPanic   (* panic!("Illegal state") *)
                     end
  | Some None => VOk (add_proof s (bk s) None)
  | None => VErr                        (* ProofNotFound *)
  end.
Definition drop_proof (p : N) (s : st) : vres :=
  match pfind p (pr s) with
  | Some (Some b) => match bk s b with
                     | Some (S c) => VOk (mk (next_b s) (next_p s) (upd (bk s) b (Some c)) (premove p (pr s)))
                     | Some O => VPanic (* usize underflow of *cnt -= 1 *)
                     | None => VPanic   (* panic!("Illegal state") *)
                     end
  | Some None => VOk (mk (next_b s) (next_p s) (bk s) (premove p (pr s)))
  | None => VErr
  end.
(* drop_all_named_proofs: keys snapshot, drop each, `?` on error *)
Fixpoint drop_all (keys : list N) (s : st) : vres :=
  match keys with
  | [] => VOk s
  | p :: t => match drop_proof p s with VOk s' => drop_all t s' | r => r end
  end.
Definition drop_all_named (s : st) : vres := drop_all (rev (map fst (pr s))) s.

Inductive op := NewBucket | DropBucket (b : N) | NewProof (k : option N) | CloneProof (p : N) | DropProof (p : N) | DropAllNamed.
Definition step (o : op) (s : st) : vres :=
  match o with
  | NewBucket => new_bucket s | DropBucket b => drop_bucket b s | NewProof k => new_proof k s
  | CloneProof p => clone_proof p s | DropProof p => drop_proof p s | DropAllNamed => drop_all_named s
  end.
(* the generator stops at the first error *)
Fixpoint run (ops : list op) (s : st) : vres :=
  match ops with [] => VOk s | o :: t => match step o s with VOk s' => run t s' | r => r end end.
