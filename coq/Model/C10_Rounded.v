(* C10 — take_advanced with a withdraw strategy (fungible_vault.rs / fungible_bucket.rs
   take_advanced): `amount.for_withdrawal(divisibility, strategy)` (Exact = the amount itself,
   Rounded(mode) = checked_round(divisibility, mode), modelled in Model/C25_Round.v as written),
   DecimalOverflow when the rounding overflows, then check_fungible_amount and internal_take.
   Model only: no proofs here. *)
From Coq Require Import List ZArith NArith Bool.
Import ListNotations.
Require RV.Lib.DecCore RV.Model.C25_Round.
Require Import RV.Model.C10_ProofLock.
Open Scope Z_scope.

Definition f_take_adv (div : Z) (w : C25_Round.withdraw_strategy) (a : Z) (c : fcont) : result (fcont * Z) :=
  match C25_Round.for_withdrawal a div w with
  | DecCore.Ok a' => f_take div a' c
  | DecCore.Err _ => Err EOverflow            (* VaultError::DecimalOverflow *)
  | DecCore.Panic => Panic
  end.
