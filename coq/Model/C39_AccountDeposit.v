(* C39 — executable model of the guarded deposit methods of the account blueprint:
     radix-engine/src/blueprints/account/blueprint.rs
       AccountBlueprint::{is_deposit_allowed, does_vault_exist, get_resource_preference, deposit,
         deposit_batch, try_deposit_or_refund, try_deposit_batch_or_refund, try_deposit_or_abort,
         try_deposit_batch_or_abort, validate_badge_is_authorized_depositor, validate_badge_is_present,
         set_default_deposit_rule, set_resource_preference, remove_resource_preference,
         add_authorized_depositor, remove_authorized_depositor, withdraw}
       AccountBlueprintBottlenoseExtension::{try_deposit_or_refund, try_deposit_batch_or_refund}
   Model only, no proofs.  One step = one transaction: a failing call changes nothing.
   Two code versions: before Bottlenose the refund variants are the original functions; from
   Bottlenose on the exports try_deposit_or_refund / try_deposit_batch_or_refund are the extension's
   functions, while the abort variants still call the ORIGINAL refund functions. *)
From Coq Require Import List NArith ZArith Bool.
Import ListNotations.
Open Scope Z_scope.

Definition res := N.                       (* resource address; 0 = XRD *)
Definition XRD : res := 0%N.
Definition badge := N.                     (* ResourceOrNonFungible, abstractly *)
Inductive pref := Allowed | Disallowed.
Inductive default_rule := Accept | Reject | AllowExisting.

Record account := {
  a_default : default_rule;
  a_prefs : list (res * pref);             (* ResourcePreference KV collection: at most one entry per key *)
  a_auth : list badge;                     (* AuthorizedDepositor KV collection *)
  a_vaults : list (res * Z)                (* ResourceVault KV collection: resource -> balance *)
}.
Definition fresh : account := {| a_default := Accept; a_prefs := []; a_auth := []; a_vaults := [] |}.

Fixpoint lookup {A} (k : N) (l : list (N * A)) : option A :=
  match l with [] => None | (k', v) :: l' => if N.eqb k k' then Some v else lookup k l' end.
Fixpoint remove_key {A} (k : N) (l : list (N * A)) : list (N * A) :=
  match l with [] => [] | (k', v) :: l' => if N.eqb k k' then remove_key k l' else (k', v) :: remove_key k l' end.
Definition set_key {A} (k : N) (v : A) (l : list (N * A)) : list (N * A) := (k, v) :: remove_key k l.
Definition memN (k : N) (l : list N) : bool := existsb (N.eqb k) l.

Definition has_vault (a : account) (r : res) : bool :=
  match lookup r (a_vaults a) with Some _ => true | None => false end.
Definition balance (a : account) (r : res) : Z :=
  match lookup r (a_vaults a) with Some b => b | None => 0 end.

(* is_deposit_allowed *)
Definition is_deposit_allowed (a : account) (r : res) : bool :=
  match lookup r (a_prefs a) with
  | Some Allowed => true
  | Some Disallowed => false
  | None =>
      match a_default a with
      | Accept => true
      | Reject => false
      | AllowExisting => N.eqb r XRD || has_vault a r
      end
  end.

Definition bucket := (res * Z)%type.       (* resource, amount (>= 0) *)

(* deposit: get_vault(create = true) then put *)
Definition deposit (a : account) (b : bucket) : account :=
  {| a_default := a_default a; a_prefs := a_prefs a; a_auth := a_auth a;
     a_vaults := set_key (fst b) (balance a (fst b) + snd b) (a_vaults a) |}.
Definition deposit_batch (a : account) (bs : list bucket) : account := fold_left deposit bs a.

Inductive err :=
  | ENotAnAuthorizedDepositor      (* AccountError::NotAnAuthorizedDepositor *)
  | EBadgeNotPresent               (* SystemError::AssertAccessRuleFailed *)
  | EDepositIsDisallowed           (* AccountError::DepositIsDisallowed *)
  | ENotAllBuckets                 (* AccountError::NotAllBucketsCouldBeDeposited *)
  | EUnauthorized | EVault | EOther.
(* result of the refund functions *)
Inductive refund_res :=
  | RDeposited (a' : account)                 (* Ok(None) *)
  | RRefunded (rejected : list bucket)        (* Ok(Some(buckets)); RejectedDepositEvent per entry *)
  | RErr (e : err).

(* the caller: named badge (argument) and the badges provable from its auth zone *)
Record ctx := { named : option badge; proofs : list badge }.

(* original (pre-Bottlenose) try_deposit_batch_or_refund; the single-bucket function is the same
   control flow on a one-element list *)
Definition refund_v1 (a : account) (bs : list bucket) (c : ctx) : refund_res :=
  let offending := filter (fun b => negb (is_deposit_allowed a (fst b))) bs in
  match offending with
  | [] => RDeposited (deposit_batch a bs)
  | _ =>
      match named c with
      | Some bd =>
          if memN bd (a_auth a) then
            (if memN bd (proofs c) then RDeposited (deposit_batch a bs) else RErr EBadgeNotPresent)
          else RErr ENotAnAuthorizedDepositor       (* the `??` *)
      | None => RRefunded offending
      end
  end.
(* Bottlenose extension *)
Definition refund_v2 (a : account) (bs : list bucket) (c : ctx) : refund_res :=
  let offending := filter (fun b => negb (is_deposit_allowed a (fst b))) bs in
  match offending with
  | [] => RDeposited (deposit_batch a bs)
  | _ =>
      match named c with
      | Some bd =>
          if memN bd (a_auth a) then
            (if memN bd (proofs c) then RDeposited (deposit_batch a bs) else RErr EBadgeNotPresent)
          else RRefunded offending                  (* not a listed depositor: refund *)
      | None => RRefunded offending
      end
  end.

Inductive variant := SingleRefund | BatchRefund | SingleAbort | BatchAbort.
Definition is_refund (v : variant) : bool := match v with SingleRefund | BatchRefund => true | _ => false end.
Definition is_single (v : variant) : bool := match v with SingleRefund | SingleAbort => true | _ => false end.

Inductive outcome :=
  | Deposited                          (* everything went into the account *)
  | Refunded (rejected : list bucket)  (* nothing deposited, all buckets returned; rejected-deposit events *)
  | Failed (e : err).

(* the four exported methods; `bottlenose` = which code the refund exports run *)
Definition try_deposit (bottlenose : bool) (a : account) (v : variant) (bs : list bucket) (c : ctx)
  : account * outcome :=
  match v with
  | SingleRefund | BatchRefund =>
      match (if bottlenose then refund_v2 else refund_v1) a bs c with
      | RDeposited a' => (a', Deposited)
      | RRefunded rej => (a, Refunded rej)
      | RErr e => (a, Failed e)
      end
  | SingleAbort =>
      match refund_v1 a bs c with                 (* Self::try_deposit_or_refund: the original *)
      | RDeposited a' => (a', Deposited)
      | RRefunded _ => (a, Failed EDepositIsDisallowed)
      | RErr e => (a, Failed e)
      end
  | BatchAbort =>
      match refund_v1 a bs c with
      | RDeposited a' => (a', Deposited)
      | RRefunded _ => (a, Failed ENotAllBuckets)
      | RErr e => (a, Failed e)
      end
  end.

(* ---------- operations of a history ---------- *)
Inductive op :=
  | OTry (v : variant) (bs : list bucket) (c : ctx)   (* public guarded deposit *)
  | ODeposit (bs : list bucket)                       (* owner: deposit_batch, no questions asked *)
  | OWithdraw (r : res) (amt : Z)                     (* owner *)
  | OSetDefault (d : default_rule)
  | OSetPref (r : res) (p : pref)
  | ORemovePref (r : res)
  | OAddAuth (b : badge)
  | ORemoveAuth (b : badge).

Definition with_default (a : account) (d : default_rule) : account :=
  {| a_default := d; a_prefs := a_prefs a; a_auth := a_auth a; a_vaults := a_vaults a |}.
Definition with_prefs (a : account) (p : list (res * pref)) : account :=
  {| a_default := a_default a; a_prefs := p; a_auth := a_auth a; a_vaults := a_vaults a |}.
Definition with_auth (a : account) (l : list badge) : account :=
  {| a_default := a_default a; a_prefs := a_prefs a; a_auth := l; a_vaults := a_vaults a |}.
Definition with_vaults (a : account) (l : list (res * Z)) : account :=
  {| a_default := a_default a; a_prefs := a_prefs a; a_auth := a_auth a; a_vaults := l |}.

Definition step (bottlenose : bool) (a : account) (o : op) : account * outcome :=
  match o with
  | OTry v bs c => try_deposit bottlenose a v bs c
  | ODeposit bs => (deposit_batch a bs, Deposited)
  | OWithdraw r amt =>
      match lookup r (a_vaults a) with
      | Some b => if (0 <=? amt) && (amt <=? b) then (with_vaults a (set_key r (b - amt) (a_vaults a)), Deposited)
                  else (a, Failed EVault)
      | None => (a, Failed EVault)                 (* VaultDoesNotExist *)
      end
  | OSetDefault d => (with_default a d, Deposited)
  | OSetPref r p => (with_prefs a (set_key r p (a_prefs a)), Deposited)
  | ORemovePref r => (with_prefs a (remove_key r (a_prefs a)), Deposited)
  | OAddAuth b => (with_auth a (b :: filter (fun x => negb (N.eqb x b)) (a_auth a)), Deposited)
  | ORemoveAuth b => (with_auth a (filter (fun x => negb (N.eqb x b)) (a_auth a)), Deposited)
  end.

Fixpoint run (bottlenose : bool) (a : account) (ops : list op) : list (account * op * account * outcome) :=
  match ops with
  | [] => []
  | o :: ops' => let r := step bottlenose a o in (a, o, fst r, snd r) :: run bottlenose (fst r) ops'
  end.
Definition final (bottlenose : bool) (a : account) (ops : list op) : account :=
  fold_left (fun a o => fst (step bottlenose a o)) ops a.

(* ---------- several accounts: the world of one transaction ---------- *)
(* address -> account. An address without an entry is an account that does not exist yet: a
   preallocated (virtual) account is created by its first call with the blueprint's defaults
   (AccountBlueprint::create_virtual: deposit rule Accept, no preferences, no depositors, no vaults),
   which is `fresh`; a failed first call leaves it non-existent. *)
Definition world := list (N * account).
Definition wget (w : world) (a : N) : account := match lookup a w with Some x => x | None => fresh end.
Definition wset (w : world) (a : N) (x : account) : world := set_key a x w.

(* Account::withdraw of each bucket in turn (vault must exist and hold the amount) *)
Fixpoint take_buckets (a : account) (bs : list bucket) : option account :=
  match bs with
  | [] => Some a
  | (r, amt) :: rest =>
      match lookup r (a_vaults a) with
      | Some b => if (0 <=? amt) && (amt <=? b)
                  then take_buckets (with_vaults a (set_key r (b - amt) (a_vaults a))) rest
                  else None
      | None => None
      end
  end.

(* the transactions of the harness *)
Inductive wop :=
  (* src withdraws the buckets, calls the guarded deposit of tgt, and deposits whatever comes back *)
  | WTry (src tgt : N) (v : variant) (bs : list bucket) (c : ctx)
  (* src hands the buckets to tgt's owner, who deposits them with deposit_batch *)
  | WDeposit (src tgt : N) (bs : list bucket)
  (* tgt's owner withdraws and the resources are deposited into dst *)
  | WWithdraw (tgt : N) (r : res) (amt : Z) (dst : N)
  (* tgt's owner changes the deposit configuration *)
  | WConfig (tgt : N) (o : op).

Definition is_config (o : op) : bool :=
  match o with OSetDefault _ | OSetPref _ _ | ORemovePref _ | OAddAuth _ | ORemoveAuth _ => true | _ => false end.

Definition wstep (bottlenose : bool) (w : world) (o : wop) : world * outcome :=
  match o with
  | WTry src tgt v bs c =>
      if N.eqb src tgt then (w, Failed EOther) else
      match take_buckets (wget w src) bs with
      | None => (w, Failed EVault)
      | Some s' =>
          match try_deposit bottlenose (wget w tgt) v bs c with
          | (t', Deposited) => (wset (wset w src s') tgt t', Deposited)
          | (_, Refunded rej) => (wset w src (deposit_batch s' bs), Refunded rej)   (* buckets go home *)
          | (_, Failed e) => (w, Failed e)
          end
      end
  | WDeposit src tgt bs =>
      if N.eqb src tgt then (w, Failed EOther) else
      match take_buckets (wget w src) bs with
      | None => (w, Failed EVault)
      | Some s' => (wset (wset w src s') tgt (deposit_batch (wget w tgt) bs), Deposited)
      end
  | WWithdraw tgt r amt dst =>
      if N.eqb tgt dst then (w, Failed EOther) else
      match step bottlenose (wget w tgt) (OWithdraw r amt) with
      | (t', Deposited) => (wset (wset w tgt t') dst (deposit (wget w dst) (r, amt)), Deposited)
      | (_, out) => (w, out)
      end
  | WConfig tgt o =>
      if is_config o then (wset w tgt (fst (step bottlenose (wget w tgt) o)), Deposited)
      else (w, Failed EOther)
  end.
