(* C32 — Transaction identifiers commit to the whole transaction.  Executable model, no proofs.

   Modelled code (radix-transactions/src/model):
     preparation/summarized_composite.rs  ConcatenatedDigest::{prepare_transaction_payload,
                                          prepare_from_sbor_array_*, prepare_from_sbor_tuple_*},
                                          the `prepare_tuple!` impls and the Vec<T> impl
     preparation/summarized_raw.rs        SummarizedRawFullValue (V1 leaves: hash of the full SBOR
                                          value INCLUDING its value-kind byte), SummarizedRawValueBody
                                          (V2 leaves: hash of the value body WITHOUT the value-kind
                                          byte), SummarizedRawValueBodyRawBytes (blob: hash of the raw
                                          blob content), RawHash (child subintent hash: used as is)
     preparation/decoder.rs               PreparationSettings::check_len, TransactionDecoder::
                                          {new_transaction, read_header, check_complete}
     preparation/traits.rs                PreparedTransaction::prepare, define_transaction_payload!
     v1/{intent,signed_intent,notarized_transaction_v1,blobs}.rs
     v2/{intent_core_v2,subintent_v2,non_root_subintents_v2,child_subintent_hashes_v2,
         transaction_intent_v2,signed_transaction_intent_v2,notarized_transaction_v2,
         intent_signatures_v2,partial_transaction_v2,signed_partial_transaction_v2}.rs
     user_transaction.rs                  PreparedUserTransaction::prepare_from_transaction_enum
     any_transaction.rs                   TransactionDiscriminator

   The preparation functions are modelled as *hash-input builders*: for each hashed part the byte
   string fed to the hash function, as a function of the decoded content.  Leaves are abstract byte
   strings (the raw SBOR bytes the code slices out of the payload); the hash function is a Section
   variable `H` (Blake2b-256 in the code).  A byte is an `N`. *)
From Coq Require Import List NArith Bool.
Import ListNotations.
Open Scope N_scope.

Definition bytes := list N.

Fixpoint beqb (a b : bytes) : bool :=
  match a, b with
  | [], [] => true
  | x :: a', y :: b' => (x =? y) && beqb a' b'
  | _, _ => false
  end.

(* radix-common/src/constants/sbor_payload.rs *)
Definition TRANSACTION_HASHABLE_PAYLOAD_PREFIX : N := 84.   (* 0x54 *)
Definition MANIFEST_SBOR_V1_PAYLOAD_PREFIX : N := 77.       (* 0x4d *)
Definition MANIFEST_SBOR_V1_MAX_DEPTH : N := 24.
Definition VK_ENUM : N := 34.    (* 0x22 *)
Definition VK_TUPLE : N := 33.   (* 0x21 *)
Definition VK_ARRAY : N := 32.   (* 0x20 *)

(* any_transaction.rs: TransactionDiscriminator *)
Definition D_V1_INTENT : N := 1.
Definition D_V1_SIGNED_INTENT : N := 2.
Definition D_V1_NOTARIZED : N := 3.
Definition D_V2_TRANSACTION_INTENT : N := 9.
Definition D_V2_SIGNED_TRANSACTION_INTENT : N := 10.
Definition D_V2_SUBINTENT : N := 11.
Definition D_V2_NOTARIZED : N := 12.
Definition D_V2_PARTIAL_TRANSACTION : N := 13.
Definition D_V2_SIGNED_PARTIAL_TRANSACTION : N := 14.

(* ---------------------------------------------------------------------------------------- *)
(* decoded content: the leaves that are hashed                                              *)
(* ---------------------------------------------------------------------------------------- *)
(* V1: every leaf is the FULL SBOR value (value-kind byte + body) of the field, except blobs,
   which are the raw blob contents. *)
Record intent_v1 := {
  i1_header : bytes;          (* TransactionHeaderV1, full value *)
  i1_instructions : bytes;    (* InstructionsV1, full value *)
  i1_blobs : list bytes;      (* raw content of each blob *)
  i1_message : bytes          (* MessageV1, full value *)
}.
Record notarized_v1 := {
  n1_intent : intent_v1;
  n1_signatures : bytes;        (* IntentSignaturesV1, full value *)
  n1_notary_signature : bytes   (* NotarySignatureV1, full value *)
}.

(* V2: every leaf is the value BODY (no value-kind byte); blobs are raw contents; children are
   the 32-byte child subintent hashes themselves (RawHash: not hashed again). *)
Record core_v2 := {
  c_header : bytes;           (* IntentHeaderV2 body *)
  c_blobs : list bytes;
  c_message : bytes;          (* MessageV2 body *)
  c_children : list bytes;    (* child subintent hashes, 32 bytes each *)
  c_instructions : bytes      (* InstructionsV2 body *)
}.
Record tx_intent_v2 := {
  t_header : bytes;           (* TransactionHeaderV2 body *)
  t_root : core_v2;
  t_subintents : list core_v2
}.
Record notarized_v2 := {
  n2_intent : tx_intent_v2;
  n2_signatures : bytes;            (* IntentSignaturesV2 body *)
  n2_sub_signatures : list bytes;   (* one IntentSignaturesV2 body per non-root subintent *)
  n2_notary_signature : bytes       (* NotarySignatureV2 body *)
}.
Record partial_v2 := {
  p_root : core_v2;
  p_subintents : list core_v2
}.
Record signed_partial_v2 := {
  sp_partial : partial_v2;
  sp_root_signatures : bytes;
  sp_sub_signatures : list bytes
}.

(* well-formedness the decoder guarantees: a child subintent hash is a `Hash` = 32 bytes *)
Definition len32 (b : bytes) : bool := Nat.eqb (length b) 32.
Definition core_wf (c : core_v2) : bool := forallb len32 (c_children c).
Definition tx_intent_wf (t : tx_intent_v2) : bool :=
  core_wf (t_root t) && forallb core_wf (t_subintents t).
Definition partial_wf (p : partial_v2) : bool :=
  core_wf (p_root p) && forallb core_wf (p_subintents p).

Section WithHash.
  Variable H : bytes -> bytes.

  (* HashAccumulator::new().concat([TRANSACTION_HASHABLE_PAYLOAD_PREFIX, discriminator]) *)
  Definition payload_prefix (d : N) : bytes := [TRANSACTION_HASHABLE_PAYLOAD_PREFIX; d].

  (* Every composite (tuple impls of `prepare_tuple!`, Vec<T> impl of ArrayPreparable) feeds the
     accumulator with: the initial bytes (payload prefix + discriminator, or nothing), then the
     32-byte digest of each child in order.  `*_digests` is the list of child digests,
     `*_input` the resulting hash input, `*_hash` its hash. *)
  Definition composite_input (pre : bytes) (digests : list bytes) : bytes := pre ++ concat digests.

  (* PreparedBlobsV1: array of SummarizedRawValueBodyRawBytes, element digest = hash(content) *)
  Definition blobs_digests (bl : list bytes) : list bytes := map H bl.
  Definition blobs_input (bl : list bytes) : bytes := composite_input [] (blobs_digests bl).
  Definition blobs_hash (bl : list bytes) : bytes := H (blobs_input bl).

  (* ---- V1 ---- *)
  Definition v1_intent_digests (i : intent_v1) : list bytes :=
    [H (i1_header i); H (i1_instructions i); blobs_hash (i1_blobs i); H (i1_message i)].
  Definition v1_intent_input (i : intent_v1) : bytes :=
    composite_input (payload_prefix D_V1_INTENT) (v1_intent_digests i).
  Definition v1_intent_hash (i : intent_v1) : bytes := H (v1_intent_input i).

  Definition v1_signed_digests (n : notarized_v1) : list bytes :=
    [v1_intent_hash (n1_intent n); H (n1_signatures n)].
  Definition v1_signed_input (n : notarized_v1) : bytes :=
    composite_input (payload_prefix D_V1_SIGNED_INTENT) (v1_signed_digests n).
  Definition v1_signed_hash (n : notarized_v1) : bytes := H (v1_signed_input n).

  Definition v1_notarized_digests (n : notarized_v1) : list bytes :=
    [v1_signed_hash n; H (n1_notary_signature n)].
  Definition v1_notarized_input (n : notarized_v1) : bytes :=
    composite_input (payload_prefix D_V1_NOTARIZED) (v1_notarized_digests n).
  Definition v1_notarized_hash (n : notarized_v1) : bytes := H (v1_notarized_input n).

  (* ---- V2 ---- *)
  (* PreparedChildSubintentSpecifiersV2: array of RawHash, element digest = the hash itself *)
  Definition children_input (ch : list bytes) : bytes := composite_input [] ch.
  Definition children_hash (ch : list bytes) : bytes := H (children_input ch).

  (* PreparedIntentCoreV2: prepare_from_sbor_tuple_value_body — NO prefix bytes; field order as
     in the struct: header, blobs, message, children, instructions *)
  Definition core_digests (c : core_v2) : list bytes :=
    [H (c_header c); blobs_hash (c_blobs c); H (c_message c); children_hash (c_children c);
     H (c_instructions c)].
  Definition core_input (c : core_v2) : bytes := composite_input [] (core_digests c).
  Definition core_hash (c : core_v2) : bytes := H (core_input c).

  Definition subintent_input (c : core_v2) : bytes :=
    composite_input (payload_prefix D_V2_SUBINTENT) [core_hash c].
  Definition subintent_hash (c : core_v2) : bytes := H (subintent_input c).

  (* PreparedNonRootSubintentsV2: array of PreparedSubintentV2 *)
  Definition subintents_digests (l : list core_v2) : list bytes := map subintent_hash l.
  Definition subintents_input (l : list core_v2) : bytes := composite_input [] (subintents_digests l).
  Definition subintents_hash (l : list core_v2) : bytes := H (subintents_input l).

  Definition v2_intent_digests (t : tx_intent_v2) : list bytes :=
    [H (t_header t); core_hash (t_root t); subintents_hash (t_subintents t)].
  Definition v2_intent_input (t : tx_intent_v2) : bytes :=
    composite_input (payload_prefix D_V2_TRANSACTION_INTENT) (v2_intent_digests t).
  Definition v2_intent_hash (t : tx_intent_v2) : bytes := H (v2_intent_input t).

  (* PreparedNonRootSubintentSignaturesV2: array of SummarizedRawValueBody<IntentSignaturesV2> *)
  Definition sig_batches_digests (l : list bytes) : list bytes := map H l.
  Definition sig_batches_input (l : list bytes) : bytes := composite_input [] (sig_batches_digests l).
  Definition sig_batches_hash (l : list bytes) : bytes := H (sig_batches_input l).

  Definition v2_signed_digests (n : notarized_v2) : list bytes :=
    [v2_intent_hash (n2_intent n); H (n2_signatures n); sig_batches_hash (n2_sub_signatures n)].
  Definition v2_signed_input (n : notarized_v2) : bytes :=
    composite_input (payload_prefix D_V2_SIGNED_TRANSACTION_INTENT) (v2_signed_digests n).
  Definition v2_signed_hash (n : notarized_v2) : bytes := H (v2_signed_input n).

  Definition v2_notarized_digests (n : notarized_v2) : list bytes :=
    [v2_signed_hash n; H (n2_notary_signature n)].
  Definition v2_notarized_input (n : notarized_v2) : bytes :=
    composite_input (payload_prefix D_V2_NOTARIZED) (v2_notarized_digests n).
  Definition v2_notarized_hash (n : notarized_v2) : bytes := H (v2_notarized_input n).

  Definition partial_digests (p : partial_v2) : list bytes :=
    [subintent_hash (p_root p); subintents_hash (p_subintents p)].
  Definition partial_input (p : partial_v2) : bytes :=
    composite_input (payload_prefix D_V2_PARTIAL_TRANSACTION) (partial_digests p).
  Definition partial_hash (p : partial_v2) : bytes := H (partial_input p).

  Definition signed_partial_digests (s : signed_partial_v2) : list bytes :=
    [partial_hash (sp_partial s); H (sp_root_signatures s); sig_batches_hash (sp_sub_signatures s)].
  Definition signed_partial_input (s : signed_partial_v2) : bytes :=
    composite_input (payload_prefix D_V2_SIGNED_PARTIAL_TRANSACTION) (signed_partial_digests s).
  Definition signed_partial_hash (s : signed_partial_v2) : bytes := H (signed_partial_input s).

  (* ---- all hashed composite parts, uniformly (used to state input injectivity once) ---- *)
  Inductive part :=
  | PBlobs (bl : list bytes) | PChildren (ch : list bytes) | PSigBatches (l : list bytes)
  | PSubintents (l : list core_v2) | PCore (c : core_v2)
  | PV1Intent (i : intent_v1) | PV1Signed (n : notarized_v1) | PV1Notarized (n : notarized_v1)
  | PSubintent (c : core_v2) | PV2Intent (t : tx_intent_v2) | PV2Signed (n : notarized_v2)
  | PV2Notarized (n : notarized_v2) | PPartial (p : partial_v2) | PSignedPartial (s : signed_partial_v2).
  (* the initial accumulator bytes of the part *)
  Definition part_prefix (p : part) : bytes :=
    match p with
    | PBlobs _ | PChildren _ | PSigBatches _ | PSubintents _ | PCore _ => []
    | PV1Intent _ => payload_prefix D_V1_INTENT
    | PV1Signed _ => payload_prefix D_V1_SIGNED_INTENT
    | PV1Notarized _ => payload_prefix D_V1_NOTARIZED
    | PSubintent _ => payload_prefix D_V2_SUBINTENT
    | PV2Intent _ => payload_prefix D_V2_TRANSACTION_INTENT
    | PV2Signed _ => payload_prefix D_V2_SIGNED_TRANSACTION_INTENT
    | PV2Notarized _ => payload_prefix D_V2_NOTARIZED
    | PPartial _ => payload_prefix D_V2_PARTIAL_TRANSACTION
    | PSignedPartial _ => payload_prefix D_V2_SIGNED_PARTIAL_TRANSACTION
    end.
  Definition part_digests (p : part) : list bytes :=
    match p with
    | PBlobs bl => blobs_digests bl
    | PChildren ch => ch
    | PSigBatches l => sig_batches_digests l
    | PSubintents l => subintents_digests l
    | PCore c => core_digests c
    | PV1Intent i => v1_intent_digests i
    | PV1Signed n => v1_signed_digests n
    | PV1Notarized n => v1_notarized_digests n
    | PSubintent c => [core_hash c]
    | PV2Intent t => v2_intent_digests t
    | PV2Signed n => v2_signed_digests n
    | PV2Notarized n => v2_notarized_digests n
    | PPartial p => partial_digests p
    | PSignedPartial s => signed_partial_digests s
    end.
  Definition part_input (p : part) : bytes := composite_input (part_prefix p) (part_digests p).
  (* the only digests that are not outputs of H are the child subintent hashes (decoded `Hash`) *)
  Definition part_wf (p : part) : bool :=
    match p with PChildren ch => forallb len32 ch | _ => true end.

  (* ---- the identifiers a prepared transaction exposes ---- *)
  Inductive tx := TxV1 (n : notarized_v1) | TxV2 (n : notarized_v2) | TxPartial (s : signed_partial_v2).

  Record hashes := {
    h_intent : bytes;             (* transaction intent hash / root subintent hash *)
    h_signed : bytes;             (* signed (transaction) intent hash / partial transaction hash *)
    h_notarized : bytes;          (* notarized transaction hash / signed partial transaction hash *)
    h_subintents : list bytes     (* non-root subintent hashes *)
  }.

  Definition tx_hashes (t : tx) : hashes :=
    match t with
    | TxV1 n => {| h_intent := v1_intent_hash (n1_intent n); h_signed := v1_signed_hash n;
                   h_notarized := v1_notarized_hash n; h_subintents := [] |}
    | TxV2 n => {| h_intent := v2_intent_hash (n2_intent n); h_signed := v2_signed_hash n;
                   h_notarized := v2_notarized_hash n;
                   h_subintents := map subintent_hash (t_subintents (n2_intent n)) |}
    | TxPartial s => {| h_intent := subintent_hash (p_root (sp_partial s));
                        h_signed := partial_hash (sp_partial s);
                        h_notarized := signed_partial_hash s;
                        h_subintents := map subintent_hash (p_subintents (sp_partial s)) |}
    end.

  (* ---- every byte string that is fed to H while computing tx_hashes ---- *)
  Definition blobs_inputs (bl : list bytes) : list bytes := bl ++ [blobs_input bl].
  Definition v1_intent_inputs (i : intent_v1) : list bytes :=
    [i1_header i; i1_instructions i; i1_message i] ++ blobs_inputs (i1_blobs i) ++ [v1_intent_input i].
  Definition v1_inputs (n : notarized_v1) : list bytes :=
    v1_intent_inputs (n1_intent n)
      ++ [n1_signatures n; v1_signed_input n; n1_notary_signature n; v1_notarized_input n].
  Definition core_inputs (c : core_v2) : list bytes :=
    [c_header c; c_message c; c_instructions c; children_input (c_children c)]
      ++ blobs_inputs (c_blobs c) ++ [core_input c].
  Definition subintent_inputs (c : core_v2) : list bytes := core_inputs c ++ [subintent_input c].
  Definition subintents_inputs (l : list core_v2) : list bytes :=
    flat_map subintent_inputs l ++ [subintents_input l].
  Definition v2_intent_inputs (t : tx_intent_v2) : list bytes :=
    [t_header t] ++ core_inputs (t_root t) ++ subintents_inputs (t_subintents t) ++ [v2_intent_input t].
  Definition sig_batches_inputs (l : list bytes) : list bytes := l ++ [sig_batches_input l].
  Definition v2_inputs (n : notarized_v2) : list bytes :=
    v2_intent_inputs (n2_intent n) ++ [n2_signatures n] ++ sig_batches_inputs (n2_sub_signatures n)
      ++ [v2_signed_input n; n2_notary_signature n; v2_notarized_input n].
  Definition partial_inputs (p : partial_v2) : list bytes :=
    subintent_inputs (p_root p) ++ subintents_inputs (p_subintents p) ++ [partial_input p].
  Definition signed_partial_inputs (s : signed_partial_v2) : list bytes :=
    partial_inputs (sp_partial s) ++ [sp_root_signatures s] ++ sig_batches_inputs (sp_sub_signatures s)
      ++ [signed_partial_input s].
  Definition tx_inputs (t : tx) : list bytes :=
    match t with
    | TxV1 n => v1_inputs n
    | TxV2 n => v2_inputs n
    | TxPartial s => signed_partial_inputs s
    end.
End WithHash.

Definition tx_wf (t : tx) : bool :=
  match t with
  | TxV1 _ => true
  | TxV2 n => tx_intent_wf (n2_intent n)
  | TxPartial s => partial_wf (sp_partial s)
  end.

(* what each identifier is meant to cover (used to state field sensitivity) *)
Inductive intent_view := IV1 (i : intent_v1) | IV2 (t : tx_intent_v2) | IVP (root : core_v2).
Inductive signed_view :=
| SV1 (i : intent_v1) (signatures : bytes)
| SV2 (t : tx_intent_v2) (signatures : bytes) (sub_signatures : list bytes)
| SVP (p : partial_v2).
Definition intent_part (t : tx) : intent_view :=
  match t with
  | TxV1 n => IV1 (n1_intent n)
  | TxV2 n => IV2 (n2_intent n)
  | TxPartial s => IVP (p_root (sp_partial s))
  end.
Definition signed_part (t : tx) : signed_view :=
  match t with
  | TxV1 n => SV1 (n1_intent n) (n1_signatures n)
  | TxV2 n => SV2 (n2_intent n) (n2_signatures n) (n2_sub_signatures n)
  | TxPartial s => SVP (sp_partial s)
  end.
Definition subintent_parts (t : tx) : list core_v2 :=
  match t with
  | TxV1 _ => []
  | TxV2 n => t_subintents (n2_intent n)
  | TxPartial s => p_subintents (sp_partial s)
  end.

(* ---------------------------------------------------------------------------------------- *)
(* payload envelope acceptance (decoder.rs / traits.rs / user_transaction.rs)               *)
(* ---------------------------------------------------------------------------------------- *)
Inductive payload_kind := CompleteUserTransaction | LedgerTransaction | OtherPayload.

Record settings := {
  v2_transactions_permitted : bool;
  max_user_payload_length : N;
  max_ledger_payload_length : N;
  max_child_subintents_per_intent : N;
  max_subintents_per_transaction : N;
  max_blobs : N
}.
(* PreparationSettings::latest() = cuttlefish() *)
Definition settings_latest : settings := {|
  v2_transactions_permitted := true;
  max_user_payload_length := 1048576;
  max_ledger_payload_length := 1048586;
  max_child_subintents_per_intent := 32;
  max_subintents_per_transaction := 32;
  max_blobs := 64 |}.
Definition settings_babylon : settings := {|
  v2_transactions_permitted := false;
  max_user_payload_length := 1048576;
  max_ledger_payload_length := 1048586;
  max_child_subintents_per_intent := 0;
  max_subintents_per_transaction := 0;
  max_blobs := 64 |}.

Inductive perr :=
| ETransactionTooLarge
| EBufferUnderflow
| EUnexpectedPayloadPrefix (actual : N)
| EUnexpectedTransactionDiscriminator (actual : option N)
| EBadValueKind (actual : N)
| EUnexpectedDiscriminator (actual : N)
| EInvalidSize
| EUnexpectedSize (actual : N)
| ETooManyValues (actual max : N)
| ETransactionTypeNotSupported
| EMaxDepthExceeded
| EDuplicateKey
| EBody                              (* an error of an abstract leaf decoder *)
| EExtraTrailingBytes (n : N).

Inductive result (A : Type) := Ok (a : A) | Err (e : perr).
Arguments Ok {A} a.
Arguments Err {A} e.

(* PreparationSettings::check_len *)
Definition check_len (s : settings) (k : payload_kind) (len : N) : bool :=
  match k with
  | CompleteUserTransaction => len <=? max_user_payload_length s
  | LedgerTransaction => len <=? max_ledger_payload_length s
  | OtherPayload => true
  end.

(* sbor Decoder::read_size: LEB128, at most 4 bytes, canonical (last byte non-zero unless the
   size is 0).  `shift` counts 7-bit groups already read. *)
Fixpoint read_size_aux (fuel : nat) (acc shift : N) (bs : bytes) : result (N * bytes) :=
  match bs with
  | [] => Err EBufferUnderflow
  | b :: rest =>
      let acc' := acc + N.shiftl (N.land b 127) shift in
      if b <? 128 then
        if (b =? 0) && negb (shift =? 0) then Err EInvalidSize else Ok (acc', rest)
      else
        let shift' := shift + 7 in
        if 28 <=? shift' then Err EInvalidSize
        else match fuel with
             | O => Err EInvalidSize
             | S f => read_size_aux f acc' shift' rest
             end
  end.
Definition read_size (bs : bytes) : result (N * bytes) := read_size_aux 4 0 0 bs.

(* The enum envelope of a transaction payload, `define_transaction_payload!` →
   prepare_transaction_payload(.., EnumWithValueKind) → read_header:
   value kind Enum, expected discriminator, expected number of fields. *)
Definition read_enum_header (disc nfields : N) (bs : bytes) : result bytes :=
  match bs with
  | [] => Err EBufferUnderflow
  | vk :: r1 =>
      if negb (vk =? VK_ENUM) then Err (EBadValueKind vk) else
      match r1 with
      | [] => Err EBufferUnderflow
      | d :: r2 =>
          if negb (d =? disc) then Err (EUnexpectedDiscriminator d) else
          match read_size r2 with
          | Err e => Err e
          | Ok (n, r3) => if n =? nfields then Ok r3 else Err (EUnexpectedSize n)
          end
      end
  end.

Section Envelope.
  Variable A : Type.
  (* the decoder of the fields of the payload (C20 territory: typed SBOR decoding of the leaves;
     the composite structure above the leaves is modelled in `Struct` below): consumes a prefix of
     the remaining input and returns the content and the unread rest *)
  Variable decode_fields : bytes -> result (A * bytes).

  (* PreparedTransaction::prepare for a payload type with discriminator `disc` and `nfields`
     fields: check_len; payload prefix; enum header; fields; check_complete *)
  Definition prepare_known (s : settings) (k : payload_kind) (disc nfields : N) (payload : bytes)
    : result A :=
    if negb (check_len s k (N.of_nat (length payload))) then Err ETransactionTooLarge else
    match payload with
    | [] => Err EBufferUnderflow
    | p :: rest =>
        if negb (p =? MANIFEST_SBOR_V1_PAYLOAD_PREFIX) then Err (EUnexpectedPayloadPrefix p) else
        match read_enum_header disc nfields rest with
        | Err e => Err e
        | Ok body =>
            match decode_fields body with
            | Err e => Err e
            | Ok (a, trailing) =>
                match trailing with
                | [] => Ok a
                | _ => Err (EExtraTrailingBytes (N.of_nat (length trailing)))
                end
            end
        end
    end.
End Envelope.

Section UserEnvelope.
  Variables A1 A2 : Type.
  Variable decode_v1 : bytes -> result (A1 * bytes).
  Variable decode_v2 : bytes -> result (A2 * bytes).

  (* RawNotarizedTransaction::prepare → PreparedUserTransaction::prepare: peeks the byte after
     the enum value kind (offset + 1) and dispatches on the discriminator *)
  Definition prepare_user (s : settings) (payload : bytes) : result (A1 + A2) :=
    if negb (check_len s CompleteUserTransaction (N.of_nat (length payload)))
    then Err ETransactionTooLarge else
    match payload with
    | [] => Err EBufferUnderflow
    | p :: rest =>
        if negb (p =? MANIFEST_SBOR_V1_PAYLOAD_PREFIX) then Err (EUnexpectedPayloadPrefix p) else
        match rest with
        | _ :: d :: _ =>
            if d =? D_V1_NOTARIZED then
              match prepare_known A1 decode_v1 s CompleteUserTransaction D_V1_NOTARIZED 2 payload with
              | Ok a => Ok (inl a) | Err e => Err e end
            else if d =? D_V2_NOTARIZED then
              match prepare_known A2 decode_v2 s CompleteUserTransaction D_V2_NOTARIZED 2 payload with
              | Ok a => Ok (inr a) | Err e => Err e end
            else Err (EUnexpectedTransactionDiscriminator (Some d))
        | _ => Err (EUnexpectedTransactionDiscriminator None)
        end
    end.
End UserEnvelope.

(* ---------------------------------------------------------------------------------------- *)
(* ledger transaction payloads (ledger_transaction.rs)                                      *)
(* ---------------------------------------------------------------------------------------- *)
(* RawLedgerTransaction (TransactionPayloadKind::LedgerTransaction) →
   PreparedLedgerTransaction::prepare_from_transaction_enum:
     read_header(EnumWithValueKind { discriminator: Ledger }, 1)
     PreparedLedgerTransactionInner::prepare_from_value:
       read_enum_header  (value kind Enum, any discriminator, any size)
       per arm: check_length(length, 1), then the nested transaction's prepare_from_value;
       Genesis: check_length(length, 1), a second read_enum_header, Flash: check_length(length, 0),
                Transaction: check_length(length, 1) + PreparedSystemTransactionV1
       unknown discriminator → DecodeError::UnknownDiscriminator
   then check_complete.  The nested transactions are abstract field decoders, as for user payloads. *)
Definition D_LEDGER : N := 7.
Inductive ledger_variant :=
| LGenesisFlash | LGenesisTransaction | LUserV1 | LRoundUpdateV1 | LFlashV1 | LUserV2.
Definition ledger_variant_code (v : ledger_variant) : N :=
  match v with
  | LGenesisFlash => 0 | LGenesisTransaction => 1 | LUserV1 => 2 | LRoundUpdateV1 => 3
  | LFlashV1 => 4 | LUserV2 => 5
  end.
(* the envelope bytes in front of the nested transaction, fully determined by the variant *)
Definition ledger_header (v : ledger_variant) : bytes :=
  [MANIFEST_SBOR_V1_PAYLOAD_PREFIX; VK_ENUM; D_LEDGER; 1; VK_ENUM] ++
  match v with
  | LGenesisFlash => [0; 1; VK_ENUM; 0; 0]
  | LGenesisTransaction => [0; 1; VK_ENUM; 1; 1]
  | LUserV1 => [1; 1]
  | LRoundUpdateV1 => [2; 1]
  | LFlashV1 => [3; 1]
  | LUserV2 => [4; 1]
  end.

(* TransactionDecoder::read_enum_header: value kind Enum, discriminator, size *)
Definition read_any_enum_header (bs : bytes) : result (N * N * bytes) :=
  match bs with
  | [] => Err EBufferUnderflow
  | vk :: r1 =>
      if negb (vk =? VK_ENUM) then Err (EBadValueKind vk) else
      match r1 with
      | [] => Err EBufferUnderflow
      | d :: r2 =>
          match read_size r2 with
          | Err e => Err e
          | Ok (n, r3) => Ok (d, n, r3)
          end
      end
  end.
(* ledger_transaction.rs check_length *)
Definition check_length {B : Type} (actual expected : N) (k : result B) : result B :=
  if actual =? expected then k else Err (EUnexpectedSize actual).

Section LedgerEnvelope.
  Variable A : Type.
  (* the nested transaction's prepare_from_value (value kind + fields), per variant *)
  Variable decode_inner : ledger_variant -> bytes -> result (A * bytes).

  Definition nested (v : ledger_variant) (bs : bytes) : result (ledger_variant * option A * bytes) :=
    match decode_inner v bs with
    | Err e => Err e
    | Ok (a, rest) => Ok (v, Some a, rest)
    end.
  (* PreparedLedgerTransactionInner::prepare_from_value; UnknownDiscriminator is EUnknownDiscriminator *)
  Definition prepare_ledger_inner (unknown : N -> perr) (bs : bytes)
    : result (ledger_variant * option A * bytes) :=
    match read_any_enum_header bs with
    | Err e => Err e
    | Ok (d, n, r) =>
      if d =? 0 then
        check_length n 1
          (match read_any_enum_header r with
           | Err e => Err e
           | Ok (g, m, r2) =>
             if g =? 0 then check_length m 0 (Ok (LGenesisFlash, None, r2))
             else if g =? 1 then check_length m 1 (nested LGenesisTransaction r2)
             else Err (unknown g)
           end)
      else if d =? 1 then check_length n 1 (nested LUserV1 r)
      else if d =? 2 then check_length n 1 (nested LRoundUpdateV1 r)
      else if d =? 3 then check_length n 1 (nested LFlashV1 r)
      else if d =? 4 then check_length n 1 (nested LUserV2 r)
      else Err (unknown d)
    end.
  (* PreparedLedgerTransaction::prepare *)
  Definition prepare_ledger (unknown : N -> perr) (s : settings) (payload : bytes)
    : result (ledger_variant * option A) :=
    if negb (check_len s LedgerTransaction (N.of_nat (length payload))) then Err ETransactionTooLarge else
    match payload with
    | [] => Err EBufferUnderflow
    | p :: rest =>
        if negb (p =? MANIFEST_SBOR_V1_PAYLOAD_PREFIX) then Err (EUnexpectedPayloadPrefix p) else
        match read_enum_header D_LEDGER 1 rest with
        | Err e => Err e
        | Ok body =>
            match prepare_ledger_inner unknown body with
            | Err e => Err e
            | Ok (v, a, trailing) =>
                match trailing with
                | [] => Ok (v, a)
                | _ => Err (EExtraTrailingBytes (N.of_nat (length trailing)))
                end
            end
        end
    end.
End LedgerEnvelope.
(* DecodeError::UnknownDiscriminator: kept apart from the abstract decoder's error *)
Definition EUnknownDiscriminator (d : N) : perr := EUnexpectedTransactionDiscriminator (Some (256 + d)).

(* LedgerTransactionHash::for_kind: the hashed bytes.  LedgerTransactionKind::discriminator_for_hash:
   Genesis 0, User 1 (V1 and V2 alike), Validator 2, ProtocolUpdate 3 *)
Definition ledger_kind_for_hash (v : ledger_variant) : N :=
  match v with
  | LGenesisFlash | LGenesisTransaction => 0
  | LUserV1 | LUserV2 => 1
  | LRoundUpdateV1 => 2
  | LFlashV1 => 3
  end.
Definition ledger_hash_input (kind : N) (inner_hash : bytes) : bytes :=
  [TRANSACTION_HASHABLE_PAYLOAD_PREFIX; D_LEDGER; kind] ++ inner_hash.
Definition ledger_hash (H : bytes -> bytes) (v : ledger_variant) (inner_hash : bytes) : bytes :=
  H (ledger_hash_input (ledger_kind_for_hash v) inner_hash).
