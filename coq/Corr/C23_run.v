(* C23 — evaluation functions used by generated case files: verdict (valid / invalid / panic) and
   number of reported errors of the real schema comparison vs Model/C23_SchemaCmp.v. *)
From Coq Require Import List NArith ZArith Bool.
Import ListNotations.
Require Import RV.Model.C20_Sbor RV.Model.C22_Types RV.Model.C22_Schema RV.Model.C23_SchemaCmp.
Open Scope N_scope.

Inductive case :=
(* compare_single_type_schemas: verdict = Some is_valid | None (panic); error count if known *)
| CFixed (st : settings) (base compared : schema) (a b : tid) (verdict : option bool) (nerr : option N)
(* compare_type_collection_schemas *)
| CNamed (st : settings) (base compared : schema) (broots croots : list (bytes * tid))
         (verdict : option bool) (nerr : option N).

Definition agrees (r : cres) (verdict : option bool) (nerr : option N) : bool :=
  match r, verdict with
  | CmpOk errs, Some ok =>
    Bool.eqb (is_nil errs) ok &&
    match nerr with Some n => nlen errs =? n | None => true end
  | CmpPanic, None => true
  | _, _ => false
  end.

Definition check (c : case) : bool :=
  match c with
  | CFixed st base compared a b verdict nerr =>
    agrees (compare_fixed st base compared [(a, b)]) verdict nerr
  | CNamed st base compared broots croots verdict nerr =>
    agrees (compare_named st base compared broots croots) verdict nerr
  end.
