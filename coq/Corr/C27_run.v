(* C27 — evaluation function used by generated case files: the model of from_str / to_string must give
   the recorded output; in addition the independent grammar specification must accept exactly the
   strings the implementation accepted, with the same value, and every printed string must parse back
   (in the model) to the value it was printed from. *)
From Coq Require Import List ZArith NArith Bool.
Import ListNotations.
Require Import RV.Lib.DecCore RV.Model.C27_DecText.
Open Scope Z_scope.

Fixpoint str_eqb (a b : str) : bool :=
  match a, b with
  | [], [] => true
  | x :: a', y :: b' => (x =? y)%N && str_eqb a' b'
  | _, _ => false
  end.
Definition case := (bool * top * tout)%type.
Definition fmt_of (b : bool) : fmt := if b then DEC else PDEC.
Definition check (c : case) : bool :=
  match c with
  | (b, TParse s, OParse out) =>
      let f := fmt_of b in
      resZ_eqb (dec_from_str f s) out &&
      match parse_spec f s, out with
      | Some v, Ok w => v =? w
      | None, Err _ => true
      | _, _ => false
      end
  | (b, TPrint x, OPrint s) =>
      let f := fmt_of b in
      str_eqb (dec_to_string f x) s && resZ_eqb (dec_from_str f s) (Ok x)
  | _ => false
  end.
