(* C12 / C02 — evaluation functions used by generated case files (correspondence with the real Track). *)
From Coq Require Import List NArith Bool.
Import ListNotations.
Require Import RV.Model.C12_Track.
Open Scope N_scope.

Fixpoint list_eqb {A} (f : A -> A -> bool) (a b : list A) : bool :=
  match a, b with
  | [], [] => true
  | x :: a', y :: b' => f x y && list_eqb f a' b'
  | _, _ => false
  end.
Definition opt_eqb {A} (f : A -> A -> bool) (a b : option A) : bool :=
  match a, b with Some x, Some y => f x y | None, None => true | _, _ => false end.
Definition pair_eqb {A B} (f : A -> A -> bool) (g : B -> B -> bool) (a b : A * B) : bool :=
  f (fst a) (fst b) && g (snd a) (snd b).
Definition value_eqb : value -> value -> bool := pair_eqb N.eqb N.eqb.
Definition write_eqb (a b : write) : bool :=
  match a, b with WUpdate x, WUpdate y => value_eqb x y | WDelete, WDelete => true | _, _ => false end.
Definition tsv_eqb (a b : tsv) : bool :=
  match a, b with
  | TNew x, TNew y | TRoSome x, TRoSome y | TRNexW x, TRNexW y => value_eqb x y
  | TRoNone, TRoNone | TGarbage, TGarbage => true
  | TRExW e w, TRExW e' w' => value_eqb e e' && write_eqb w w'
  | TWo w, TWo w' => write_eqb w w'
  | _, _ => false
  end.
Definition event_eqb (a b : event) : bool :=
  match a, b with
  | EvReadDb n p k s, EvReadDb n' p' k' s' => (n =? n') && (p =? p') && (k =? k') && (s =? s')
  | EvReadDbNotFound n p k, EvReadDbNotFound n' p' k' => (n =? n') && (p =? p') && (k =? k')
  | EvTrackUpd n p k o w, EvTrackUpd n' p' k' o' w' =>
      (n =? n') && (p =? p') && (k =? k') && opt_eqb N.eqb o o' && opt_eqb N.eqb w w'
  | _, _ => false
  end.
Definition res_eqb (a b : res) : bool :=
  match a, b with
  | RUnit, RUnit | RPanic, RPanic => true
  | ROpt x, ROpt y => opt_eqb value_eqb x y
  | RInfo x, RInfo y => x =? y
  | RKeys x, RKeys y => list_eqb N.eqb x y
  | RKVs x, RKVs y => list_eqb (pair_eqb N.eqb value_eqb) x y
  | _, _ => false
  end.
Definition dbupd_eqb (a b : dbupd) : bool :=
  match a, b with USet x, USet y => value_eqb x y | UDelete, UDelete => true | _, _ => false end.
Definition pupd_eqb (a b : pupd) : bool :=
  match a, b with
  | PDelta x, PDelta y => list_eqb (pair_eqb N.eqb dbupd_eqb) x y
  | PReset x, PReset y => list_eqb (pair_eqb N.eqb value_eqb) x y
  | _, _ => false
  end.
Definition supd_eqb : supd -> supd -> bool :=
  list_eqb (pair_eqb N.eqb (list_eqb (pair_eqb N.eqb pupd_eqb))).

(* the tracked structure as dumped by the harness from finalize():
   node -> (is_new, partition -> (range_read, db-sort-key rank -> tracked value)), in iteration order *)
Definition dnodes := list (N * (bool * list (N * (N * list (N * tsv))))).
Definition dump_nodes (ns : nodes) : dnodes :=
  map (fun e => (fst e, (tn_new (snd e),
        map (fun q => (fst q, (ps_rr (snd q), ps_subs (snd q)))) (tn_parts (snd e))))) ns.
Definition dnodes_eqb : dnodes -> dnodes -> bool :=
  list_eqb (pair_eqb N.eqb (pair_eqb Bool.eqb
    (list_eqb (pair_eqb N.eqb (pair_eqb N.eqb (list_eqb (pair_eqb N.eqb tsv_eqb))))))).

Definition commit_eqb (a b : commit) : bool :=
  match a, b with
  | CInsert n p k s, CInsert n' p' k' s' => (n =? n') && (p =? p') && (k =? k') && (s =? s')
  | CUpdate n p k s o, CUpdate n' p' k' s' o' => (n =? n') && (p =? p') && (k =? k') && (s =? s') && (o =? o')
  | CDelete n p k o, CDelete n' p' k' o' => (n =? n') && (p =? p') && (k =? k') && (o =? o')
  | _, _ => false
  end.

(* final observation: get_commit_info() just before finalize(), tracked nodes, deleted partitions,
   new node set, state updates *)
Definition final := (list commit * dnodes * list (N * N) * list N * supd)%type.
Definition final_of (db : dbfun) (t : track) : final :=
  (get_commit_info db t, dump_nodes (t_nodes t), t_del t, fst (to_state_updates t), snd (to_state_updates t)).
Definition final_eqb (a b : final) : bool :=
  let '(c1, n1, d1, w1, s1) := a in
  let '(c2, n2, d2, w2, s2) := b in
  list_eqb commit_eqb c1 c2 && dnodes_eqb n1 n2 && list_eqb (pair_eqb N.eqb N.eqb) d1 d2 && list_eqb N.eqb w1 w2 && supd_eqb s1 s2.

Definition db_of (l : list (N * N * list (key * value))) : dbfun :=
  fun n p =>
    match find (fun e => (fst (fst e) =? n) && (snd (fst e) =? p)) l with
    | Some e => snd e
    | None => []
    end.

(* a case: base database, operations, per-operation (result, IOAccess list) observed on the real
   Track, and the final observation (None when the run ended in a panic) *)
Definition case := (list (N * N * list (key * value)) * list op * list (res * list event) * option final)%type.

Definition check (c : case) : bool :=
  let '(dbl, ops, outs, fin) := c in
  let '(t, mouts) := run (db_of dbl) track_new ops in
  list_eqb (pair_eqb res_eqb (list_eqb event_eqb)) mouts outs
  && match fin with None => true | Some f => final_eqb (final_of (db_of dbl) t) f end.
