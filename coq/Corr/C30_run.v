(* C30 — evaluation: the model escaper vs ManifestCustomCharEscaper, and the model lexer reading it back. *)
From Coq Require Import List NArith ZArith Bool.
Import ListNotations.
Require Import RV.Model.C30_Text RV.Model.C31_Lexer RV.Model.C30_Value RV.Corr.C31_run.
Open Scope N_scope.

Fixpoint ast_eqb (a b : ast) {struct a} : bool :=
  let fix all2 (x y : list ast) : bool :=
    match x, y with [], [] => true | p :: x', q :: y' => ast_eqb p q && all2 x' y' | _, _ => false end in
  let fix all2p (x y : list (ast * ast)) : bool :=
    match x, y with [], [] => true | (p1, p2) :: x', (q1, q2) :: y' => ast_eqb p1 q1 && ast_eqb p2 q2 && all2p x' y' | _, _ => false end in
  match a, b with
  | ABool x, ABool y => Bool.eqb x y
  | AInt s1 b1 v1, AInt s2 b2 v2 => Bool.eqb s1 s2 && N.eqb b1 b2 && Z.eqb v1 v2
  | AStr x, AStr y => listN_eqb x y
  | AEnum d1 f1, AEnum d2 f2 => N.eqb d1 d2 && all2 f1 f2
  | AArray k1 e1, AArray k2 e2 => listN_eqb k1 k2 && all2 e1 e2
  | ATuple f1, ATuple f2 => all2 f1 f2
  | AMap k1 v1 e1, AMap k2 v2 e2 => listN_eqb k1 k2 && listN_eqb v1 v2 && all2p e1 e2
  | ANone, ANone => true
  | AOne i1 v1, AOne i2 v2 => listN_eqb i1 i2 && ast_eqb v1 v2
  | _, _ => false
  end.
Fixpoint tokens_eqb (a b : list token) : bool :=
  match a, b with [], [] => true | x :: a', y :: b' => token_eqb x y && tokens_eqb a' b' | _, _ => false end.
(* the implementation's parser result: Some ast + number of tokens left, or an error kind *)
Inductive presult := PRes (v : option ast) (nleft : nat) (e : option perr) | PPanic.
Definition pres_agrees (m : pres ast) (r : presult) : bool :=
  match m, r with
  | POk a rest, PRes (Some b) nleft None => ast_eqb a b && Nat.eqb (length rest) nleft
  | PErr e, PRes None _ (Some e') => perr_eqb e e'
  | _, _ => false
  end.

(* a string as (code point, should-escape flag reported by the implementation) *)
Inductive case := CNone | CEscape (s : list (N * bool)) (printed : list N)
| CValue (v : mv) (tokens : list token) (parsed : presult)
| CParse (tokens : list token) (parsed : presult).
Definition flag_of (s : list (N * bool)) (c : N) : bool := existsb (fun p => N.eqb (fst p) c && snd p) s.
Definition check (c : case) : bool :=
  match c with
  | CNone => true
  | CEscape s printed =>
      let str := map fst s in
      listN_eqb (escape (flag_of s) str) printed &&
      sres_eqb (lex_string_literal printed) (SOk str (N.of_nat (length printed)))
  | CValue v tokens parsed => tokens_eqb (print_value v) tokens && pres_agrees (parse_tokens tokens) parsed
  | CParse tokens parsed => pres_agrees (parse_tokens tokens) parsed
  end.
