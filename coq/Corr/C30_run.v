(* C30 — evaluation: the model escaper vs ManifestCustomCharEscaper, and the model lexer reading it back. *)
From Coq Require Import List NArith Bool.
Import ListNotations.
Require Import RV.Model.C30_Text RV.Model.C31_Lexer RV.Corr.C31_run.
Open Scope N_scope.

(* a string as (code point, should-escape flag reported by the implementation) *)
Inductive case := CNone | CEscape (s : list (N * bool)) (printed : list N).
Definition flag_of (s : list (N * bool)) (c : N) : bool := existsb (fun p => N.eqb (fst p) c && snd p) s.
Definition check (c : case) : bool :=
  match c with
  | CNone => true
  | CEscape s printed =>
      let str := map fst s in
      listN_eqb (escape (flag_of s) str) printed &&
      sres_eqb (lex_string_literal printed) (SOk str (N.of_nat (length printed)))
  end.
