(* C42 — evaluation functions used by generated case files (correspondence with the validator and
   consensus-manager blueprints executed through scrypto-test's LedgerSimulator). *)
From Coq Require Import List ZArith Bool.
Import ListNotations.
Require Import RV.Model.C42_Staking.
Open Scope Z_scope.

Fixpoint zz_eqb (a b : list (Z * Z)) : bool :=
  match a, b with
  | [], [] => true
  | (x1, x2) :: a', (y1, y2) :: b' => (x1 =? y1) && (x2 =? y2) && zz_eqb a' b'
  | _, _ => false
  end.
Definition o3_eqb (a : option (Z * Z * Z)) (b : Z * Z * Z) : bool :=
  match a with
  | Some (x, y, z) => let '(x', y', z') := b in (x =? x') && (y =? y') && (z =? z')
  | None => false
  end.

(* per-validator state around an epoch change: id, (stake vault, unit supply, fee factor) before,
   (stake vault, unit supply) after, sort prefix after (65536 = not in the index) *)
Definition vrec := (Z * (Z * Z * Z) * (Z * Z) * Z)%type.

Inductive obs :=
(* stake x into (v, u): observed (units, v', u') and index prefix after (65536 = none) *)
| OStake (x v u : Z) (res : Z * Z * Z) (registered : bool) (prefix : Z)
| OUnstake (units v u : Z) (res : Z * Z * Z) (registered : bool) (prefix : Z)
(* epoch change: configuration, active set with statistics, proposer rewards and rewards vault
   before; observed emissions, rewards, validator states, and next validator set given the
   index scan order observed *)
| OEpoch (total_emission minrel maxv : Z)
         (active : list (Z * Z * Z * Z))
         (proposer : list (Z * Z)) (vault : Z)
         (emis : list (Z * Z)) (rew : list (Z * Z))
         (vals : list vrec)
         (scan : list (Z * Z)) (next : list (Z * Z)).

Definition prefix_ok (registered : bool) (stake prefix : Z) : bool :=
  if registered && negb (stake =? 0) then
    match sort_prefix stake with Some p => p =? prefix | None => false end
  else prefix =? 65536.

Definition val_ok (emis rew : list (Z * Z)) (in_emis : Z -> bool) (r : vrec) : bool :=
  let '(id, (v, u, ff), (v', u'), pre) := r in
  let after_e := if in_emis id then apply_emission ff (lookup id emis) v u else Some (v, u) in
  match after_e with
  | None => false
  | Some (v1, u1) =>
    let r := lookup id rew in
    match (if r =? 0 then Some (v1, u1) else apply_reward r v1 u1) with
    | Some (v2, u2) => (v2 =? v') && (u2 =? u')
    | None => false
    end
  end.

Definition check_obs (o : obs) : bool :=
  match o with
  | OStake x v u res reg pre =>
      o3_eqb (stake x v u) res && prefix_ok reg (snd (fst res)) pre
  | OUnstake units v u res reg pre =>
      o3_eqb (unstake units v u) res && prefix_ok reg (snd (fst res)) pre
  | OEpoch te minrel maxv active proposer vault emis rew vals scan next =>
      match emissions te minrel active, rewards minrel active proposer vault with
      | Some e, Some r =>
          zz_eqb e emis && zz_eqb r rew &&
          forallb (val_ok emis rew (fun id => existsb (fun it : Z * Z => fst it =? id) emis)) vals &&
          zz_eqb (next_set maxv scan) next
      | _, _ => false
      end
  end.

Definition case := list obs.
Definition check (c : case) : bool := forallb check_obs c.
