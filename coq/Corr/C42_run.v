(* C42 — evaluation functions used by generated case files (correspondence with the validator and
   consensus-manager blueprints executed through scrypto-test's LedgerSimulator). *)
From Coq Require Import List ZArith Bool.
Import ListNotations.
Require Import RV.Model.C42_Staking RV.Model.C42_Index.
Open Scope Z_scope.

Fixpoint zz_eqb (a b : list (Z * Z)) : bool :=
  match a, b with
  | [], [] => true
  | (x1, x2) :: a', (y1, y2) :: b' => (x1 =? y1) && (x2 =? y2) && zz_eqb a' b'
  | _, _ => false
  end.
Definition o3_eqb (a : option (Z * Z * Z)) (b : Z * Z * Z) : bool :=
  match a with
  | Some (x, y, z) => let '(x', y', z') := b in (x =? x') && (y =? y') && (z =? z')
  | None => false
  end.

(* per-validator state around an epoch change: id, (stake vault, unit supply, fee factor) before,
   (stake vault, unit supply) after, sort prefix after (65536 = not in the index) *)
Definition vrec := (Z * (Z * Z * Z) * (Z * Z) * Z)%type.

Inductive obs :=
(* the state of the staking system when the history starts: per validator (stake vault, unit
   supply, pending-withdraw vault, owner's locked units, fee factor, registered), rewards vault,
   proposer rewards, epoch *)
| OInit (vals : list (Z * Z * Z * Z * Z * bool)) (vault : Z) (proposer : list (Z * Z)) (epoch : Z)
        (prefixes : list Z) (reqs : list (option (Z * Z)))   (* sorted_key prefix (65536 = none), fee change request *)
(* the consensus manager's sorted index read from the database after the previous operation:
   (prefix, validator, stake) *)
| OIdx (idx : list (Z * Z * Z))
(* register (true) / unregister (false) of validator i, executed successfully *)
| OReg (i : Z) (b : bool)
(* update_fee(ff) of validator i with num_fee_increase_delay_epochs = delay: succeeded?, stored fee
   factor and pending request afterwards *)
| OFee (i ff delay : Z) (ok : bool) (stored' : Z) (req' : option (Z * Z))
(* validator i: stake x into (v, u): observed (units, v', u') and index prefix after (65536 = none) *)
| OStake (i x v u : Z) (res : Z * Z * Z) (registered : bool) (prefix : Z)
(* validator i: unstake units (num_unstake_epochs nue); pending-withdraw vault after *)
| OUnstake (i units nue v u : Z) (res : Z * Z * Z) (registered : bool) (prefix : Z) (pend' : Z)
(* validator i: claim_xrd with the claim NFT (amt, ce) at epoch cur: succeeded?, XRD received,
   pending-withdraw vault after *)
| OClaim (i amt ce cur : Z) (ok : bool) (got pend' : Z)
(* epoch change: configuration, active set with statistics, proposer rewards and rewards vault
   before; observed emissions, rewards, validator states, next validator set given the index scan
   order observed; owner's locked units after, rewards vault after, epoch after *)
| OEpoch (total_emission minrel maxv : Z)
         (active : list (Z * Z * Z * Z))
         (proposer : list (Z * Z)) (vault : Z)
         (emis : list (Z * Z)) (rew : list (Z * Z))
         (vals : list vrec)
         (scan : list (Z * Z)) (next : list (Z * Z))
         (locks : list Z) (vault' epoch' : Z).

Definition prefix_ok (registered : bool) (stake prefix : Z) : bool :=
  if registered && negb (stake =? 0) then
    match sort_prefix stake with Some p => p =? prefix | None => false end
  else prefix =? 65536.

Definition val_ok (emis rew : list (Z * Z)) (in_emis : Z -> bool) (r : vrec) : bool :=
  let '(id, (v, u, ff), (v', u'), pre) := r in
  let after_e := if in_emis id then apply_emission ff (lookup id emis) v u else Some (v, u) in
  match after_e with
  | None => false
  | Some (v1, u1) =>
    let r := lookup id rew in
    match (if r =? 0 then Some (v1, u1) else apply_reward r v1 u1) with
    | Some (v2, u2) => (v2 =? v') && (u2 =? u')
    | None => false
    end
  end.

(* each operation on its own, against the pre-state the harness read from the ledger *)
Definition check_obs (o : obs) : bool :=
  match o with
  | OInit _ _ _ _ _ _ => true
  | OIdx _ => true
  | OReg _ _ => true
  | OFee _ ff _ ok _ _ => if ok then true else (ff <? 0) || (DD <? ff)
  | OStake _ x v u res reg pre =>
      o3_eqb (stake x v u) res && prefix_ok reg (snd (fst res)) pre
  | OUnstake _ units _ v u res reg pre _ =>
      o3_eqb (unstake units v u) res && prefix_ok reg (snd (fst res)) pre
  | OClaim _ amt ce cur ok got _ => if ok then (ce <=? cur) && (got =? amt) else (cur <? ce) && (got =? 0)
  | OEpoch te minrel maxv active proposer vault emis rew vals scan next _ _ _ =>
      match emissions te minrel active, rewards minrel active proposer vault with
      | Some e, Some r =>
          zz_eqb e emis && zz_eqb r rew &&
          forallb (val_ok emis rew (fun id => existsb (fun it : Z * Z => fst it =? id) emis)) vals &&
          zz_eqb (next_set maxv scan) next
      | _, _ => false
      end
  end.

(* the whole history against the two-layer state machine [istep]: the model state (vaults, claims,
   rewards, epoch, sorted keys, index, fee requests) is threaded through the operations and must
   agree with every value the harness read from the ledger *)
Definition vget (s : ist) (i : Z) : option vst := nth_error (svals (ibase s)) (Z.to_nat i).
Definition vsu_is (s : ist) (i v u : Z) : bool :=
  match vget s i with Some x => (sv x =? v) && (su x =? u) | None => false end.
Definition mk_vst (r : Z * Z * Z * Z * Z * bool) : vst :=
  let '(v, u, p, l, ff, reg) := r in
  {| sv := v; su := u; spend := p; slock := l; sff := ff; sreg := reg; sclaims := [] |}.
Definition ok_of {A} (r : ires A) : option A := match r with IOk a => Some a | _ => None end.
(* fees collected since the last observation, reconstructed from the observed counters *)
Fixpoint fee_ops (obs_prop : list (Z * Z)) (s : ist) : option ist :=
  match obs_prop with
  | [] => Some s
  | (k, p) :: rest =>
      match ok_of (istep s (IFee k (p - lookup k (sprop (ibase s))) 0)) with
      | Some s' => fee_ops rest s'
      | None => None
      end
  end.
Fixpoint zs_eqb (a b : list Z) : bool :=
  match a, b with
  | [], [] => true
  | x :: a', y :: b' => (x =? y) && zs_eqb a' b'
  | _, _ => false
  end.
Definition oreq_eqb (a b : option (Z * Z)) : bool :=
  match a, b with
  | Some (x, y), Some (x', y') => (x =? x') && (y =? y')
  | None, None => true
  | _, _ => false
  end.
Definition key_of_prefix (p : Z) : option Z := if p =? 65536 then None else Some p.
Definition keys_match (s : ist) (i prefix : Z) : bool :=
  match getk (ikeys s) i, key_of_prefix prefix with
  | Some a, Some b => a =? b
  | None, None => true
  | _, _ => false
  end.
Definition idx_match (s : ist) (idx : list (Z * Z * Z)) : bool :=
  forallb (fun e : Z * Z * Z => let '(p, i, st) := e in
             match getk (iindex s) i with Some (p', st') => (p =? p') && (st =? st') | None => false end) idx
  && (length idx =? length (filter (fun e : option (Z * Z) => match e with Some _ => true | None => false end) (iindex s)))%nat.

Definition hist_step (st : option ist) (o : obs) : option ist :=
  match o, st with
  | OInit vals vault proposer epoch prefixes reqs, _ =>
      (* pending-withdraw vaults are empty at genesis (no claim NFT exists yet) *)
      if forallb (fun r : Z * Z * Z * Z * Z * bool => snd (fst (fst (fst r))) =? 0) vals then
        let b := {| svals := map mk_vst vals; srv := vault; sprop := proposer; sepoch := epoch;
                    g_in := 0; g_out := 0; g_mint := 0 |} in
        Some {| ibase := b; ikeys := map key_of_prefix prefixes;
                (* the index is taken from the first OIdx that follows *)
                iindex := map (fun _ => None) vals; ireq := reqs |}
      else None
  | _, None => None
  | OIdx idx, Some s =>
      if (sepoch (ibase s) >=? 0) && forallb (fun e : option (Z * Z) => match e with None => true | Some _ => false end) (iindex s)
         && negb (forallb (fun k : option Z => match k with None => true | Some _ => false end) (ikeys s))
      then (* first observation after OInit: adopt it, but it must agree with the sorted keys and stakes *)
        let s0 := {| ibase := ibase s; ikeys := ikeys s;
                     iindex := fold_left (fun acc (e : Z * Z * Z) => let '(p, i, st) := e in set_nth (Z.to_nat i) (Some (p, st)) acc) idx (iindex s);
                     ireq := ireq s |} in
        if forallb (fun e : Z * Z * Z => let '(p, i, st) := e in
                      match getk (ikeys s0) i, vget s0 i with
                      | Some k, Some v => (k =? p) && (sv v =? st) && sreg v
                      | _, _ => false
                      end) idx && idx_match s0 idx
        then Some s0 else None
      else if idx_match s idx then Some s else None
  | OStake i x v u (m, v', u') _ pre, Some s =>
      if vsu_is s i v u then
        match ok_of (istep s (IStake i x)) with
        | Some s' => if vsu_is s' i v' u' && keys_match s' i pre then Some s' else None
        | None => None
        end
      else None
  | OUnstake i n nue v u (c, v', u') _ pre pend', Some s =>
      if vsu_is s i v u then
        match ok_of (istep s (IUnstake i n nue)) with
        | Some s' =>
            match vget s' i with
            | Some x => if (sv x =? v') && (su x =? u') && (spend x =? pend') && keys_match s' i pre &&
                           (match sclaims x with (c0, _) :: _ => c0 =? c | [] => false end)
                        then Some s' else None
            | None => None
            end
        | None => None
        end
      else None
  | OClaim i amt ce cur ok got pend', Some s =>
      if sepoch (ibase s) =? cur then
        match ok_of (istep s (IClaim i amt ce)), ok with
        | Some s', true =>
            match vget s' i with Some x => if spend x =? pend' then Some s' else None | None => None end
        | None, false => Some s
        | _, _ => None
        end
      else None
  | OReg i b, Some s =>
      match ok_of (istep s (IRegister i b)) with
      | Some s' => match vget s' i with Some x => if Bool.eqb (sreg x) b then Some s' else None | None => None end
      | None => None
      end
  | OFee i ff delay ok stored' req', Some s =>
      match ok_of (istep s (IUpdateFee i ff delay)), ok with
      | Some s', true => if (vff (ibase s') i =? stored') && oreq_eqb (getk (ireq s') i) req' then Some s' else None
      | None, false => Some s
      | _, _ => None
      end
  | OEpoch te minrel _ active proposer vault _ _ vals _ _ locks vault' epoch', Some s =>
      match fee_ops proposer s with
      | Some s1 =>
          match ok_of (istep s1 (IFee 0 0 (vault - srv (ibase s1)))) with
          | Some s2 =>
              if forallb (fun it : Z * Z => lookup (fst it) (sprop (ibase s2)) =? snd it) proposer &&
                 forallb (fun r : vrec => let '(id, (v, u, ff), _, _) := r in
                            vsu_is s2 id v u &&
                            (effective_ff (vff (ibase s2) id) (getk (ireq s2) id) (sepoch (ibase s2)) =? ff)) vals then
                match ok_of (istep s2 (IEpoch te minrel active)) with
                | Some s3 =>
                    if forallb (fun r : vrec => let '(id, _, (v', u'), pre) := r in vsu_is s3 id v' u' && keys_match s3 id pre) vals &&
                       zs_eqb (map slock (svals (ibase s3))) locks && (srv (ibase s3) =? vault') && (sepoch (ibase s3) =? epoch')
                    then Some s3 else None
                | None => None
                end
              else None
          | None => None
          end
      | None => None
      end
  end.

(* conservation, evaluated on the final model state: XRD held = XRD held initially + received
   + minted - paid out (a consequence of C42_conservation; evaluating it also guards the ghost
   counters against mistakes in this file) *)
Definition hist_ok (c : list obs) : bool :=
  match c with
  | OInit vals vault proposer epoch prefixes reqs :: rest =>
      match hist_step None (OInit vals vault proposer epoch prefixes reqs) with
      | Some s0 =>
          match fold_left hist_step rest (Some s0) with
          | Some s => held (ibase s) + g_out (ibase s) =? held (ibase s0) + g_in (ibase s) + g_mint (ibase s)
          | None => false
          end
      | None => false
      end
  | _ => false
  end.

Definition case := list obs.
Definition check (c : case) : bool := forallb check_obs c && hist_ok c.
