(* C08 — evaluation functions used by generated case files (correspondence with the engine's
   authorization of `mint` on resources carrying random access rules). *)
From Coq Require Import List ZArith NArith Bool.
Import ListNotations.
Require Import RV.Model.C08_Auth.
Open Scope N_scope.

Inductive observed := OAuthorized | OUnauthorized | OOther.

(* a case: the auth zone the engine checks from (as built for a method call from the manifest),
   the role assignment of the callee (address, role table, owner rule, role list of the method),
   and what the engine did *)
Definition case := (azone * (N * list (N * rule) * rule * list N) * observed)%type.

Definition check (c : case) : bool :=
  let '(a, (addr, roles, owner, keys), o) := c in
  match verify_role_list a addr roles owner keys, o with
  | true, OAuthorized => true
  | false, OUnauthorized => true
  | _, _ => false
  end.
