(* C08 — evaluation functions used by generated case files (correspondence with the engine's
   authorization of real calls on resources / pools carrying random access rules). *)
From Coq Require Import List ZArith NArith Bool.
Import ListNotations.
Require Import RV.Model.C08_Auth.
Open Scope N_scope.

Inductive observed := OAuthorized | OUnauthorized | OOther.

(* a case: the call chain, newest call first (actor of each caller, content of its auth zone at the
   time of the call, receiver kind) — the auth zone of the checked call is BUILT by the model
   (create_zone) —, the role assignment of the callee (address, role table, owner rule, role list
   of the method), and what the engine did *)
Definition case := (list call * (N * list (N * rule) * rule * list N) * observed)%type.

Definition check (c : case) : bool :=
  let '(l, (addr, roles, owner, keys), o) := c in
  match verify_call l addr roles owner keys, o with
  | true, OAuthorized => true
  | false, OUnauthorized => true
  | _, _ => false
  end.
