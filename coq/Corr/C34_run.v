(* C34 — evaluation functions used by generated case files (correspondence with
   PreparedNotarizedTransactionV1/V2 / PreparedSignedPartialTransactionV2 prepare + validate). *)
From Coq Require Import List NArith ZArith Bool.
Import ListNotations.
Require Import RV.Model.C34_Validate.
Open Scope N_scope.

Definition loc_eqb (a b : loc) : bool :=
  match a, b with
  | Root, Root => true | Across, Across => true | NonRoot i, NonRoot j => i =? j | _, _ => false
  end.
Definition header_err_eqb (a b : header_err) : bool :=
  match a, b with
  | InvalidEpochRange, InvalidEpochRange | InvalidTimestampRange, InvalidTimestampRange
  | InvalidNetwork, InvalidNetwork | InvalidTip, InvalidTip
  | NoValidEpochRangeAcrossAllIntents, NoValidEpochRangeAcrossAllIntents
  | NoValidTimestampRangeAcrossAllIntents, NoValidTimestampRangeAcrossAllIntents => true
  | _, _ => false
  end.
Definition message_err_eqb (a b : message_err) : bool :=
  match a, b with
  | PlaintextMessageTooLong, PlaintextMessageTooLong | MimeTypeTooLong, MimeTypeTooLong
  | EncryptedMessageTooLong, EncryptedMessageTooLong | NoDecryptors, NoDecryptors
  | MismatchingDecryptorCurves, MismatchingDecryptorCurves | TooManyDecryptors, TooManyDecryptors
  | NoDecryptorsForCurveType, NoDecryptorsForCurveType => true
  | _, _ => false
  end.
Definition value_type_eqb (a b : value_type) : bool :=
  match a, b with
  | VBlob, VBlob | VSubintent, VSubintent | VChildSubintentSpecifier, VChildSubintentSpecifier
  | VSubintentSignatureBatches, VSubintentSignatureBatches => true
  | _, _ => false
  end.
Definition err_eqb (a b : err) : bool :=
  match a, b with
  | PrepareTransactionTooLarge, PrepareTransactionTooLarge => true
  | PrepareTransactionTypeNotSupported, PrepareTransactionTypeNotSupported => true
  | PrepareTooManyValues v x m, PrepareTooManyValues v' x' m' => value_type_eqb v v' && (x =? x') && (m =? m')
  | TransactionVersionNotPermitted, TransactionVersionNotPermitted => true
  | TooManySignatures l t m, TooManySignatures l' t' m' => loc_eqb l l' && (t =? t') && (m =? m')
  | IncorrectNumberOfSubintentSignatureBatches, IncorrectNumberOfSubintentSignatureBatches => true
  | HeaderError l e, HeaderError l' e' => loc_eqb l l' && header_err_eqb e e'
  | MessageError l e, MessageError l' e' => loc_eqb l l' && message_err_eqb e e'
  | TooManyReferences l t m, TooManyReferences l' t' m' => loc_eqb l l' && (t =? t') && (m =? m')
  | TooManyInstructions l, TooManyInstructions l' => loc_eqb l l'
  | _, _ => false
  end.
Definition optz_eqb (a b : option Z) : bool :=
  match a, b with Some x, Some y => (x =? y)%Z | None, None => true | _, _ => false end.
Definition outcome_eqb (a b : outcome) : bool :=
  match a, b with
  | AcceptV1, AcceptV1 => true
  | AcceptV2 r, AcceptV2 r' =>
      (r_start r =? r_start r') && (r_end r =? r_end r') && optz_eqb (r_min_ts r) (r_min_ts r')
      && optz_eqb (r_max_ts r) (r_max_ts r')
  | Reject e, Reject e' => err_eqb e e'
  | PanicDepthUnderflow, PanicDepthUnderflow => true
  | _, _ => false
  end.

(* T1P: validate_preview_intent_v1 on the same summary (payload length and signer count are ignored) *)
Inductive anytx := T1 (t : tx_v1) | T1P (t : tx_v1) | T2 (t : tx_v2).
Definition run (c : config) (net : option N) (t : anytx) : outcome :=
  match t with T1 t => validate_v1 c net t | T1P t => validate_preview_v1 c net t | T2 t => validate_v2 c net t end.

(* a case: the configuration read from the real validator, its required network, the summary of the
   transaction handed to the implementation, and the canonicalised result it produced *)
Definition case := (config * option N * anytx * outcome)%type.
Definition check (c : case) : bool :=
  let '(cfg, net, t, out) := c in outcome_eqb (run cfg net t) out.
