(* C05 — evaluation for the bare-kernel cases: the model Model/C05_KernelFull.v must agree with the
   real kernel on every op of the sequence (Ok, or the same error class, at which the sequence
   stops), after every successful op on the kernel's visibility of every node, and at the end on
   the frame-owned nodes and on the stored nodes with their owned nodes and references. *)
From Coq Require Import List NArith Bool.
Import ListNotations.
Require Import RV.Model.C05_KernelFull.
Require RV.Model.C05_Kernel.
Module A := RV.Model.C05_Kernel.
Open Scope N_scope.

Inductive res := ROk (vis : list (N * N)) | RErr (e : kerr2) | RPanic.

Definition kerr_eqb (a b : kerr2) : bool :=
  match a, b with
  | EOwnNotFound, EOwnNotFound | ETakeBorrowed, ETakeBorrowed | EDupOwns, EDupOwns | ERefNotFound, ERefNotFound
  | ENonGlobalRefNotAllowed, ENonGlobalRefNotAllowed | ECantDropNodeInStore, ECantDropNodeInStore
  | EPersistNonGlobalRef, EPersistNonGlobalRef | EPersistNodeBorrowed, EPersistNodeBorrowed | EPersistPinned, EPersistPinned
  | ENodeBorrowed, ENodeBorrowed | ENodeNotVisible, ENodeNotVisible | ELocked, ELocked | ESubstateFault, ESubstateFault
  | EHandleNotFound, EHandleNotFound | ENoWritePermission, ENoWritePermission | ECloseBorrowed, ECloseBorrowed
  | EMoveFromStore, EMoveFromStore | EPartitionNotFound, EPartitionNotFound | ERefCantBeAdded, ERefCantBeAdded => true
  | _, _ => false
  end.

Fixpoint nl_eqb (a b : list N) : bool :=
  match a, b with [], [] => true | x :: a', y :: b' => N.eqb x y && nl_eqb a' b' | _, _ => false end.
Definition same_set (a b : list N) : bool :=
  forallb (fun x => memN x b) a && forallb (fun x => memN x a) b && Nat.eqb (length a) (length b).

Definition vis_agree (s : k2) (vis : list (N * N)) : bool :=
  forallb (fun '(n, c) => N.eqb (vis_code s n) c) vis.

(* run the ops against the observed results; Some final state iff every op was Ok on both sides *)
Fixpoint replay (s : k2) (ops : list kop2) (obs : list res) : option (option k2) :=
  match ops, obs with
  | [], [] => Some (Some s)
  | o :: ops', r :: obs' =>
      match kstep2 s o, r with
      | Ok2 s', ROk vis => if vis_agree s' vis then replay s' ops' obs' else None
      | Err2 e, RErr e' => match obs' with [] => if kerr_eqb e e' then Some None else None | _ => None end
      | Panic2, RPanic => match obs' with [] => Some None | _ => None end
      | _, _ => None
      end
  | _ :: _, [] => None     (* the kernel stopped although no error was observed *)
  | [], _ :: _ => None
  end.

Definition val_eqb (a b : val) : bool := nl_eqb (v_owns a) (v_owns b) && nl_eqb (v_refs a) (v_refs b).
Definition fields_agree (m o : fields) : bool :=
  Nat.eqb (length m) (length o)
  && forallb (fun '(k, v) => match lget k m with Some v' => val_eqb v v' | None => false end) o.
Definition nonempty_nodes (st : list (N * fields)) := filter (fun e => match snd e with [] => false | _ => true end) st.
Definition store_agree (m o : list (N * fields)) : bool :=
  let m' := nonempty_nodes m in
  Nat.eqb (length m') (length o)
  && forallb (fun '(n, fs) => match lget n m' with Some fs' => fields_agree fs' fs | None => false end) o.

(* the final state of the model is a forest in the sense of the property (checked, not assumed) *)
Definition store_owners (st : list (N * fields)) (x : N) : list N :=
  flat_map (fun e => if existsb (fun kv => memN x (v_owns (snd kv))) (snd e) then [fst e] else []) st.
Definition forest_ok (s : k2) : bool :=
  forallb (fun e =>
    let n := fst e in
    (if isg n then match store_owners (k_store s) n with [] => true | _ => false end
     else match store_owners (k_store s) n with [_] => true | _ => false end)
    && forallb (fun kv => forallb isg (v_refs (snd kv))
                          && forallb (fun c => match lget c (k_store s) with Some _ => true | None => false end) (v_owns (snd kv)))
               (snd e)
    && negb (memN n (k_owned s))) (k_store s).

(* ---------- refinement to the abstract ownership model (Model/C05_Kernel.v, theorem C05_ownership_forest) ----------
   Every successful step of the full model is mapped to operations of the abstract model: a node
   new on the heap = A.KCreate; a node gone from the heap without being stored = KDrop; a node new in
   the store = A.KCreate (if it never was on the heap: global nodes are created in the store directly)
   followed by A.KGlobalize (global) or A.KStoreOwned child owner (owner first).  Each abstract operation
   must be accepted by the abstract model, and at the end the abstract store must be exactly the
   ownership relation of the full model's store — so the forest theorem of the abstract model
   speaks about the store the real kernel produced. *)
Definition has_node {V} (n : N) (l : list (N * V)) : bool := match lget n l with Some _ => true | None => false end.
Definition owner_of (st : list (N * fields)) (x : N) : option N :=
  match store_owners st x with [p] => Some p | _ => None end.

(* emit A.KGlobalize / A.KStoreOwned for the new stored nodes, owners first *)
Fixpoint emit_store (fuel : nat) (st' : list (N * fields)) (done : list N) (todo : list N) : list A.kop :=
  match fuel with
  | O => []
  | S f =>
      match todo with
      | [] => []
      | _ =>
          let ready := filter (fun x => isg x || match owner_of st' x with Some p => memN p done | None => false end) todo in
          match ready with
          | [] => []
          | _ =>
              map (fun x => if isg x then A.KGlobalize x else match owner_of st' x with Some p => A.KStoreOwned x p | None => A.KGlobalize x end) ready
              ++ emit_store f st' (done ++ ready) (filter (fun x => negb (memN x ready)) todo)
          end
      end
  end.

Definition abs_ops (s s' : k2) : list A.kop :=
  let new_heap := filter (fun n => negb (has_node n (k_heap s)) && negb (has_node n (k_store s))) (map fst (k_heap s')) in
  let new_store := filter (fun n => negb (has_node n (k_store s))) (map fst (k_store s')) in
  let fresh_in_store := filter (fun n => negb (has_node n (k_heap s))) new_store in
  let dropped := filter (fun n => negb (has_node n (k_heap s')) && negb (has_node n (k_store s'))) (map fst (k_heap s)) in
  map A.KCreate new_heap ++ map A.KCreate fresh_in_store
  ++ emit_store (S (length new_store)) (k_store s') (map fst (k_store s)) new_store
  ++ map A.KDrop dropped.

Fixpoint run_abs (a : A.kst) (ops : list A.kop) : option A.kst :=
  match ops with
  | [] => Some a
  | o :: t => match A.kstep a o with A.KOk a' => run_abs a' t | A.KErr _ => None end
  end.

Fixpoint replay_abs (s : k2) (a : A.kst) (ops : list kop2) : option A.kst :=
  match ops with
  | [] => Some a
  | o :: t =>
      match kstep2 s o with
      | Ok2 s' => match run_abs a (abs_ops s s') with Some a' => replay_abs s' a' t | None => None end
      | _ => Some a
      end
  end.

Definition abs_store_agree (a : A.kst) (s : k2) : bool :=
  Nat.eqb (length (A.k_store a)) (length (k_store s))
  && forallb (fun '(n, p) =>
       has_node n (k_store s)
       && match p with
          | None => isg n
          | Some q => match owner_of (k_store s) n with Some q' => N.eqb q q' | None => false end
          end) (A.k_store a).

Definition case := (list kop2 * list res * option (list N * list (N * fields)))%type.
Definition check (c : case) : bool :=
  let '(ops, obs, fin) := c in
  match replay k2_empty ops obs, fin with
  | Some (Some s), Some (owned, st) =>
      same_set (k_owned s) owned && store_agree (k_store s) st && forest_ok s
      && match replay_abs k2_empty A.k_empty ops with Some a => abs_store_agree a s | None => false end
  | Some None, None => true
  | _, _ => false
  end.
Definition mkC (ops : list kop2) (obs : list res) (fin : option (list N * list (N * fields))) : case := (ops, obs, fin).
