(* C39 — evaluation functions used by generated case files (correspondence with the account
   blueprint run on LedgerSimulator; v2 = Bottlenose refund functions). *)
From Coq Require Import List NArith ZArith Bool.
Import ListNotations.
Require Import RV.Model.C39_AccountDeposit.

Definition mkctx (n : option N) (p : list N) : ctx := {| named := n; proofs := p |}.
Definition mkacct (d : default_rule) (p : list (res * pref)) (au : list badge) (v : list (res * Z)) : account :=
  {| a_default := d; a_prefs := p; a_auth := au; a_vaults := v |}.

(* the resource / badge pools of the harness *)
Definition pool_res : list N := [0; 1; 2; 3; 4; 5]%N.
Definition pool_badge : list N := [0; 1; 2; 3; 4]%N.

Definition default_eqb (a b : default_rule) : bool :=
  match a, b with Accept, Accept | Reject, Reject | AllowExisting, AllowExisting => true | _, _ => false end.
Definition pref_eqb (a b : pref) : bool :=
  match a, b with Allowed, Allowed | Disallowed, Disallowed => true | _, _ => false end.
Definition opt_eqb {A} (eq : A -> A -> bool) (a b : option A) : bool :=
  match a, b with Some x, Some y => eq x y | None, None => true | _, _ => false end.
(* observational equality of accounts: the KV collections as maps over the pools *)
Definition acct_eqb (a b : account) : bool :=
  default_eqb (a_default a) (a_default b)
  && forallb (fun r => opt_eqb pref_eqb (lookup r (a_prefs a)) (lookup r (a_prefs b))) pool_res
  && forallb (fun x => Bool.eqb (memN x (a_auth a)) (memN x (a_auth b))) pool_badge
  && forallb (fun r => opt_eqb Z.eqb (lookup r (a_vaults a)) (lookup r (a_vaults b))) pool_res.

Definition bucket_eqb (a b : bucket) : bool := N.eqb (fst a) (fst b) && Z.eqb (snd a) (snd b).
Fixpoint list_eqb {A} (eq : A -> A -> bool) (a b : list A) : bool :=
  match a, b with [] , [] => true | x :: a', y :: b' => eq x y && list_eqb eq a' b' | _, _ => false end.
Definition err_eqb (a b : err) : bool :=
  match a, b with
  | ENotAnAuthorizedDepositor, ENotAnAuthorizedDepositor | EBadgeNotPresent, EBadgeNotPresent
  | EDepositIsDisallowed, EDepositIsDisallowed | ENotAllBuckets, ENotAllBuckets
  | EUnauthorized, EUnauthorized | EVault, EVault | EOther, EOther => true
  | _, _ => false
  end.
Definition outcome_eqb (a b : outcome) : bool :=
  match a, b with
  | Deposited, Deposited => true
  | Refunded x, Refunded y => list_eqb bucket_eqb x y
  | Failed x, Failed y => err_eqb x y
  | _, _ => false
  end.

(* a case: the world of three accounts — 0 the depositor (only its pool vaults are observed), 1 the
   target (possibly a preallocated account that does not exist yet: observed as the blueprint
   defaults), 2 a bystander — and after every transaction the observed state of all three *)
Definition vaults_eqb (a b : account) : bool :=
  forallb (fun r => opt_eqb Z.eqb (lookup r (a_vaults a)) (lookup r (a_vaults b))) pool_res.
Record case := mkcase {
  k_v2 : bool; k_dep : list (res * Z); k_init : account; k_by : account;
  k_steps : list (wop * outcome * list (res * Z) * account * account) }.
Definition dep_acct (v : list (res * Z)) : account := mkacct Accept [] [] v.

Fixpoint replay (v2 : bool) (w : world) (l : list (wop * outcome * list (res * Z) * account * account)) : bool :=
  match l with
  | [] => true
  | (o, out, dv, tobs, bobs) :: l' =>
      let r := wstep v2 w o in
      outcome_eqb (snd r) out
      && vaults_eqb (wget (fst r) 0%N) (dep_acct dv)
      && acct_eqb (wget (fst r) 1%N) tobs
      && acct_eqb (wget (fst r) 2%N) bobs
      && replay v2 (fst r) l'
  end.
Definition check (k : case) : bool :=
  replay (k_v2 k) [(0%N, dep_acct (k_dep k)); (1%N, k_init k); (2%N, k_by k)] (k_steps k).
