(* C15 — evaluation functions used by generated case files (correspondence with
   InMemorySubstateDatabase, RocksdbSubstateStore and RocksDBWithMerkleTreeSubstateStore).
   The RocksDB layer is instantiated with the sorted association list `list_kv`; the run therefore
   also validates the assumed behaviour of RocksDB (put/delete/delete_range/iteration order)
   against the real library on the generated histories. *)
From Coq Require Import List Arith NArith Bool.
Import ListNotations.
Require Import RV.Lib.Bytes RV.Lib.SortedMap RV.Model.C14_Store RV.Model.C15_Stores.
Open Scope N_scope.

Definition opt_bytes_eqb (a b : option bytes) : bool :=
  match a, b with Some x, Some y => beqb x y | None, None => true | _, _ => false end.
Fixpoint entries_eqb (a b : list (bytes * bytes)) : bool :=
  match a, b with
  | [], [] => true
  | (k, v) :: a', (k', v') :: b' => beqb k k' && beqb v v' && entries_eqb a' b'
  | _, _ => false
  end.
Fixpoint pks_eqb (a b : list pkey) : bool :=
  match a, b with
  | [], [] => true
  | x :: a', y :: b' => pk_eqb x y && pks_eqb a' b'
  | _, _ => false
  end.
Definition opt_eqb {A} (eqb : A -> A -> bool) (a b : option A) : bool :=
  match a, b with Some x, Some y => eqb x y | None, None => true | _, _ => false end.

(* observations: m = in-memory store, r = rocks store(s) (the two RocksDB stores gave identical
   outputs — checked by the harness — and are written once); None on the rocks side = panic *)
Inductive op :=
| OCommit (u : db_updates)
| OGet (pk : pkey) (sk : bytes) (m : option bytes) (r : option bytes)
| OList (pk : pkey) (from : option bytes) (m : list (bytes * bytes)) (r : option (list (bytes * bytes)))
| OParts (m : list pkey) (r : option (list pkey)).       (* list_partition_keys, in the order yielded *)

Fixpoint run (mdb : memdb) (rdb : list (bytes * bytes)) (ops : list op) : bool :=
  match ops with
  | [] => true
  | OCommit u :: rest => run (mem_commit mdb u) (rocks_commit list_kv rdb u) rest
  | OGet pk sk m r :: rest =>
      opt_bytes_eqb (mem_get mdb pk sk) m && opt_bytes_eqb (rocks_get list_kv rdb pk sk) r && run mdb rdb rest
  | OList pk from m r :: rest =>
      entries_eqb (mem_list mdb pk from) m && opt_eqb entries_eqb (rocks_list list_kv rdb pk from) r && run mdb rdb rest
  | OParts m r :: rest =>
      pks_eqb (mem_list_partition_keys mdb) m && opt_eqb pks_eqb (rocks_list_partition_keys list_kv rdb) r && run mdb rdb rest
  end.

Definition case := list op.
Definition check (c : case) : bool := run mem_new (rocks_new list_kv) c.
