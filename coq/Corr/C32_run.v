(* C32 — evaluation functions used by the generated case files (correspondence with
   radix-transactions' prepare()).

   Hash cases: the harness gives the decoded content (the leaves), a finite table of the hash
   function (input bytes -> Blake2b-256 digest, computed by radix_common::crypto::hash) and the
   identifiers the implementation computed.  The model is evaluated with H := table lookup; a
   missing table entry, a digest that is not 32 bytes, or two table entries with equal digests
   make the case fail.  (Theorem C32_hash_function_of_content: the model hashes depend on H only
   through its values on `tx_inputs`, so the finite table is enough.)

   Envelope cases: the payload bytes, the payload-length limit used, how many bytes the decoder of
   the payload's fields consumes (None = it fails), and the class of the implementation's result. *)
From Coq Require Import List NArith Bool.
Import ListNotations.
Require Import RV.Model.C32_TxHash.
Open Scope N_scope.

Fixpoint list_beqb (a b : list bytes) : bool :=
  match a, b with
  | [], [] => true
  | x :: a', y :: b' => beqb x y && list_beqb a' b'
  | _, _ => false
  end.

Definition table := list (bytes * bytes).
Fixpoint lookup (t : table) (x : bytes) : option bytes :=
  match t with
  | [] => None
  | (k, v) :: t' => if beqb k x then Some v else lookup t' x
  end.
Definition table_H (t : table) (x : bytes) : bytes :=
  match lookup t x with Some d => d | None => [] end.
Definition in_table (t : table) (x : bytes) : bool :=
  match lookup t x with Some _ => true | None => false end.

(* the table is a sane fragment of a hash function: 32-byte digests, and no two different inputs
   with the same digest (= the collision-freeness hypothesis of C32_field_sensitivity holds on it) *)
Fixpoint table_ok (t : table) : bool :=
  match t with
  | [] => true
  | (k, v) :: t' =>
      len32 v && forallb (fun kv => negb (beqb (snd kv) v) || beqb (fst kv) k) t' && table_ok t'
  end.

Definition hashes_eqb (a b : hashes) : bool :=
  beqb (h_intent a) (h_intent b) && beqb (h_signed a) (h_signed b)
  && beqb (h_notarized a) (h_notarized b) && list_beqb (h_subintents a) (h_subintents b).

(* result classes of the implementation (canonicalised PrepareError) *)
Definition class_of (e : perr) : N :=
  match e with
  | ETransactionTooLarge => 1
  | EBufferUnderflow => 2
  | EUnexpectedPayloadPrefix _ => 3
  | EUnexpectedTransactionDiscriminator _ => 4
  | EBadValueKind _ => 5
  | EUnexpectedDiscriminator _ => 6
  | EInvalidSize => 7
  | EUnexpectedSize _ => 8
  | EExtraTrailingBytes _ => 9
  | ETooManyValues _ _ => 11
  | ETransactionTypeNotSupported => 12
  | EMaxDepthExceeded => 13
  | EDuplicateKey => 14
  | EBody => 10
  end.

(* the decoder of the payload's fields, instantiated from the harness' statement of how many
   bytes it consumes on this payload *)
Definition fields_oracle (consumed : option N) (body : bytes) : result (unit * bytes) :=
  match consumed with
  | None => Err EBody
  | Some n => if n <=? N.of_nat (length body) then Ok (tt, skipn (N.to_nat n) body) else Err EBody
  end.

Definition settings_with_max (m : N) : settings := {|
  v2_transactions_permitted := true;
  max_user_payload_length := m;
  max_ledger_payload_length := m + 10;
  max_child_subintents_per_intent := 32;
  max_subintents_per_transaction := 32;
  max_blobs := 64 |}.

Definition result_class {A : Type} (r : result A) : N :=
  match r with Ok _ => 0 | Err e => class_of e end.

Inductive case :=
| CHash (t : tx) (tbl : table) (impl : hashes)
| CEnv (entry : N) (max_user : N) (payload : bytes) (consumed : option N) (impl_class : N)
(* ledger payload: limit, bytes, bytes consumed by the nested transaction's decoder after the ledger header
   (None = it fails), the implementation's result class and, when accepted, the variant code *)
| CLedger (max_ledger : N) (payload : bytes) (consumed : option N) (impl_class : N) (impl_variant : N)
(* ledger hash: variant code, hash of the nested transaction, hash table, implementation's ledger hash *)
| CLedgerHash (variant : N) (inner : bytes) (tbl : table) (impl : bytes).

Definition env_model (entry max_user : N) (payload : bytes) (consumed : option N) : N :=
  let s := settings_with_max max_user in
  let dec := fields_oracle consumed in
  match entry with
  | 0 => result_class (prepare_user unit unit dec dec s payload)
  | 1 => result_class (prepare_known unit dec s CompleteUserTransaction D_V1_NOTARIZED 2 payload)
  | 2 => result_class (prepare_known unit dec s CompleteUserTransaction D_V2_NOTARIZED 2 payload)
  | 3 => result_class (prepare_known unit dec s OtherPayload D_V2_SIGNED_PARTIAL_TRANSACTION 3 payload)
  | 4 => result_class (prepare_known unit dec s OtherPayload D_V2_SUBINTENT 1 payload)
  | _ => 99
  end.

Definition variant_of_code (n : N) : ledger_variant :=
  if n =? 0 then LGenesisFlash else if n =? 1 then LGenesisTransaction else if n =? 2 then LUserV1
  else if n =? 3 then LRoundUpdateV1 else if n =? 4 then LFlashV1 else LUserV2.
Definition ledger_settings (m : N) : settings := {|
  v2_transactions_permitted := true;
  max_user_payload_length := 1048576;
  max_ledger_payload_length := m;
  max_child_subintents_per_intent := 32;
  max_subintents_per_transaction := 32;
  max_blobs := 64 |}.
(* result class and variant code of the model on a ledger payload *)
Definition ledger_model (max_ledger : N) (payload : bytes) (consumed : option N) : N * N :=
  match prepare_ledger unit (fun _ => fields_oracle consumed) EUnknownDiscriminator (ledger_settings max_ledger) payload with
  | Ok (v, _) => (0, ledger_variant_code v)
  | Err (EUnexpectedTransactionDiscriminator (Some d)) => (if 256 <=? d then 15 else 4, 99)
  | Err e => (class_of e, 99)
  end.

Definition check (c : case) : bool :=
  match c with
  | CHash t tbl impl =>
      let Ht := table_H tbl in
      table_ok tbl && tx_wf t && forallb (in_table tbl) (tx_inputs Ht t)
      && hashes_eqb (tx_hashes Ht t) impl
  | CEnv entry max_user payload consumed impl_class =>
      let m := env_model entry max_user payload consumed in
      (* a failure inside the abstract field decoder matches any implementation error *)
      if m =? 10 then negb (impl_class =? 0) else m =? impl_class
  | CLedger max_ledger payload consumed impl_class impl_variant =>
      let '(m, v) := ledger_model max_ledger payload consumed in
      if m =? 10 then negb (impl_class =? 0) else (m =? impl_class) && (v =? impl_variant)
  | CLedgerHash variant inner tbl impl =>
      let Ht := table_H tbl in
      table_ok tbl && len32 inner
      && in_table tbl (ledger_hash_input (ledger_kind_for_hash (variant_of_code variant)) inner)
      && beqb (ledger_hash Ht (variant_of_code variant) inner) impl
  end.
