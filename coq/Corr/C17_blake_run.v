(* C17 (Blake2b tie) — Lib/Blake2b.v against radix_common::crypto::hash on byte strings written by
   harness bin c17_blake: the fast Uint63-limb instance on every case, the N reference instance on
   the cases flagged by the harness. *)
From Coq Require Import List NArith Bool.
Import ListNotations.
Require Import RV.Lib.Blake2b RV.Model.C17_Jmt.
Require Export RV.Corr.C17_run.
Open Scope N_scope.

(* (also check the reference instance, message, digest) — byte strings packed as in C17_run *)
Definition bcase : Type := (bool * pbytes * pbytes)%type.
Definition check_blake (c : bcase) : bool :=
  let '(with_ref, msg, dig) := c in
  let m := ub msg in
  leqb (blake2b_256 m) (ub dig) && (if with_ref then leqb (blake2b_256_ref m) (ub dig) else true).
