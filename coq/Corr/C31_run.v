(* C31 — evaluation: the model string lexer vs lexer::tokenize on string-literal texts. *)
From Coq Require Import List NArith ZArith Bool.
Import ListNotations.
Require Import RV.Model.C30_Text RV.Model.C31_Lexer RV.Model.C30_Value RV.Model.C31_Parser.
Open Scope N_scope.

Definition xexp_eqb (a b : xexp) : bool :=
  match a, b with XExact x, XExact y => N.eqb x y | XOneOf, XOneOf | XHexDigit, XHexDigit | XDLQP, XDLQP => true | _, _ => false end.
Definition lkind_eqb (a b : lkind) : bool :=
  match a, b with
  | LUnexpectedEof, LUnexpectedEof | LInvalidIntegerLiteral, LInvalidIntegerLiteral
  | LInvalidIntegerType, LInvalidIntegerType | LInvalidInteger, LInvalidInteger => true
  | LUnexpectedChar c x, LUnexpectedChar c' x' => N.eqb c c' && xexp_eqb x x'
  | LInvalidUnicode v, LInvalidUnicode v' | LMissingSurrogate v, LMissingSurrogate v' => N.eqb v v'
  | _, _ => false
  end.
Definition sres_eqb (a b : sres) : bool :=
  match a, b with
  | SOk s e, SOk s' e' => listN_eqb s s' && N.eqb e e'
  | SErr k s e, SErr k' s' e' => lkind_eqb k k' && N.eqb s s' && N.eqb e e'
  | _, _ => false          (* SPanic never agrees: a panic of the implementation is a failure *)
  end.
Definition token_eqb (a b : token) : bool :=
  match a, b with
  | TBool x, TBool y => Bool.eqb x y
  | TInt s1 b1 v1, TInt s2 b2 v2 => Bool.eqb s1 s2 && N.eqb b1 b2 && Z.eqb v1 v2
  | TString x, TString y | TIdent x, TIdent y => listN_eqb x y
  | TOpenP, TOpenP | TCloseP, TCloseP | TLt, TLt | TGt, TGt | TComma, TComma | TSemi, TSemi | TFatArrow, TFatArrow => true
  | _, _ => false
  end.
Fixpoint toks_eqb (a b : list tok) : bool :=
  match a, b with
  | [], [] => true
  | (t1, s1, e1) :: a', (t2, s2, e2) :: b' => token_eqb t1 t2 && N.eqb s1 s2 && N.eqb e1 e2 && toks_eqb a' b'
  | _, _ => false
  end.
Definition lres_eqb (a b : lres) : bool :=
  match a, b with
  | LOk x, LOk y => toks_eqb x y
  | LErr k s e, LErr k' s' e' => lkind_eqb k k' && N.eqb s s' && N.eqb e e'
  | _, _ => false
  end.
(* the implementation's Parser::parse_manifest on a token list: number of instructions or the error kind *)
Inductive mres := MOk (n : nat) | MErr (e : perr) | MPanic.
Definition perr_eqb (a b : perr) : bool :=
  match a, b with
  | PEof, PEof | PUnexpected, PUnexpected | PMaxDepth, PMaxDepth | PNumValues, PNumValues | PNumTypes, PNumTypes | PUnmodelled, PUnmodelled => true
  | _, _ => false
  end.
Definition mres_agrees (m : pres (list (list N * list ast))) (r : mres) : bool :=
  match m, r with
  | POk l [], MOk n => Nat.eqb (length l) n
  | PErr e, MErr e' => perr_eqb e e'
  | _, _ => false
  end.
Inductive case := CNone | CString (text : list N) (out : sres) | CLex (text : list N) (out : lres)
| CManifest (ts : list tok) (res : mres).
Definition check (c : case) : bool :=
  match c with
  | CNone => true
  | CString text out => sres_eqb (lex_string_literal text) out
  | CLex text out => lres_eqb (tokenize text) out
  | CManifest ts res => mres_agrees (parse_manifest (map (fun x => fst (fst x)) ts)) res
  end.
