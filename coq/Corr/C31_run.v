(* C31 — evaluation: the model string lexer vs lexer::tokenize on string-literal texts. *)
From Coq Require Import List NArith ZArith Bool.
Import ListNotations.
Require Import RV.Model.C30_Text RV.Model.C31_Lexer RV.Model.C30_Value RV.Model.C31_Parser RV.Model.C31_Snippet RV.Model.C31_IdValidator.
Open Scope N_scope.

Definition xexp_eqb (a b : xexp) : bool :=
  match a, b with XExact x, XExact y => N.eqb x y | XOneOf, XOneOf | XHexDigit, XHexDigit | XDLQP, XDLQP => true | _, _ => false end.
Definition lkind_eqb (a b : lkind) : bool :=
  match a, b with
  | LUnexpectedEof, LUnexpectedEof | LInvalidIntegerLiteral, LInvalidIntegerLiteral
  | LInvalidIntegerType, LInvalidIntegerType | LInvalidInteger, LInvalidInteger => true
  | LUnexpectedChar c x, LUnexpectedChar c' x' => N.eqb c c' && xexp_eqb x x'
  | LInvalidUnicode v, LInvalidUnicode v' | LMissingSurrogate v, LMissingSurrogate v' => N.eqb v v'
  | _, _ => false
  end.
Definition sres_eqb (a b : sres) : bool :=
  match a, b with
  | SOk s e, SOk s' e' => listN_eqb s s' && N.eqb e e'
  | SErr k s e, SErr k' s' e' => lkind_eqb k k' && N.eqb s s' && N.eqb e e'
  | _, _ => false          (* SPanic never agrees: a panic of the implementation is a failure *)
  end.
Definition token_eqb (a b : token) : bool :=
  match a, b with
  | TBool x, TBool y => Bool.eqb x y
  | TInt s1 b1 v1, TInt s2 b2 v2 => Bool.eqb s1 s2 && N.eqb b1 b2 && Z.eqb v1 v2
  | TString x, TString y | TIdent x, TIdent y => listN_eqb x y
  | TOpenP, TOpenP | TCloseP, TCloseP | TLt, TLt | TGt, TGt | TComma, TComma | TSemi, TSemi | TFatArrow, TFatArrow => true
  | _, _ => false
  end.
Fixpoint toks_eqb (a b : list tok) : bool :=
  match a, b with
  | [], [] => true
  | (t1, s1, e1) :: a', (t2, s2, e2) :: b' => token_eqb t1 t2 && N.eqb s1 s2 && N.eqb e1 e2 && toks_eqb a' b'
  | _, _ => false
  end.
Definition lres_eqb (a b : lres) : bool :=
  match a, b with
  | LOk x, LOk y => toks_eqb x y
  | LErr k s e, LErr k' s' e' => lkind_eqb k k' && N.eqb s s' && N.eqb e e'
  | _, _ => false
  end.
(* the implementation's Parser::parse_manifest on a token list: number of instructions or the error kind *)
Inductive mres := MOk (n : nat) | MErr (e : perr) | MPanic.
Definition perr_eqb (a b : perr) : bool :=
  match a, b with
  | PEof, PEof | PUnexpected, PUnexpected | PMaxDepth, PMaxDepth | PNumValues, PNumValues | PNumTypes, PNumTypes | PUnmodelled, PUnmodelled => true
  | _, _ => false
  end.
Definition mres_agrees (m : pres (list (list N * list ast))) (r : mres) : bool :=
  match m, r with
  | POk l [], MOk n => Nat.eqb (length l) n
  | PErr PUnmodelled, MPanic => false
  | PErr PUnmodelled, _ => true          (* Enum with a named discriminator: the alias table is not modelled, no verdict *)
  | PErr e, MErr e' => perr_eqb e e'
  | _, _ => false
  end.
(* BasicManifestValidator: outcome of every call up to the first error; new_* calls return the new id *)
Inductive outcome := OOk (id : option N) | OErr | OPanic.
Fixpoint trace (ops : list op) (s : st) : list outcome :=
  match ops with
  | [] => []
  | o :: t =>
      match step o s with
      | VOk s' => OOk (match o with NewBucket => Some (next_b s) | NewProof _ | CloneProof _ => Some (next_p s) | _ => None end) :: trace t s'
      | VErr => [OErr]
      | VPanic => [OPanic]
      end
  end.
Definition optN_eqb (a b : option N) : bool := match a, b with Some x, Some y => N.eqb x y | None, None => true | _, _ => false end.
Definition outcome_eqb (a b : outcome) : bool :=
  match a, b with OOk x, OOk y => optN_eqb x y | OErr, OErr => true | _, _ => false end.   (* OPanic never agrees *)
Fixpoint outcomes_eqb (a b : list outcome) : bool :=
  match a, b with [] , [] => true | x :: a', y :: b' => outcome_eqb x y && outcomes_eqb a' b' | _, _ => false end.
Fixpoint lines_eqb (a b : list (list N)) : bool :=
  match a, b with [], [] => true | x :: a', y :: b' => listN_eqb x y && lines_eqb a' b' | _, _ => false end.
(* real error span (start index, start line_idx, end index, end line_idx) vs line_of; the snippet arithmetic
   does not panic on it *)
(* carriage returns at the end of a displayed line are not displayed *)
Fixpoint drop_crs (l : list N) : list N := match l with 13 :: t => drop_crs t | _ => l end.
Definition strip_crs (l : list N) : list N := rev (drop_crs (rev l)).
Definition span_check (text : list N) (bytes a la b lb : N) : bool :=
  N.eqb (line_idx text a) la && N.eqb (line_idx text b) lb &&
  match snippet true text bytes a la b lb with SnOk _ _ _ _ => true | SnPanic => false end.
(* rendered PlainText diagnostics: first displayed line number, displayed source lines (compared up to trailing CRs), caret line = (line number above it, column, number of carets) *)
Definition snippet_check (text : list N) (bytes a la b lb first : N) (shown : list (list N)) (caret : option (N * N * N)) : bool :=
  match snippet true text bytes a la b lb with
  | SnOk f sh ra rb =>
      N.eqb f first && lines_eqb (map strip_crs sh) (map strip_crs shown) &&
      match caret with
      | None => true
      | Some (n, col, len) =>
          N.eqb n (la + 1) && N.eqb (col + sum_lens (firstn (N.to_nat (la + 1 - f)) sh)) ra && N.eqb len (rb - ra)
      end
  | SnPanic => false
  end.
Inductive case := CNone | CString (text : list N) (out : sres) | CLex (text : list N) (out : lres)
| CManifest (ts : list tok) (res : mres)
| CSpan (text : list N) (bytes a la b lb : N)
| CSnippet (text : list N) (bytes a la b lb first : N) (shown : list (list N)) (caret : option (N * N * N))
| CIdv (ops : list op) (out : list outcome).
Definition check (c : case) : bool :=
  match c with
  | CNone => true
  | CString text out => sres_eqb (lex_string_literal text) out
  | CLex text out => lres_eqb (tokenize text) out
  | CManifest ts res => mres_agrees (parse_manifest (map (fun x => fst (fst x)) ts)) res
  | CSpan text bytes a la b lb => span_check text bytes a la b lb
  | CSnippet text bytes a la b lb first shown caret => span_check text bytes a la b lb && snippet_check text bytes a la b lb first shown caret
  | CIdv ops out => outcomes_eqb (trace ops init) out
  end.
