(* C31 — evaluation: the model string lexer vs lexer::tokenize on string-literal texts. *)
From Coq Require Import List NArith Bool.
Import ListNotations.
Require Import RV.Model.C30_Text.
Open Scope N_scope.

Fixpoint listN_eqb (a b : list N) : bool :=
  match a, b with [], [] => true | x :: a', y :: b' => N.eqb x y && listN_eqb a' b' | _, _ => false end.
Definition xexp_eqb (a b : xexp) : bool :=
  match a, b with XExact x, XExact y => N.eqb x y | XOneOf, XOneOf | XHexDigit, XHexDigit | XDLQP, XDLQP => true | _, _ => false end.
Definition lkind_eqb (a b : lkind) : bool :=
  match a, b with
  | LUnexpectedEof, LUnexpectedEof | LInvalidIntegerLiteral, LInvalidIntegerLiteral
  | LInvalidIntegerType, LInvalidIntegerType | LInvalidInteger, LInvalidInteger => true
  | LUnexpectedChar c x, LUnexpectedChar c' x' => N.eqb c c' && xexp_eqb x x'
  | LInvalidUnicode v, LInvalidUnicode v' | LMissingSurrogate v, LMissingSurrogate v' => N.eqb v v'
  | _, _ => false
  end.
Definition sres_eqb (a b : sres) : bool :=
  match a, b with
  | SOk s e, SOk s' e' => listN_eqb s s' && N.eqb e e'
  | SErr k s e, SErr k' s' e' => lkind_eqb k k' && N.eqb s s' && N.eqb e e'
  | _, _ => false          (* SPanic never agrees: a panic of the implementation is a failure *)
  end.
Inductive case := CNone | CString (text : list N) (out : sres).
Definition check (c : case) : bool :=
  match c with CNone => true | CString text out => sres_eqb (lex_string_literal text) out end.
