(* C51 — evaluation functions used by generated case files (correspondence with metadata / royalty /
   owner-role locking run on LedgerSimulator). *)
From Coq Require Import List NArith Bool.
Import ListNotations.
Require Import RV.Model.C51_Locked.
Open Scope N_scope.

Definition mkcell (v : option N) (l : bool) : cell := {| c_val := v; c_locked := l |}.
Definition mkcaller (a oa io : bool) : caller := {| auth := a; owner_auth := oa; is_object := io |}.
(* read back per step: metadata entries k0..k3, royalty entries of the two methods, owner role *)
Record obs := mkobs { ob_meta : list cell; ob_royalty : list cell; ob_rule : N; ob_updater : updater; ob_locked : bool }.

Definition optN_eqb (a b : option N) : bool :=
  match a, b with Some x, Some y => N.eqb x y | None, None => true | _, _ => false end.
Definition cell_obs_eqb (a b : cell) : bool := optN_eqb (c_val a) (c_val b) && Bool.eqb (c_locked a) (c_locked b).
Definition updater_eqb (a b : updater) : bool :=
  match a, b with UNone, UNone | UOwner, UOwner | UObject, UObject => true | _, _ => false end.
Fixpoint cells_ok (k : kind) (i : N) (s : state) (l : list cell) : bool :=
  match l with
  | [] => true
  | c :: l' => cell_obs_eqb (get (k, i) (s_cells s)) c && cells_ok k (i + 1) s l'
  end.
Definition obs_ok (s : state) (o : obs) : bool :=
  cells_ok KMetadata 0 s (ob_meta o) && cells_ok KRoyalty 0 s (ob_royalty o)
  && N.eqb (o_rule (s_owner s)) (ob_rule o) && updater_eqb (o_updater (s_owner s)) (ob_updater o)
  && Bool.eqb (o_locked (s_owner s)) (ob_locked o).

Fixpoint load (k : kind) (i : N) (l : list cell) (acc : list (cell_id * cell)) : list (cell_id * cell) :=
  match l with [] => acc | c :: l' => load k (i + 1) l' (put (k, i) c acc) end.
Definition init_state (o : obs) : state :=
  {| s_cells := load KRoyalty 0 (ob_royalty o) (load KMetadata 0 (ob_meta o) []);
     s_owner := {| o_rule := ob_rule o; o_updater := ob_updater o; o_locked := ob_locked o |} |}.

Definition err_eqb (a b : err) : bool :=
  match a, b with ELocked, ELocked | EUnauthorized, EUnauthorized | EOther, EOther => true | _, _ => false end.
Definition outcome_eqb (a b : outcome) : bool :=
  match a, b with Ok, Ok => true | Fail x, Fail y => err_eqb x y | _, _ => false end.

Record case := mkcase { k_init : obs; k_steps : list (caller * op * outcome * obs) }.
Fixpoint replay (s : state) (l : list (caller * op * outcome * obs)) : bool :=
  match l with
  | [] => true
  | (c, o, out, ob) :: l' =>
      let r := step s c o in
      outcome_eqb (snd r) out && obs_ok (fst r) ob && replay (fst r) l'
  end.
Definition check (k : case) : bool := obs_ok (init_state (k_init k)) (k_init k) && replay (init_state (k_init k)) (k_steps k).
