(* C24 — evaluation function used by generated case files: the model of the operation applied to
   the recorded inputs must give exactly the recorded (canonicalised) implementation output. *)
From Coq Require Import List ZArith Bool.
Import ListNotations.
Require Import RV.Lib.DecCore RV.Model.C25_Round RV.Model.C24_Dec.
Open Scope Z_scope.

(* a case: format (true = Decimal, false = PreciseDecimal), operation with inputs, observed output *)
Definition case := (bool * op * res Z)%type.
Definition fmt_of (b : bool) : fmt := if b then DEC else PDEC.
Definition check (c : case) : bool :=
  match c with (b, o, out) => resZ_eqb (run (fmt_of b) o) out end.
