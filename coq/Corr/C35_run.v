(* C35 — evaluation functions used by generated case files
   (correspondence with TransactionValidator::validate_intents_and_structure driven through a stub
   IntentTreeStructure). *)
From Coq Require Import List NArith Bool PeanoNat.
Import ListNotations.
Require Import RV.Model.C35_IntentTree.
Open Scope N_scope.

Fixpoint list_eqb {A} (eqb : A -> A -> bool) (a b : list A) : bool :=
  match a, b with
  | [], [] => true
  | x :: a', y :: b' => eqb x y && list_eqb eqb a' b'
  | _, _ => false
  end.
Definition err_eqb (a b : err) : bool :=
  match a, b with
  | DuplicateSubintent, DuplicateSubintent => true
  | SubintentHasMultipleParents, SubintentHasMultipleParents => true
  | ChildSubintentNotIncluded x, ChildSubintentNotIncluded y => x =? y
  | SubintentExceedsMaxDepth, SubintentExceedsMaxDepth => true
  | SubintentIsNotReachable, SubintentIsNotReachable => true
  | MismatchingYield, MismatchingYield => true
  | _, _ => false
  end.
Definition loc_eqb (a b : loc) : bool :=
  match a, b with
  | NonRoot i h, NonRoot j g => Nat.eqb i j && (h =? g)
  | Unlocatable, Unlocatable => true
  | _, _ => false
  end.
Definition outcome_eqb (a b : outcome) : bool :=
  match a, b with
  | Accept r p d c, Accept r' p' d' c' =>
      list_eqb Nat.eqb r r' && list_eqb ihash_eqb p p' && list_eqb N.eqb d d'
      && list_eqb (list_eqb Nat.eqb) c c'
  | Reject e l, Reject e' l' => err_eqb e e' && loc_eqb l l'
  | Panic, Panic => true
  | OutOfFuel, OutOfFuel => true
  | _, _ => false
  end.

Definition ierr_eqb (a b : ierr) : bool :=
  match a, b with
  | IntentFailed x, IntentFailed y => x =? y
  | TooManyReferences t l, TooManyReferences t' l' => (t =? t') && (l =? l')
  | _, _ => false
  end.
Definition floc_eqb (a b : floc) : bool :=
  match a, b with
  | FRoot, FRoot => true
  | FAcross, FAcross => true
  | FNonRoot i h, FNonRoot j g => Nat.eqb i j && (h =? g)
  | _, _ => false
  end.
Definition foutcome_eqb (a b : foutcome) : bool :=
  match a, b with
  | FStructure x, FStructure y => outcome_eqb x y
  | FIntent l e, FIntent l' e' => floc_eqb l l' && ierr_eqb e e'
  | _, _ => false
  end.

(* a case: the intent tree + what each intent's own validation does (stub), the two reference limits
   of the configuration, and the canonicalised result the implementation produced *)
Definition case := (full * foutcome)%type.
(* The implementation's loop has no iteration bound; it is compared with the model run on generous
   fuel (theorem C35_fuel_irrelevant: fuel only matters for OutOfFuel).  Whenever the root hash is not
   the placeholder the model proper (fuel = number of subintents) must give the same result
   (that is theorem C35_worklist_terminates, re-checked here on every case). *)
Definition big_fuel : nat := 4000.
Definition check (c : case) : bool :=
  foutcome_eqb (validate_full_with big_fuel (fst c)) (snd c)
  && (ihash_eqb (t_root_hash (f_tree (fst c))) PLACEHOLDER || foutcome_eqb (validate_full (fst c)) (snd c)).
