(* C33 — evaluation functions used by generated case files (correspondence with the real
   TransactionValidator: validate_notarized_v1 / validate_notarized_v2 /
   validate_signed_partial_transaction_v2 / validate_preview_transaction_v2). *)
From Coq Require Import List NArith Bool.
Import ListNotations.
Require Import RV.Model.C33_SigValidate.
Open Scope N_scope.

(* which entry point of the implementation was run *)
Inductive entry := EntryV1 | EntryTree.

(* canonical observation on the implementation *)
Inductive obs :=
| ObsAccepted (root_keys : list N) (non_root_keys : list (list N)) (total : N)
| ObsRejected (l : location) (e : sigerr)
| ObsOther (prepared : bool).
  (* rejected by a validation outside the signature validator: prepared = false: PrepareError (the
     validator was never reached); prepared = true: header / manifest / structure error, which the
     code raises AFTER new_with_root / construct_pending_signature_validations succeeded *)

Record case := mkCase {
  c_config : config;
  c_version : version;
  c_entry : entry;
  c_root_hash : intent_hash;
  c_root : pending;
  c_subintents : list N;
  c_batches : list batch;
  (* finite oracle tables: results of the public primitives on the (hash, signature) pairs of the case *)
  c_recover : list (N * N * option N);        (* (hash, signature_with_public_key, verify_and_recover result) *)
  c_verify : list (N * N * N * bool);         (* (hash, public key, signature, verify result) *)
  c_obs : obs }.

Definition recover_find (t : list (N * N * option N)) (h s : N) : option (option N) :=
  match find (fun e => (fst (fst e) =? h) && (snd (fst e) =? s)) t with
  | Some e => Some (snd e)
  | None => None
  end.
Definition recover_tbl (t : list (N * N * option N)) (h s : N) : option N :=
  match recover_find t h s with Some r => r | None => None end.
Definition verify_find (t : list (N * N * N * bool)) (h k s : N) : option bool :=
  match find (fun e => (fst (fst (fst e)) =? h) && (snd (fst (fst e)) =? k) && (snd (fst e) =? s)) t with
  | Some e => Some (snd e)
  | None => None
  end.
Definition verify_tbl (t : list (N * N * N * bool)) (h k s : N) : bool :=
  match verify_find t h k s with Some r => r | None => false end.

(* every primitive call the model can make on this case has an entry in the tables *)
Definition pending_covered (c : case) (p : pending) : bool :=
  match p with
  | TransactionIntent _ npk nsig nh sigs sh =>
      forallb (fun s => match recover_find (c_recover c) sh s with Some _ => true | None => false end) sigs
      && match verify_find (c_verify c) nh npk nsig with Some _ => true | None => false end
  | Subintent sigs sh =>
      forallb (fun s => match recover_find (c_recover c) sh s with Some _ => true | None => false end) sigs
  | _ => true
  end.
Definition tables_complete (c : case) : bool :=
  pending_covered c (c_root c)
  && forallb (fun hb => pending_covered c (for_subintent (snd hb) (fst hb)))
             (combine (c_subintents c) (c_batches c)).

Definition list_eqb {A} (eqb : A -> A -> bool) : list A -> list A -> bool :=
  fix go (a b : list A) : bool :=
    match a, b with
    | [], [] => true
    | x :: a', y :: b' => eqb x y && go a' b'
    | _, _ => false
    end.
Definition location_eqb (a b : location) : bool :=
  match a, b with
  | RootTransactionIntent x, RootTransactionIntent y => x =? y
  | RootSubintent x, RootSubintent y => x =? y
  | NonRootSubintent i x, NonRootSubintent j y => (i =? j) && (x =? y)
  | AcrossTransaction, AcrossTransaction => true
  | _, _ => false
  end.
Definition sigerr_eqb (a b : sigerr) : bool :=
  match a, b with
  | TooManySignatures t l, TooManySignatures t' l' => (t =? t') && (l =? l')
  | InvalidIntentSignature, InvalidIntentSignature => true
  | InvalidNotarySignature, InvalidNotarySignature => true
  | DuplicateSigner, DuplicateSigner => true
  | NotaryIsSignatorySoShouldNotAlsoBeASigner, NotaryIsSignatorySoShouldNotAlsoBeASigner => true
  | IncorrectNumberOfSubintentSignatureBatches, IncorrectNumberOfSubintentSignatureBatches => true
  | _, _ => false
  end.
Definition agrees (r : result) (o : obs) : bool :=
  match r, o with
  | Accepted rk nrk t, ObsAccepted rk' nrk' t' =>
      list_eqb N.eqb rk rk' && list_eqb (list_eqb N.eqb) nrk nrk' && (t =? t')
  | Rejected l e, ObsRejected l' e' => location_eqb l l' && sigerr_eqb e e'
  | _, _ => false
  end.

Definition model_result (c : case) : result :=
  let rec := recover_tbl (c_recover c) in
  let ver := verify_tbl (c_verify c) in
  match c_entry c with
  | EntryV1 =>
      match c_root_hash c with
      | IHTransaction h => validate_v1 rec ver (c_config c) h (c_root c)
      | IHSubintent _ => Rejected AcrossTransaction IncorrectNumberOfSubintentSignatureBatches (* not a V1 shape: never agrees *)
      end
  | EntryTree =>
      validate_tree rec ver (c_config c) (c_version c) (c_root_hash c) (c_root c)
                    (c_subintents c) (c_batches c)
  end.

(* true = model agrees with what the implementation produced.  Cases the implementation rejected
   outside the signature validator are skipped (counted and bounded by the harness), except that the
   model's count / batch-number checks, which precede them in the code, must have passed. *)
Definition construct_ok (c : case) : bool :=
  match c_entry c with
  | EntryV1 =>
      match new_with_root V1 (c_config c) (c_root_hash c) (c_root c) with inr _ => true | inl _ => false end
  | EntryTree =>
      match construct_pending (c_version c) (c_config c) (c_root_hash c) (c_root c)
                              (c_subintents c) (c_batches c) with
      | inr _ => true | inl _ => false end
  end.
Definition check (c : case) : bool :=
  match c_obs c with
  | ObsOther false => true
  | ObsOther true => construct_ok c   (* the count / batch checks come first in the code *)
  | o => tables_complete c && agrees (model_result c) o
  end.
