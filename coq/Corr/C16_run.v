(* C16 — evaluation functions used by generated case files (correspondence with
   SpreadPrefixKeyMapper).  The hash is not computed in Coq: each case carries the 20-byte hash
   prefix the implementation produced for the hashed bytes of that case (`hp`), and the model runs
   with `H := fun _ => hp ++ 12 zero bytes`.  That the prefix really is hash(plain)[..20] is checked
   by the harness against radix_common::crypto::hash. *)
From Coq Require Import List Arith NArith Bool.
Import ListNotations.
Require Import RV.Lib.Bytes RV.Model.C16_KeyMapper.
Open Scope N_scope.

Inductive lkey := LNode (n : bytes) | LPart (p : N) | LKey (k : substate_key).

Definition skey_eqb (a b : substate_key) : bool :=
  match a, b with
  | KField f, KField g => f =? g
  | KMap k, KMap k' => beqb k k'
  | KSorted p k, KSorted p' k' => beqb p p' && beqb k k'
  | _, _ => false
  end.
Definition lkey_eqb (a b : lkey) : bool :=
  match a, b with
  | LNode n, LNode n' => beqb n n'
  | LPart p, LPart p' => p =? p'
  | LKey k, LKey k' => skey_eqb k k'
  | _, _ => false
  end.
Definition opt_eqb {A} (eqb : A -> A -> bool) (a b : option A) : bool :=
  match a, b with Some x, Some y => eqb x y | None, None => true | _, _ => false end.
Definition cmp_eqb (a b : comparison) : bool :=
  match a, b with Eq, Eq | Lt, Lt | Gt, Gt => true | _, _ => false end.

(* which from_ function: 0 node key, 1 field, 2 map, 3 sorted *)
Definition from_any (which : N) (db : bytes) : option lkey :=
  match which with
  | 0 => option_map LNode (from_db_node_key db)
  | 1 => option_map LKey (from_db_sort_key KindField db)
  | 2 => option_map LKey (from_db_sort_key KindMap db)
  | _ => option_map LKey (from_db_sort_key KindSorted db)
  end.
Definition which_of (k : lkey) : N :=
  match k with
  | LNode _ => 0 | LPart _ => 0
  | LKey (KField _) => 1 | LKey (KMap _) => 2 | LKey (KSorted _ _) => 3
  end.

Definition H_of (hp : bytes) : bytes -> bytes := fun _ => hp ++ repeat 0 12.

Inductive case :=
(* to_db_*(k) = db (None = panic), then from_db_*(db) = back; hp = hash prefix seen for k's bytes *)
| CRound (k : lkey) (hp : bytes) (db : option bytes) (back : option lkey)
(* to_db_partition_key(n, p) = db (node key, partition byte), then from_db_partition_key(db) = back *)
| CPartKey (n : bytes) (p : N) (hp : bytes) (db : option (bytes * N)) (back : option (bytes * N))
(* from_db_* on arbitrary bytes *)
| CFrom (which : N) (db : bytes) (back : option lkey)
(* two sorted keys and the observed Ord::cmp of their db sort keys *)
| COrder (p1 k1 hp1 p2 k2 hp2 : bytes) (ord : comparison).

Definition check (c : case) : bool :=
  match c with
  | CRound (LPart p) _ db back =>
      opt_eqb beqb db (Some [to_db_partition_num p]) &&
      opt_eqb lkey_eqb back (Some (LPart (from_db_partition_num (to_db_partition_num p))))
  | CRound k hp db back =>
      (length hp =? HASHED_PREFIX_LENGTH)%nat &&
      let m_db := match k with
                  | LNode n => to_db_node_key (H_of hp) n
                  | LKey key => to_db_sort_key (H_of hp) key
                  | LPart _ => None
                  end in
      opt_eqb beqb m_db db &&
      match m_db with
      | Some d => opt_eqb lkey_eqb (from_any (which_of k) d) back
      | None => true
      end
  | CPartKey n p hp db back =>
      let pair_eqb (a b : bytes * N) := beqb (fst a) (fst b) && (snd a =? snd b) in
      (length hp =? HASHED_PREFIX_LENGTH)%nat &&
      let m_db := to_db_partition_key (H_of hp) n p in
      opt_eqb pair_eqb m_db db &&
      match m_db with
      | Some d => opt_eqb pair_eqb (from_db_partition_key d) back
      | None => true
      end
  | CFrom which db back => opt_eqb lkey_eqb (from_any which db) back
  | COrder p1 k1 hp1 p2 k2 hp2 ord =>
      (length hp1 =? HASHED_PREFIX_LENGTH)%nat && (length hp2 =? HASHED_PREFIX_LENGTH)%nat &&
      match sorted_to_db_sort_key (H_of hp1) p1 k1, sorted_to_db_sort_key (H_of hp2) p2 k2 with
      | Some d1, Some d2 => cmp_eqb (bcmp d1 d2) ord
      | _, _ => false
      end
  end.
