(* C10 / C09 — evaluation functions used by generated case files (correspondence with the engine:
   account vaults, worktop, buckets and proofs driven through manifests). *)
From Coq Require Import List ZArith NArith Bool.
Import ListNotations.
Require Import RV.Model.C10_ProofLock RV.Model.C09_Worktop.
Open Scope N_scope.

Inductive res :=
| RFail (i : N) (e : err)                              (* first failing op (length = end of transaction), class *)
| ROk (d0 d1 : Z) (added removed : list N)             (* success: account vault deltas *)
| RRejected.

Definition err_eqb (a b : err) : bool :=
  match a, b with
  | EInsufficient, EInsufficient | EWorktopInsufficient, EWorktopInsufficient | EAssertion, EAssertion
  | EInvalidAmount, EInvalidAmount | ELocked, ELocked | EEmptyProof, EEmptyProof
  | EBucketNotFound, EBucketNotFound | EProofNotFound, EProofNotFound | EAuthZoneEmpty, EAuthZoneEmpty
  | EDropNonEmpty, EDropNonEmpty | EOrphan, EOrphan | EUnauthorized, EUnauthorized
  | EOverflow, EOverflow | EPanic, EPanic | EOther, EOther => true
  | _, _ => false
  end.

Definition set_eqb (a b : list N) : bool := subset a b && subset b a.

Definition vault_f (s : st) (r : N) : Z :=
  match afind r (vaults s) with Some (CF c) => fliq c | _ => 0%Z end.
Definition vault_n (s : st) (r : N) : list N :=
  match afind r (vaults s) with Some (CN c) => nliq c | _ => [] end.

(* a case: initial account balances, the op list, what the engine did *)
Definition case := ((Z * Z * list N) * list op * res)%type.

Definition check (c : case) : bool :=
  let '((f0, f1, ids), ops, r) := c in
  let s0 := init f0 f1 ids in
  match run s0 ops, r with
  | Failed i e, RFail i' e' => (i =? i') && err_eqb e e'
  | Panicked i, RFail i' EPanic => i =? i'
  | Done s, ROk d0 d1 added removed =>
      (vault_f s 0 - f0 =? d0)%Z && (vault_f s 1 - f1 =? d1)%Z
      && set_eqb (diff (vault_n s 2) ids) added && set_eqb (diff ids (vault_n s 2)) removed
  | _, _ => false
  end.
