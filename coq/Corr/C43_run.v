(* C43 — evaluation functions used by generated case files (correspondence with the non-fungible
   resource manager run on LedgerSimulator). *)
From Coq Require Import List NArith Bool.
Import ListNotations.
Require Import RV.Model.C43_NfData.
Open Scope N_scope.

Fixpoint data_eqb (a b : data) : bool :=
  match a, b with [], [] => true | x :: a', y :: b' => N.eqb x y && data_eqb a' b' | _, _ => false end.
(* what is read back per id: None = no entry substate (or an empty unlocked one) *)
Definition oentry_eqb (a b : option entry) : bool :=
  match a, b with
  | None, None => true
  | Some Tomb, Some Tomb => true
  | Some (Live x), Some (Live y) => data_eqb x y
  | _, _ => false
  end.
Definition err_eqb (a b : err) : bool :=
  match a, b with
  | EIdTypeMismatch, EIdTypeMismatch | EAlreadyExists, EAlreadyExists | ELocked, ELocked | ENotFound, ENotFound
  | EUnknownField, EUnknownField | EInvalidIdType, EInvalidIdType | ENotHeld, ENotHeld | EPayload, EPayload
  | EUnauthorized, EUnauthorized | ENotMintable, ENotMintable | ENotBurnable, ENotBurnable
  | EOther, EOther => true
  | _, _ => false
  end.
Definition res_eqb (a b : res unit) : bool :=
  match a, b with ROk _, ROk _ => true | RErr x, RErr y => err_eqb x y | RPanic, RPanic => true | _, _ => false end.

(* the harness's resources: 4 fields, "b" (name 1) and "d" (name 3) mutable *)
Definition harness_mutable : list (N * nat) := [(1, 1%nat); (3, 3%nat)].

Record case := mkcase {
  k_ty : idtype; k_initial : list (nfid * data); k_mintable : bool; k_burnable : bool;
  k_steps : list (list (bool * op) * res unit * list (nfid * option entry)) }.

Fixpoint replay (cfg : rcfg) (m : rm) (l : list (list (bool * op) * res unit * list (nfid * option entry))) : bool :=
  match l with
  | [] => true
  | (o, out, obs) :: l' =>
      let r := tx_step cfg m o in
      res_eqb (snd r) out
      && forallb (fun x => oentry_eqb (find (fst x) (r_store (fst r))) (snd x)) obs
      && replay cfg (fst r) l'
  end.
Definition check (k : case) : bool :=
  match create (k_ty k) 4 harness_mutable (k_initial k) with
  | Some m => replay {| mintable := k_mintable k; burnable := k_burnable k |} m (k_steps k)
  | None => false
  end.
