(* C45 — evaluation functions used by generated case files (correspondence with
   ScryptoV1WasmValidator::validate).  A case = the ScryptoVm version, the module summary the harness
   extracted from the module bytes with its own wasmparser pass, the export names required by the
   blueprint definitions, and the verdict class observed on the implementation. *)
From Coq Require Import List NArith Bool.
Import ListNotations.
Require Import RV.Lib.Bytes RV.Model.C45_WasmRules.
Open Scope N_scope.

Inductive impl_out :=
| IPassed (memory_max_out : N)   (* Ok(instrumented code); declared memory maximum of the output *)
| IPostRule                      (* an error of the steps after the rule checks (metering / stack
                                    limiter / instantiation): the rules themselves passed *)
| IErr (v : verdict)             (* PrepareError class *)
| IPanic.

Record case := mkCase { k_ver : N; k_sum : summary; k_req : list bytes; k_out : impl_out }.

Definition check (c : case) : bool :=
  let v := validate config_v1 (k_ver c) (k_sum c) (k_req c) in
  match k_out c with
  | IPassed mx => verdict_eqb v (VPassed mx)
  | IPostRule => accepted v
  | IErr e => verdict_eqb v e
  | IPanic => false
  end.
