(* C37 — evaluation functions used by generated case files (correspondence with
   ManifestResourceConstraint / GeneralResourceConstraint / ManifestResourceConstraints). *)
From Coq Require Import List ZArith NArith Bool.
Import ListNotations.
Require Import RV.Model.C37_Constraint.
Open Scope Z_scope.

Fixpoint ids_eqb (a b : idset) : bool :=
  match a, b with
  | [], [] => true
  | x :: a', y :: b' => N.eqb x y && ids_eqb a' b'
  | _, _ => false
  end.
Definition lower_eqb (a b : lower) : bool :=
  match a, b with LNonZero, LNonZero => true | LIncl x, LIncl y => x =? y | _, _ => false end.
Definition upper_eqb (a b : upper) : bool :=
  match a, b with UUnbounded, UUnbounded => true | UIncl x, UIncl y => x =? y | _, _ => false end.
Definition allowed_eqb (a b : allowed) : bool :=
  match a, b with AnyIds, AnyIds => true | Allowlist x, Allowlist y => ids_eqb x y | _, _ => false end.
Definition general_eqb (a b : general) : bool :=
  ids_eqb (required a) (required b) && lower_eqb (lb a) (lb b) && upper_eqb (ub a) (ub b)
  && allowed_eqb (allowed_ids a) (allowed_ids b).
Definition cerr_eqb (a b : cerr) : bool :=
  match a, b with
  | ENotValidForFungible, ENotValidForFungible => true
  | EExpectedNonZero, EExpectedNonZero => true
  | EExpectedExact e x, EExpectedExact e' x' => (e =? e') && (x =? x')
  | EExpectedAtLeast e x, EExpectedAtLeast e' x' => (e =? e') && (x =? x')
  | EExpectedAtMost e x, EExpectedAtMost e' x' => (e =? e') && (x =? x')
  | EMissing i, EMissing j => N.eqb i j
  | ENotAllowed i, ENotAllowed j => N.eqb i j
  | _, _ => false
  end.
Definition vres_eqb (a b : vres) : bool :=
  match a, b with VOk, VOk => true | VErr x, VErr y => cerr_eqb x y | _, _ => false end.
Definition csres_eqb (a b : csres) : bool :=
  match a, b with
  | CsOk, CsOk => true
  | CsErr (EUnexpected r), CsErr (EUnexpected r') => raddr_eqb r r'
  | CsErr (EFailed r e), CsErr (EFailed r' e') => raddr_eqb r r' && cerr_eqb e e'
  | _, _ => false
  end.

Inductive case :=
(* one constraint: is_valid_for_fungible_use, is_valid_for_non_fungible_use, validate_fungible on a
   list of amounts, validate_non_fungible on a list of id sets *)
| CValidate (c : constraint) (vf vnf : bool) (fs : list (Z * vres)) (nfs : list (idset * vres))
(* GeneralResourceConstraint::normalize: input, output *)
| CNormalize (g g' : general)
(* ManifestResourceConstraints: is_valid, validate(balances, prevent) *)
| CConstraints (cs : list (raddr * constraint)) (b : balances) (prevent : bool) (valid : bool) (res : csres).

Definition check (c : case) : bool :=
  match c with
  | CValidate c vf vnf fs nfs =>
      Bool.eqb (valid_f c) vf && Bool.eqb (valid_nf c) vnf
      && forallb (fun ar => vres_eqb (validate_f c (fst ar)) (snd ar)) fs
      && forallb (fun sr => vres_eqb (validate_nf c (fst sr)) (snd sr)) nfs
  | CNormalize g g' => general_eqb (normalize g) g'
  | CConstraints cs b prevent valid res =>
      Bool.eqb (constraints_is_valid cs) valid && csres_eqb (constraints_validate cs b prevent) res
  end.
