(* C25 — evaluation function used by generated case files (checked_round, checked_floor,
   checked_ceiling, for_withdrawal, checked_truncate on the recorded inputs must give the recorded
   implementation output, and so must the independent rounding specification). *)
From Coq Require Import List ZArith Bool.
Import ListNotations.
Require Import RV.Lib.DecCore RV.Model.C25_Round RV.Model.C24_Dec.
Open Scope Z_scope.

Inductive rop :=
| RRound (x dp : Z) (m : rmode)
| RFloor (x : Z)
| RCeil (x : Z)
| RWithdraw (x divisibility : Z) (w : withdraw_strategy)   (* Decimal only *)
| RTruncate (p : Z) (m : rmode).                            (* PreciseDecimal -> Decimal *)

Definition run (f : fmt) (o : rop) : res Z :=
  match o with
  | RRound x dp m => checked_round f x dp m
  | RFloor x => checked_floor f x
  | RCeil x => checked_ceiling f x
  | RWithdraw x d w => for_withdrawal x d w
  | RTruncate p m => pdec_truncate p m
  end.

(* the specification side, for the operations and inputs it speaks about *)
Definition spec_out (f : fmt) (r : Z) : res Z := if in_f f r then Ok r else Err ENone.
Definition run_spec (f : fmt) (o : rop) : option (res Z) :=
  match o with
  | RRound x dp m =>
      if (0 <=? dp) && (dp <=? scale f) then Some (spec_out f (round_spec m (step f dp) x)) else Some Panic
  | RFloor x => Some (spec_out f (round_spec ToNegativeInfinity (one f) x))
  | RCeil x => Some (spec_out f (round_spec ToPositiveInfinity (one f) x))
  | _ => None
  end.

Definition case := (bool * rop * res Z)%type.
Definition fmt_of (b : bool) : fmt := if b then DEC else PDEC.
Definition check (c : case) : bool :=
  match c with (b, o, out) =>
    resZ_eqb (run (fmt_of b) o) out &&
    match run_spec (fmt_of b) o with Some r => resZ_eqb r out | None => true end
  end.
