(* C41 — evaluation functions used by generated case files (correspondence with the native pool
   blueprints executed through scrypto-test's LedgerSimulator). *)
From Coq Require Import List ZArith Bool.
Import ListNotations.
Require Import RV.Model.C41_Pool.
Open Scope Z_scope.

Fixpoint zs_eqb (a b : list Z) : bool :=
  match a, b with
  | [], [] => true
  | x :: a', y :: b' => (x =? y) && zs_eqb a' b'
  | _, _ => false
  end.
Definition perr_eqb (a b : perr) : bool :=
  match a, b with
  | EEmptyBucket, EEmptyBucket | EDecOverflow, EDecOverflow | EZeroMinted, EZeroMinted
  | ERedeemedZero, ERedeemedZero | ESupplyNoReserves, ESupplyNoReserves
  | ELargerContribution, ELargerContribution | ENoMinRatio, ENoMinRatio
  | EInvalidRedemption, EInvalidRedemption | EMaxMint, EMaxMint
  | EResourceManager, EResourceManager | EVault, EVault | EBucket, EBucket
  | EDropNonEmpty, EDropNonEmpty => true
  | _, _ => false
  end.
Definition out_eqb (a b : out) : bool :=
  match a, b with
  | OutContrib m t, OutContrib m' t' => (m =? m') && zs_eqb t t'
  | OutRedeem o, OutRedeem o' => zs_eqb o o'
  | OutUnit, OutUnit => true
  | OutWithdraw x, OutWithdraw y => x =? y
  | OutValue o, OutValue o' => zs_eqb o o'
  | OutErr e, OutErr e' => perr_eqb e e'
  | OutPanic, OutPanic => true
  | _, _ => false
  end.

(* one observed step: the operation, what the implementation returned, and the pool-unit total
   supply and vault balances read from the ledger after the transaction *)
Definition obs := (op * out * (Z * list Z))%type.
(* a case: pool kind, divisibility of each pool resource (vault order), observed steps *)
Definition case := (kind * list Z * list obs)%type.

Fixpoint agree (k : kind) (dvs : list Z) (p : pool) (l : list obs) : bool :=
  match l with
  | [] => true
  | (o, x, (s, rs)) :: l' =>
      let '(p', y) := step_op k dvs p o in
      out_eqb y x && (supply p' =? s) && zs_eqb (reserves p') rs && agree k dvs p' l'
  end.

Definition check (c : case) : bool :=
  let '(k, dvs, l) := c in agree k dvs (pool_new (length dvs)) l.
