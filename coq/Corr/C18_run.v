(* C18 — evaluation for harness bin c18: everything Corr/C17_run.check compares (with the pruning
   flag of the case: stale parts per commit, final store contents, reachable nodes) plus: a walk over
   the MODEL's explicit store from the final root (following stored child entries and, for leaves of
   the upper tiers, the payload version) finds every node and visits exactly the keys the model tree
   refers to. *)
From Coq Require Import List NArith Bool.
Import ListNotations.
Require Import RV.Lib.Blake2b RV.Model.C17_Jmt RV.Model.C18_Store.
Require Export RV.Corr.C17_run.
Open Scope N_scope.

Definition store_walk_ok (c : case) : bool :=
  let '(pruning, commits, _, _, _, _, _) := c in
  match run_model None (ts_new pruning) (map conv_commit commits) with
  | Ok (_, _, stf, tsf) =>
    match stf with
    | None => true
    | Some (v, _) =>
      match reach_store (4 * FUEL) (ts_nodes tsf) 0 [] [] v with
      | Some ks => list_eqb skey_eqb ks (map fst (reachable FUEL stf))
      | None => false
      end
    end
  | _ => false
  end.

Definition check18 (c : case) : bool := check c && store_walk_ok c.
