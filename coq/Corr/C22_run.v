(* C22 — evaluation functions used by generated case files: the outcome of the real
   validate_payload_against_schema::<ScryptoCustomExtension, ()> vs the event-level model
   (Model/C22_Typed.v) and vs the value-level `validates` (Model/C22_Schema.v). *)
From Coq Require Import List NArith ZArith Bool.
Import ListNotations.
Require Import RV.Model.C20_Sbor RV.Model.C21_Traverser RV.Model.C22_Types RV.Model.C22_Schema
               RV.Model.C22_Typed RV.Corr.C20_run.
Open Scope N_scope.

Definition mismatch_eqb (a b : mismatch) : bool :=
  match a, b with
  | MType, MType | MChildElem, MChildElem | MChildKey, MChildKey | MChildVal, MChildVal
  | MTupleLen, MTupleLen | MEnumLen, MEnumLen | MUnknownVariant, MUnknownVariant => true
  | _, _ => false
  end.
Definition verrclass_eqb (a b : verrclass) : bool :=
  match a, b with
  | VELength, VELength | VECustom, VECustom => true
  | VENum i, VENum j => ikind_eqb i j
  | _, _ => false
  end.
Definition perr_eqb (a b : perr) : bool :=
  match a, b with
  | PDecode x, PDecode y => dec_err_eqb x y
  | PTypeIdNotFound, PTypeIdNotFound | PSchemaInconsistency, PSchemaInconsistency => true
  | PMismatch x, PMismatch y => mismatch_eqb x y
  | PValidation x, PValidation y => verrclass_eqb x y
  | _, _ => false
  end.
Definition pres_eqb (a b : pres) : bool :=
  match a, b with
  | POk, POk | PPanic, PPanic | POutOfFuel, POutOfFuel => true
  | PErr x, PErr y => perr_eqb x y
  | _, _ => false
  end.
Definition is_ok (r : pres) : bool := match r with POk => true | _ => false end.

Inductive case :=
(* schema-level: (schema, type id, depth limit, payload) and the implementation's outcome *)
| CSchema (s : schema) (t : tid) (md : N) (payload : bytes) (outcome : pres)
(* value-level: a value the harness encoded itself (payload = its encoding at limit 64) *)
| CValue (s : schema) (t : tid) (v : value) (payload : bytes) (outcome : pres).

Definition check (c : case) : bool :=
  match c with
  | CSchema s t md payload outcome =>
    (* the streaming model reproduces the implementation's outcome (incl. the error class) *)
    pres_eqb (validate_payload s t md payload) outcome &&
    (* and acceptance = "decodes and the decoded value validates" (the depth-0 root case differs
       between decoder and traverser: C21 finding traverser_ignores_depth_limit_for_root) *)
    (if md =? 0 then true else Bool.eqb (validates_payload s t md payload) (is_ok outcome))
  | CValue s t v payload outcome =>
    eres_eqb (encode_payload Scrypto 64 v) (Ok payload) &&
    pres_eqb (validate_payload s t 64 payload) outcome &&
    Bool.eqb (validates s t v) (is_ok outcome)
  end.
