(* C28 — evaluation functions used by generated case files (correspondence with
   AddressBech32Encoder/Decoder, bech32 0.9.1 bit regrouping, NonFungibleLocalId text form). *)
From Coq Require Import List NArith Bool.
Import ListNotations.
Require Import RV.Model.C28_Bech32 RV.Model.C28_LocalId RV.Model.C28_GlobalId.
Open Scope N_scope.

Definition b32_code (e : b32_error) : N :=
  match e with
  | MissingSeparator => 0 | InvalidChecksum => 1 | InvalidLength => 2 | InvalidChar => 3
  | InvalidData => 4 | InvalidPadding => 5 | MixedCase => 6
  end.
Definition enc_code (e : enc_error) : N :=
  match e with EncBech32 e => b32_code e | EncMissingEntityTypeByte => 100 | EncInvalidEntityTypeId => 101 end.
Definition dec_code (e : dec_error) : N :=
  match e with
  | DecBech32 e => b32_code e | DecMissingEntityTypeByte => 100 | DecInvalidVariant => 101
  | DecInvalidEntityTypeId => 102 | DecInvalidHrp => 103
  end.
Definition content_code (e : content_error) : N :=
  match e with TooLong => 0 | Empty => 1 | ContainsBadCharacter => 2 end.
Definition parse_code (e : parse_error) : N :=
  match e with
  | UnknownType => 10 | InvalidInteger => 11 | InvalidBytes => 12 | InvalidRUID => 13
  | ContentValidationError e => content_code e
  end.

Definition res_eqb {E A} (ec : E -> N) (eqb : A -> A -> bool) (a b : res E A) : bool :=
  match a, b with
  | Ok x, Ok y => eqb x y
  | Err e, Err f => ec e =? ec f
  | Panic, Panic => true
  | _, _ => false
  end.
Definition id_eqb (a b : local_id) : bool :=
  match a, b with
  | LString x, LString y => bytes_eqb x y
  | LInteger x, LInteger y => x =? y
  | LBytes x, LBytes y => bytes_eqb x y
  | LRuid x, LRuid y => bytes_eqb x y
  | _, _ => false
  end.

Definition global_code (e : global_error) : N :=
  match e with
  | GInvalidResourceAddress => 200 | GRequiresTwoParts => 201 | GInvalidLocalId e => parse_code e
  end.

Inductive case :=
| KEncode (suffix data : list N) (r : res enc_error (list N))
| KDecode (suffix s : list N) (r : res dec_error (N * list N))
| KToBase32 (bytes out : list N)
| KFromBase32 (u5s : list N) (r : res b32_error (list N))
| KLocalParse (s : list N) (r : res parse_error local_id)
| KLocalPrint (id : local_id) (s : list N)
| KUtf8 (s : list N) (valid : bool)
| KGlobalParse (suffix s : list N) (r : res global_error (list N * local_id))
| KGlobalPrint (suffix data : list N) (id : local_id) (r : res global_error (list N)).

Definition check (c : case) : bool :=
  match c with
  | KEncode suffix data r => res_eqb enc_code bytes_eqb (encode_address suffix data) r
  | KDecode suffix s r =>
    res_eqb dec_code (fun a b => (fst a =? fst b) && bytes_eqb (snd a) (snd b)) (decode_address suffix s) r
  | KToBase32 bytes out => bytes_eqb (to_base32 bytes) out
  | KFromBase32 u5s r => res_eqb b32_code bytes_eqb (from_base32 u5s) r
  | KLocalParse s r => res_eqb parse_code id_eqb (from_str s) r
  | KLocalPrint id s => bytes_eqb (print id) s
  | KUtf8 s v => Bool.eqb (utf8_valid s) v
  | KGlobalParse suffix s r =>
    res_eqb global_code (fun a b => bytes_eqb (fst a) (fst b) && id_eqb (snd a) (snd b))
      (global_from_str suffix s) r
  | KGlobalPrint suffix data id r => res_eqb global_code bytes_eqb (global_print suffix data id) r
  end.
