(* C10 — evaluation functions for the rounded-withdrawal correspondence (pool.protected_withdraw ->
   FungibleVault::take_advanced with every WithdrawStrategy). *)
From Coq Require Import List ZArith NArith Bool.
Import ListNotations.
Require RV.Model.C25_Round.
Require Import RV.Model.C10_ProofLock RV.Model.C10_Rounded RV.Corr.C10_run.
Open Scope Z_scope.

Definition strategy_of (k : N) : C25_Round.withdraw_strategy :=
  match k with
  | 1%N => C25_Round.WRounded C25_Round.ToPositiveInfinity
  | 2%N => C25_Round.WRounded C25_Round.ToNegativeInfinity
  | 3%N => C25_Round.WRounded C25_Round.ToZero
  | 4%N => C25_Round.WRounded C25_Round.AwayFromZero
  | 5%N => C25_Round.WRounded C25_Round.ToNearestMidpointTowardZero
  | 6%N => C25_Round.WRounded C25_Round.ToNearestMidpointAwayFromZero
  | 7%N => C25_Round.WRounded C25_Round.ToNearestMidpointToEven
  | _ => C25_Round.WExact
  end.

Inductive rres := RTaken (amt : Z) | RErr (e : err).

(* a case: vault balance, divisibility, strategy code, requested amount, what the engine did *)
Definition case_r := (Z * Z * N * Z * rres)%type.
Definition check_r (c : case_r) : bool :=
  let '(bal, div, k, a, r) := c in
  match f_take_adv div (strategy_of k) a (f_new bal), r with
  | Ok (c', t), RTaken t' => (t =? t') && (fliq c' =? bal - t')
  | Err e, RErr e' => err_eqb e e'
  | Panic, RErr EPanic => true
  | _, _ => false
  end.
