(* C09 — evaluation functions used by generated case files: the same evaluator as C10 (one
   interpreter, Model/C09_Worktop.v, drives both properties). *)
Require Export RV.Corr.C10_run.
