(* C06 — evaluation functions used by generated case files (correspondence with the real
   SystemLoanFeeReserve / FeeReserveFinalizationSummary and with LedgerSimulator receipts). *)
From Coq Require Import List ZArith Bool.
Import ListNotations.
Require Import RV.Model.C06_Fee.
Open Scope Z_scope.

Definition ferr_eqb (a b : ferr) : bool :=
  match a, b with
  | InsufficientBalance, InsufficientBalance => true | Overflow, Overflow => true
  | LimitExceeded, LimitExceeded => true | LoanRepaymentFailed, LoanRepaymentFailed => true
  | Abort, Abort => true | _, _ => false
  end.
Definition outcome_eqb (a b : outcome) : bool :=
  match a, b with
  | OOk, OOk => true | OErr x, OErr y => ferr_eqb x y | OPanic, OPanic => true | _, _ => false
  end.
Definition optz_eqb (a b : option Z) : bool :=
  match a, b with Some x, Some y => x =? y | None, None => true | _, _ => false end.
Fixpoint zz_eqb (a b : list (Z * Z)) : bool :=
  match a, b with
  | [], [] => true
  | (x, y) :: a', (x', y') :: b' => (x =? x') && (y =? y') && zz_eqb a' b'
  | _, _ => false
  end.
Fixpoint locks_eqb (a b : list (Z * Z * bool)) : bool :=
  match a, b with
  | [], [] => true
  | (x, y, c) :: a', (x', y', c') :: b' => (x =? x') && (y =? y') && Bool.eqb c c' && locks_eqb a' b'
  | _, _ => false
  end.

(* what the harness reads from the real finalisation summary; None where a summary method panicked *)
Record obs_summary := mkObs {
  o_exec_units : Z; o_fin_units : Z; o_exec_xrd : Z; o_fin_xrd : Z; o_tip_xrd : Z;
  o_storage_xrd : Z; o_royalty_xrd : Z; o_bad_debt : Z;
  o_locked : list (Z * Z * bool); o_royalty_bd : list (Z * Z);
  o_total_cost : option Z; o_proposer : option Z; o_validator : option Z; o_burn : option Z
}.

Definition summary_ok (sh : shares) (s : summary) (o : obs_summary) : bool :=
  (s_exec_units s =? o_exec_units o) && (s_fin_units s =? o_fin_units o)
  && (s_exec_xrd s =? o_exec_xrd o) && (s_fin_xrd s =? o_fin_xrd o) && (s_tip_xrd s =? o_tip_xrd o)
  && (s_storage_xrd s =? o_storage_xrd o) && (s_royalty_xrd s =? o_royalty_xrd o)
  && (s_bad_debt s =? o_bad_debt o)
  && locks_eqb (s_locked s) (o_locked o) && zz_eqb (s_royalty_bd s) (o_royalty_bd o)
  && optz_eqb (total_cost s) (o_total_cost o)
  && optz_eqb (to_proposer sh s) (o_proposer o) && optz_eqb (to_validator_set sh s) (o_validator o)
  && optz_eqb (to_burn sh s) (o_burn o).

(* run the ops, comparing outcome and fee_balance() after every op *)
Fixpoint ops_check (r : reserve) (xs : list (fop * outcome * Z)) : option reserve :=
  match xs with
  | [] => Some r
  | (o, out, bal) :: xs' =>
      let '(m, r1) := apply_op r o in
      if outcome_eqb m out then
        match m with
        | OPanic => match xs' with [] => Some r1 | _ => None end
        | _ => if balance r1 =? bal then ops_check r1 xs' else None
        end
      else None
  end.

Definition event_eqb (a b : event) : bool :=
  match a, b with
  | EvDeposit v x, EvDeposit v' x' => (v =? v') && (x =? x')
  | EvPayFee v x, EvPayFee v' x' => (v =? v') && (x =? x')
  | EvBurn x, EvBurn x' => x =? x'
  | _, _ => false
  end.
Fixpoint events_eqb (a b : list event) : bool :=
  match a, b with
  | [], [] => true
  | x :: a', y :: b' => event_eqb x y && events_eqb a' b'
  | _, _ => false
  end.

(* observed on the receipt: fee_source, fee_destination, the finalisation events (tail of the
   application events, vaults mapped to the model's numbering), the change of the rewards vault balance
   and of proposer_rewards[current leader] *)
Inductive dist_obs :=
| DObsPanic
| DObs (payments : list (Z * Z)) (proposer validator burn : Z) (royalties : list (Z * Z))
       (evs : list event) (rewards_vault_delta leader_reward_delta : Z).

Fixpoint lookup_pay (k : Z) (l : list (Z * Z)) : Z :=
  match l with [] => 0 | (k', v) :: l' => if k' =? k then v else lookup_pay k l' end.
(* payments compared as maps vault -> amount (the receipt's map order is not part of the property) *)
Definition pay_eqb (a b : list (Z * Z)) : bool :=
  forallb (fun e => lookup_pay (fst e) b =? snd e) a && forallb (fun e => lookup_pay (fst e) a =? snd e) b.

Inductive case :=
(* unit level: SystemLoanFeeReserve::new(p, tip, free, abort) (new_ok = did not panic), then the ops,
   final `fully_repaid()`, then clone().finalize() and the summary methods *)
| CReserve (sh : shares) (p : params) (t : tip) (free : Z) (abort : bool) (new_ok : bool)
           (xs : list (fop * outcome * Z)) (repaid : bool) (fin : option obs_summary)
(* engine level: the receipt's fee summary (as a summary value with the manifest's locks), the
   transaction's free credit and outcome vs the receipt's fee_source / fee_destination *)
| CDist (sh : shares) (p : params) (t : tip) (s : summary) (free : Z) (is_success : bool) (o : dist_obs).

Definition check (c : case) : bool :=
  match c with
  | CReserve sh p t free abort new_ok xs repaid fin =>
      match reserve_new p t free abort with
      | None => negb new_ok
      | Some r0 =>
          new_ok &&
          match ops_check r0 xs with
          | None => false
          | Some r =>
              match fin with
              | None => true          (* the run ended in a panic: nothing more to compare *)
              | Some o =>
                  Bool.eqb (fully_repaid r) repaid &&
                  match finalize r with
                  | Some s => summary_ok sh s o
                  | None => false
                  end
              end
          end
      end
  | CDist sh p t s free ok o =>
      (* the receipt's costs follow from its units as `finalize` computes them *)
      let cost_ok :=
        match dmul (exec_price p) (of_int (s_exec_units s)), dmul (fin_price p) (of_int (s_fin_units s)) with
        | Some ex, Some fx =>
            (ex =? s_exec_xrd s) && (fx =? s_fin_xrd s) &&
            match dmul ex (proportion t), dmul fx (proportion t) with
            | Some a, Some b => optz_eqb (dadd a b) (Some (s_tip_xrd s))
            | _, _ => false
            end
        | _, _ => false
        end in
      match distribute sh s free ok, o with
      | DPanic _, DObsPanic => true
      | DOk d, DObs pay pr va bu roy evs rv lr =>
          cost_ok && pay_eqb (d_payments d) pay && (d_proposer d =? pr) && (d_validator d =? va)
          && (d_burn d =? bu) && zz_eqb (d_royalties d) roy
          && events_eqb (fee_events s d) evs
          && (lookup_pay REWARDS_VAULT (vault_writes d) =? rv)
          && (match proposer_reward (Some 0) d with Some (_, x) => x | None => 0 end =? lr)
      | _, _ => false
      end
  end.
