(* C13 — evaluation functions used by generated case files (correspondence with SubstateLocks<u32>). *)
From Coq Require Import List NArith Bool.
Import ListNotations.
Require Import RV.Model.C13_Locks.
Open Scope N_scope.

Definition opt_eqb (a b : option N) : bool :=
  match a, b with Some x, Some y => x =? y | None, None => true | _, _ => false end.
Definition out_eqb (a b : out) : bool :=
  match a, b with
  | OutLock x, OutLock y => opt_eqb x y
  | OutEntry k d, OutEntry k' d' => skey_eqb k k' && (d =? d')
  | OutBool x, OutBool y => Bool.eqb x y
  | OutPanic, OutPanic => true
  | _, _ => false
  end.
Fixpoint outs_eqb (a b : list out) : bool :=
  match a, b with
  | [], [] => true
  | x :: a', y :: b' => out_eqb x y && outs_eqb a' b'
  | _, _ => false
  end.

(* a case: the request sequence and the outputs observed on the implementation *)
Definition case := (list op * list out)%type.
(* agreement: the implementation-shaped model AND the reader/writer specification both predict
   the observed outputs (the second conjunct is implied by theorem C13_refines_rw; evaluating it
   anyway makes the check independent of that proof) *)
Definition check (c : case) : bool :=
  outs_eqb (run locks_new (fst c)) (snd c) && outs_eqb (spec_run spec_new (fst c)) (snd c).
