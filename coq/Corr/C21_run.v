(* C21 — evaluation functions used by generated case files: traverser events of the
   implementation vs the stack-machine model, decoder outcome, encoder/decoder depth outcomes. *)
From Coq Require Import List NArith ZArith Bool.
Import ListNotations.
Require Import RV.Model.C20_Sbor RV.Model.C21_Traverser RV.Corr.C20_run.
Open Scope N_scope.

Definition header_eqb (a b : header) : bool :=
  match a, b with
  | HTuple n, HTuple m => n =? m
  | HEnum v n, HEnum w m => (v =? w) && (n =? m)
  | HArray k n, HArray l m => kind_eqb k l && (n =? m)
  | HMap k1 k2 n, HMap l1 l2 m => kind_eqb k1 l1 && kind_eqb k2 l2 && (n =? m)
  | _, _ => false
  end.
Definition tevent_eqb (a b : tevent) : bool :=
  match a, b with
  | EvContainerStart x, EvContainerStart y | EvContainerEnd x, EvContainerEnd y => header_eqb x y
  | EvTerminal x, EvTerminal y => value_eqb x y
  | EvBatch x, EvBatch y => bytes_eqb x y
  | EvEnd, EvEnd => true
  | EvError x, EvError y => dec_err_eqb x y
  | _, _ => false
  end.
Fixpoint path_eqb (a b : list (N * N)) : bool :=
  match a, b with
  | [], [] => true
  | (x1, x2) :: a', (y1, y2) :: b' => (x1 =? y1) && (x2 =? y2) && path_eqb a' b'
  | _, _ => false
  end.
(* the end offset of error events is not modelled (decoder position after a failed read) *)
Definition located_eqb (a b : located) : bool :=
  tevent_eqb (l_ev a) (l_ev b) && (l_start a =? l_start b) && path_eqb (l_path a) (l_path b) &&
  match l_ev a with EvError _ => true | _ => l_end a =? l_end b end.
Fixpoint events_eqb (a b : list located) : bool :=
  match a, b with
  | [], [] => true
  | x :: a', y :: b' => located_eqb x y && events_eqb a' b'
  | _, _ => false
  end.

Definition ev (e : tevent) (s t : N) (p : list (N * N)) : located :=
  {| l_ev := e; l_start := s; l_end := t; l_path := p |}.

Inductive case :=
(* traverser run on input (limit md, check_exact_end) + decoder outcome at the same limit *)
| CTrav (fl : flavour) (md : N) (check_end : bool) (input : bytes) (events : list located)
        (dec : dres value)
(* depth consistency: value v (depth known to the harness), limit md: encoder outcome at md,
   and - for the payload produced at a large limit - decoder outcome and traverser acceptance at md *)
| CDepth (fl : flavour) (md : N) (v : value) (enc : eres bytes) (payload : bytes)
         (dec : dres value) (trav_accepts : bool) (trav_last : tevent).

Definition last_event (r : trun) : option tevent :=
  match r with RDone evs => match rev evs with e :: _ => Some (l_ev e) | [] => None end | _ => None end.

Definition check (c : case) : bool :=
  match c with
  | CTrav fl md ce input events dec =>
    match traverse_payload fl md ce input with
    | RDone evs => events_eqb evs events
    | _ => false
    end && dres_eqb (decode_payload fl md input) dec
  | CDepth fl md v enc payload dec ta tl =>
    eres_eqb (encode_payload fl md v) enc &&
    eres_eqb (encode_payload fl 255 v) (Ok payload) &&
    dres_eqb (decode_payload fl md payload) dec &&
    Bool.eqb (accepts (traverse_payload fl md true payload)) ta &&
    match last_event (traverse_payload fl md true payload) with
    | Some e => tevent_eqb e tl | None => false end
  end.
