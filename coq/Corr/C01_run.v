(* C01 — evaluation for the id-allocator cases: the model of id_allocator.rs instantiated with the
   real hash (H buf = hash(buf).lower_bytes::<30>() = the last 30 bytes of Blake2b-256) must hand out
   exactly the node ids the real IdAllocator handed out for the same transaction hash and the same
   sequence of entity types. *)
From Coq Require Import List NArith Bool.
Import ListNotations.
Require Import RV.Lib.Blake2b RV.Model.C01_IdAlloc.
Open Scope N_scope.

Definition H30 (buf : list N) : list N := skipn 2 (blake2b_256 buf).

Fixpoint bytes_eqb (a b : list N) : bool :=
  match a, b with [], [] => true | x :: a', y :: b' => N.eqb x y && bytes_eqb a' b' | _, _ => false end.
Fixpoint ids_eqb (a b : list (list N)) : bool :=
  match a, b with [], [] => true | x :: a', y :: b' => bytes_eqb x y && ids_eqb a' b' | _, _ => false end.

Definition case := (list N * list N * list (list N))%type.   (* transaction hash, entity types, observed ids *)
Definition check (c : case) : bool :=
  let '(txh, etys, ids) := c in ids_eqb (fst (allocate_all H30 (new txh) etys)) ids.
