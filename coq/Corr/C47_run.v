(* C47 — evaluation functions used by generated case files (correspondence with wasmi.rs host
   functions run in the real WasmiEngine through a forwarding WAT module). *)
From Coq Require Import List NArith Bool String.
Import ListNotations.
Require Import RV.Model.C47_HostMem.
Open Scope N_scope.

(* digest of a byte vector: (length, rolling hash, first 16 bytes, last 16 bytes reversed) *)
Definition digest_t := (N * N * list N * list N)%type.
Definition digest (bs : list N) : digest_t :=
  (N.of_nat (List.length bs),
   fold_left (fun a b => (a * 31 + b) mod 4294967296) bs 0,
   firstn 16 bs, firstn 16 (rev bs)).

Inductive obs : Type :=
| ObsOk (reads : list digest_t)
| ObsErr (e : err)
| ObsPanic
| ObsOther.

Inductive data_spec : Type := DBytes (l : list N) | DPat (t n : N) | DZero (n : N).
Definition data_of (d : data_spec) : list N :=
  match d with
  | DBytes l => l
  | DPat t n => pat_data t n
  | DZero n => repeat 0 (N.to_nat n)
  end.

Inductive sop : Type := SA (len : N) | SC (id dest : N).

Inductive call : Type :=
(* a host function reading the (ptr,len) pairs in order; visible = the runtime receives the vectors *)
| CHost (name : string) (visible : bool) (pages seed : N) (pairs : list (N * N)) (o : obs)
(* the i64 returned by the export, read by invoke_export through read_slice *)
| CReturn (pages seed v : N) (o : obs)
(* write path: consume_buffer (id = Some) with the runtime's table holding the buffer or not, or the
   test-only write of zeros (id = None) *)
| CWrite (name : string) (pages seed : N) (id : option N) (present : bool) (dest : N) (d : data_spec) (o : obs)
(* engine level, the real ScryptoRuntime table inside a transaction (fresh table per call frame): after
   `prior` allocate+consume pairs and one more allocate_buffer, buffer_consume(id, valid pointer) *)
| CBufTx (prior max id : N) (o : obs)
(* same history, then the live buffer (at least `len` bytes) is consumed into `dest`; the instance's
   memory has at most `pages` pages (MAX_MEMORY_SIZE_IN_PAGES, enforced by the validator): a range
   outside the largest memory is outside every memory *)
| CBufPtr (prior max pages dest len : N) (o : obs)
(* engine level, a straight-line script in one call frame of the real ScryptoRuntime: the frame starts
   with the argument buffer (`args` bytes, id 0) live; SA = a host call allocating a buffer of `len`
   bytes, SC = buffer_consume(id, dest) into a memory of `pages` pages; the observation is the first
   error (a host error traps the frame) or success *)
| CBufScript (max pages args : N) (ops : list sop) (o : obs).

Definition nseq (n : N) : list N := map N.of_nat (seq 0 (N.to_nat n)).
Definition prior_ops (prior : N) : list bop := flat_map (fun k => [BAlloc []; BConsume k]) (nseq prior).
Definition obs_of_bout (b : bout) : obs :=
  match b with OData _ => ObsOk [] | OErr e => ObsErr e | _ => ObsOther end.

(* observed memory after the call: size, position-weighted checksum, sampled (index, byte) *)
Definition post_t := (N * N * list (N * N))%type.
Definition case := (call * post_t)%type.

Definition list_eqb (a b : list N) : bool :=
  (N.of_nat (List.length a) =? N.of_nat (List.length b)) && forallb (fun p => fst p =? snd p) (combine a b).
Definition digest_eqb (a b : digest_t) : bool :=
  let '(la, ha, fa, ea) := a in let '(lb, hb, fb, eb) := b in
  (la =? lb) && (ha =? hb) && list_eqb fa fb && list_eqb ea eb.
Fixpoint digests_eqb (a b : list digest_t) : bool :=
  match a, b with
  | [], [] => true
  | x :: a', y :: b' => digest_eqb x y && digests_eqb a' b'
  | _, _ => false
  end.
Definition err_eqb (a b : err) : bool :=
  match a, b with
  | MemoryAccessError, MemoryAccessError => true
  | BufferNotFound x, BufferNotFound y => x =? y
  | TooManyBuffers, TooManyBuffers => true
  | _, _ => false
  end.
Definition obs_eqb (a b : obs) : bool :=
  match a, b with
  | ObsOk x, ObsOk y => digests_eqb x y
  | ObsErr x, ObsErr y => err_eqb x y
  | ObsPanic, ObsPanic => true
  | _, _ => false           (* ObsOther is never predicted *)
  end.

(* The checksum field of the observation covers the whole memory; it is compared by the harness
   oracle (byte-for-byte against the expected memory).  Inside Coq the size and the sampled window
   (around the written range, the memory ends and random positions) are compared. *)
Definition post_ok (m : mem) (p : post_t) : bool :=
  let '(sz, _, win) := p in
  (msize m =? sz) && forallb (fun q => mget m (fst q) =? snd q) win.

Definition obs_of_reads (visible : bool) (r : res (list (list N))) : obs :=
  match r with
  | Ok bss => ObsOk (if visible then map digest bss else [])
  | Err e => ObsErr e
  | Panic => ObsPanic
  end.
Definition obs_of_unit (r : res unit) : obs :=
  match r with Ok _ => ObsOk [] | Err e => ObsErr e | Panic => ObsPanic end.

Fixpoint run_script (st : bufs) (m : mem) (ops : list sop) : obs :=
  match ops with
  | [] => ObsOk []
  | SA len :: t =>
    match allocate_buffer st (repeat 0 (N.to_nat len)) with
    | (Ok _, st') => run_script st' m t
    | (Err e, _) => ObsErr e
    | (Panic, _) => ObsPanic
    end
  | SC id dest :: t =>
    match consume_buffer st m id dest with
    | (Ok _, st', m') => run_script st' m' t
    | (Err e, _, _) => ObsErr e
    | (Panic, _, _) => ObsPanic
    end
  end.

(* model outcome and memory after the call *)
Definition run_call (c : call) : obs * mem :=
  match c with
  | CHost _ visible pages seed pairs _ =>
    let m := pat_mem pages seed in (obs_of_reads visible (host_reads m pairs), m)
  | CReturn pages seed v _ =>
    let m := pat_mem pages seed in
    (obs_of_reads true (match read_slice m v with Ok b => Ok [b] | Err e => Err e | Panic => Panic end), m)
  | CWrite _ pages seed id present dest d _ =>
    let m := pat_mem pages seed in
    match id with
    | Some i =>
      let st := {| btab := if present then [(i, data_of d)] else []; bnext := i + 1; bmax := 4 |} in
      let '(r, _, m') := consume_buffer st m i dest in (obs_of_unit r, m')
    | None => let '(r, m') := write_memory m dest (data_of d) in (obs_of_unit r, m')
    end
  | CBufTx prior max id _ =>
    (obs_of_bout (last (brun (bufs_new max) (prior_ops prior ++ [BAlloc [0]; BConsume id])) (OErr TooManyBuffers)),
     pat_mem 0 0)
  | CBufPtr prior max pages dest len _ =>
    match bexec (bufs_new max) (prior_ops prior ++ [BAlloc (repeat 0 (N.to_nat len))]) with
    | Some st => let '(r, _, _) := consume_buffer st (pat_mem pages 0) prior dest in (obs_of_unit r, pat_mem 0 0)
    | None => (ObsOther, pat_mem 0 0)
    end
  | CBufScript max pages args ops _ =>
    (run_script (bufs_new max) (pat_mem pages 0) (SA args :: ops), pat_mem 0 0)
  end.
Definition observed (c : call) : obs :=
  match c with
  | CHost _ _ _ _ _ o => o | CReturn _ _ _ o => o | CWrite _ _ _ _ _ _ _ o => o
  | CBufTx _ _ _ o => o | CBufPtr _ _ _ _ _ o => o | CBufScript _ _ _ _ o => o
  end.

Definition check (c : case) : bool :=
  let '(o, m') := run_call (fst c) in
  obs_eqb o (observed (fst c)) && post_ok m' (snd c).
