(* C47 — evaluation functions used by generated case files (correspondence with wasmi.rs host
   functions run in the real WasmiEngine through a forwarding WAT module). *)
From Coq Require Import List NArith Bool String.
Import ListNotations.
Require Import RV.Model.C47_HostMem.
Open Scope N_scope.

(* digest of a byte vector: (length, rolling hash, first 16 bytes, last 16 bytes reversed) *)
Definition digest_t := (N * N * list N * list N)%type.
Definition digest (bs : list N) : digest_t :=
  (N.of_nat (List.length bs),
   fold_left (fun a b => (a * 31 + b) mod 4294967296) bs 0,
   firstn 16 bs, firstn 16 (rev bs)).

Inductive obs : Type :=
| ObsOk (reads : list digest_t)
| ObsErr (e : err)
| ObsPanic
| ObsOther.

Inductive data_spec : Type := DBytes (l : list N) | DPat (t n : N) | DZero (n : N).
Definition data_of (d : data_spec) : list N :=
  match d with
  | DBytes l => l
  | DPat t n => pat_data t n
  | DZero n => repeat 0 (N.to_nat n)
  end.

Inductive sop : Type := SA (len : N) | SC (id dest : N).

(* steps on the REAL ScryptoRuntime (layer C): direct allocate_buffer / buffer_consume, a hash host
   function on memory[ptr..ptr+len) through wasmi whose returned i64 the module stores at `scratch`
   (`result` = what the runtime computes from the bytes read), the host function buffer_consume *)
Inductive rstep : Type :=
| RAlloc (d : data_spec)
| RConsume (id : N)
| RHash (ptr len scratch : N) (result : list N)
| RHostConsume (id dest : N).
Inductive rout : Type :=
| ROAlloc (raw id len : N)      (* the raw i64 and what Buffer::id() / Buffer::len() make of it *)
| ROData (dg : digest_t)
| ROOk
| ROErr (e : err)
| ROPanic
| ROOther.

Inductive call : Type :=
(* a host function reading the (ptr,len) pairs in order; visible = the runtime receives the vectors *)
| CHost (name : string) (visible : bool) (pages seed : N) (pairs : list (N * N)) (o : obs)
(* the i64 returned by the export, read by invoke_export through read_slice *)
| CReturn (pages seed v : N) (o : obs)
(* write path: consume_buffer (id = Some) with the runtime's table holding the buffer or not, or the
   test-only write of zeros (id = None) *)
| CWrite (name : string) (pages seed : N) (id : option N) (present : bool) (dest : N) (d : data_spec) (o : obs)
(* engine level, the real ScryptoRuntime table inside a transaction (fresh table per call frame): after
   `prior` allocate+consume pairs and one more allocate_buffer, buffer_consume(id, valid pointer) *)
| CBufTx (prior max id : N) (o : obs)
(* same history, then the live buffer (at least `len` bytes) is consumed into `dest`; the instance's
   memory has at most `pages` pages (MAX_MEMORY_SIZE_IN_PAGES, enforced by the validator): a range
   outside the largest memory is outside every memory *)
| CBufPtr (prior max pages dest len : N) (o : obs)
(* engine level, a straight-line script in one call frame of the real ScryptoRuntime: the frame starts
   with the argument buffer (`args` bytes, id 0) live; SA = a host call allocating a buffer of `len`
   bytes, SC = buffer_consume(id, dest) into a memory of `pages` pages; the observation is the first
   error (a host error traps the frame) or success *)
| CBufScript (max pages args : N) (ops : list sop) (o : obs)
(* layer C: a script of steps on a fresh real ScryptoRuntime with buffer limit `max` and a memory of
   `pages` pages filled with the pattern; `outs` are the observed outputs step by step *)
| CReal (max pages seed : N) (steps : list rstep) (outs : list rout).

Definition nseq (n : N) : list N := map N.of_nat (seq 0 (N.to_nat n)).
Definition prior_ops (prior : N) : list bop := flat_map (fun k => [BAlloc []; BConsume k]) (nseq prior).
Definition obs_of_bout (b : bout) : obs :=
  match b with OData _ => ObsOk [] | OErr e => ObsErr e | _ => ObsOther end.

(* observed memory after the call: size, position-weighted checksum, sampled (index, byte) *)
Definition post_t := (N * N * list (N * N))%type.
Definition case := (call * post_t)%type.

Definition list_eqb (a b : list N) : bool :=
  (N.of_nat (List.length a) =? N.of_nat (List.length b)) && forallb (fun p => fst p =? snd p) (combine a b).
Definition digest_eqb (a b : digest_t) : bool :=
  let '(la, ha, fa, ea) := a in let '(lb, hb, fb, eb) := b in
  (la =? lb) && (ha =? hb) && list_eqb fa fb && list_eqb ea eb.
Fixpoint digests_eqb (a b : list digest_t) : bool :=
  match a, b with
  | [], [] => true
  | x :: a', y :: b' => digest_eqb x y && digests_eqb a' b'
  | _, _ => false
  end.
Definition err_eqb (a b : err) : bool :=
  match a, b with
  | MemoryAccessError, MemoryAccessError => true
  | BufferNotFound x, BufferNotFound y => x =? y
  | TooManyBuffers, TooManyBuffers => true
  | _, _ => false
  end.
Definition obs_eqb (a b : obs) : bool :=
  match a, b with
  | ObsOk x, ObsOk y => digests_eqb x y
  | ObsErr x, ObsErr y => err_eqb x y
  | ObsPanic, ObsPanic => true
  | _, _ => false           (* ObsOther is never predicted *)
  end.

(* The checksum field of the observation covers the whole memory; it is compared by the harness
   oracle (byte-for-byte against the expected memory).  Inside Coq the size and the sampled window
   (around the written range, the memory ends and random positions) are compared. *)
Definition post_ok (m : mem) (p : post_t) : bool :=
  let '(sz, _, win) := p in
  (msize m =? sz) && forallb (fun q => mget m (fst q) =? snd q) win.

Definition obs_of_reads (visible : bool) (r : res (list (list N))) : obs :=
  match r with
  | Ok bss => ObsOk (if visible then map digest bss else [])
  | Err e => ObsErr e
  | Panic => ObsPanic
  end.
Definition obs_of_unit (r : res unit) : obs :=
  match r with Ok _ => ObsOk [] | Err e => ObsErr e | Panic => ObsPanic end.

Fixpoint run_script (st : bufs) (m : mem) (ops : list sop) : obs :=
  match ops with
  | [] => ObsOk []
  | SA len :: t =>
    match allocate_buffer st (repeat 0 (N.to_nat len)) with
    | (Ok _, st') => run_script st' m t
    | (Err e, _) => ObsErr e
    | (Panic, _) => ObsPanic
    end
  | SC id dest :: t =>
    match consume_buffer st m id dest with
    | (Ok _, st', m') => run_script st' m' t
    | (Err e, _, _) => ObsErr e
    | (Panic, _, _) => ObsPanic
    end
  end.

Definition le8 (v : N) : list N := map (fun k => (v / 256 ^ k) mod 256) [0; 1; 2; 3; 4; 5; 6; 7].
Definition rout_of_alloc (r : res (N * N)) : rout :=
  match r with
  | Ok (id, len) => ROAlloc (buffer_pack id len) id len
  | Err e => ROErr e
  | Panic => ROPanic
  end.
Fixpoint run_real (st : bufs) (m : mem) (steps : list rstep) : list rout * mem :=
  match steps with
  | [] => ([], m)
  | RAlloc d :: t =>
    let '(r, st') := allocate_buffer st (data_of d) in
    let '(outs, m') := run_real st' m t in (rout_of_alloc r :: outs, m')
  | RConsume id :: t =>
    let '(r, st') := buffer_consume st id in
    let '(outs, m') := run_real st' m t in
    ((match r with Ok d => ROData (digest d) | Err e => ROErr e | Panic => ROPanic end) :: outs, m')
  | RHash p l scratch result :: t =>
    let '(r, st') := host_call st m [(p, l)] (fun _ => result) in
    match r with
    | Ok v =>
      (* the module stores the returned i64 at `scratch` (a WASM store, little endian) *)
      let m1 := mem_store m scratch (le8 v) in
      let '(outs, m') := run_real st' m1 t in
      (ROAlloc v (buffer_id v) (buffer_len v) :: outs, m')
    | Err e => let '(outs, m') := run_real st' m t in (ROErr e :: outs, m')
    | Panic => ([ROPanic], m)
    end
  | RHostConsume id dest :: t =>
    let '(r, st', m1) := consume_buffer st m id dest in
    let '(outs, m') := run_real st' m1 t in
    ((match r with Ok _ => ROOk | Err e => ROErr e | Panic => ROPanic end) :: outs, m')
  end.
Definition rout_eqb (a b : rout) : bool :=
  match a, b with
  | ROAlloc r i l, ROAlloc r' i' l' => (r =? r') && (i =? i') && (l =? l')
  | ROData x, ROData y => digest_eqb x y
  | ROOk, ROOk => true
  | ROErr x, ROErr y => err_eqb x y
  | ROPanic, ROPanic => true
  | _, _ => false
  end.
Fixpoint routs_eqb (a b : list rout) : bool :=
  match a, b with
  | [], [] => true
  | x :: a', y :: b' => rout_eqb x y && routs_eqb a' b'
  | _, _ => false
  end.
(* the table part of a script also against the abstract specification (theorem C47_buffer_table_refines_spec) *)
Definition table_ops (steps : list rstep) : list bop :=
  flat_map (fun s => match s with RAlloc d => [BAlloc (data_of d)] | RConsume id => [BConsume id] | _ => [] end) steps.
Definition only_table (steps : list rstep) : bool :=
  forallb (fun s => match s with RAlloc _ | RConsume _ => true | _ => false end) steps.
Definition rout_of_bout (b : bout) : rout :=
  match b with
  | OAlloc id len => ROAlloc (buffer_pack id len) id len
  | OData d => ROData (digest d)
  | OErr e => ROErr e
  | OPanic => ROPanic
  end.

(* model outcome and memory after the call *)
Definition run_call (c : call) : obs * mem :=
  match c with
  | CHost _ visible pages seed pairs _ =>
    let m := pat_mem pages seed in (obs_of_reads visible (host_reads m pairs), m)
  | CReturn pages seed v _ =>
    let m := pat_mem pages seed in
    (obs_of_reads true (match read_slice m v with Ok b => Ok [b] | Err e => Err e | Panic => Panic end), m)
  | CWrite _ pages seed id present dest d _ =>
    let m := pat_mem pages seed in
    match id with
    | Some i =>
      let st := {| btab := if present then [(i, data_of d)] else []; bnext := i + 1; bmax := 4 |} in
      let '(r, _, m') := consume_buffer st m i dest in (obs_of_unit r, m')
    | None => let '(r, m') := write_memory m dest (data_of d) in (obs_of_unit r, m')
    end
  | CBufTx prior max id _ =>
    (obs_of_bout (last (brun (bufs_new max) (prior_ops prior ++ [BAlloc [0]; BConsume id])) (OErr TooManyBuffers)),
     pat_mem 0 0)
  | CBufPtr prior max pages dest len _ =>
    match bexec (bufs_new max) (prior_ops prior ++ [BAlloc (repeat 0 (N.to_nat len))]) with
    | Some st => let '(r, _, _) := consume_buffer st (pat_mem pages 0) prior dest in (obs_of_unit r, pat_mem 0 0)
    | None => (ObsOther, pat_mem 0 0)
    end
  | CBufScript max pages args ops _ =>
    (run_script (bufs_new max) (pat_mem pages 0) (SA args :: ops), pat_mem 0 0)
  | CReal max pages seed steps outs =>
    let '(mo, m') := run_real (bufs_new max) (pat_mem pages seed) steps in
    ((if routs_eqb mo outs
         && (negb (only_table steps)
             || routs_eqb (map rout_of_bout (spec_run (spec_new max) (table_ops steps))) outs)
      then ObsOk [] else ObsOther), m')
  end.
Definition observed (c : call) : obs :=
  match c with
  | CHost _ _ _ _ _ o => o | CReturn _ _ _ o => o | CWrite _ _ _ _ _ _ _ o => o
  | CBufTx _ _ _ o => o | CBufPtr _ _ _ _ _ o => o | CBufScript _ _ _ _ o => o
  | CReal _ _ _ _ _ => ObsOk []
  end.

Definition check (c : case) : bool :=
  let '(o, m') := run_call (fst c) in
  obs_eqb o (observed (fst c)) && post_ok m' (snd c).
