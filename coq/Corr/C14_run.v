(* C14 — evaluation functions used by generated case files (correspondence with
   SubstateDatabaseOverlay over InMemorySubstateDatabase). *)
From Coq Require Import List Arith NArith Bool.
Import ListNotations.
Require Import RV.Lib.Bytes RV.Lib.SortedMap RV.Model.C14_Store RV.Model.C14_Overlay.
Open Scope N_scope.

Definition opt_bytes_eqb (a b : option bytes) : bool :=
  match a, b with Some x, Some y => beqb x y | None, None => true | _, _ => false end.
Fixpoint entries_eqb (a b : list (bytes * bytes)) : bool :=
  match a, b with
  | [], [] => true
  | (k, v) :: a', (k', v') :: b' => beqb k k' && beqb v v' && entries_eqb a' b'
  | _, _ => false
  end.
Fixpoint dump_eqb (a b : list (pkey * list (bytes * bytes))) : bool :=
  match a, b with
  | [], [] => true
  | (k, v) :: a', (k', v') :: b' => pk_eqb k k' && entries_eqb v v' && dump_eqb a' b'
  | _, _ => false
  end.

Fixpoint pks_eqb (a b : list pkey) : bool :=
  match a, b with
  | [], [] => true
  | x :: a', y :: b' => pk_eqb x y && pks_eqb a' b'
  | _, _ => false
  end.
Definition upd_eqb (a b : db_update) : bool :=
  match a, b with USet x, USet y => beqb x y | UDelete, UDelete => true | _, _ => false end.
Fixpoint delta_eqb (a b : list (bytes * db_update)) : bool :=
  match a, b with
  | [], [] => true
  | (k, v) :: a', (k', v') :: b' => beqb k k' && upd_eqb v v' && delta_eqb a' b'
  | _, _ => false
  end.
Definition part_eqb (a b : part_updates) : bool :=
  match a, b with
  | PDelta x, PDelta y => delta_eqb x y
  | PReset x, PReset y => entries_eqb x y
  | _, _ => false
  end.
Fixpoint node_eqb (a b : node_updates) : bool :=
  match a, b with
  | [], [] => true
  | (k, v) :: a', (k', v') :: b' => (k =? k') && part_eqb v v' && node_eqb a' b'
  | _, _ => false
  end.
Fixpoint updates_eqb (a b : db_updates) : bool :=
  match a, b with
  | [], [] => true
  | (k, v) :: a', (k', v') :: b' => beqb k k' && node_eqb v v' && updates_eqb a' b'
  | _, _ => false
  end.

Inductive op :=
| OCommit (u : db_updates)                                      (* overlay.commit(u) *)
| OGet (pk : pkey) (sk : bytes) (out : option bytes)            (* get_raw_substate_by_db_key *)
| OList (pk : pkey) (from : option bytes) (out : list (bytes * bytes))  (* list_raw_values_from_db_key, collected *)
| OParts (out : list pkey)                                      (* overlay.list_partition_keys(), in the order yielded *)
| OUpdates (u : db_updates)                                     (* overlay.database_updates(), in the order of the IndexMaps *)
| OMerge (dump : list (pkey * list (bytes * bytes))).           (* commit_overlay_into_root_store, then the
                                                                   root's partitions (in list_partition_keys order) and their full listings *)

(* runs the overlay model and, next to it, the specification (the base with the commits applied);
   every observed output must equal both *)
Fixpoint run (o : overlay) (spec : memdb) (ops : list op) : bool :=
  match ops with
  | [] => true
  | OCommit u :: r => run (ov_commit o u) (mem_commit spec u) r
  | OGet pk sk out :: r =>
      opt_bytes_eqb (ov_get o pk sk) out && opt_bytes_eqb (mem_get spec pk sk) out && run o spec r
  | OList pk from out :: r =>
      entries_eqb (ov_list o pk from) out && entries_eqb (mem_list spec pk from) out && run o spec r
  | OParts out :: r =>
      (* the model as written; and the proved relation to the specification: the spec's partitions are
         the yielded ones with a non-empty listing *)
      pks_eqb (ov_list_partition_keys o) out &&
      pks_eqb (mem_list_partition_keys spec)
              (filter (fun pk => match mem_list spec pk None with [] => false | _ => true end) out) &&
      run o spec r
  | OUpdates u :: r =>
      updates_eqb (ov_database_updates o) u && dump_eqb (mem_commit (ov_root o) u) spec && run o spec r
  | OMerge dump :: r =>
      let o' := ov_commit_into_root o in
      dump_eqb (ov_root o') dump && dump_eqb spec dump && run o' spec r
  end.

(* a case: the commits that build the base database (applied to an empty in-memory database),
   then the operations on an overlay over it *)
Definition case := (list db_updates * list op)%type.
Definition check (c : case) : bool :=
  let base := apply_commits mem_new (fst c) in
  db_wfb base && run (overlay_new base) base (snd c).
