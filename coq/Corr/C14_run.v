(* C14 — evaluation functions used by generated case files (correspondence with
   SubstateDatabaseOverlay over InMemorySubstateDatabase). *)
From Coq Require Import List Arith NArith Bool.
Import ListNotations.
Require Import RV.Lib.Bytes RV.Lib.SortedMap RV.Model.C14_Store RV.Model.C14_Overlay.
Open Scope N_scope.

Definition opt_bytes_eqb (a b : option bytes) : bool :=
  match a, b with Some x, Some y => beqb x y | None, None => true | _, _ => false end.
Fixpoint entries_eqb (a b : list (bytes * bytes)) : bool :=
  match a, b with
  | [], [] => true
  | (k, v) :: a', (k', v') :: b' => beqb k k' && beqb v v' && entries_eqb a' b'
  | _, _ => false
  end.
Fixpoint dump_eqb (a b : list (pkey * list (bytes * bytes))) : bool :=
  match a, b with
  | [], [] => true
  | (k, v) :: a', (k', v') :: b' => pk_eqb k k' && entries_eqb v v' && dump_eqb a' b'
  | _, _ => false
  end.

Inductive op :=
| OCommit (u : db_updates)                                      (* overlay.commit(u) *)
| OGet (pk : pkey) (sk : bytes) (out : option bytes)            (* get_raw_substate_by_db_key *)
| OList (pk : pkey) (from : option bytes) (out : list (bytes * bytes))  (* list_raw_values_from_db_key, collected *)
| OMerge (dump : list (pkey * list (bytes * bytes))).           (* commit_overlay_into_root_store, then the
                                                                   root's partitions (in list_partition_keys order) and their full listings *)

(* runs the overlay model and, next to it, the specification (the base with the commits applied);
   every observed output must equal both *)
Fixpoint run (o : overlay) (spec : memdb) (ops : list op) : bool :=
  match ops with
  | [] => true
  | OCommit u :: r => run (ov_commit o u) (mem_commit spec u) r
  | OGet pk sk out :: r =>
      opt_bytes_eqb (ov_get o pk sk) out && opt_bytes_eqb (mem_get spec pk sk) out && run o spec r
  | OList pk from out :: r =>
      entries_eqb (ov_list o pk from) out && entries_eqb (mem_list spec pk from) out && run o spec r
  | OMerge dump :: r =>
      let o' := ov_commit_into_root o in
      dump_eqb (ov_root o') dump && dump_eqb spec dump && run o' spec r
  end.

(* a case: the commits that build the base database (applied to an empty in-memory database),
   then the operations on an overlay over it *)
Definition case := (list db_updates * list op)%type.
Definition check (c : case) : bool :=
  let base := apply_commits mem_new (fst c) in
  db_wfb base && run (overlay_new base) base (snd c).
