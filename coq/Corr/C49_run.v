(* C49 — evaluation functions used by generated case files (correspondence with LimitsModule,
   SystemModuleMixer and whole transactions run on LedgerSimulator). *)
From Coq Require Import List NArith Bool.
Import ListNotations.
Require Import RV.Model.C49_Limits.
Open Scope N_scope.

Definition lerr_eqb (a b : lerr) : bool :=
  match a, b with
  | KeyExceeded x, KeyExceeded y => x =? y
  | ValueExceeded x, ValueExceeded y => x =? y
  | InvokeExceeded x, InvokeExceeded y => x =? y
  | CallDepthReached, CallDepthReached => true
  | TrackExceeded x m, TrackExceeded y n => (x =? y) && (m =? n)
  | HeapExceeded x m, HeapExceeded y n => (x =? y) && (m =? n)
  | LogTooLarge x m, LogTooLarge y n => (x =? y) && (m =? n)
  | EventTooLarge x m, EventTooLarge y n => (x =? y) && (m =? n)
  | PanicTooLarge x m, PanicTooLarge y n => (x =? y) && (m =? n)
  | TooManyLogs, TooManyLogs => true
  | TooManyEvents, TooManyEvents => true
  | _, _ => false
  end.
Definition res_eqb (a b : res) : bool :=
  match a, b with
  | ROk, ROk => true
  | RErr x, RErr y => lerr_eqb x y
  | RPanic, RPanic => true
  | _, _ => false
  end.
Fixpoint ress_eqb (a b : list res) : bool :=
  match a, b with
  | [], [] => true
  | x :: a', y :: b' => res_eqb x y && ress_eqb a' b'
  | _, _ => false
  end.

(* CDirect: the module objects driven call by call: every answer, and the number of logs and
   events stored at the end.
   CTx: a whole transaction: `out` is the TransactionLimitsError of the receipt (ROk = the
   transaction was not failed by a limit; RPanic = a panic inside native code, reported as
   VmError::Native(Trap)). *)
Inductive case :=
| CDirect (c : config) (f : flags) (ops : list op) (outs : list res) (nlogs nevents : N)
| CTx (c : config) (f : flags) (ops : list op) (out : res)
(* CBoundary: one program (unknown event list) executed under several values of the heap (true) or
   track (false) total limit: (limit, None) = committed, (limit, Some x) = failed with the limit
   error x (directly, or wrapped in a TypeCheckError: `surfaced`). *)
| CBoundary (heap : bool) (obs : list (N * option surfaced)).

Definition boundary_cfg (heap : bool) (l : N) : config :=
  if heap then mkConfig 8 l 67108864 1024 2097152 1048576 65536 32768 32768 256 256
  else mkConfig 8 67108864 l 1024 2097152 1048576 65536 32768 32768 256 256.
Definition boundary_state (heap : bool) (a : N) : state :=
  if heap then mkState a 0 0 0 0 else mkState 0 a 0 0 0.
Definition failure_ok (heap : bool) (l : N) (x : surfaced) : bool :=
  match surfaced_err x with
  | HeapExceeded a m =>
      heap && res_eqb (check_totals (boundary_cfg true l) (boundary_state true a)) (RErr (HeapExceeded a m))
  | TrackExceeded a m =>
      negb heap && res_eqb (check_totals (boundary_cfg false l) (boundary_state false a)) (RErr (TrackExceeded a m))
  | _ => false
  end.
Definition actual_of (x : surfaced) : N :=
  match surfaced_err x with HeapExceeded a _ | TrackExceeded a _ => a | _ => 0 end.

Definition check (k : case) : bool :=
  match k with
  | CDirect c f ops outs nl ne =>
      let '(rs, s) := run_all c f state0 ops in
      ress_eqb rs outs && (logs s =? nl) && (events s =? ne)
  | CTx c f ops out => res_eqb (tx_outcome c f ops) out
  | CBoundary heap obs =>
      (* a failure under limit l reports a total that check_totals rejects under l, with max = l *)
      forallb (fun o : N * option surfaced =>
                 match snd o with Some x => failure_ok heap (fst o) x && receipt_failed (snd o) | None => true end) obs
      (* the program committed under l: every total it ever reports is within l (a run passes iff no
         total exceeds the limit; the totals do not depend on the limit) *)
      && forallb (fun o : N * option surfaced =>
                    match snd o with
                    | None => forallb (fun o' : N * option surfaced =>
                                         match snd o' with
                                         | Some x => res_eqb (check_totals (boundary_cfg heap (fst o)) (boundary_state heap (actual_of x))) ROk
                                         | None => true
                                         end) obs
                    | Some _ => true
                    end) obs
  end.
