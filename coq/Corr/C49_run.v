(* C49 — evaluation functions used by generated case files (correspondence with LimitsModule,
   SystemModuleMixer and whole transactions run on LedgerSimulator). *)
From Coq Require Import List NArith Bool.
Import ListNotations.
Require Import RV.Model.C49_Limits.
Open Scope N_scope.

Definition lerr_eqb (a b : lerr) : bool :=
  match a, b with
  | KeyExceeded x, KeyExceeded y => x =? y
  | ValueExceeded x, ValueExceeded y => x =? y
  | InvokeExceeded x, InvokeExceeded y => x =? y
  | CallDepthReached, CallDepthReached => true
  | TrackExceeded x m, TrackExceeded y n => (x =? y) && (m =? n)
  | HeapExceeded x m, HeapExceeded y n => (x =? y) && (m =? n)
  | LogTooLarge x m, LogTooLarge y n => (x =? y) && (m =? n)
  | EventTooLarge x m, EventTooLarge y n => (x =? y) && (m =? n)
  | PanicTooLarge x m, PanicTooLarge y n => (x =? y) && (m =? n)
  | TooManyLogs, TooManyLogs => true
  | TooManyEvents, TooManyEvents => true
  | _, _ => false
  end.
Definition res_eqb (a b : res) : bool :=
  match a, b with
  | ROk, ROk => true
  | RErr x, RErr y => lerr_eqb x y
  | RPanic, RPanic => true
  | _, _ => false
  end.
Fixpoint ress_eqb (a b : list res) : bool :=
  match a, b with
  | [], [] => true
  | x :: a', y :: b' => res_eqb x y && ress_eqb a' b'
  | _, _ => false
  end.

(* CDirect: the module objects driven call by call: every answer, and the number of logs and
   events stored at the end.
   CTx: a whole transaction: `out` is the TransactionLimitsError of the receipt (ROk = the
   transaction was not failed by a limit; RPanic = a panic inside native code, reported as
   VmError::Native(Trap)). *)
Inductive case :=
| CDirect (c : config) (f : flags) (ops : list op) (outs : list res) (nlogs nevents : N)
| CTx (c : config) (f : flags) (ops : list op) (out : res).

Definition check (k : case) : bool :=
  match k with
  | CDirect c f ops outs nl ne =>
      let '(rs, s) := run_all c f state0 ops in
      ress_eqb rs outs && (logs s =? nl) && (events s =? ne)
  | CTx c f ops out => res_eqb (tx_outcome c f ops) out
  end.
