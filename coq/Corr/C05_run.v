(* C05 — evaluation: the (node, is_global, owners) relation extracted from the real database after a
   history must be a forest in the sense of the model: every internal node has exactly one owner,
   global nodes have none, every owner is a stored node, and following owners from any node reaches
   a global node within |nodes| steps (no cycle).  The relation is then loaded into the model's
   store representation (owners before the nodes they own) and [root_of] must find a global root. *)
From Coq Require Import List NArith Bool.
Import ListNotations.
Require Import RV.Model.C05_Kernel.
Open Scope N_scope.

Definition entry := (N * bool * list N)%type.
Definition case := list entry.

Fixpoint find_entry (x : N) (l : list entry) : option entry :=
  match l with [] => None | (y, g, os) :: t => if N.eqb x y then Some (y, g, os) else find_entry x t end.

Definition shape_ok (l : list entry) : bool :=
  forallb (fun (e : entry) => let '(x, g, os) := e in
    if g then match os with [] => true | _ => false end
    else match os with [o] => match find_entry o l with Some _ => negb (N.eqb o x) | None => false end | _ => false end) l.

(* follow owners with fuel *)
Fixpoint climbs (fuel : nat) (x : N) (l : list entry) : bool :=
  match fuel with
  | O => false
  | S f => match find_entry x l with
           | Some (_, true, _) => true
           | Some (_, false, [o]) => climbs f o l
           | _ => false
           end
  end.

(* depth of a node = number of owners above it *)
Fixpoint depth (fuel : nat) (x : N) (l : list entry) : nat :=
  match fuel with
  | O => O
  | S f => match find_entry x l with
           | Some (_, false, [o]) => S (depth f o l)
           | _ => O
           end
  end.
(* insertion sort of entries by decreasing depth gives a store list in which owners are older *)
Fixpoint insert_by (d : entry -> nat) (e : entry) (l : list entry) : list entry :=
  match l with
  | [] => [e]
  | h :: t => if Nat.leb (d h) (d e) then e :: l else h :: insert_by d e t
  end.
Definition to_store (l : list entry) : list (N * option N) :=
  let d := fun (e : entry) => let '(x, _, _) := e in depth (length l) x l in
  map (fun (e : entry) => let '(x, g, os) := e in (x, match os with [o] => Some o | _ => None end))
      (fold_right (insert_by d) [] l).

Definition check (c : case) : bool :=
  shape_ok c
  && forallb (fun (e : entry) => let '(x, _, _) := e in climbs (S (length c)) x c) c
  && (let st := to_store c in
      forallb (fun (e : entry) => let '(x, _, _) := e in match root_of x st with Some g => match find_entry g c with Some (_, true, _) => true | _ => false end | None => false end) c).
