(* C36 — evaluation functions used by generated case files (correspondence with StaticManifestInterpreter). *)
From Coq Require Import List NArith Bool.
Import ListNotations.
Require Import RV.Model.C36_ManifestIds.
Open Scope N_scope.

Definition verr_eqb (a b : verr) : bool :=
  match a, b with
  | EDuplicateBlob x, EDuplicateBlob y | EBlobNotRegistered x, EBlobNotRegistered y
  | EBucketNotYetCreated x, EBucketNotYetCreated y | EBucketAlreadyUsed x, EBucketAlreadyUsed y
  | EBucketLocked x, EBucketLocked y | EProofNotYetCreated x, EProofNotYetCreated y
  | EProofAlreadyUsed x, EProofAlreadyUsed y | EResNotYetCreated x, EResNotYetCreated y
  | EResAlreadyUsed x, EResAlreadyUsed y | ENamedNotYetCreated x, ENamedNotYetCreated y
  | EChildNotRegistered x, EChildNotRegistered y | EDanglingBucket x, EDanglingBucket y
  | EDanglingRes x, EDanglingRes y => N.eqb x y
  | ENotSupportedInTxIntent, ENotSupportedInTxIntent | ESubintentEnd, ESubintentEnd
  | EProofToOtherIntent, EProofToOtherIntent | EInvalidConstraint, EInvalidConstraint
  | ENextCallNotInvocation, ENextCallNotInvocation | EEndedExpectingNextCall, EEndedExpectingNextCall => true
  | _, _ => false
  end.
Definition res_eqb (a b : res unit) : bool :=
  match a, b with
  | Ok _, Ok _ => true
  | Err x, Err y => verr_eqb x y
  | Panic, Panic => true
  | _, _ => false
  end.

(* a case: ruleset, manifest (id-level), the result of the real interpreter *)
Definition case := (ruleset * manifest * res unit)%type.
(* agreement of the static model; additionally, on accepted manifests the run-time id machine of the
   model must not report a missing bucket/proof/reservation (implied by C36_runtime_simulation;
   evaluated anyway so that the check does not depend on that proof) *)
Definition check (c : case) : bool :=
  let '(rs, m, r) := c in
  res_eqb (validate rs m) r &&
  match r with
  | Ok _ => match rt_run false m with
            | RErr (NFBucket _) => negb (r_assert rs)
            | RErr (NFProof _) | RErr (NFRes _) => false
            | _ => true
            end
            && (negb (r_lock rs) || match rt_run true m with RErr (LockedBucket _) => false | _ => true end)
  | _ => true
  end.
