(* C26 — evaluation function used by generated case files. *)
From Coq Require Import List ZArith Bool.
Import ListNotations.
Require Import RV.Lib.DecCore RV.Model.C26_RootPow.
Open Scope Z_scope.
Definition case := (bool * rpop * res Z)%type.
Definition fmt_of (b : bool) : fmt := if b then DEC else PDEC.
Definition check (c : case) : bool :=
  match c with (b, o, out) =>
    (* the recorded output serves as a hint for the integer root (root_hint = troot, proved) *)
    let h := match out with Ok r => Some r | _ => None end in
    resZ_eqb (run_rp_with (root_hint h) (fmt_of b) o) out
  end.
