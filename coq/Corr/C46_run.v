(* C46 — evaluation functions used by generated case files.
   A case = the original MiniWasm program, the program parsed back from the output of
   WasmModule::inject_instruction_metering (each `i64.const c; call $gas` read as `Charge c`), the
   argument of `main`, what wasmi observed on the original (value or trap, final globals) and the
   total gas wasmi saw charged by the instrumented module. *)
From Coq Require Import List ZArith Bool.
Import ListNotations.
Require Import RV.Model.C46_MiniWasm RV.Model.C46_Meter RV.Gen.C46_weights.
Open Scope Z_scope.

Definition binop_eqb (a b : binop) : bool :=
  match a, b with
  | Add, Add | Sub, Sub | Mul, Mul | DivU, DivU | RemU, RemU | And, And | Or, Or | Xor, Xor
  | Eq, Eq | Ne, Ne | LtU, LtU | GtU, GtU | LeU, LeU | GeU, GeU => true
  | _, _ => false
  end.
Fixpoint instr_eqb (a b : instr) {struct a} : bool :=
  let list_eqb := fix go (x y : list instr) {struct x} : bool :=
    match x, y with
    | [], [] => true
    | p :: r, q :: t => instr_eqb p q && go r t
    | _, _ => false
    end in
  match a, b with
  | Const x, Const y => x =? y
  | Bin x, Bin y => binop_eqb x y
  | Eqz, Eqz | Drop, Drop | Nop, Nop | Unreachable, Unreachable | Return, Return => true
  | LocalGet x, LocalGet y | LocalSet x, LocalSet y | LocalTee x, LocalTee y
  | GlobalGet x, GlobalGet y | GlobalSet x, GlobalSet y | Br x, Br y | BrIf x, BrIf y
  | Call x, Call y => Nat.eqb x y
  | Load x, Load y | Store x, Store y | Charge x, Charge y | Tick x, Tick y => x =? y
  | Block x, Block y | Loop x, Loop y => list_eqb x y
  | If t e, If t' e' => list_eqb t t' && list_eqb e e'
  | _, _ => false
  end.
Fixpoint instrs_eqb (x y : list instr) : bool :=
  match x, y with
  | [], [] => true
  | p :: r, q :: t => instr_eqb p q && instrs_eqb r t
  | _, _ => false
  end.
Definition func_eqb (a b : func) : bool :=
  Nat.eqb (f_params a) (f_params b) && Nat.eqb (f_locals a) (f_locals b) &&
  Bool.eqb (f_result a) (f_result b) && instrs_eqb (f_body a) (f_body b).
Fixpoint prog_eqb (x y : prog) : bool :=
  match x, y with
  | [], [] => true
  | p :: r, q :: t => func_eqb p q && prog_eqb r t
  | _, _ => false
  end.
Fixpoint zs_eqb (x y : list Z) : bool :=
  match x, y with
  | [], [] => true
  | p :: r, q :: t => (p =? q) && zs_eqb r t
  | _, _ => false
  end.

Inductive obs := ObsValue (v : Z) | ObsTrap.
Record case := mkCase {
  k_orig : prog; k_inst : prog; k_arg : Z; k_obs : obs; k_globals : list Z;
  k_gas : Z;      (* total charged by the instrumented module under wasmi *)
  k_naive : Z }.  (* total charged under wasmi by the same program with every instruction charged
                     individually (Rules::instruction_cost) = cost of the executed path *)

(* the metered-block algorithm of the model with the costs read from the code; the harness's
   emitter declares one extra local (the store scratch) *)
Definition meter (p : prog) : prog := meter_prog c46_cost c46_per_local 1 p.

Definition FUEL : nat := Nat.pow 2 17.
Definition MEM_CELLS : nat := 8192.
(* the harness's modules: 3 globals initialised to 0, 7, 14; one page of memory = 8192 cells *)
Definition init (arg budget : Z) : state :=
  mkSt [wrap arg] [] [0; 7; 14] (repeat 0 MEM_CELLS) budget 0 0.

(* run `main` (function 0, one parameter, one result) *)
Definition run (p : prog) (arg budget : Z) : outcome := exec FUEL p (init arg budget) [Call 0%nat].

Definition agrees (o : outcome) (ob : obs) (gl : list Z) : bool :=
  match o, ob with
  | Normal s, ObsValue v => match stack s with r :: _ => (r =? v) && zs_eqb (globals s) gl | [] => false end
  | Trap, ObsTrap => true
  | _, _ => false
  end.
Definition charged_of (o : outcome) : option Z :=
  match o with Normal s | Branch _ s | Ret s => Some (charged s) | _ => None end.

Definition spent_of (o : outcome) : option Z :=
  match o with Normal s | Branch _ s | Ret s => Some (spent s) | _ => None end.

Definition check (c : case) : bool :=
  (* the instrumentation only inserted charges ... *)
  prog_eqb (erase_prog (k_inst c)) (k_orig c) &&
  (* ... and exactly the charges the model of the metered-block algorithm places (positions and amounts) *)
  prog_eqb (strip_prog (meter (k_orig c))) (k_inst c) &&
  (* the model interpreter agrees with wasmi on the original program *)
  agrees (run (k_orig c) (k_arg c) 0) (k_obs c) (k_globals c) &&
  (* on the metered program (with the ghost ticks): same meaning; with an exact budget it charges
     exactly the observed gas, and the ghost counter equals the naive per-instruction total *)
  (let o := run (meter (k_orig c)) (k_arg c) (k_gas c) in
   agrees o (k_obs c) (k_globals c) &&
   match k_obs c, charged_of o, spent_of o with
   | ObsValue _, Some g, Some sp => (g =? k_gas c) && (sp =? k_naive c)
   | ObsValue _, _, _ => false
   | ObsTrap, _, _ => true
   end) &&
  (* one unit less: the model runs out of gas *)
  (if 0 <? k_gas c
   then match run (k_inst c) (k_arg c) (k_gas c - 1) with OutOfGas => true | _ => false end
   else true).
