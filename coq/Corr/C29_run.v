(* C29 — evaluation functions used by generated case files (correspondence with
   radix_common::time::{UtcDateTime, Instant}). *)
From Coq Require Import List ZArith Bool.
Import ListNotations.
Require Import RV.Model.C29_Calendar.
Open Scope Z_scope.

Definition dt_eqb (a b : dt) : bool :=
  (year a =? year b) && (month a =? month b) && (day a =? day b)
  && (hour a =? hour b) && (minute a =? minute b) && (second a =? second b).
Definition err_code (e : dt_error) : Z :=
  match e with
  | InvalidYear => 0 | InvalidMonth => 1 | InvalidDayOfMonth => 2 | InvalidHour => 3
  | InvalidMinute => 4 | InvalidSecond => 5 | InstantIsOutOfRange => 6
  end.
Definition perr_code (e : parse_error) : Z :=
  match e with InvalidFormat => 100 | DateTimeError e => err_code e end.

Definition res_eqb {E A} (ec : E -> Z) (eqb : A -> A -> bool) (a b : res E A) : bool :=
  match a, b with
  | Ok x, Ok y => eqb x y
  | Err e, Err f => ec e =? ec f
  | Panic, Panic => true
  | _, _ => false
  end.
Definition opt_eqb {A} (eqb : A -> A -> bool) (a b : option A) : bool :=
  match a, b with Some x, Some y => eqb x y | None, None => true | _, _ => false end.
Fixpoint bytes_eqb (a b : list Z) : bool :=
  match a, b with
  | [], [] => true
  | x :: a', y :: b' => (x =? y) && bytes_eqb a' b'
  | _, _ => false
  end.
Definition cmp_code (c : comparison) : Z := match c with Lt => -1 | Eq => 0 | Gt => 1 end.

(* a case: one call on the implementation with its canonicalised result *)
Inductive case :=
| KFromInstant (t : Z) (r : res dt_error dt)
| KToInstant (d : dt) (r : res dt_error Z)               (* d may be invalid (built by SBOR decode) *)
| KNew (y m d h mi s : Z) (r : res dt_error dt)
| KAdd (unit : Z) (d : dt) (n : Z) (r : res dt_error (option dt))
| KInstantAdd (unit t n : Z) (r : option Z)
| KCompare (a b : dt) (c : Z)                              (* derived Ord: -1, 0, 1 *)
| KParse (s : list Z) (r : res parse_error dt)
| KPrint (d : dt) (s : list Z).

Definition check (c : case) : bool :=
  match c with
  | KFromInstant t r => res_eqb err_code dt_eqb (from_instant t) r
  | KToInstant d r => res_eqb err_code Z.eqb (to_instant d) r
  | KNew y m d h mi s r => res_eqb err_code dt_eqb (new y m d h mi s) r
  | KAdd u d n r => res_eqb err_code (opt_eqb dt_eqb) (dt_add u d n) r
  | KInstantAdd u t n r => opt_eqb Z.eqb (instant_add u t n) r
  | KCompare a b c => cmp_code (dt_compare a b) =? c
  | KParse s r => res_eqb perr_code dt_eqb (from_str s) r
  | KPrint d s => bytes_eqb (print d) s
  end.
