(* C38 — evaluation: the bound algebra model vs LowerBound / UpperBound of the implementation. *)
From Coq Require Import List ZArith Bool.
Import ListNotations.
Require Import RV.Model.C37_Constraint RV.Model.C38_Bounds RV.Corr.C37_run.
Open Scope Z_scope.

Definition cmp_eqb (a b : comparison) : bool :=
  match a, b with Lt, Lt | Eq, Eq | Gt, Gt => true | _, _ => false end.
Definition bres_eqb {A} (eqb : A -> A -> bool) (a b : bres A) : bool :=
  match a, b with
  | BOk x, BOk y => eqb x y
  | BOverflow, BOverflow | BTakeCannotBeSatisfied, BTakeCannotBeSatisfied | BPanic, BPanic => true
  | _, _ => false
  end.
Definition gerr_eqb (a b : gerr) : bool :=
  match a, b with
  | GEOverflow, GEOverflow | GEDuplicateId, GEDuplicateId | GETakeCannotBeSatisfied, GETakeCannotBeSatisfied
  | GENegativeAmount, GENegativeAmount | GEAssertionCannotBeSatisfied, GEAssertionCannotBeSatisfied => true
  | _, _ => false
  end.
Definition gres_eqb (a b : gres) : bool :=
  match a, b with
  | GOk x, GOk y => general_eqb x y
  | GErr x, GErr y => gerr_eqb x y
  | _, _ => false                 (* GPanic never agrees *)
  end.
(* numeric case: inputs (l1, l2, u1, u2, take); outputs of cmp/add_from; of take_amount/constrain_to *)
Definition numcase := ((lower * lower * upper * upper * Z) * (comparison * comparison * bres lower * bres upper)
                    * (bres lower * bres upper * lower * upper))%type.
Inductive case :=
| CNum (c : numcase)
(* ResourceBounds b1 b2 assertion, taken ids, take amount; results of b1.add(b2), b1.take(ids), b1.take(amount), b1.handle_assertion(a) *)
| CIds (g1 g2 ga : general) (taken : idset) (t : Z) (radd rtake rtamt rass : gres).
Definition check_num (c : numcase) : bool :=
  let '((l1, l2, u1, u2, t), (cl, cu, la, ua), (lt, ut, lc, uc)) := c in
  cmp_eqb (lower_cmp l1 l2) cl && cmp_eqb (upper_cmp u1 u2) cu &&
  bres_eqb lower_eqb (lower_add_from l1 l2) la && bres_eqb upper_eqb (upper_add_from u1 u2) ua &&
  bres_eqb lower_eqb (lower_take_amount l1 t) lt && bres_eqb upper_eqb (upper_take_amount u1 t) ut &&
  lower_eqb (lower_constrain_to l1 l2) lc && upper_eqb (upper_constrain_to u1 u2) uc.
Definition check (c : case) : bool :=
  match c with
  | CNum n => check_num n
  | CIds g1 g2 ga taken t radd rtake rtamt rass =>
      gres_eqb (bounds_add g1 g2) radd && gres_eqb (bounds_take_ids g1 taken) rtake &&
      gres_eqb (bounds_take_amount g1 t) rtamt && gres_eqb (bounds_assert g1 ga) rass
  end.
