(* C38 — evaluation: the bound algebra model vs LowerBound / UpperBound of the implementation. *)
From Coq Require Import List ZArith Bool.
Import ListNotations.
Require Import RV.Model.C37_Constraint RV.Model.C38_Bounds RV.Corr.C37_run.
Open Scope Z_scope.

Definition cmp_eqb (a b : comparison) : bool :=
  match a, b with Lt, Lt | Eq, Eq | Gt, Gt => true | _, _ => false end.
Definition bres_eqb {A} (eqb : A -> A -> bool) (a b : bres A) : bool :=
  match a, b with
  | BOk x, BOk y => eqb x y
  | BOverflow, BOverflow | BTakeCannotBeSatisfied, BTakeCannotBeSatisfied | BPanic, BPanic => true
  | _, _ => false
  end.
(* inputs (l1, l2, u1, u2, take); outputs of cmp/add_from; of take_amount/constrain_to *)
Definition case := ((lower * lower * upper * upper * Z) * (comparison * comparison * bres lower * bres upper)
                    * (bres lower * bres upper * lower * upper))%type.
Definition check (c : case) : bool :=
  let '((l1, l2, u1, u2, t), (cl, cu, la, ua), (lt, ut, lc, uc)) := c in
  cmp_eqb (lower_cmp l1 l2) cl && cmp_eqb (upper_cmp u1 u2) cu &&
  bres_eqb lower_eqb (lower_add_from l1 l2) la && bres_eqb upper_eqb (upper_add_from u1 u2) ua &&
  bres_eqb lower_eqb (lower_take_amount l1 t) lt && bres_eqb upper_eqb (upper_take_amount u1 t) ut &&
  lower_eqb (lower_constrain_to l1 l2) lc && upper_eqb (upper_constrain_to u1 u2) uc.
