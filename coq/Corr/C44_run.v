(* C44 — evaluation functions used by generated case files (correspondence with the consensus
   manager driven through LedgerSimulator system transactions). *)
From Coq Require Import List NArith ZArith Bool.
Import ListNotations.
Require Import RV.Model.C44_Consensus.
Open Scope Z_scope.

Definition err_eqb (a b : err) : bool :=
  match a, b with
  | InvalidProposerTimestampUpdate, InvalidProposerTimestampUpdate => true
  | InvalidConsensusTime, InvalidConsensusTime => true
  | InvalidRoundUpdate, InvalidRoundUpdate => true
  | InconsistentGapRounds, InconsistentGapRounds => true
  | InvalidValidatorIndex, InvalidValidatorIndex => true
  | EpochMathOverflow, EpochMathOverflow => true
  | _, _ => false
  end.
Definition cm_eqb (a b : cm) : bool :=
  (epoch a =? epoch b)%N && (round a =? round b)%N && (milli a =? milli b) && (minute a =? minute b)
  && (eff_start a =? eff_start b) && (act_start a =? act_start b).

Inductive op :=
| ONext (i : round_input)
| OGetMinute | OGetSecond
| OCmpMinute (inst : Z) (o : cmpop) | OCmpSecond (inst : Z) (o : cmpop).
(* observed: for ONext the error (None = committed successfully) and the state read back afterwards *)
Inductive out := RNext (e : option err) (after : cm) | RTime (z : Z) | RBool (b : bool).

Fixpoint run_check (c : cfg) (s : cm) (xs : list (op * out)) : bool :=
  match xs with
  | [] => true
  | (ONext i, RNext e after) :: xs' =>
      let ok := match next_round c s i, e with
                | Ok _, None => true
                | Err e1, Some e2 => err_eqb e1 e2
                | _, _ => false
                end in
      ok && cm_eqb (step c s i) after && run_check c (step c s i) xs'
  | (OGetMinute, RTime z) :: xs' => (get_time_minute s =? z) && run_check c s xs'
  | (OGetSecond, RTime z) :: xs' => (get_time_second s =? z) && run_check c s xs'
  | (OCmpMinute inst o, RBool b) :: xs' => Bool.eqb (compare_minute s inst o) b && run_check c s xs'
  | (OCmpSecond inst o, RBool b) :: xs' => Bool.eqb (compare_second s inst o) b && run_check c s xs'
  | _ => false
  end.

Definition case := (cfg * cm * list (op * out))%type.
Definition check (c : case) : bool := let '(g, s, xs) := c in run_check g s xs.
