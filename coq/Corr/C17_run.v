(* C17 / C18 — evaluation functions used by the generated case files (harness bins c17, c18):
   the model (Model/C17_Jmt.v with H := Blake2b-256, replayed on the explicit store of
   Model/C18_Store.v) is run on the commit history of the case and compared with everything the
   implementation produced; the specification (Model/C17_Smt.v) is evaluated from scratch on the
   final database and compared with the implementation's root. *)
From Coq Require Import List NArith ZArith Bool.
From Coq Require Export Uint63.
Import ListNotations.
Require Import RV.Lib.Blake2b RV.Model.C17_Jmt RV.Model.C17_Smt RV.Model.C18_Store.
Open Scope N_scope.

Definition FUEL : nat := 400.    (* > any key length in nibbles used by the harness *)

Fixpoint list_eqb {X} (e : X -> X -> bool) (a b : list X) : bool :=
  match a, b with
  | [], [] => true
  | x :: a', y :: b' => e x y && list_eqb e a' b'
  | _, _ => false
  end.
Definition centry_eqb (a b : N * N * list N * bool) : bool :=
  let '(n1, v1, h1, l1) := a in let '(n2, v2, h2, l2) := b in
  (n1 =? n2) && (v1 =? v2) && leqb h1 h2 && Bool.eqb l1 l2.
Definition snode_eqb (a b : snode) : bool :=
  match a, b with
  | SNull, SNull => true
  | SLeaf s1 h1 p1, SLeaf s2 h2 p2 => leqb s1 s2 && leqb h1 h2 && (p1 =? p2)
  | SInternal c1, SInternal c2 => list_eqb centry_eqb c1 c2
  | _, _ => false
  end.
Definition entry_eqb (a b : skey * snode) : bool := skey_eqb (fst a) (fst b) && snode_eqb (snd a) (snd b).
Definition stale_eqb (a b : stale_part) : bool :=
  match a, b with
  | StaleNode v1 p1, StaleNode v2 p2 => (v1 =? v2) && leqb p1 p2
  | StaleSubtree v1 p1, StaleSubtree v2 p2 => (v1 =? v2) && leqb p1 p2
  | _, _ => false
  end.

(* ---- packed case data.  coqc spends ~60 us per list element and milliseconds per multi-digit N
   numeral, so the harness writes byte / nibble strings as chunks held in primitive integers:
   chunk = 0x1 d1 .. dk (k <= 7 bytes resp. 14 nibbles, a sentinel digit 1 in front). ---- *)
Definition pbytes := list int.
Fixpoint unchunk (fuel : nat) (bits : int) (mask : int) (c : int) (acc : list N) : list N :=
  match fuel with
  | O => acc
  | S f => if (c <=? 1)%uint63 then acc
           else unchunk f bits mask (c >> bits)%uint63 (Z.to_N (Uint63.to_Z (c land mask)%uint63) :: acc)
  end.
Definition ub (l : pbytes) : list N := flat_map (fun c => unchunk 16 8%uint63 255%uint63 c []) l.
Definition un (l : pbytes) : list N := flat_map (fun c => unchunk 16 4%uint63 15%uint63 c []) l.

Inductive ppupdate : Type :=
| PDelta (l : list (pbytes * option pbytes))
| PReset (l : list (pbytes * pbytes)).
Definition pcommit := list (pbytes * list (pbytes * ppupdate)).
Inductive psnode : Type :=
| PNull
| PLeaf (suffix : pbytes) (vh : pbytes) (payload : N)
| PInternal (cs : list (N * N * pbytes * bool)).
Inductive pstale : Type := PStaleNode (v : N) (p : pbytes) | PStaleSubtree (v : N) (p : pbytes).

(* commits arrive with byte keys *)
Definition conv_pupdate (u : ppupdate) : pupdate :=
  match u with
  | PDelta l => Delta (map (fun ku => (nibbles_of_bytes (ub (fst ku)),
                                       match snd ku with Some v => Some (ub v) | None => None end)) l)
  | PReset l => Reset (map (fun kv => (nibbles_of_bytes (ub (fst kv)), ub (snd kv))) l)
  end.
Definition conv_commit (u : pcommit) : db_updates :=
  map (fun eu => (nibbles_of_bytes (ub (fst eu)),
                  map (fun pu => (nibbles_of_bytes (ub (fst pu)), conv_pupdate (snd pu))) (snd eu))) u.
Definition conv_snode (n : psnode) : snode :=
  match n with
  | PNull => SNull
  | PLeaf s h p => SLeaf (un s) (ub h) p
  | PInternal cs => SInternal (map (fun c => let '(n, v, h, l) := c in (n, v, ub h, l)) cs)
  end.
Definition conv_stale (p : pstale) : stale_part :=
  match p with PStaleNode v p => StaleNode v (un p) | PStaleSubtree v p => StaleSubtree v (un p) end.

(* run the model over the history: roots and stale parts reported per commit, final state *)
Fixpoint run_model (st : tree_state) (ts : tstore) (us : list db_updates)
  : res (list (list N) * list (list stale_part) * tree_state * tstore) :=
  match us with
  | [] => Ok ([], [], st, ts)
  | u :: r =>
    match put_at_next_version blake2b_256 FUEL st u with
    | Ok (h, st', ops) =>
      match apply_ops ts ops with
      | Ok ts' =>
        match run_model st' ts' r with
        | Ok (hs, ss, stf, tsf) =>
          Ok (h :: hs, skipn (length (ts_stale ts)) (ts_stale ts') :: ss, stf, tsf)
        | Panic => Panic | OutOfFuel => OutOfFuel
        end
      | Panic => Panic | OutOfFuel => OutOfFuel
      end
    | Panic => Panic | OutOfFuel => OutOfFuel
    end
  end.

Definition listing_eqb (a b : list N * list N * list (list N * list N)) : bool :=
  let '(e1, p1, l1) := a in let '(e2, p2, l2) := b in
  leqb e1 e2 && leqb p1 p2 && list_eqb (fun x y => leqb (fst x) (fst y) && leqb (snd x) (snd y)) l1 l2.

(* (pruning, commits, roots, stale parts per commit, final tree_nodes sorted by key,
    keys of the nodes reachable from the final root in depth-first order, list_substate_hashes) *)
Definition case : Type :=
  (bool * list pcommit * list pbytes * list (list pstale) *
   list (N * pbytes * psnode) * list (N * pbytes) * list (pbytes * pbytes * list (pbytes * pbytes)))%type.

Definition check (c : case) : bool :=
  let '(pruning, commits, roots, stales, nodes, reach, listing) := c in
  let us := map conv_commit commits in
  let roots := map ub roots in
  match run_model None (ts_new pruning) us with
  | Ok (hs, ss, stf, tsf) =>
    list_eqb leqb hs roots &&
    list_eqb (list_eqb stale_eqb) ss (map (map conv_stale) stales) &&
    list_eqb entry_eqb (ts_nodes tsf)
             (map (fun e => ((fst (fst e), un (snd (fst e))), conv_snode (snd e))) nodes) &&
    list_eqb skey_eqb (map fst (reachable FUEL stf)) (map (fun k => (fst k, un (snd k))) reach) &&
    (* every node the model tree refers to is in the model store, with that content *)
    forallb (fun e => match st_get (fst e) (ts_nodes tsf) with
                      | Some n => snode_eqb n (snd e) | None => false end) (reachable FUEL stf) &&
    list_eqb listing_eqb (list_substate_hashes FUEL stf)
             (map (fun x => let '(e, p, l) := x in
                            (nibbles_of_bytes (ub e), nibbles_of_bytes (ub p),
                             map (fun kh => (nibbles_of_bytes (ub (fst kh)), ub (snd kh))) l)) listing) &&
    (* the specification, from scratch on the database the history denotes *)
    leqb (db_root blake2b_256 FUEL (apply_commits [] us)) (last roots ZERO_HASH)
  | _ => false
  end.
