(* C40 — evaluation functions used by generated case files (correspondence with the access
   controller blueprint run on LedgerSimulator, v1 and v2). *)
From Coq Require Import List NArith ZArith Bool String.
Import ListNotations.
Require Import RV.Model.C40_AccessController RV.Model.C40_Tables.

Definition mkrs (a b c : rule) : ruleset := {| rs_primary := a; rs_recovery := b; rs_confirmation := c |}.
Definition mkp (rs : ruleset) (d : option N) : proposal := {| p_rules := rs; p_delay := d |}.

(* what is read back from the ledger after every call: the 5-tuple, the role assignment, whether
   the controlled asset is still in the vault, the balance of the v2 XRD fee vault (None = no vault) *)
Record obs := mkobs {
  o_locked : bool; o_prim_rec : option proposal; o_prim_wd : bool; o_rec_rec : rec_attempt; o_rec_wd : bool;
  o_roles : ruleset; o_badge : bool; o_fee : option Z }.

Definition optp_eqb (a b : option proposal) : bool :=
  match a, b with Some x, Some y => proposal_eqb x y | None, None => true | _, _ => false end.
Definition rec_eqb (a b : rec_attempt) : bool :=
  match a, b with
  | RecNone, RecNone => true
  | RecUntimed p, RecUntimed q => proposal_eqb p q
  | RecTimed p x, RecTimed q y => proposal_eqb p q && Z.eqb x y
  | _, _ => false
  end.
Definition obs_ok (c : controller) (o : obs) : bool :=
  let s := c_st c in
  Bool.eqb (s_locked s) (o_locked o) && optp_eqb (s_prim_rec s) (o_prim_rec o)
  && Bool.eqb (s_prim_wd s) (o_prim_wd o) && rec_eqb (s_rec_rec s) (o_rec_rec o)
  && Bool.eqb (s_rec_wd s) (o_rec_wd o) && ruleset_eqb (c_roles c) (o_roles o)
  && Bool.eqb (c_badge c) (o_badge o)
  && match c_fee c, o_fee o with Some x, Some y => Z.eqb x y | None, None => true | _, _ => false end.

Definition proposer_eqb (a b : proposer) : bool :=
  match a, b with PPrimary, PPrimary | PRecovery, PRecovery => true | _, _ => false end.
Definition err_eqb (a b : err) : bool :=
  match a, b with
  | EUnauthorized, EUnauthorized | ENoSuchMethod, ENoSuchMethod | EOpRequiresUnlocked, EOpRequiresUnlocked
  | ETimeOverflow, ETimeOverflow | ENoTimedFound, ENoTimedFound | EDelayNotElapsed, EDelayNotElapsed
  | EMismatch, EMismatch | ENoXrdFeeVault, ENoXrdFeeVault | EOther, EOther => true
  | ERecAlreadyExists p, ERecAlreadyExists q | ENoRecExists p, ENoRecExists q
  | EWdAlreadyExists p, EWdAlreadyExists q | ENoWdExists p, ENoWdExists q => proposer_eqb p q
  | _, _ => false
  end.
Definition outcome_eqb (a b : outcome) : bool :=
  match a, b with Ok, Ok => true | Fail x, Fail y => err_eqb x y | _, _ => false end.

Definition stepobs := (list N * Z * meth * outcome * obs)%type.
Record case := mkcase { k_v2 : bool; k_delay : option N; k_rules : ruleset; k_steps : list stepobs }.

Fixpoint replay (t : table) (c : controller) (l : list stepobs) : bool :=
  match l with
  | [] => true
  | (who, now, m, out, o) :: l' =>
      let r := step t c who now m in
      outcome_eqb (snd r) out && obs_ok (fst r) o && replay t (fst r) l'
  end.

(* agreement: outcome class and state after every call *)
Definition check (k : case) : bool :=
  replay (if k_v2 k then table_v2 else table_v1) (create (k_rules k) (k_delay k)) (k_steps k).
