(* C50 — evaluation functions used by generated case files (correspondence with SystemService:
   drop_object, globalize, new_object, actor_open_field issued from a pushed call frame).
   A case = the type infos of the nodes involved, the actor of the frame, the call, and what the
   implementation answered. *)
From Coq Require Import List NArith Bool.
Import ListNotations.
Require Import RV.Model.C50_Encaps.
Open Scope N_scope.

Inductive op :=
| ODrop (n : N)
| OGlobalize (n reservation : N) (has_modules : bool)
| ONew (ident : N) (def : option bptype)      (* def = blueprint type of (actor's package, ident) *)
| OState (handle : N)
| OKvOpen (n : N).                             (* key_value_store_open_entry on node n *)

Inductive obs :=
| ObsOk                  (* the call succeeded *)
| ObsOkNode (n : N)      (* actor_open_field succeeded and the field read is node n's *)
| ObsErr (e : outcome)   (* one of the access errors of the model *)
| ObsOther.              (* any other error: raised after the access decision *)

Record case := mkCase { k_heap : heap; k_actor : actor; k_op : op; k_obs : obs }.

Definition is_admitted (o : outcome) : bool := match o with Granted => true | _ => false end.
(* model says Granted <-> the implementation got past the access decision;
   model says a specific error <-> the implementation returned exactly that error *)
Definition agree (m : outcome) (o : obs) : bool :=
  match o with
  | ObsOk | ObsOkNode _ | ObsOther => is_admitted m
  | ObsErr e => negb (is_admitted m) && outcome_eqb m e
  end.

Definition check (c : case) : bool :=
  let h := k_heap c in let a := k_actor c in
  match k_op c with
  | ODrop n => agree (drop_check h a n) (k_obs c)
  | OGlobalize n r m => agree (globalize_check h a n r m) (k_obs c)
  | ONew ident def =>
      match new_object_check h (fun _ => def) a ident with
      | inr _ => agree Granted (k_obs c)
      | inl e => agree e (k_obs c)
      end
  | OKvOpen n => agree (kv_open_check h a n) (k_obs c)
  | OState hd =>
      match resolve_state_handle h a hd with
      | inr (n, _) => match k_obs c with
                      | ObsOkNode n' => n =? n'
                      | ObsOk | ObsOther => true
                      | ObsErr _ => false
                      end
      | inl e => agree e (k_obs c)
      end
  end.
