(* C19 — evaluation functions used by generated case files: the write layout and every crash-prefix
   state of the model vs. what the harness recorded on RocksDBWithMerkleTreeSubstateStore. *)
From Coq Require Import List Arith NArith ZArith Bool.
From Coq Require Export Uint63.
Import ListNotations.
Require Import RV.Lib.Bytes RV.Lib.SortedMap RV.Model.C14_Store RV.Model.C15_Stores RV.Model.C19_CrashCommit.
Open Scope N_scope.

(* byte strings are written by the harness as lists of primitive integers, each holding up to 7
   bytes with a sentinel byte 1 in front: 0x01 b1 .. bk (literal lists of N parse too slowly) *)
Fixpoint unchunk (fuel : nat) (c : int) (acc : bytes) : bytes :=
  match fuel with
  | O => acc
  | S f => if (c <=? 1)%uint63 then acc
           else unchunk f (c >> 8)%uint63 (Z.to_N (Uint63.to_Z (c land 255)%uint63) :: acc)
  end.
Definition ub (l : list int) : bytes := flat_map (fun c => unchunk 8 c []) l.

(* a dumped database: get_current_version, get_current_root_hash, the raw substates column family,
   the keys of the tree-node and stale-part column families (all in RocksDB iteration order) *)
Record obs := mkObs { o_version : N; o_root : bytes; o_subs : kvmap; o_nodes : list bytes; o_stale : list bytes }.

Record case := mkCase {
  c_pruning : bool;
  c_pre : obs;                               (* the store before the commit *)
  c_updates : db_updates;                    (* the commit under test *)
  c_new_nodes : list bytes;                  (* keys of the new tree nodes (tree computation: C17) *)
  c_deleted : list bytes;                    (* keys deleted by the pruning loop (C18) *)
  c_new_root : bytes;                        (* root returned by the tree computation *)
  c_trace : list (tag * bytes * bytes);      (* what the hook recorded during the complete run *)
  c_obs : list (N * obs)                     (* (k, store found after a crash before step k); k = #steps: complete run *)
}.

Definition keyset (l : list bytes) : kvmap := map (fun k => (k, [])) l.
Definition store_of_obs (o : obs) : store :=
  mkStore (if o_version o =? 0 then None else Some (o_version o, o_root o))
          (o_subs o) (keyset (o_nodes o)) (keyset (o_stale o)).
Definition obs_of (s : store) : obs :=
  mkObs (cur_version s) (cur_root s) (st_subs s) (map fst (st_nodes s)) (map fst (st_stale s)).

Fixpoint list_eqb {A B} (eqb : A -> B -> bool) (a : list A) (b : list B) : bool :=
  match a, b with
  | [], [] => true
  | x :: a', y :: b' => eqb x y && list_eqb eqb a' b'
  | _, _ => false
  end.
Definition kv_eqb (a b : bytes * bytes) : bool := beqb (fst a) (fst b) && beqb (snd a) (snd b).
Definition obs_eqb (a b : obs) : bool :=
  (o_version a =? o_version b) && beqb (o_root a) (o_root b) && list_eqb kv_eqb (o_subs a) (o_subs b)
  && list_eqb beqb (o_nodes a) (o_nodes b) && list_eqb beqb (o_stale a) (o_stale b).

Definition tag_eqb (a b : tag) : bool :=
  match a, b with
  | TDirectPutSub, TDirectPutSub | TDirectDelSub, TDirectDelSub | TDirectDelRangeSub, TDirectDelRangeSub
  | TBatchPutSub, TBatchPutSub | TBatchDelSub, TBatchDelSub | TBatchDelRangeSub, TBatchDelRangeSub
  | TBatchPutNode, TBatchPutNode | TBatchPutStale, TBatchPutStale | TBatchPutMeta, TBatchPutMeta
  | TWriteBatch, TWriteBatch | TDirectDelNode, TDirectDelNode => true
  | _, _ => false                      (* TUnknown never matches *)
  end.
Definition trace_eqb (a b : tag * bytes * bytes) : bool :=
  tag_eqb (fst (fst a)) (fst (fst b)) && beqb (snd (fst a)) (snd (fst b)) && beqb (snd a) (snd b).

Definition proj_eqb (a b : store) : bool :=
  list_eqb kv_eqb (st_subs a) (st_subs b) && (cur_version a =? cur_version b) && beqb (cur_root a) (cur_root b).

Definition check (c : case) : bool :=
  let s0 := store_of_obs (c_pre c) in
  let d := mkDiff (keyset (c_new_nodes c)) [] (c_deleted c) (c_new_root c) in
  (* the dumped pre-state is a sorted map in every column family and survives the round trip *)
  sortedb blt (o_subs (c_pre c)) && sortedb blt (keyset (o_nodes (c_pre c))) && sortedb blt (keyset (o_stale (c_pre c)))
  && obs_eqb (obs_of s0) (c_pre c)
  (* side condition `dels_old` of the composed theorem (Proof/C19_Composed.v): every key the pruning
     loop deleted belongs to a version older than the one committed (encode_key = 8-byte big-endian
     version ++ path bytes ++ parity) *)
  && forallb (fun k => be_decode (firstn 8 k) <? o_version (c_pre c) + 1) (c_deleted c)
  && match commit_steps (c_pruning c) s0 (c_updates c) d with
     | CommitPanic => false
     | CommitSteps steps =>
         let states := prefix_states steps s0 in
         let post := run steps s0 in
         (* layout: the recorded trace is the trace of the model's step list *)
         list_eqb trace_eqb (flat_map step_trace steps) (c_trace c)
         (* every crash-prefix state of the model equals the store the harness found *)
         && forallb (fun ko : N * obs =>
                       match nth_error states (N.to_nat (fst ko)) with
                       | Some s => obs_eqb (obs_of s) (snd ko)
                       | None => false
                       end) (c_obs c)
         (* the sweep includes the crash before the first write and the complete run *)
         && existsb (fun ko : N * obs => fst ko =? 0) (c_obs c)
         && existsb (fun ko : N * obs => fst ko =? N.of_nat (length steps)) (c_obs c)
         (* the statement evaluated on the model's prefix states *)
         && forallb (fun s => proj_eqb s s0 || proj_eqb s post) states
     end.
