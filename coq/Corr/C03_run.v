(* C03 / C04 — evaluation functions used by the generated case files.

   C03 case (one committed transaction): the observed pre-state of every resource the transaction
   touched (all vaults of those resources, from a whole-database scan), the receipt's resource events,
   the fee parameters of the receipt, and the observed post-state.  [check] folds the events into
   operations of the ledger model (every event becomes the vault / resource-manager operation that
   emits it, with one in-flight pool bucket per resource standing for the worktop and the named
   buckets), runs the model — every operation must be accepted by the model's checked arithmetic —
   lets the model finalise the fees (its PayFee / reward Deposit / Burn events must equal the
   observed ones), requires that nothing is left in flight, and compares the model's final
   balances, id sets and supplies with the observed post-state.

   C04 case (one history): the event stream since genesis restricted to some resources and the
   observed final vault balances / id sets / supplies; [check_history] replays the events. *)
From Coq Require Import List ZArith NArith Bool.
Import ListNotations.
Require Import RV.Model.C03_Ledger.
Open Scope Z_scope.

(* ---------- folding events into model operations ---------- *)
Definition pool_bucket (r : N) : N := (1000000 + 2 * r)%N.
Definition tmp_bucket (n : N) : N := (3000001 + 2 * n)%N.

Definition res_of_vault (s : state) (v : N) : option N :=
  match aget v (s_fv s), aget v (s_nv s) with
  | Some (r, _), _ => Some r
  | None, Some (r, _) => Some r
  | None, None => None
  end.

(* the running interpretation state: model state, temp-bucket counter, resources still to be
   created (created by this transaction), contingency flags of the remaining LockFee events *)
Record istate := mkI { i_s : state; i_n : N; i_new : list (N * rinfo); i_cont : list bool }.

Definition runs (i : istate) (ops : list op) : res istate :=
  do '(s, _) <- run (i_s i) ops;
  Ok (mkI s (i_n i + 1)%N (i_new i) (i_cont i)).

Definition with_vault (i : istate) (v : N) (f : N -> list op) : res istate :=
  match res_of_vault (i_s i) v with
  | None => Err ENotFound
  | Some r => runs i (f r)
  end.

(* make sure the in-flight pool bucket of r exists *)
Definition ensure_pool (i : istate) (r : N) : res istate :=
  match aget (pool_bucket r) (s_fb (i_s i)), aget (pool_bucket r) (s_nb (i_s i)) with
  | None, None => runs i [OCreateBucket r (pool_bucket r)]
  | _, _ => Ok i
  end.

Definition take_new (r : N) (l : list (N * rinfo)) : option rinfo * list (N * rinfo) :=
  (aget r l, adel r l).

Definition exec_event (i : istate) (e : event) : res istate :=
  let t := tmp_bucket (i_n i) in
  match e with
  | EvMintF r a =>
      match take_new r (i_new i) with
      | (Some ri, rest) =>
          (* create_with_initial_supply *)
          do i1 <- runs (mkI (i_s i) (i_n i) rest (i_cont i))
                     [OCreateF r (r_div ri) (match r_supply ri with Some _ => true | None => false end) (Some (a, t))];
          do i2 <- ensure_pool i1 r;
          runs i2 [OBucketPut (pool_bucket r) t]
      | (None, _) =>
          do i1 <- ensure_pool i r;
          runs i1 [OMintF r a t; OBucketPut (pool_bucket r) t]
      end
  | EvMintN r ids =>
      match take_new r (i_new i) with
      | (Some ri, rest) =>
          do i1 <- runs (mkI (i_s i) (i_n i) rest (i_cont i))
                     [OCreateN r (match r_supply ri with Some _ => true | None => false end) (Some (ids, t))];
          do i2 <- ensure_pool i1 r;
          runs i2 [OBucketPut (pool_bucket r) t]
      | (None, _) =>
          do i1 <- ensure_pool i r;
          runs i1 [OMintN r ids t; OBucketPut (pool_bucket r) t]
      end
  | EvBurnF r a => do i1 <- ensure_pool i r; runs i1 [OBucketTake (pool_bucket r) a t; OBurn t]
  | EvBurnN r ids => do i1 <- ensure_pool i r; runs i1 [OBucketTakeIds (pool_bucket r) ids t; OBurn t]
  | EvWithdraw v a =>
      match res_of_vault (i_s i) v with
      | None => Err ENotFound
      | Some r => do i1 <- ensure_pool i r; runs i1 [OVaultTake v a t; OBucketPut (pool_bucket r) t]
      end
  | EvRecall v a =>
      match res_of_vault (i_s i) v with
      | None => Err ENotFound
      | Some r => do i1 <- ensure_pool i r; runs i1 [OVaultRecall v a t; OBucketPut (pool_bucket r) t]
      end
  | EvDeposit v a =>
      match res_of_vault (i_s i) v with
      | None => Err ENotFound
      | Some r => do i1 <- ensure_pool i r; runs i1 [OBucketTake (pool_bucket r) a t; OVaultPut v t]
      end
  | EvWithdrawN v ids =>
      match res_of_vault (i_s i) v with
      | None => Err ENotFound
      | Some r => do i1 <- ensure_pool i r; runs i1 [OVaultTakeIds v ids t; OBucketPut (pool_bucket r) t]
      end
  | EvRecallN v ids =>
      match res_of_vault (i_s i) v with
      | None => Err ENotFound
      | Some r => do i1 <- ensure_pool i r; runs i1 [OVaultRecallIds v ids t; OBucketPut (pool_bucket r) t]
      end
  | EvDepositN v ids =>
      match res_of_vault (i_s i) v with
      | None => Err ENotFound
      | Some r => do i1 <- ensure_pool i r; runs i1 [OBucketTakeIds (pool_bucket r) ids t; OVaultPut v t]
      end
  | EvLockFee v a =>
      match i_cont i with
      | [] => Err ENotFound
      | c :: rest => runs (mkI (i_s i) (i_n i) (i_new i) rest) [OLockFee v a c]
      end
  | EvPayFee _ _ => Err ENotFound   (* only the model's own finalisation produces these *)
  | EvVaultCreate r v =>
      (* a vault of a resource created by this transaction before any of it was minted *)
      match take_new r (i_new i) with
      | (Some ri, rest) =>
          let tr := match r_supply ri with Some _ => true | None => false end in
          runs (mkI (i_s i) (i_n i) rest (i_cont i))
               [if r_nf ri then OCreateN r tr None else OCreateF r (r_div ri) tr None; OCreateVault r v]
      | (None, _) => runs i [OCreateVault r v]
      end
  end.

Fixpoint exec_events (i : istate) (evs : list event) : res istate :=
  match evs with
  | [] => Ok i
  | e :: t => do i1 <- exec_event i e; exec_events i1 t
  end.

(* resources created without any mint *)
Fixpoint create_rest (s : state) (l : list (N * rinfo)) : res state :=
  match l with
  | [] => Ok s
  | (r, ri) :: t =>
      let tr := match r_supply ri with Some _ => true | None => false end in
      do '(s1, _) <- step s (if r_nf ri then OCreateN r tr None else OCreateF r (r_div ri) tr None);
      create_rest s1 t
  end.

Fixpoint drop_pools (s : state) (rs : list N) : res state :=
  match rs with
  | [] => Ok s
  | r :: t =>
      match aget (pool_bucket r) (s_fb s), aget (pool_bucket r) (s_nb s) with
      | None, None => drop_pools s t
      | _, _ => do '(s1, _) <- step s (ODropEmpty (pool_bucket r)); drop_pools s1 t
      end
  end.

(* ---------- comparison helpers ---------- *)
Fixpoint zlist_eqb (a b : list Z) : bool :=
  match a, b with [], [] => true | x :: a', y :: b' => (x =? y) && zlist_eqb a' b' | _, _ => false end.
Definition same_set (a b : list N) : bool :=
  Nat.eqb (length a) (length b) && forallb (fun x => mem x a) b && forallb (fun x => mem x b) a.
Definition opt_z_eqb (a b : option Z) : bool :=
  match a, b with Some x, Some y => x =? y | None, None => true | _, _ => false end.
Fixpoint nlist_eqb (a b : list N) : bool :=
  match a, b with [], [] => true | x :: a', y :: b' => N.eqb x y && nlist_eqb a' b' | _, _ => false end.
Definition event_eqb (a b : event) : bool :=
  match a, b with
  | EvMintF r x, EvMintF r' x' | EvBurnF r x, EvBurnF r' x' => N.eqb r r' && (x =? x')
  | EvWithdraw r x, EvWithdraw r' x' | EvDeposit r x, EvDeposit r' x' | EvRecall r x, EvRecall r' x'
  | EvLockFee r x, EvLockFee r' x' | EvPayFee r x, EvPayFee r' x' => N.eqb r r' && (x =? x')
  | EvMintN r x, EvMintN r' x' | EvBurnN r x, EvBurnN r' x' | EvWithdrawN r x, EvWithdrawN r' x'
  | EvDepositN r x, EvDepositN r' x' | EvRecallN r x, EvRecallN r' x' => N.eqb r r' && nlist_eqb x x'
  | EvVaultCreate r v, EvVaultCreate r' v' => N.eqb r r' && N.eqb v v'
  | _, _ => false
  end.
Fixpoint events_eqb (a b : list event) : bool :=
  match a, b with [], [] => true | x :: a', y :: b' => event_eqb x y && events_eqb a' b' | _, _ => false end.

Definition fv_agree (s : state) (obs : list (N * (N * Z))) : bool :=
  Nat.eqb (length (s_fv s)) (length obs) &&
  forallb (fun '(v, (r, bal)) => match aget v (s_fv s) with Some (r', b') => N.eqb r r' && (bal =? b') | None => false end) obs.
Definition nv_agree (s : state) (obs : list (N * (N * (Z * list N)))) : bool :=
  Nat.eqb (length (s_nv s)) (length obs) &&
  forallb (fun '(v, (r, (amt, ids))) =>
             match aget v (s_nv s) with
             | Some (r', (amt', ids')) => N.eqb r r' && (amt =? amt') && same_set ids ids'
             | None => false
             end) obs.
Definition res_agree (s : state) (obs : list (N * option Z)) : bool :=
  forallb (fun '(r, sup) => match aget r (s_res s) with Some ri => opt_z_eqb (r_supply ri) sup | None => false end) obs.

(* live data entries for every id held by a vault *)
Fixpoint data_of (nv : list (N * (N * (Z * list N)))) : list (N * N * bool) :=
  match nv with
  | [] => []
  | (_, (r, (_, ids))) :: t => map (fun i => (r, i, true)) ids ++ data_of t
  end.

(* ---------- the C03 case ---------- *)
Record tcase := mkCase {
  c_res : list (N * rinfo);                    (* touched resources that exist before the transaction *)
  c_new : list (N * rinfo);                    (* resources created by the transaction (supply Some _ = tracks) *)
  c_fv : list (N * (N * Z));                   (* all fungible vaults of the touched resources, before *)
  c_nv : list (N * (N * (Z * list N)));        (* all non-fungible vaults of the touched resources, before *)
  c_events : list event;                       (* application events before fee finalisation *)
  c_cont : list bool;                          (* contingency of the LockFee events, in order *)
  c_fee : option fee_params;                   (* None: costing disabled (system transaction) *)
  c_final : list event;                        (* observed events of the fee finalisation *)
  c_post_res : list (N * option Z);
  c_post_fv : list (N * (N * Z));
  c_post_nv : list (N * (N * (Z * list N)))
}.

Definition run_case (c : tcase) : res (state * list event) :=
  let s0 := mkS (c_res c) (c_fv c) (c_nv c) [] [] (data_of (c_nv c)) [] in
  do i <- exec_events (mkI s0 0%N (c_new c) (c_cont c)) (c_events c);
  do s1 <- create_rest (i_s i) (i_new i);
  do '(s2, fin) <- match c_fee c with Some p => step s1 (OPayFee p) | None => Ok (s1, []) end;
  do s3 <- drop_pools s2 (map fst (s_res s2));
  Ok (s3, fin).

Definition case := tcase.
Definition check (c : case) : bool :=
  match run_case c with
  | Ok (s, fin) =>
      at_rest s && events_eqb fin (c_final c) && fv_agree s (c_post_fv c) && nv_agree s (c_post_nv c)
      && res_agree s (c_post_res c)
  | _ => false
  end.

(* ---------- the C04 case: replay of a whole history ---------- *)
Record hcase := mkH {
  h_events : list event;
  h_vaults : list (N * Z);              (* observed balance (fungible: liquid, non-fungible: amount field) *)
  h_vids : list (N * list N);           (* observed ids of the non-fungible vaults *)
  h_sums : list (N * Z)                 (* per resource: sum of all vault balances observed *)
}.
Definition check_history (h : hcase) : bool :=
  let st := replay rp_empty (h_events h) in
  forallb (fun '(v, b) => zget v (rp_vault st) =? b) (h_vaults h)
  && forallb (fun '(v, ids) => same_set (lget v (rp_vids st)) ids) (h_vids h)
  && forallb (fun '(r, t) => zget r (rp_supply st) =? t) (h_sums h).
