(* C07 — evaluation functions used by generated case files (correspondence with the real
   TransactionTrackerSubstateV1, the transaction validators and LedgerSimulator histories). *)
From Coq Require Import List NArith Bool.
Import ListNotations.
Require Import RV.Model.C07_Tracker.
Open Scope N_scope.

Definition pres_eqb (a b : pres) : bool :=
  match a, b with
  | PSome x, PSome y => x =? y | PNone, PNone => true | PPanic, PPanic => true | _, _ => false
  end.
Definition kind_eqb (a b : kind) : bool :=
  match a, b with KTx, KTx => true | KSub, KSub => true | _, _ => false end.
Definition reject_eqb (a b : reject) : bool :=
  match a, b with
  | NotYetValid, NotYetValid => true | NoLongerValid, NoLongerValid => true
  | PrevCommitted k h, PrevCommitted k' h' => kind_eqb k k' && (h =? h')
  | PrevCancelled k h, PrevCancelled k' h' => kind_eqb k k' && (h =? h')
  | ExecRejected, ExecRejected => true
  | _, _ => false
  end.
Definition result_eqb (a b : result) : bool :=
  match a, b with
  | RCommit x, RCommit y => Bool.eqb x y
  | RReject x, RReject y => reject_eqb x y
  | RPanic, RPanic => true | REpochOverflow, REpochOverflow => true
  | _, _ => false
  end.

(* history steps as the harness performs them *)
Inductive estep :=
| ESubmit (is : list intent) (oc : exec_outcome)   (* signed intents (root first) + what execution did *)
| ENext (k : N)                                   (* k epoch-changing round updates *)
| ESys.                                           (* a committed system transaction *)
(* observed: EInvalid = the static validator refused the transaction; otherwise the receipt *)
Inductive eres := EInvalid | ERes (r : result).
(* observed after the step: current epoch, tracker.start_epoch, tracker.start_partition, and the
   number of status records in every non-empty tracker partition (read from the database) *)
Definition obs := (N * N * N * list (N * N))%type.

Definition count_part (s : list record) (p : N) : N :=
  N.of_nat (length (filter (fun r => fst (fst r) =? p) s)).
Definition sumN (l : list (N * N)) : N := fold_right (fun e acc => snd e + acc) 0 l.

Definition obs_ok (st : state) (o : obs) : bool :=
  let '(c, se, sp, cnt) := o in
  (cur st =? c) && (start_epoch (trk st) =? se) && (start_partition (trk st) =? sp)
  && forallb (fun e => count_part (store st) (fst e) =? snd e) cnt
  && (N.of_nat (length (store st)) =? sumN cnt).

Fixpoint next_n (fuel : nat) (st : state) : option state :=
  match fuel with
  | O => Some st
  | S f => match do_step st NextEpoch with
           | (RCommit true, st') => next_n f st'
           | _ => None
           end
  end.

Definition estep_check (maxr : N) (st : state) (x : estep) (r : eres) : option state :=
  match x with
  | ESubmit is oc =>
      match to_submit maxr is, r with
      | None, EInvalid => Some st
      | Some sub, ERes r' =>
          let '(rm, st') := do_step st (Submit sub oc) in
          if result_eqb rm r' then Some st' else None
      | _, _ => None
      end
  | ENext k => match r with
               | ERes (RCommit true) => next_n (N.to_nat k) st
               | _ => None
               end
  | ESys => match r with
            | ERes r' => let '(rm, st') := do_step st SystemCommit in
                         if result_eqb rm r' then Some st' else None
            | _ => None
            end
  end.

Fixpoint hist_check (maxr : N) (st : state) (xs : list (estep * eres * obs)) : bool :=
  match xs with
  | [] => true
  | (x, r, o) :: xs' =>
      match estep_check maxr st x r with
      | Some st' => obs_ok st' o && hist_check maxr st' xs'
      | None => false
      end
  end.

Definition adv_eqb (a : option (tracker * N)) (b : option (N * N * N)) : bool :=
  match a, b with
  | None, None => true
  | Some (t, d), Some (se, sp, d') => (start_epoch t =? se) && (start_partition t =? sp) && (d =? d')
  | _, _ => false
  end.

Definition range_eqb (a b : option (N * N * list N)) : bool :=
  match a, b with
  | None, None => true
  | Some (s, e, xs), Some (s', e', xs') =>
      (s =? s') && (e =? e') && Nat.eqb (length xs) (length xs')
      && forallb (fun p => fst p =? snd p) (combine xs xs')
  | _, _ => false
  end.

Inductive case :=
(* the real partition_for_expiry_epoch(epoch) and advance() on a tracker value *)
| CUnit (t : tracker) (epoch : N) (pf : pres) (adv : option (N * N * N))
(* the real validator + create_executable: None = refused; Some (overall start, overall end,
   expiry epochs of the nullifications in order) *)
| CValid (maxr : N) (is : list intent) (o : option (N * N * list N))
(* a LedgerSimulator history from an injected tracker state *)
| CHist (maxr : N) (init : state) (xs : list (estep * eres * obs)).

Definition check (c : case) : bool :=
  match c with
  | CUnit t e pf adv => pres_eqb (partition_for t e) pf && adv_eqb (advance t) adv
  | CValid maxr is o =>
      range_eqb (match to_submit maxr is with
                 | Some sub => Some (s_start sub, s_end sub, map n_expiry (s_nulls sub))
                 | None => None end) o
  | CHist maxr init xs => hist_check maxr init xs
  end.
