(* C20 — evaluation functions used by generated case files (correspondence of the SBOR Value
   codec model with basic/scrypto/manifest encode/decode of the implementation). *)
From Coq Require Import List NArith ZArith Bool.
Import ListNotations.
Require Import RV.Model.C20_Sbor.
Open Scope N_scope.

Fixpoint bytes_eqb (a b : bytes) : bool :=
  match a, b with
  | [], [] => true
  | x :: a', y :: b' => (x =? y) && bytes_eqb a' b'
  | _, _ => false
  end.

Definition nfid_eqb (a b : nfid) : bool :=
  match a, b with
  | NfString x, NfString y | NfBytes x, NfBytes y | NfRuid x, NfRuid y => bytes_eqb x y
  | NfInteger x, NfInteger y => x =? y
  | _, _ => false
  end.
Definition cvalue_eqb (a b : cvalue) : bool :=
  match a, b with
  | SReference x, SReference y | SOwn x, SOwn y | SDecimal x, SDecimal y
  | SPreciseDecimal x, SPreciseDecimal y | MAddressStatic x, MAddressStatic y
  | MBlob x, MBlob y | MDecimal x, MDecimal y | MPreciseDecimal x, MPreciseDecimal y => bytes_eqb x y
  | SNonFungibleLocalId x, SNonFungibleLocalId y
  | MNonFungibleLocalId x, MNonFungibleLocalId y => nfid_eqb x y
  | MAddressNamed x, MAddressNamed y | MBucket x, MBucket y | MProof x, MProof y
  | MAddressReservation x, MAddressReservation y => x =? y
  | MExpression x, MExpression y => Bool.eqb x y
  | _, _ => false
  end.

Fixpoint value_eqb (a b : value) {struct a} : bool :=
  let list_eqb := fix go (x y : list value) : bool :=
    match x, y with
    | [], [] => true
    | p :: x', q :: y' => value_eqb p q && go x' y'
    | _, _ => false
    end in
  match a, b with
  | VBool x, VBool y => Bool.eqb x y
  | VInt i x, VInt j y => kind_eqb (KInt i) (KInt j) && (x =? y)%Z
  | VString x, VString y => bytes_eqb x y
  | VEnum d x, VEnum e y => (d =? e) && list_eqb x y
  | VArray k x, VArray l y => kind_eqb k l && list_eqb x y
  | VTuple x, VTuple y => list_eqb x y
  | VMap k1 k2 x, VMap l1 l2 y =>
    kind_eqb k1 l1 && kind_eqb k2 l2 &&
    (fix go (x y : list (value * value)) : bool :=
       match x, y with
       | [], [] => true
       | (p1, p2) :: x', (q1, q2) :: y' => value_eqb p1 q1 && value_eqb p2 q2 && go x' y'
       | _, _ => false
       end) x y
  | VCustom x, VCustom y => cvalue_eqb x y
  | _, _ => false
  end.

Definition enc_err_eqb (a b : enc_err) : bool :=
  match a, b with
  | EMaxDepthExceeded x, EMaxDepthExceeded y => x =? y
  | ESizeTooLarge x1 x2, ESizeTooLarge y1 y2
  | EMismatchingArrayElementValueKind x1 x2, EMismatchingArrayElementValueKind y1 y2
  | EMismatchingMapKeyValueKind x1 x2, EMismatchingMapKeyValueKind y1 y2
  | EMismatchingMapValueValueKind x1 x2, EMismatchingMapValueValueKind y1 y2 => (x1 =? y1) && (x2 =? y2)
  | _, _ => false
  end.
Definition dec_err_eqb (a b : dec_err) : bool :=
  match a, b with
  | ExtraTrailingBytes x, ExtraTrailingBytes y | UnexpectedCustomValueKind x, UnexpectedCustomValueKind y
  | UnknownValueKind x, UnknownValueKind y | UnknownDiscriminator x, UnknownDiscriminator y
  | InvalidBool x, InvalidBool y | MaxDepthExceeded x, MaxDepthExceeded y => x =? y
  | BufferUnderflow x1 x2, BufferUnderflow y1 y2
  | UnexpectedPayloadPrefix x1 x2, UnexpectedPayloadPrefix y1 y2
  | UnexpectedValueKind x1 x2, UnexpectedValueKind y1 y2
  | UnexpectedSize x1 x2, UnexpectedSize y1 y2
  | UnexpectedDiscriminator x1 x2, UnexpectedDiscriminator y1 y2 => (x1 =? y1) && (x2 =? y2)
  | InvalidUtf8, InvalidUtf8 | InvalidSize, InvalidSize | DuplicateKey, DuplicateKey
  | InvalidCustomValue, InvalidCustomValue => true
  | _, _ => false
  end.

Definition result_eqb {E A} (ee : E -> E -> bool) (ae : A -> A -> bool) (a b : result E A) : bool :=
  match a, b with
  | Ok x, Ok y => ae x y
  | Err x, Err y => ee x y
  | Panic, Panic => true
  | _, _ => false      (* OutOfFuel never agrees with an implementation outcome *)
  end.
Definition eres_eqb := @result_eqb enc_err bytes enc_err_eqb bytes_eqb.
Definition dres_eqb := @result_eqb dec_err value dec_err_eqb value_eqb.

(* a case = inputs + the outcomes observed on the implementation *)
Inductive case :=
(* encode v at limit md_enc; if that gave bytes, decode them at limit md_dec *)
| CValue (fl : flavour) (md_enc md_dec : N) (v : value) (enc : eres bytes) (dec : option (dres value))
(* decode input at limit md; if that gave a value, encode it at limit md *)
| CBytes (fl : flavour) (md : N) (input : bytes) (dec : dres value) (reenc : option (eres bytes))
(* the size codec on its own: Encoder::write_size n; Decoder::read_size on bytes -> (size, bytes left) *)
| CWriteSize (n : N) (enc : eres bytes)
| CReadSize (input : bytes) (r : result dec_err (N * N)).

Definition check (c : case) : bool :=
  match c with
  | CValue fl me mdd v enc dec =>
    let m := encode_payload fl me v in
    eres_eqb m enc &&
    match m, dec with
    | Ok bs, Some d => dres_eqb (decode_payload fl mdd bs) d
    | Ok _, None => false
    | _, Some _ => false
    | _, None => true
    end
  | CBytes fl md input dec reenc =>
    let m := decode_payload fl md input in
    dres_eqb m dec &&
    match m, reenc with
    | Ok v, Some r => eres_eqb (encode_payload fl md v) r
    | Ok _, None => false
    | _, Some _ => false
    | _, None => true
    end
  | CWriteSize n enc => eres_eqb (write_size n) enc
  | CReadSize input r =>
    @result_eqb dec_err (N * N) dec_err_eqb (fun a b => (fst a =? fst b) && (snd a =? snd b))
      (bind (read_size input) (fun p => Ok (fst p, nlen (snd p)))) r
  end.
