(* C46 — WASM instrumentation preserves program meaning. Property theorems only.

   Model: Model/C46_MiniWasm.v — a structured-control subset of WebAssembly with a fuel-based
   big-step semantics and traps, and the pseudo-instruction `Charge c` standing for the injected
   `i64.const c; call $gas`.  The instrumented programs the theorem is applied to are the REAL outputs
   of WasmModule::inject_instruction_metering, parsed back into this syntax by the harness; on every
   case Coq checks `erase_prog instrumented = original` and that the model interpreter agrees with
   wasmi (Corr/C46_run.v).
   Vocabulary (Proof/C46_MiniWasm.v):
     erase / erase_prog     remove every Charge (recursively in block / loop / if bodies)
     same s t               equal operand stack, locals, globals and memory (budget and charged
                            amount are not compared)
     same_out r r'          same kind of outcome (Normal / Branch n / Ret / Trap) with `same` states

   Proved: (1) metering calls — WHEREVER they are placed and whatever they cost — never change
   results or traps as long as the budget does not run out (C46_meter_preserves); more fuel never
   changes a finished run (C46_fuel_monotone); budget + charged is conserved (C46_gas_conservation).
   (2) For the metered-block ALGORITHM of the instrumenter restated on this syntax
   (Model/C46_Meter.v: meter_prog; on every case Coq checks that it reproduces the real instrumenter
   output charge for charge, with the instruction costs generated from the code, Gen/C46_weights.v):
   with `Tick (cost i)` in front of every instruction i (so that `spent` = sum of the costs of the
   executed instructions, function-entry cost included) a call that returns normally has
     charged - spent  >=  its value before the call          for every program (C46_cost_covers_path):
                          the instrumenter never charges less than the executed path costs, and
     charged - spent  =   its value before the call          for every program without a `continue` out
                          of a nested construct (C46_cost_is_path_cost_except_known).
   The literal equality is REFUTED for the algorithm as implemented (C46_cost_is_path_cost_refuted):
   a br / br_if to a LOOP label from inside a nested block / if does not close the loop body's
   metered block (gas_metering `branch()` ignores loop targets), so the instructions after the nested
   construct are prepaid at the top of the loop body and skipped by the continue.  The charged amount
   is still a function of the executed path only (it is the sum of the Charge constants met), which
   is what the property statement literally asks; it is an over-charge, never an under-charge.
   The harness replays this on the real instrumenter + wasmi (counter
   overcharged_runs_nested_continue; fixed corpus programs 0 and 1).
   NOT covered: the stack-height limiter (differential runs only), instructions outside the subset
   (br_table, call_indirect, memory.grow, i32 arithmetic), trapping runs (only `>=` is checked by
   the harness there). *)
From Coq Require Import List ZArith Bool String.
Import ListNotations.
Require Import RV.Model.C46_MiniWasm RV.Model.C46_Meter RV.Proof.C46_MiniWasm RV.Proof.C46_Meter RV.Gen.C46_weights.
Open Scope Z_scope.

(* For every instrumented program p (Charge instructions anywhere, any amounts), every start state
   and every instruction list: if the run does not end OutOfGas (the budget covered every charge on
   the executed path) then the program with the instrumentation erased, started in a state with
   the same stack / locals / globals / memory, produces the same result or the same trap. *)
Theorem C46_meter_preserves : forall f p s t is r,
  same s t -> exec f p s is = r -> r <> OutOfGas -> r <> OutOfFuel ->
  exists r', exec f (erase_prog p) t (erase is) = r' /\ same_out r r'.
Proof. exact erase_sim. Qed.

(* calling an exported function: `Call g` is not touched by erasure *)
Corollary C46_meter_preserves_call : forall f p s g r,
  exec f p s [Call g] = r -> r <> OutOfGas -> r <> OutOfFuel ->
  exists r', exec f (erase_prog p) s [Call g] = r' /\ same_out r r'.
Proof.
  intros f p s g r H Hg Hf.
  apply (erase_sim f p s s [Call g] r); auto. repeat split; reflexivity.
Qed.

Theorem C46_fuel_monotone : forall f p s is r,
  exec f p s is = r -> r <> OutOfFuel -> exec (S f) p s is = r.
Proof. exact exec_mono. Qed.

(* gas accounting: in every run that ends with a state, what left the budget is exactly what was
   charged (budget + charged is conserved by every instruction, call and branch) *)
Theorem C46_gas_conservation : forall f p s is r,
  exec f p s is = r ->
  match r with
  | Normal s' | Branch _ s' | Ret s' => gas s' + charged s' = gas s + charged s
  | _ => True
  end.
Proof. exact exec_conserves. Qed.

(* the only way a Charge is observable: it moves `c` from the budget to the charged total, or
   stops the run when the budget is insufficient *)
Theorem C46_charge_step : forall f p s c rest,
  exec (S f) p s (Charge c :: rest) =
    if gas s <? c then OutOfGas
    else exec f p (mkSt (stack s) (locals s) (globals s) (mem s) (gas s - c) (charged s + c) (spent s)) rest.
Proof. intros. cbn [exec step_simple]. destruct (gas s <? c); reflexivity. Qed.

(* ---- the metered-block algorithm: cost charged vs cost of the executed path -------------------- *)

(* the metered program is the original plus Charge / Tick instructions, so C46_meter_preserves
   applies to it *)
Theorem C46_meter_only_inserts : forall cost per_local extra p, plain_prog p = true ->
  erase_prog (meter_prog cost per_local extra p) = p.
Proof. exact erase_meter_prog. Qed.

(* never under-charged: every program, every normal return of a call *)
Theorem C46_cost_covers_path : forall cost per_local extra,
  (forall i, 0 <= cost i) -> 0 <= per_local ->
  forall p, plain_prog p = true ->
  forall n s g s', exec n (meter_prog cost per_local extra p) s [Call g] = Normal s' ->
  charged s' - spent s' >= charged s - spent s.
Proof. exact cost_covers_path. Qed.

(* exact, outside the known class (nc_prog p: no branch leaves a nested block / loop / if towards a
   loop label outside it) *)
Theorem C46_cost_is_path_cost_except_known : forall cost per_local extra,
  (forall i, 0 <= cost i) -> 0 <= per_local ->
  forall p, plain_prog p = true -> nc_prog p = true ->
  forall n s g s', exec n (meter_prog cost per_local extra p) s [Call g] = Normal s' ->
  charged s' - spent s' = charged s - spent s.
Proof. exact cost_is_path_cost_when_nc. Qed.

(* the known class is real: with the costs of the code, a loop that `continue`s three times from
   inside a nested block returns normally having been charged more than the executed instructions
   cost (this very program is case 0 of every harness run, against the real instrumenter) *)
Definition c46_overcharge_witness : prog :=
  [mkFunc 1 1 true
     [Const 3; LocalSet 1%nat;
      Loop [LocalGet 1%nat; Const 1; Bin Sub; LocalSet 1%nat;
            Block [LocalGet 1%nat; BrIf 1%nat; Nop];
            GlobalGet 0%nat; Const 1; Bin Add; GlobalSet 0%nat];
      GlobalGet 0%nat]].
Theorem C46_cost_is_path_cost_refuted :
  plain_prog c46_overcharge_witness = true /\ nc_prog c46_overcharge_witness = false /\
  exists s', exec 200 (meter_prog c46_cost c46_per_local 1 c46_overcharge_witness)
               (mkSt [0] [] [0] [] 1000000 0 0) [Call 0%nat] = Normal s' /\
             stack s' = [1] /\ charged s' > spent s'.
Proof. split; [reflexivity|]. split; [reflexivity|]. vm_compute. eexists. repeat split; reflexivity. Qed.

(* the generated costs satisfy the hypotheses of the two theorems above *)
Theorem C46_generated_costs_nonneg : (forall i, 0 <= c46_cost i) /\ 0 <= c46_per_local.
Proof. split; [intro i; destruct i; try destruct o; vm_compute; discriminate|vm_compute; discriminate]. Qed.

(* every operator the validator admits is charged: the only free ones are the four that do no work
   of their own (unreachable traps, else / end are markers, return's work is the callee's epilogue) *)
Theorem C46_every_instruction_charged :
  forallb (fun nc => (0 <? snd nc) ||
                     existsb (String.eqb (fst nc)) ["Unreachable"; "Else"; "End"; "Return"]%string)
          c46_all_costs = true
  /\ (100 <=? Z.of_nat (List.length c46_all_costs)) = true.
Proof. split; vm_compute; reflexivity. Qed.

(* non-vacuity: a metered loop summing 3+2+1 with a division; the instrumented and the erased
   program return 6; with a budget one unit short the instrumented one runs out of gas; dividing
   by zero traps in both *)
Definition c46_example : prog :=
  [mkFunc 1 2 true
     [Charge 10; Const 3; LocalSet 1%nat;
      Loop [Charge 7; LocalGet 2%nat; LocalGet 1%nat; Bin Add; LocalSet 2%nat;
            LocalGet 1%nat; Const 1; Bin Sub; LocalTee 1%nat; BrIf 0%nat];
      Charge 4; LocalGet 2%nat; LocalGet 0%nat; Bin DivU]].
Example C46_nonvacuous :
  let st := fun arg b => mkSt [arg] [] [] [] b 0 0 in
  (exists s, exec 100 c46_example (st 1 35) [Call 0%nat] = Normal s /\ stack s = [6] /\ charged s = 35) /\
  (exists s, exec 100 (erase_prog c46_example) (st 1 0) [Call 0%nat] = Normal s /\ stack s = [6]) /\
  exec 100 c46_example (st 1 34) [Call 0%nat] = OutOfGas /\
  exec 100 c46_example (st 0 35) [Call 0%nat] = Trap /\
  exec 100 (erase_prog c46_example) (st 0 0) [Call 0%nat] = Trap.
Proof. vm_compute. repeat split; try reflexivity; eexists; repeat split; reflexivity. Qed.

Print Assumptions C46_meter_preserves.
Print Assumptions C46_meter_preserves_call.
Print Assumptions C46_fuel_monotone.
Print Assumptions C46_gas_conservation.
Print Assumptions C46_charge_step.
Print Assumptions C46_nonvacuous.
Print Assumptions C46_meter_only_inserts.
Print Assumptions C46_cost_covers_path.
Print Assumptions C46_cost_is_path_cost_except_known.
Print Assumptions C46_cost_is_path_cost_refuted.
Print Assumptions C46_generated_costs_nonneg.
Print Assumptions C46_every_instruction_charged.
