(* C46 — WASM instrumentation preserves program meaning. Property theorems only.

   Model: Model/C46_MiniWasm.v — a structured-control subset of WebAssembly with a fuel-based
   big-step semantics and traps, and the pseudo-instruction `Charge c` standing for the injected
   `i64.const c; call $gas`.  The instrumented programs the theorem is applied to are the REAL outputs
   of WasmModule::inject_instruction_metering, parsed back into this syntax by the harness; on every
   case Coq checks `erase_prog instrumented = original` and that the model interpreter agrees with
   wasmi (Corr/C46_run.v).
   Vocabulary (Proof/C46_MiniWasm.v):
     erase / erase_prog     remove every Charge (recursively in block / loop / if bodies)
     same s t               equal operand stack, locals, globals and memory (budget and charged
                            amount are not compared)
     same_out r r'          same kind of outcome (Normal / Branch n / Ret / Trap) with `same` states

   PARTIAL. Proved: metering calls — WHEREVER they are placed and whatever they cost — never change
   results or traps as long as the budget does not run out (C46_meter_preserves), and more fuel
   never changes a finished run (C46_fuel_monotone). NOT proved: that the amounts the real
   algorithm injects add up to the sum of the costs of the executed instructions
   ("cost = path cost"); this is decided on every run by the harness's naive-metering oracle
   (per-instruction charging of the same program under wasmi gives the same total on every
   non-trapping run) and by the model/wasmi agreement on the charged amount.  The stack-height
   limiter is covered by differential runs only.  Only the modelled instruction subset. *)
From Coq Require Import List ZArith Bool.
Import ListNotations.
Require Import RV.Model.C46_MiniWasm RV.Proof.C46_MiniWasm.
Open Scope Z_scope.

(* For every instrumented program p (Charge instructions anywhere, any amounts), every start state
   and every instruction list: if the run does not end OutOfGas (the budget covered every charge on
   the executed path) then the program with the instrumentation erased, started in a state with
   the same stack / locals / globals / memory, produces the same result or the same trap. *)
Theorem C46_meter_preserves : forall f p s t is r,
  same s t -> exec f p s is = r -> r <> OutOfGas -> r <> OutOfFuel ->
  exists r', exec f (erase_prog p) t (erase is) = r' /\ same_out r r'.
Proof. exact erase_sim. Qed.

(* calling an exported function: `Call g` is not touched by erasure *)
Corollary C46_meter_preserves_call : forall f p s g r,
  exec f p s [Call g] = r -> r <> OutOfGas -> r <> OutOfFuel ->
  exists r', exec f (erase_prog p) s [Call g] = r' /\ same_out r r'.
Proof.
  intros f p s g r H Hg Hf.
  apply (erase_sim f p s s [Call g] r); auto. repeat split; reflexivity.
Qed.

Theorem C46_fuel_monotone : forall f p s is r,
  exec f p s is = r -> r <> OutOfFuel -> exec (S f) p s is = r.
Proof. exact exec_mono. Qed.

(* gas accounting: in every run that ends with a state, what left the budget is exactly what was
   charged (budget + charged is conserved by every instruction, call and branch) *)
Theorem C46_gas_conservation : forall f p s is r,
  exec f p s is = r ->
  match r with
  | Normal s' | Branch _ s' | Ret s' => gas s' + charged s' = gas s + charged s
  | _ => True
  end.
Proof. exact exec_conserves. Qed.

(* the only way a Charge is observable: it moves `c` from the budget to the charged total, or
   stops the run when the budget is insufficient *)
Theorem C46_charge_step : forall f p s c rest,
  exec (S f) p s (Charge c :: rest) =
    if gas s <? c then OutOfGas
    else exec f p (mkSt (stack s) (locals s) (globals s) (mem s) (gas s - c) (charged s + c)) rest.
Proof. intros. cbn [exec step_simple]. destruct (gas s <? c); reflexivity. Qed.

(* non-vacuity: a metered loop summing 3+2+1 with a division; the instrumented and the erased
   program return 6; with a budget one unit short the instrumented one runs out of gas; dividing
   by zero traps in both *)
Definition c46_example : prog :=
  [mkFunc 1 2 true
     [Charge 10; Const 3; LocalSet 1%nat;
      Loop [Charge 7; LocalGet 2%nat; LocalGet 1%nat; Bin Add; LocalSet 2%nat;
            LocalGet 1%nat; Const 1; Bin Sub; LocalTee 1%nat; BrIf 0%nat];
      Charge 4; LocalGet 2%nat; LocalGet 0%nat; Bin DivU]].
Example C46_nonvacuous :
  let st := fun arg b => mkSt [arg] [] [] [] b 0 in
  (exists s, exec 100 c46_example (st 1 35) [Call 0%nat] = Normal s /\ stack s = [6] /\ charged s = 35) /\
  (exists s, exec 100 (erase_prog c46_example) (st 1 0) [Call 0%nat] = Normal s /\ stack s = [6]) /\
  exec 100 c46_example (st 1 34) [Call 0%nat] = OutOfGas /\
  exec 100 c46_example (st 0 35) [Call 0%nat] = Trap /\
  exec 100 (erase_prog c46_example) (st 0 0) [Call 0%nat] = Trap.
Proof. vm_compute. repeat split; try reflexivity; eexists; repeat split; reflexivity. Qed.

Print Assumptions C46_meter_preserves.
Print Assumptions C46_meter_preserves_call.
Print Assumptions C46_fuel_monotone.
Print Assumptions C46_gas_conservation.
Print Assumptions C46_charge_step.
Print Assumptions C46_nonvacuous.
