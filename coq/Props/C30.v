(* C30 — Decompiled manifests compile back to the same manifest (partial). Property theorems only.
   Model/C30_Text.v: the string escaper of the decompiler (`esc_char`, `hex4`) and the string lexer of
   the compiler (`lex_string`, `hex4val`). *)
From Coq Require Import List NArith Bool.
Import ListNotations.
Require Import RV.Model.C30_Text RV.Proof.C30_Text.
Open Scope N_scope.

(* every UTF-16 unit printed as \uXXXX digits is read back by read_utf16_unit (exhaustive, 2^16) *)
Theorem C30_hex4_roundtrip : forall v, v < 65536 -> hex4_ok v = true.
Proof. exact hex4_roundtrip_all. Qed.

(* string-escape inverse, per character, exhaustive over all 1,114,112 code points and both values of
   the should-escape flag: a scalar value printed by the escaper (literally, by a two-character
   escape, by \uXXXX or by a surrogate pair) and followed by the closing quote is lexed back to exactly
   that character.  PARTIAL: the lift to whole strings (lex (esc c ++ rest) continues with rest) and
   the value-tree printer/parser are not proved; they are covered by correspondence (escape /
   lex_string vs the implementation on random strings) and by the decompile->compile oracle. *)
Theorem C30_escape_char_roundtrip_partial : forall c, c < 1114112 -> char_ok c = true.
Proof. exact escape_char_roundtrip_all. Qed.

Example C30_nonvacuous :
  esc_char (fun _ => true) 128512 = [92; 117; 100; 56; 51; 100; 92; 117; 100; 101; 48; 48] /\
  lex_string_literal (escape (fun c => N.eqb c 233) [34; 233; 128512; 10]) = SOk [34; 233; 128512; 10] 13.
Proof. split; vm_compute; reflexivity. Qed.

Print Assumptions C30_hex4_roundtrip.
Print Assumptions C30_escape_char_roundtrip_partial.
