(* C30 — Decompiled manifests compile back to the same manifest (partial). Property theorems only.
   Model/C30_Text.v: the string escaper of the decompiler (`escape`, `esc_char`, `hex4`) and the string
   lexer of the compiler (`lex_string`, `hex4val`).  Strings are lists of code points; a Rust `String`
   holds exactly the lists of Unicode scalar values (`is_scalar`). *)
From Coq Require Import List NArith ZArith Bool.
Import ListNotations.
Require Import RV.Model.C30_Text RV.Proof.C30_Text RV.Model.C31_Lexer RV.Model.C30_Value RV.Proof.C30_Value.
Open Scope N_scope.

(* every UTF-16 unit printed as \uXXXX digits is read back by read_utf16_unit (exhaustive, 2^16) *)
Theorem C30_hex4_roundtrip : forall v, v < 65536 -> hex4_ok v = true.
Proof. exact hex4_roundtrip_all. Qed.

(* string-escape inverse, whole strings (induction over the list): for EVERY choice of the set of
   characters that get a unicode escape (`f`), and every string of scalar values, the lexer reads the
   printed literal back to exactly the string — also when more manifest text follows the literal *)
Theorem C30_string_roundtrip : forall f s, Forall (fun c => is_scalar c = true) s ->
  exists e, lex_string_literal (escape f s) = SOk s e.
Proof. exact string_roundtrip. Qed.
Theorem C30_string_roundtrip_in_context : forall f s rest, Forall (fun c => is_scalar c = true) s ->
  exists e, lex_string (flat_map (esc_char f) s ++ 34 :: rest) 1 0 [] = SOk s e.
Proof. exact string_roundtrip_in_context. Qed.
(* per character: what is printed for c is consumed entirely and yields exactly c *)
Theorem C30_escape_char_roundtrip : forall f c t pos start acc, is_scalar c = true ->
  exists k, lex_string (esc_char f c ++ t) pos start acc = lex_string t (pos + k) start (c :: acc).
Proof. exact lex_esc_char. Qed.

(* value layer, token level (Model/C30_Value.v): `print_value v` is the token sequence of what
   format_manifest_value prints for a manifest value (Tuple / Enum<Nu8> / Array<Kind> / Bytes("hex") /
   Map<K, V>(k => v) / literals / the one-argument forms Ident("..") of custom values), `parse_value` is
   Parser::parse_value with its depth limit, `ast_of v` the syntax tree the generator then consumes.
   For EVERY well-formed value tree nested at most PARSER_MAX_DEPTH deep (induction on the tree), the
   parser reads the printed tokens back to exactly `ast_of v` and consumes exactly them — at any stack
   depth that leaves room, with any continuation, and with any fuel above the token count (so the
   loops' fuel is never the limit). *)
Theorem C30_value_roundtrip : forall v, wf v -> vdepth v <= PARSER_MAX_DEPTH ->
  parse_tokens (print_value v) = POk (ast_of v) [].
Proof. exact value_roundtrip_top. Qed.
Theorem C30_value_roundtrip_in_context : forall v, wf v -> forall fuel d rest,
  (List.length (print_value v) + 1 <= fuel)%nat -> d + vdepth v <= PARSER_MAX_DEPTH ->
  parse_value fuel d (print_value v ++ rest) = POk (ast_of v) rest.
Proof. exact value_roundtrip. Qed.
(* KNOWN FINDING (class value-depth-21): the depth limit of the parser (20) is lower than what the rest
   of the tool chain accepts — a call argument nested exactly 21 deep is manifest-encodable as part of
   an instruction list (3 + 21 = 24 = MANIFEST_SBOR_V1_MAX_DEPTH) and passes static validation, the
   decompiler prints it, and the printed text is rejected by the compiler with MaxDepthExceeded.  The
   faithful model shows it; C30_value_roundtrip above is the statement outside the class (depth <= 20).
   Such a value cannot occur in a notarized transaction payload (the payload depth limit leaves at most
   20 levels), so the decompiler's documented contract is not violated; recorded, not repaired. *)
Theorem C30_value_roundtrip_depth21_refuted : exists v, wf v /\ vdepth v = 21 /\
  parse_tokens (print_value v) = PErr PMaxDepth.
Proof.
  exists (N.iter 20 (fun x => MTuple [x]) (MInt false 8 (Z.of_N 7))).
  split; [vm_compute; tauto|]. split; vm_compute; reflexivity.
Qed.

(* NOT proved (correspondence + round-trip oracle only): that lexing the printed TEXT gives
   `print_value v` (number / identifier printing), and the generator step ast -> ManifestValue
   (type checks, bech32 / decimal / id parsing of the leaf strings, name resolution). *)

(* ON THE SURROGATE LENIENCY OF THE LEXER.  tokenize_string enters the pair branch for any first unit
   in D800..DFFF (also a LOW surrogate) and combines it with any second unit, so e.g. "\udc00A"
   or "\ud800A" lex to an unrelated character (or to InvalidUnicode) instead of being rejected.
   Against C30: the decompiler prints strings through `esc_char`, which starts from Rust chars (scalar
   values) and emits \u escapes only as one non-surrogate unit or as a (high, low) pair computed from
   the character — by C30_string_roundtrip these are always read back exactly, and a lone / mismatched
   surrogate escape is never printed; the leniency is therefore outside C30.  Against C31: the statement
   asks for "a manifest or an error, no panic, same answer every time"; the arithmetic cannot underflow
   (Model: SPanic unreachable, C31 theorems) and the result is a deterministic char or InvalidUnicode.
   It is thus not a defect with respect to either property; it is a deviation from JSON string
   semantics on hand-written input only, recorded here and not listed as a finding. *)
Example C30_surrogate_leniency :
  lex_string_literal [34; 92; 117; 100; 99; 48; 48; 92; 117; 48; 48; 52; 49; 34] = SOk [1057857] 14.
Proof. vm_compute. reflexivity. Qed.

Example C30_nonvacuous :
  esc_char (fun _ => true) 128512 = [92; 117; 100; 56; 51; 100; 92; 117; 100; 101; 48; 48] /\
  lex_string_literal (escape (fun c => N.eqb c 233) [34; 233; 128512; 10]) = SOk [34; 233; 128512; 10] 13 /\
  Forall (fun c => is_scalar c = true) [34; 233; 128512; 10].
Proof. split; [|split]; [vm_compute; reflexivity | vm_compute; reflexivity | repeat constructor]. Qed.

Print Assumptions C30_hex4_roundtrip.
Print Assumptions C30_string_roundtrip.
Print Assumptions C30_string_roundtrip_in_context.
Print Assumptions C30_escape_char_roundtrip.
Print Assumptions C30_value_roundtrip.
Print Assumptions C30_value_roundtrip_in_context.
Print Assumptions C30_value_roundtrip_depth21_refuted.
