(* C42 — Validator staking and emissions never create value. Property theorems only.
   Model: Model/C42_Staking.v (integers = attos; Decimal mul/div truncate at 18 places).
     stake x v u        = Some (units, v', u')   stake x XRD into stake vault v with unit supply u
     unstake n v u      = Some (claim, v', u')   unstake n units
     sort_prefix s      = Some p                 the u16 index prefix of stake s (65535 - min(65535, s/100k XRD))
     emissions te minrel active = Some [(id, emission)]   active = [(id, recorded stake, made, missed)]
     next_set maxv scan                          scan = registered validators with stake > 0 in index order *)
From Coq Require Import ZArith List Bool Lia Sorted.
Import ListNotations.
Require Import RV.Model.C42_Staking RV.Proof.C42_Staking RV.Proof.C42_System RV.Model.C42_Index RV.Proof.C42_Index.
Open Scope Z_scope.

(* staking x and immediately unstaking the minted units never claims more than x — for every
   stake-vault balance and unit supply, including empty vault / no units *)
Theorem C42_stake_unstake_no_gain : forall x v u m v' u' c v'' u'',
  0 <= x -> 0 <= v -> 0 <= u ->
  stake x v u = Some (m, v', u') -> unstake m v' u' = Some (c, v'', u'') -> c <= x.
Proof. exact stake_unstake_no_gain. Qed.

(* units minted are the proportional amount rounded down (m·V <= x·U); the first stake into an
   empty vault mints x; the redemption value is the proportional share rounded down (c·U <= n·V) *)
Theorem C42_units_proportional : forall x v u m,
  stake_units x v u = Some m -> 0 <= x -> 0 <= v -> 0 <= u ->
  0 <= m /\ (v = 0 -> m = x) /\ (0 < v -> m * v <= x * u).
Proof. exact stake_units_prop. Qed.
Theorem C42_redemption_proportional : forall n v u c,
  redemption_value n v u = Some c -> 0 <= n -> 0 <= v -> 0 <= u ->
  0 <= c /\ (u = 0 -> c = 0) /\ (0 < u -> c * u <= n * v).
Proof. exact redemption_value_prop. Qed.

(* per epoch, the emissions are non-negative and sum to at most the configured amount, for every
   active set, proposal statistics and minimum reliability *)
Theorem C42_emission_bounded : forall te minrel active l,
  emissions te minrel active = Some l -> 0 <= te ->
  Forall (fun a : Z * Z * Z * Z => 0 <= snd (fst a) /\ 0 <= snd a) active ->
  Forall (fun it : Z * Z => 0 <= snd it) l /\ zsum (map snd l) <= te.
Proof. exact emission_bounded. Qed.

(* more stake never gives a larger index prefix (with C16: index order = 100k-XRD stake bucket desc) *)
Theorem C42_sort_prefix_antitone : forall s1 s2 p1 p2,
  sort_prefix s1 = Some p1 -> sort_prefix s2 = Some p2 -> 0 <= s1 <= s2 ->
  p2 <= p1 /\ 0 <= p2 /\ p1 <= U16_MAX.
Proof. exact sort_prefix_antitone. Qed.

(* the next validator set: at most max_validators members, ordered by stake descending, all taken
   from the index (registered, stake > 0), and nobody left out has more stake than a member.
   (Caveat stated in the code: the scan reads only max + max/10 + 10 index entries; the model's
   [scan] is what was read. Equal stakes keep their scan order — the sort is stable — and the scan
   order inside one 100k-XRD bucket is the database order of the hash-prefixed index key.) *)
Theorem C42_active_set_shape : forall maxv scan,
  0 <= maxv ->
  (length (next_set maxv scan) <= Z.to_nat maxv)%nat /\
  StronglySorted ge_stake (next_set maxv scan) /\
  (forall y, In y (next_set maxv scan) -> In y scan) /\
  (forall y z, In y scan -> ~ In y (next_set maxv scan) -> In z (next_set maxv scan) -> snd y <= snd z).
Proof. exact next_set_shape. Qed.

(* per epoch, the rewards handed to validators are non-negative and sum to at most the rewards
   vault, for every active set and statistics, provided the proposer counters sum to at most the
   vault (an invariant of the state machine below: every fee distribution adds the proposer's part
   to both) *)
Theorem C42_reward_bounded : forall minrel active proposer vault l,
  rewards minrel active proposer vault = Some l -> active_ok active ->
  Forall (fun it : Z * Z => 0 <= snd it) proposer -> zsum (map snd proposer) <= vault ->
  Forall (fun it : Z * Z => 0 <= snd it) l /\ zsum (map snd l) <= vault.
Proof. exact reward_bounded. Qed.

(* ---- histories -------------------------------------------------------------------------------
   The staking system as a state machine [sstep] over: stake, unstake, claim_xrd, fee distribution
   of a committed transaction, epoch change, fee-factor change, (un)registration.  [sinv]: every
   stake vault / unit supply / locked amount >= 0, every pending-withdraw vault holds exactly the
   sum of the outstanding claim NFTs, rewards vault >= sum of the proposer counters >= 0.
   [held s] = all XRD in stake vaults, pending-withdraw vaults and the rewards vault;
   [balance s] = held s + paid out (claims) - received (stakes, fees) - minted (emissions). *)

(* over every operation sequence (failed transactions change nothing) the invariant is kept and
   the balance is constant: XRD in the system changes only by what users put in, what claims pay
   out and the minted emission — nothing else is created or lost *)
Theorem C42_conservation : forall ops s,
  sinv s ->
  sinv (srun s ops) /\ balance (srun s ops) = balance s /\
  g_mint s <= g_mint (srun s ops) /\ g_in s <= g_in (srun s ops) /\ g_out s <= g_out (srun s ops).
Proof. exact srun_conservation. Qed.

(* an epoch change mints between 0 and the configured amount, takes between 0 and the rewards
   vault out of it, takes nothing from users and pays nothing out *)
Theorem C42_epoch_bounds : forall s te minrel active s',
  sstep s (SEpoch te minrel active) = Some s' -> sinv s -> 0 <= te -> active_ok active ->
  0 <= g_mint s' - g_mint s <= te /\ 0 <= srv s - srv s' <= srv s /\
  g_in s' = g_in s /\ g_out s' = g_out s /\ sepoch s' = sepoch s + 1.
Proof. exact epoch_bounds. Qed.
(* the XRD minted is exactly the sum of the emissions applied, the rewards vault shrinks by exactly
   the rewards, and each validator's stake vault grows by exactly its emission plus its reward *)
Theorem C42_epoch_vault_growth : forall s te minrel active s',
  sstep s (SEpoch te minrel active) = Some s' ->
  exists es rs,
    emissions te minrel active = Some es /\ rewards minrel active (sprop s) (srv s) = Some rs /\
    g_mint s' = g_mint s + zsum (map snd es) /\ srv s' = srv s - zsum (map snd rs) /\
    forall k, sv_at k (svals s') = sv_at k (svals s) + sum_for (Z.of_nat k) es + sum_for (Z.of_nat k) rs.
Proof. exact epoch_vault_growth. Qed.
(* the epoch change never fails for lack of funds in the rewards vault *)
Theorem C42_rewards_vault_suffices : forall s te minrel active es rs,
  sinv s -> active_ok active ->
  emissions te minrel active = Some es -> rewards minrel active (sprop s) (srv s) = Some rs ->
  existsb (fun it : Z * Z => snd it <? 0) rs || (srv s <? zsum (map snd rs)) = false.
Proof. exact epoch_rewards_vault_suffices. Qed.

(* unstake records a claim of c XRD with c·U <= n·V (the proportional share, rounded down) and
   moves exactly c into the pending-withdraw vault; claim_xrd pays exactly the recorded amount of a
   claim NFT whose epoch has come, and such a claim can always be paid *)
Theorem C42_unstake_records_proportional_claim : forall n ce v v',
  v_unstake n ce v = Some v' -> vinv v ->
  vinv v' /\ xrd v' = xrd v /\
  exists c, sclaims v' = (c, ce) :: sclaims v /\ 0 <= c /\ sv v' = sv v - c /\ su v' = su v - n /\
            (0 < su v -> c * su v <= n * sv v).
Proof. exact v_unstake_ok. Qed.
Theorem C42_claim_pays_recorded_amount : forall amt ce cur v v',
  v_claim amt ce cur v = Some v' -> vinv v ->
  vinv v' /\ xrd v' = xrd v - amt /\ In (amt, ce) (sclaims v) /\ ce <= cur /\ 0 <= amt /\
  sv v' = sv v /\ su v' = su v.
Proof. exact v_claim_ok. Qed.
Theorem C42_claim_always_payable : forall amt ce cur v,
  vinv v -> In (amt, ce) (sclaims v) -> ce <= cur -> v_claim amt ce cur v <> None.
Proof. exact v_claim_succeeds. Qed.

(* ---- second layer: sorted index, registration, fee-factor changes (Model/C42_Index.v) ----------
   [istep] wraps [sstep] with what validator.rs keeps besides the vaults: the validator's sorted_key,
   the consensus manager's index (Create / UpdateStake with its unwrap / Remove), register /
   unregister, update_fee (pending request, promotion, effective epoch, EpochMathOverflow) and the
   effective fee factor of apply_emission.  [iinv]: for every validator, sorted_key = the key its
   registration and current stake prescribe, and the index holds its entry (that prefix, current
   stake) iff that key exists. *)

(* INDEX MAINTENANCE: the invariant is kept by every operation and hence over every operation
   sequence; and UpdateStake's `.unwrap()` never fails *)
Theorem C42_index_maintained : forall ops s, iinv s -> iinv (irun s ops).
Proof. exact irun_iinv. Qed.
Theorem C42_index_update_never_panics : forall s o, iinv s -> istep s o <> IPanic.
Proof. exact istep_no_panic. Qed.
(* what the invariant says about the index content: validator i has an entry iff it is registered
   with non-zero stake, and then the entry carries its current stake under the prefix of that stake —
   so the scan that C42_active_set_shape starts from lists exactly the registered validators with
   positive stake *)
Theorem C42_index_exact : forall s i v,
  iinv s -> nth_error (svals (ibase s)) i = Some v ->
  match nth_error (iindex s) i with
  | Some (Some (p, st)) => sreg v = true /\ sv v <> 0 /\ st = sv v /\ sort_prefix (sv v) = Some p
  | Some None => sreg v = false \/ sv v = 0
  | None => False
  end.
Proof. exact index_exact. Qed.
(* conservation holds for the two-layer machine as well *)
Theorem C42_conservation_with_index : forall ops s,
  sinv (ibase s) -> sinv (ibase (irun s ops)) /\ balance (ibase (irun s ops)) = balance (ibase s).
Proof. exact irun_conservation. Qed.
(* update_fee as written: the value must be in [0, 1]; a pending request that is already effective
   is promoted into the stored factor; an increase becomes effective [delay] epochs later, anything
   else at the next epoch; the epoch arithmetic is checked (EpochMathOverflow) *)
Theorem C42_update_fee_effective_epoch : forall s i ff delay s',
  iinv s -> istep s (IUpdateFee i ff delay) = IOk s' ->
  0 <= ff <= DD /\
  exists stored ee,
    getk (ireq s') i = Some (ee, ff) /\ vff (ibase s') i = stored /\
    stored = effective_ff (vff (ibase s) i) (getk (ireq s) i) (sepoch (ibase s)) /\
    (if stored <? ff then ee = sepoch (ibase s) + delay else ee = sepoch (ibase s) + 1) /\ ee <= U64_MAX.
Proof. exact update_fee_effective_epoch. Qed.

(* Outside the statement, recorded here because it is a loss for a staker (not a gain, so no
   clause of C42 is contradicted: units minted = x·U/V = 0 is "in proportion", nothing is created):
   when every stake unit of a validator has been unstaked while V/U was not representable with 18
   digits, dust stays in the stake vault with unit supply 0; calculate_stake_unit_amount then mints
   x·(0/V) = 0 units for every later stake, and that XRD can never be redeemed (redemption value of
   any amount of units is 0 while the supply is 0... and no unit exists).  Replayed on the engine by
   the harness in every run (scripted history, counter
   stakes_into_vault_with_dust_but_zero_unit_supply); values below are from that replay. *)
Theorem C42_stake_into_dust_with_zero_supply_mints_nothing :
  stake 5000000000000000000 1 0 = Some (0, 5000000000000000001, 0) /\
  forall x v, 0 <= x -> 0 < v -> forall m, stake_units x v 0 = Some m -> m = 0.
Proof.
  split; [vm_compute; reflexivity|].
  intros x v Hx Hv m H. pose proof (stake_units_prop _ _ _ _ H Hx ltac:(lia) ltac:(lia)) as (Hm & _ & Hp).
  specialize (Hp Hv). nia.
Qed.

(* non-vacuity: a validator with 3 XRD staked for 2 units (after emissions); staking 1 XRD mints
   0.666... units which redeem for slightly less than 1 XRD; an emission split over two validators *)
Example C42_nonvacuous :
  let D := 10 ^ 18 in
  stake (1 * D) (3 * D) (2 * D) = Some (666666666666666666, 4 * D, 2666666666666666666) /\
  unstake 666666666666666666 (4 * D) 2666666666666666666 = Some (999999999999999999, 3000000000000000001, 2 * D) /\
  emissions (10 * D) (D / 2) [(0, 30 * D, 9, 1); (1, 10 * D, 3, 1)] = Some [(0, 6 * D); (1, 1250000000000000000)] /\
  next_set 2 [(0, 5); (1, 9); (2, 7)] = [(1, 9); (2, 7)].
Proof. vm_compute. repeat split; reflexivity. Qed.

(* non-vacuity of the history theorems: a two-validator system satisfying [sinv] on which stake,
   unstake, fees, an epoch change with emissions and rewards, and a claim all succeed *)
Example C42_history_nonvacuous :
  let D := 10 ^ 18 in
  let v0 := {| sv := 30 * D; su := 20 * D; spend := 0; slock := 0; sff := D / 2; sreg := true; sclaims := [] |} in
  let v1 := {| sv := 10 * D; su := 10 * D; spend := 0; slock := 0; sff := D; sreg := true; sclaims := [] |} in
  let s0 := {| svals := [v0; v1]; srv := 0; sprop := []; sepoch := 5; g_in := 0; g_out := 0; g_mint := 0 |} in
  let ops := [SStake 0 (3 * D); SUnstake 1 (2 * D) 1; SFee 0 (D / 10) (D / 5);
              SEpoch (10 * D) (D / 2) [(0, 30 * D, 9, 1); (1, 10 * D, 3, 1)]; SClaim 1 (2 * D) 6] in
  sinv s0 /\
  let s := srun s0 ops in
  sepoch s = 6 /\ g_in s = 3 * D + 3 * D / 10 /\ g_out s = 2 * D /\ g_mint s = 7250000000000000000 /\
  held s = held s0 + g_in s + g_mint s - g_out s.
Proof.
  cbv zeta. split.
  - unfold sinv, vinv. cbn [svals srv sprop sv su slock spend sclaims map fst snd zsum].
    repeat split; repeat constructor; try (vm_compute; discriminate).
  - vm_compute. repeat split; reflexivity.
Qed.

(* non-vacuity of the index theorems: a state satisfying [iinv] with an indexed and an unindexed
   validator, on which unregister removes the entry and a stake moves an entry to another prefix *)
Example C42_index_nonvacuous :
  let D := 10 ^ 18 in
  let v0 := {| sv := 150000 * D; su := 150000 * D; spend := 0; slock := 0; sff := D; sreg := true; sclaims := [] |} in
  let v1 := {| sv := 10 * D; su := 10 * D; spend := 0; slock := 0; sff := D; sreg := false; sclaims := [] |} in
  let b := {| svals := [v0; v1]; srv := 0; sprop := []; sepoch := 5; g_in := 0; g_out := 0; g_mint := 0 |} in
  let s := {| ibase := b; ikeys := [Some 65534; None]; iindex := [Some (65534, 150000 * D); None]; ireq := [None; None] |} in
  iinv s /\
  iindex (irun s [IStake 0 (60000 * D); IRegister 1 true]) = [Some (65533, 210000 * D); Some (65535, 10 * D)] /\
  iindex (irun s [IRegister 0 false]) = [None; None].
Proof.
  cbv zeta. split.
  - unfold iinv. cbn [ibase ikeys iindex ireq svals length]. repeat split; auto.
    intros [|[|i]]; unfold cons_at; cbn [nth_error svals sreg sv].
    + exists (Some 65534). repeat split; vm_compute; reflexivity.
    + exists None. repeat split; vm_compute; reflexivity.
    + destruct i; exact I.
  - split; vm_compute; reflexivity.
Qed.

Print Assumptions C42_stake_unstake_no_gain.
Print Assumptions C42_units_proportional.
Print Assumptions C42_redemption_proportional.
Print Assumptions C42_emission_bounded.
Print Assumptions C42_sort_prefix_antitone.
Print Assumptions C42_active_set_shape.
Print Assumptions C42_nonvacuous.
Print Assumptions C42_reward_bounded.
Print Assumptions C42_conservation.
Print Assumptions C42_epoch_bounds.
Print Assumptions C42_epoch_vault_growth.
Print Assumptions C42_rewards_vault_suffices.
Print Assumptions C42_unstake_records_proportional_claim.
Print Assumptions C42_claim_pays_recorded_amount.
Print Assumptions C42_claim_always_payable.
Print Assumptions C42_stake_into_dust_with_zero_supply_mints_nothing.
Print Assumptions C42_history_nonvacuous.
Print Assumptions C42_index_maintained.
Print Assumptions C42_index_update_never_panics.
Print Assumptions C42_index_exact.
Print Assumptions C42_conservation_with_index.
Print Assumptions C42_update_fee_effective_epoch.
Print Assumptions C42_index_nonvacuous.
