(* C42 — Validator staking and emissions never create value. Property theorems only.
   Model: Model/C42_Staking.v (integers = attos; Decimal mul/div truncate at 18 places).
     stake x v u        = Some (units, v', u')   stake x XRD into stake vault v with unit supply u
     unstake n v u      = Some (claim, v', u')   unstake n units
     sort_prefix s      = Some p                 the u16 index prefix of stake s (65535 - min(65535, s/100k XRD))
     emissions te minrel active = Some [(id, emission)]   active = [(id, recorded stake, made, missed)]
     next_set maxv scan                          scan = registered validators with stake > 0 in index order *)
From Coq Require Import ZArith List Bool Lia Sorted.
Import ListNotations.
Require Import RV.Model.C42_Staking RV.Proof.C42_Staking.
Open Scope Z_scope.

(* staking x and immediately unstaking the minted units never claims more than x — for every
   stake-vault balance and unit supply, including empty vault / no units *)
Theorem C42_stake_unstake_no_gain : forall x v u m v' u' c v'' u'',
  0 <= x -> 0 <= v -> 0 <= u ->
  stake x v u = Some (m, v', u') -> unstake m v' u' = Some (c, v'', u'') -> c <= x.
Proof. exact stake_unstake_no_gain. Qed.

(* units minted are the proportional amount rounded down (m·V <= x·U); the first stake into an
   empty vault mints x; the redemption value is the proportional share rounded down (c·U <= n·V) *)
Theorem C42_units_proportional : forall x v u m,
  stake_units x v u = Some m -> 0 <= x -> 0 <= v -> 0 <= u ->
  0 <= m /\ (v = 0 -> m = x) /\ (0 < v -> m * v <= x * u).
Proof. exact stake_units_prop. Qed.
Theorem C42_redemption_proportional : forall n v u c,
  redemption_value n v u = Some c -> 0 <= n -> 0 <= v -> 0 <= u ->
  0 <= c /\ (u = 0 -> c = 0) /\ (0 < u -> c * u <= n * v).
Proof. exact redemption_value_prop. Qed.

(* per epoch, the emissions are non-negative and sum to at most the configured amount, for every
   active set, proposal statistics and minimum reliability.
   PARTIAL for the second half of the property sentence: "distributed rewards never exceed the
   reward vault" has the same arithmetic shape but is not proved here; the harness oracle checks it
   on the implementation at every epoch change, and the model's reward split is compared. *)
Theorem C42_emission_bounded : forall te minrel active l,
  emissions te minrel active = Some l -> 0 <= te ->
  Forall (fun a : Z * Z * Z * Z => 0 <= snd (fst a) /\ 0 <= snd a) active ->
  Forall (fun it : Z * Z => 0 <= snd it) l /\ zsum (map snd l) <= te.
Proof. exact emission_bounded. Qed.

(* more stake never gives a larger index prefix (with C16: index order = 100k-XRD stake bucket desc) *)
Theorem C42_sort_prefix_antitone : forall s1 s2 p1 p2,
  sort_prefix s1 = Some p1 -> sort_prefix s2 = Some p2 -> 0 <= s1 <= s2 ->
  p2 <= p1 /\ 0 <= p2 /\ p1 <= U16_MAX.
Proof. exact sort_prefix_antitone. Qed.

(* the next validator set: at most max_validators members, ordered by stake descending, all taken
   from the index (registered, stake > 0), and nobody left out has more stake than a member.
   (Caveat stated in the code: the scan reads only max + max/10 + 10 index entries; the model's
   [scan] is what was read.) *)
Theorem C42_active_set_shape : forall maxv scan,
  0 <= maxv ->
  (length (next_set maxv scan) <= Z.to_nat maxv)%nat /\
  StronglySorted ge_stake (next_set maxv scan) /\
  (forall y, In y (next_set maxv scan) -> In y scan) /\
  (forall y z, In y scan -> ~ In y (next_set maxv scan) -> In z (next_set maxv scan) -> snd y <= snd z).
Proof. exact next_set_shape. Qed.

(* non-vacuity: a validator with 3 XRD staked for 2 units (after emissions); staking 1 XRD mints
   0.666... units which redeem for slightly less than 1 XRD; an emission split over two validators *)
Example C42_nonvacuous :
  let D := 10 ^ 18 in
  stake (1 * D) (3 * D) (2 * D) = Some (666666666666666666, 4 * D, 2666666666666666666) /\
  unstake 666666666666666666 (4 * D) 2666666666666666666 = Some (999999999999999999, 3000000000000000001, 2 * D) /\
  emissions (10 * D) (D / 2) [(0, 30 * D, 9, 1); (1, 10 * D, 3, 1)] = Some [(0, 6 * D); (1, 1250000000000000000)] /\
  next_set 2 [(0, 5); (1, 9); (2, 7)] = [(1, 9); (2, 7)].
Proof. vm_compute. repeat split; reflexivity. Qed.

Print Assumptions C42_stake_unstake_no_gain.
Print Assumptions C42_units_proportional.
Print Assumptions C42_redemption_proportional.
Print Assumptions C42_emission_bounded.
Print Assumptions C42_sort_prefix_antitone.
Print Assumptions C42_active_set_shape.
Print Assumptions C42_nonvacuous.
