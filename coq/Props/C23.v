(* C23 — Schema compatibility checks are sound. Property theorems only.
   Model: coq/Model/C23_SchemaCmp.v (SchemaComparisonKernel with all nine settings, both root
   modes, Scrypto custom schema), typing relation `HasType` of coq/Model/C22_Schema.v.
   The theorems hold for EVERY settings value: all the relaxations the settings offer (new enum
   variants, replacing a type by Any, weakened validation, name changes, unreachable types, extra
   roots) preserve "old payloads stay valid"; the equality direction needs exactly the three
   structure/validation switches off (as in SchemaComparisonSettings::require_equality).
   No well-formedness of the two schemas is assumed (ill-formed schemas make the model panic or
   report errors, never Valid-and-unsound).                                                       *)
From Coq Require Import List NArith ZArith Bool.
Import ListNotations.
Require Import RV.Model.C20_Sbor RV.Model.C22_Types RV.Model.C22_Schema RV.Model.C23_SchemaCmp
               RV.Proof.C23_Sim RV.Proof.C23_Cmp.
Open Scope N_scope.

(* single-type comparison (compare_single_type_schemas = fixed roots [(a, b)]), any settings:
   a Valid verdict (no error recorded) means every value of the base type has the compared type *)
Theorem C23_extension_sound : forall st base new roots,
  compare_fixed st base new roots = CmpOk [] ->
  forall a b, In (a, b) roots -> forall v, HasType base a v -> HasType new b v.
Proof. exact fixed_extension_sound. Qed.

(* ... in particular under SchemaComparisonSettings::allow_extension() *)
Corollary C23_allow_extension_sound : forall base new a b,
  compare_fixed allow_extension base new [(a, b)] = CmpOk [] ->
  forall v, HasType base a v -> HasType new b v.
Proof. intros base new a b H v. eapply fixed_extension_sound; [exact H|left; reflexivity]. Qed.

(* equality: with identical structure and identical validation required, Valid means the two
   types accept exactly the same values *)
Theorem C23_equality_sound : forall st base new roots,
  allow_new_enum_variants st = false -> allow_replacing_with_any st = false ->
  allow_validation_weakening st = false ->
  compare_fixed st base new roots = CmpOk [] ->
  forall a b, In (a, b) roots -> forall v, HasType base a v <-> HasType new b v.
Proof. exact fixed_equality_sound. Qed.

Corollary C23_require_equality_sound : forall base new a b,
  compare_fixed require_equality base new [(a, b)] = CmpOk [] ->
  forall v, HasType base a v <-> HasType new b v.
Proof.
  intros base new a b H v.
  eapply (fixed_equality_sound require_equality); try reflexivity; [exact H|left; reflexivity].
Qed.

(* the same at payload level: acceptance by the validator model (decode, then validate the value) *)
Theorem C23_extension_sound_payload : forall st base new roots,
  compare_fixed st base new roots = CmpOk [] ->
  forall a b, In (a, b) roots -> forall md p,
  validates_payload base a md p = true -> validates_payload new b md p = true.
Proof. exact fixed_extension_sound_payload. Qed.
Theorem C23_equality_sound_payload : forall st base new roots,
  allow_new_enum_variants st = false -> allow_replacing_with_any st = false ->
  allow_validation_weakening st = false ->
  compare_fixed st base new roots = CmpOk [] ->
  forall a b, In (a, b) roots -> forall md p,
  validates_payload base a md p = validates_payload new b md p.
Proof. exact fixed_equality_sound_payload. Qed.

(* ... and for the streaming validator model itself (typed traverser + validator), limits >= 1 *)
Theorem C23_extension_sound_streaming : forall st base new roots,
  compare_fixed st base new roots = CmpOk [] ->
  forall a b, In (a, b) roots -> forall md p, 1 <= md ->
  RV.Model.C22_Typed.validate_payload base a md p = RV.Model.C22_Typed.POk ->
  RV.Model.C22_Typed.validate_payload new b md p = RV.Model.C22_Typed.POk.
Proof. exact fixed_extension_sound_streaming. Qed.
Theorem C23_equality_sound_streaming : forall st base new roots,
  allow_new_enum_variants st = false -> allow_replacing_with_any st = false ->
  allow_validation_weakening st = false ->
  compare_fixed st base new roots = CmpOk [] ->
  forall a b, In (a, b) roots -> forall md p, 1 <= md ->
  (RV.Model.C22_Typed.validate_payload base a md p = RV.Model.C22_Typed.POk <->
   RV.Model.C22_Typed.validate_payload new b md p = RV.Model.C22_Typed.POk).
Proof. exact fixed_equality_sound_streaming. Qed.

(* type-collection comparison (compare_type_collection_schemas, named roots) *)
Theorem C23_named_extension_sound : forall st base new broots croots,
  compare_named st base new broots croots = CmpOk [] ->
  forall n a b, In (n, a) broots -> find_root n croots = Some b ->
  forall v, HasType base a v -> HasType new b v.
Proof. exact named_extension_sound. Qed.
Theorem C23_named_equality_sound : forall st base new broots croots,
  allow_new_enum_variants st = false -> allow_replacing_with_any st = false ->
  allow_validation_weakening st = false ->
  compare_named st base new broots croots = CmpOk [] ->
  forall n a b, In (n, a) broots -> find_root n croots = Some b ->
  forall v, HasType base a v <-> HasType new b v.
Proof. exact named_equality_sound. Qed.

(* the semantic core, independent of the algorithm: any relation closed under the shallow
   compatibility condition is a simulation *)
Theorem C23_simulation_sound : forall s1 s2 (R : tid -> tid -> Prop),
  (forall a b, R a b -> ShallowSim s1 s2 R a b) ->
  forall v a b, R a b -> HasType s1 a v -> HasType s2 b v.
Proof. exact sim_sound. Qed.

(* facts about the generated tables the proofs rely on: well-known types only refer to well-known
   types; the specific global entity predicates imply is_global (Weakened reference validations) *)
Theorem C23_tables_tied :
  forallb (fun p => forallb is_wk (kind_children (td_kind (snd p)))) RV.Gen.C22_wellknown.scrypto_well_known = true.
Proof. exact wk_table_closed. Qed.

(* non-vacuity: a cyclic base schema (list of bounded u8), a compared schema that adds a variant,
   widens the bound and replaces the element by a renamed type; extension settings (names free)
   give Valid, the equality settings do not; and a payload-level witness *)
Example C23_nonvacuous :
  let base := {| s_kinds := [TEnum [(0, []); (1, [Loc 1; Loc 0])]; TInt U8];
                 s_metas := [TMeta (Some [76]) (Some (EnumVariants [(0, TMeta (Some [78]) None); (1, TMeta (Some [67]) None)])); unnamed];
                 s_vals := [VNone; VNum U8 {| nb_min := Some 1%Z; nb_max := Some 9%Z |}] |} in
  let new := {| s_kinds := [TInt U8; TEnum [(0, []); (1, [Loc 0; Loc 1]); (2, [WK 12])]];
                s_metas := [unnamed; TMeta (Some [76]) (Some (EnumVariants [(0, TMeta (Some [78]) None); (1, TMeta (Some [67]) None); (2, TMeta (Some [83]) None)]))];
                s_vals := [VNum U8 {| nb_min := None; nb_max := Some 10%Z |}; VNone] |} in
  compare_fixed allow_extension base new [(Loc 0, Loc 1)] = CmpOk [] /\
  (exists e, compare_fixed require_equality base new [(Loc 0, Loc 1)] = CmpOk (e :: nil ++ [EValidationChange])) /\
  HasType base (Loc 0) (VEnum 1 [VInt U8 9; VEnum 0 []]) /\
  HasType new (Loc 1) (VEnum 1 [VInt U8 9; VEnum 0 []]) /\
  HasType new (Loc 1) (VEnum 2 [VString [104; 105]]) /\
  ~ HasType base (Loc 0) (VEnum 2 [VString [104; 105]]).
Proof.
  cbv zeta. split; [vm_compute; reflexivity|]. split; [eexists; vm_compute; reflexivity|].
  repeat split; try (apply RV.Proof.C22_Schema.validates_spec; vm_compute; reflexivity).
  intro H. apply RV.Proof.C22_Schema.validates_spec in H. vm_compute in H. discriminate.
Qed.

Print Assumptions C23_extension_sound.
Print Assumptions C23_allow_extension_sound.
Print Assumptions C23_equality_sound.
Print Assumptions C23_require_equality_sound.
Print Assumptions C23_extension_sound_payload.
Print Assumptions C23_equality_sound_payload.
Print Assumptions C23_extension_sound_streaming.
Print Assumptions C23_equality_sound_streaming.
Print Assumptions C23_named_extension_sound.
Print Assumptions C23_named_equality_sound.
Print Assumptions C23_simulation_sound.
Print Assumptions C23_tables_tied.
Print Assumptions C23_nonvacuous.
