(* C21 — SBOR decoding is total, bounded and depth-consistent. Property theorems only.
   Models: coq/Model/C20_Sbor.v (Value decoder/encoder), coq/Model/C21_Traverser.v (VecTraverser). *)
From Coq Require Import List NArith ZArith Bool Lia.
Import ListNotations.
Require Import RV.Model.C20_Sbor RV.Model.C21_Traverser RV.Model.C21_Alloc RV.Proof.C20_Base RV.Proof.C20_Sbor RV.Proof.C20_Top RV.Proof.C21_Depth RV.Proof.C21_Sim RV.Proof.C21_Agree RV.Proof.C21_Alloc.
Open Scope N_scope.

(* Decoding arbitrary bytes (any list of N, any depth limit, any flavour) returns a value or an
   error: the explicit panic sites of the model are unreachable and the canonical fuel
   2*|input|+2 is never exhausted. *)
Theorem C21_total : forall fl md input,
  decode_payload fl md input <> Panic /\ decode_payload fl md input <> OutOfFuel.
Proof. exact decode_total. Qed.

(* Bounded work/allocation: every decoded value (at any nesting level) consumes at least one input
   byte, so the decoded tree has at most |input| nodes; elements are only pushed after they were
   decoded.  (The reservation ahead of data is C21_alloc_reserved_bounded below.) *)
Theorem C21_alloc_bounded : forall fl md input v,
  decode_payload fl md input = Ok v -> (vnodes v <= length input)%nat.
Proof. exact decode_nodes_bounded. Qed.

(* Encoder and decoder agree on nesting depth: for a value that encodes at some limit (payload bs),
   at ANY limit md the encoder succeeds iff vdepth v <= md and fails with MaxDepthExceeded(md)
   otherwise, and the decoder applied to bs does exactly the same. *)
Theorem C21_depth_consistent : forall fl md0 md v bs,
  wf_value fl v = true -> valid_value v = true -> encode_payload fl md0 v = Ok bs ->
  (vdepth v <= md -> encode_payload fl md v = Ok bs /\ decode_payload fl md bs = Ok v) /\
  (md < vdepth v -> encode_payload fl md v = Err (EMaxDepthExceeded md) /\
                    decode_payload fl md bs = Err (MaxDepthExceeded md)).
Proof. exact depth_consistent. Qed.

(* The streaming traverser (stack machine of Model/C21_Traverser.v) is total: on every byte list,
   every depth limit (0 included) and either end-check mode it ends with an End or DecodeError
   event within 2*|input|+4 events; the model's panic sites (next_event after the final event,
   the `expect`/`unreachable!` sites, a custom kind of another flavour) are unreachable. *)
Theorem C21_traverser_total : forall fl md check_end input,
  exists evs, traverse_payload fl md check_end input = RDone evs.
Proof. exact traverser_total. Qed.

(* Decoder and traverser agree on which payloads are acceptable: for every byte list and every
   depth limit >= 1 the traverser (check_exact_end) reaches End exactly when decode succeeds.
   (Limit 0 is the known class traverser_ignores_depth_limit_for_root, refuted below.) *)
Theorem C21_agree_except_known : forall fl md input, md <> 0 ->
  (accepts (traverse_payload fl md true input) = true <-> exists v, decode_payload fl md input = Ok v).
Proof. intros fl md input H. apply traverser_agrees. lia. Qed.

(* When the decoder rejects, the traverser's final event is a DecodeError carrying the same error,
   or MaxDepthExceeded(limit) (the traverser checks the depth of a container's children before
   reading the first child's kind byte), or both are BufferUnderflow (byte arrays are read in one
   batch: different `required`).  In particular a decoder MaxDepthExceeded is a traverser
   MaxDepthExceeded. *)
Theorem C21_reject_same_error : forall fl md input err, md <> 0 ->
  decode_payload fl md input = Err err ->
  exists err', last_event (traverse_payload fl md true input) = Some (EvError err') /\
    (err' = err \/ err' = MaxDepthExceeded md \/ (is_uf err = true /\ is_uf err' = true)).
Proof. intros fl md input err H. apply traverser_error_class. lia. Qed.
Theorem C21_depth_reject_agrees : forall fl md input m, md <> 0 ->
  decode_payload fl md input = Err (MaxDepthExceeded m) ->
  exists m', last_event (traverse_payload fl md true input) = Some (EvError (MaxDepthExceeded m')) /\ (m' = m \/ m' = md).
Proof.
  intros fl md input m H D. destruct (traverser_error_class fl md input _ ltac:(lia) D) as [e' [L [O|[O|[O _]]]]]; try discriminate.
  - exists m. subst e'. split; [exact L|left; reflexivity].
  - exists md. subst e'. split; [exact L|right; reflexivity].
Qed.

(* Three-way depth consistency: for a value that encodes at some limit (payload bs) and ANY limit
   md >= 1: encoder, decoder and traverser all accept iff vdepth v <= md, and otherwise all three
   fail with MaxDepthExceeded(md). *)
Theorem C21_depth_three_way : forall fl md0 md v bs, md <> 0 ->
  wf_value fl v = true -> valid_value v = true -> encode_payload fl md0 v = Ok bs ->
  (vdepth v <= md -> encode_payload fl md v = Ok bs /\ decode_payload fl md bs = Ok v /\
                     accepts (traverse_payload fl md true bs) = true) /\
  (md < vdepth v -> encode_payload fl md v = Err (EMaxDepthExceeded md) /\
                    decode_payload fl md bs = Err (MaxDepthExceeded md) /\
                    last_event (traverse_payload fl md true bs) = Some (EvError (MaxDepthExceeded md))).
Proof. intros fl md0 md v bs H. apply depth_three_way. lia. Qed.

(* Allocation: the cost semantics Model/C21_Alloc.v instruments the decoder with the capacity
   reserved ahead of data (`Vec::with_capacity(min(len,1024))` per open container minus the
   elements already pushed).  It computes the decoder's result (erasure); every reservation is
   <= 1024 elements and <= the declared length; at any moment of decoding any byte list the
   total reserved ahead of data is <= 1024 * depth limit. *)
Theorem C21_alloc_reserved_bounded :
  (forall n, reserve n <= 1024 /\ reserve n <= n) /\
  (forall fl f md d k st base, fst (cdec_body fl f md d k st base) = dec_body fl f md d k st) /\
  (forall fl md input, decode_peak fl md input <= 1024 * md).
Proof. split; [exact reserve_le|]. split; [exact cost_erasure|exact decode_peak_bounded]. Qed.

(* The literal three-way statement is refuted at depth limit 0: the traverser never checks the
   limit for the root value (finding traverser_ignores_depth_limit_for_root). *)
Theorem C21_traverser_depth_zero_refuted :
  exists input, decode_payload Basic 0 input = Err (MaxDepthExceeded 0) /\
                accepts (traverse_payload Basic 0 true input) = true.
Proof. exists [91; 7; 5]. split; vm_compute; reflexivity. Qed.

(* non-vacuity: a depth-3 payload; decoder and traverser at limits 3 and 2 *)
Example C21_nonvacuous :
  let bs := [91; 33; 2; 32; 7; 2; 1; 2; 35; 7; 12; 1; 9; 1; 97] in
  (exists v, decode_payload Basic 3 bs = Ok v /\ vdepth v = 3 /\ vnodes v = 7%nat) /\
  accepts (traverse_payload Basic 3 true bs) = true /\
  decode_payload Basic 2 bs = Err (MaxDepthExceeded 2) /\
  accepts (traverse_payload Basic 2 true bs) = false.
Proof. cbv zeta. split; [eexists; repeat split; vm_compute; reflexivity|]. repeat split; vm_compute; reflexivity. Qed.

Print Assumptions C21_total.
Print Assumptions C21_alloc_bounded.
Print Assumptions C21_depth_consistent.
Print Assumptions C21_traverser_total.
Print Assumptions C21_agree_except_known.
Print Assumptions C21_reject_same_error.
Print Assumptions C21_depth_three_way.
Print Assumptions C21_alloc_reserved_bounded.
