(* C21 — SBOR decoding is total, bounded and depth-consistent. Property theorems only.
   Models: coq/Model/C20_Sbor.v (Value decoder/encoder), coq/Model/C21_Traverser.v (VecTraverser). *)
From Coq Require Import List NArith ZArith Bool Lia.
Import ListNotations.
Require Import RV.Model.C20_Sbor RV.Model.C21_Traverser RV.Proof.C20_Base RV.Proof.C20_Sbor RV.Proof.C20_Top RV.Proof.C21_Depth.
Open Scope N_scope.

(* Decoding arbitrary bytes (any list of N, any depth limit, any flavour) returns a value or an
   error: the explicit panic sites of the model are unreachable and the canonical fuel
   2*|input|+2 is never exhausted. *)
Theorem C21_total : forall fl md input,
  decode_payload fl md input <> Panic /\ decode_payload fl md input <> OutOfFuel.
Proof. exact decode_total. Qed.

(* Bounded work/allocation: every decoded value (at any nesting level) consumes at least one input
   byte, so the decoded tree has at most |input| nodes; elements are only pushed after they were
   decoded.  (The `Vec::with_capacity(min(len, 1024))` reservation per open container is read off
   the code, not modelled: at most 1024 elements per open container, <= depth limit containers.) *)
Theorem C21_alloc_bounded : forall fl md input v,
  decode_payload fl md input = Ok v -> (vnodes v <= length input)%nat.
Proof. exact decode_nodes_bounded. Qed.

(* Encoder and decoder agree on nesting depth: for a value that encodes at some limit (payload bs),
   at ANY limit md the encoder succeeds iff vdepth v <= md and fails with MaxDepthExceeded(md)
   otherwise, and the decoder applied to bs does exactly the same. *)
Theorem C21_depth_consistent : forall fl md0 md v bs,
  wf_value fl v = true -> valid_value v = true -> encode_payload fl md0 v = Ok bs ->
  (vdepth v <= md -> encode_payload fl md v = Ok bs /\ decode_payload fl md bs = Ok v) /\
  (md < vdepth v -> encode_payload fl md v = Err (EMaxDepthExceeded md) /\
                    decode_payload fl md bs = Err (MaxDepthExceeded md)).
Proof. exact depth_consistent. Qed.

(* The literal three-way statement is refuted at depth limit 0: the traverser never checks the
   limit for the root value (finding traverser_ignores_depth_limit_for_root). *)
Theorem C21_traverser_depth_zero_refuted :
  exists input, decode_payload Basic 0 input = Err (MaxDepthExceeded 0) /\
                accepts (traverse_payload Basic 0 true input) = true.
Proof. exists [91; 7; 5]. split; vm_compute; reflexivity. Qed.

(* non-vacuity: a depth-3 payload; decoder and traverser at limits 3 and 2 *)
Example C21_nonvacuous :
  let bs := [91; 33; 2; 32; 7; 2; 1; 2; 35; 7; 12; 1; 9; 1; 97] in
  (exists v, decode_payload Basic 3 bs = Ok v /\ vdepth v = 3 /\ vnodes v = 7%nat) /\
  accepts (traverse_payload Basic 3 true bs) = true /\
  decode_payload Basic 2 bs = Err (MaxDepthExceeded 2) /\
  accepts (traverse_payload Basic 2 true bs) = false.
Proof. cbv zeta. split; [eexists; repeat split; vm_compute; reflexivity|]. repeat split; vm_compute; reflexivity. Qed.

Print Assumptions C21_total.
Print Assumptions C21_alloc_bounded.
Print Assumptions C21_depth_consistent.
