(* C40 — Access controller changes need two roles or an elapsed timer. Property theorems only.
   Model: Model/C40_AccessController.v (5-tuple state machine + glue of v1 and v2, identical up to
   the three v2 fee methods); admission through the tables generated from the code's
   `definition()` (Gen/C40_ac_roles.v, assembled in Model/C40_Tables.v). *)
From Coq Require Import List NArith ZArith Bool String.
Import ListNotations.
Require Import RV.Model.C40_AccessController RV.Model.C40_Tables RV.Proof.C40_AccessController.
Open Scope Z_scope.

(* obligations on the generated tables: a change in package.rs that lets the proposer (or anyone)
   confirm its own proposal, or lets a controller role rewrite rules directly, breaks these *)
Theorem C40_tables_ok : table_ok table_v1 = true /\ table_ok table_v2 = true /\ tables_closed = true.
Proof. vm_compute. repeat split. Qed.

(* For every history of calls (any callers, any times) on a freshly created controller: a call
   after which the rule set differs or the controlled asset has left the vault is
   - quick_confirm_<pr>_role_recovery_proposal(p): the slot of proposer pr holds exactly p, put there by
     an earlier successful initiate_recovery_as_<pr>(p) whose caller satisfied role pr's rule; the
     confirming caller satisfies the current rule of a role r <> pr that the table lists for the
     method; the new rules are p's; the asset stays; or
   - quick_confirm_<pr>_role_badge_withdraw_attempt: same with the withdraw attempt; rules become
     deny-all and the asset leaves; or
   - timed_confirm_recovery(p): the recovery slot holds a running timed proposal p, initiated by a
     caller satisfying the recovery rule at minute n0 on a controller with delay d
     (allowed_after = (n0+d) minutes), and the clock has reached it (`time_elapsed`, which below the
     i32 horizon is exactly now >= n0+d: C40_time_elapsed_exact). NOTHING is said about the caller
     of timed_confirm_recovery: see C40_timed_confirm_any_caller_refuted. *)
Theorem C40_change_needs_two : forall t, In t [table_v1; table_v2] ->
  forall rs delay evs hist h rest,
  run t (create rs delay) evs = hist ++ h :: rest ->
  changed (h_before h) (h_after h) ->
  Justified t hist (h_before h) (h_ev h) (h_after h).
Proof.
  intros t Ht. apply change_needs_two.
  destruct C40_tables_ok as [H1 [H2 _]]. destruct Ht as [<-|[<-|[]]]; assumption.
Qed.

(* while the primary role is locked no call creates a proof of the controlled asset, whoever calls *)
Theorem C40_locked_no_proof : forall t c evs h,
  In h (run t c evs) -> s_locked (c_st (h_before h)) = true -> e_meth (h_ev h) = MCreateProof -> h_out h <> Ok.
Proof. exact locked_no_proof_hist. Qed.

(* after a successful cancel the slot is empty and, until the same proposer initiates again, every
   confirmation of that proposer's recovery (quick, and timed for the recovery role) / withdrawal fails *)
Theorem C40_cancel_clears :
  (forall t c who now pr c', step t c who now (MCancelRec pr) = (c', Ok) ->
     stored pr (c_st c') = None /\
     forall evs, (forall e, In e evs -> is_init_rec pr (e_meth e) = false) ->
     forall h, In h (run t c' evs) -> is_confirm_rec pr (e_meth (h_ev h)) = true -> h_out h <> Ok)
  /\
  (forall t c who now pr c', step t c who now (MCancelWd pr) = (c', Ok) ->
     stored_wd pr (c_st c') = false /\
     forall evs, (forall e, In e evs -> is_init_wd pr (e_meth e) = false) ->
     forall h, In h (run t c' evs) -> is_confirm_wd pr (e_meth (h_ev h)) = true -> h_out h <> Ok).
Proof. split; [exact cancel_clears_rec|exact cancel_clears_wd]. Qed.

(* after a successful stop_timed_recovery the proposal stays (untimed) and timed_confirm_recovery
   fails at every later time until the recovery role initiates again *)
Theorem C40_stop_timed_blocks_timer : forall t c who now q c',
  step t c who now (MStopTimed q) = (c', Ok) ->
  s_rec_rec (c_st c') = RecUntimed q /\
  forall evs, (forall e, In e evs -> is_init_rec PRecovery (e_meth e) = false) ->
  forall h, In h (run t c' evs) -> is_timed (e_meth (h_ev h)) = true -> h_out h <> Ok.
Proof. exact stop_timed_blocks_timer. Qed.

(* the property text says the RECOVERY ROLE confirms its timed recovery; the code makes
   timed_confirm_recovery Public: a caller satisfying no role at all replaces the rules (finding
   class timed_confirm_by_non_recovery_caller; replayed on the engine by harness case 0/1) *)
Theorem C40_timed_confirm_any_caller_refuted : forall t, In t [table_v1; table_v2] ->
  exists rs delay evs hist h rest,
    run t (create rs delay) evs = hist ++ h :: rest /\
    changed (h_before h) (h_after h) /\ h_out h = Ok /\
    KnownClass (h_before h) (h_ev h) /\
    (forall r, rule_sat (role_rule (c_roles (h_before h)) r) (e_who (h_ev h)) = false).
Proof.
  intros t Ht.
  set (p := {| p_rules := {| rs_primary := RReq 3; rs_recovery := RReq 4; rs_confirmation := RReq 5 |}; p_delay := Some 7%N |}).
  set (rs := {| rs_primary := RReq 0; rs_recovery := RReq 1; rs_confirmation := RReq 2 |}).
  set (e1 := {| e_who := [1%N]; e_now := 1; e_meth := MInitRec PRecovery p |}).
  set (e2 := {| e_who := []; e_now := 3; e_meth := MTimedConfirm p |}).
  exists rs, (Some 2%N), [e1; e2].
  destruct Ht as [<-|[<-|[]]];
    (eexists [_], _, []; split; [vm_compute; reflexivity|];
     split; [left; vm_compute; discriminate|]; split; [reflexivity|];
     split; [split; [exists p; reflexivity|reflexivity]|intros [| |]; reflexivity]).
Qed.

(* the strongest true statement with the literal clause: outside the known class the confirming
   caller of a timed recovery does satisfy the recovery role *)
Theorem C40_change_needs_two_except_known : forall t, In t [table_v1; table_v2] ->
  forall rs delay evs hist h rest,
  run t (create rs delay) evs = hist ++ h :: rest ->
  changed (h_before h) (h_after h) ->
  ~ KnownClass (h_before h) (h_ev h) ->
  LiteralJustified t hist (h_before h) (h_ev h) (h_after h).
Proof.
  intros t Ht. apply literal_except_known.
  destruct C40_tables_ok as [H1 [H2 _]]. destruct Ht as [<-|[<-|[]]]; assumption.
Qed.

(* "after the configured delay has elapsed", read literally, also fails at the end of the consensus
   manager's i32 minute clock: compare_current_time converts allowed_after to an i32 minute and
   SATURATES to i32::MAX when it does not fit, so at minute i32::MAX (A.D. ~6053, the last value the
   clock can take) a timed recovery whose due time lies beyond the clock is confirmable although
   the delay has not elapsed (finding class timed_confirm_clock_saturation; replayed on the engine
   by the last case of each ledger: delay 20, proposed at minute 2147483637, confirmed at 2147483647) *)
Theorem C40_timed_confirm_clock_saturation_refuted : forall t, In t [table_v1; table_v2] ->
  exists rs (d : N) (n0 : Z) evs (hist : list entry) (h : entry) (rest : list entry),
    run t (create rs (Some d)) evs = hist ++ h :: rest /\
    changed (h_before h) (h_after h) /\ h_out h = Ok /\
    (exists p, e_meth (h_ev h) = MTimedConfirm p /\
               In {| h_before := create rs (Some d);
                     h_ev := {| e_who := [1%N]; e_now := n0; e_meth := MInitRec PRecovery p |};
                     h_after := h_before h; h_out := Ok |} hist) /\
    Horizon n0 d /\ e_now (h_ev h) < n0 + Z.of_N d.
Proof.
  intros t Ht.
  set (p := {| p_rules := {| rs_primary := RReq 3; rs_recovery := RReq 4; rs_confirmation := RReq 5 |}; p_delay := None |}).
  set (rs := {| rs_primary := RReq 0; rs_recovery := RReq 1; rs_confirmation := RReq 2 |}).
  set (e1 := {| e_who := [1%N]; e_now := 2147483637; e_meth := MInitRec PRecovery p |}).
  set (e2 := {| e_who := [1%N]; e_now := 2147483647; e_meth := MTimedConfirm p |}).
  exists rs, 20%N, 2147483637, [e1; e2].
  destruct Ht as [<-|[<-|[]]];
    (eexists [_], _, []; split; [vm_compute; reflexivity|];
     split; [left; vm_compute; discriminate|]; split; [reflexivity|];
     split; [exists p; split; [reflexivity|left; reflexivity]|];
     split; [unfold Horizon, i32_max; cbn; reflexivity|cbn; reflexivity]).
Qed.

(* outside that class the delay HAS elapsed: with the proposal made at minute n0 on a controller with
   delay d (this is what J_timed's ProposedTimed records: allowed_after = n0*60 + d*60), a
   committed timed confirmation at minute `now` satisfies now >= n0 + d *)
Theorem C40_delay_elapsed_except_known : forall n0 d now,
  i32_min <= n0 + Z.of_N d -> ~ Horizon n0 d ->
  time_elapsed now (n0 * 60 + Z.of_N d * 60) = true -> n0 + Z.of_N d <= now.
Proof. exact delay_elapsed_except_horizon. Qed.

(* NOT a violation of this property: the timed_recovery_delay_in_minutes carried by a proposal is part
   of proposal equality (quick/timed confirm and stop compare it) but is never applied — after a
   confirmed recovery the controller keeps the delay it was created with. The property restricts WHEN
   the rules may be replaced and the asset withdrawn; it does not demand that anything else be
   updated, and an unchanged delay cannot let a change through. The behaviour is pinned here. *)
Theorem C40_delay_never_changes : forall t evs c h, In h (run t c evs) ->
  c_delay (h_before h) = c_delay c /\ c_delay (h_after h) = c_delay c.
Proof. exact delay_never_changes. Qed.

(* the glue around the state machine (blueprint.rs update_role_assignment: three RoleAssignment.set
   calls by the component itself, primary / recovery / confirmation, each needing SELF among the
   updaters of that role, all or nothing) replaces the whole rule set or does nothing *)
Theorem C40_update_role_assignment : forall t cur new,
  update_role_assignment t cur new = if self_can_update t then Some new else None.
Proof. exact update_role_assignment_eq. Qed.
(* the role assignment stored after ANY call, by any caller at any time: the stored proposal's rule
   set after a committed recovery confirmation (quick or timed), deny-all after a committed badge
   withdrawal, the directly written rule if a direct role-assignment update were ever admitted (it is
   not: C40_tables_ok), and otherwise exactly the role assignment before the call *)
Theorem C40_roles_after_step : forall t c who now m,
  c_roles (fst (step t c who now m)) =
  if out_ok (snd (step t c who now m)) then expected_roles c m else c_roles c.
Proof. exact roles_after_step. Qed.

(* below the end of the i32 minute clock the timer test is exact *)
Theorem C40_time_elapsed_exact : forall m now,
  i32_min <= m <= i32_max -> (time_elapsed now (m * 60) = true <-> m <= now).
Proof. exact time_elapsed_exact. Qed.

(* non-vacuity: a history with a two-role recovery, a lock that blocks a proof, and a badge
   withdrawal — each change is of the justified kind and the premises above are met *)
Example C40_nonvacuous :
  let p := {| p_rules := {| rs_primary := RReq 3; rs_recovery := RReq 4; rs_confirmation := RReq 5 |}; p_delay := None |} in
  let rs := {| rs_primary := RReq 0; rs_recovery := RReq 1; rs_confirmation := RReq 2 |} in
  let ev who m := {| e_who := who; e_now := 10; e_meth := m |} in
  let evs := [ev [0%N] (MInitRec PPrimary p); ev [0%N] (MQuickRec PPrimary p); ev [1%N] MLock;
              ev [0%N] MCreateProof; ev [2%N] (MQuickRec PPrimary p); ev [3%N] MCreateProof;
              ev [3%N] (MInitWd PPrimary); ev [4%N] (MQuickWd PPrimary); ev [3%N] MCreateProof] in
  map h_out (run table_v2 (create rs (Some 5%N)) evs) =
    [Ok; Fail EUnauthorized; Ok; Fail EOpRequiresUnlocked; Ok; Ok; Ok; Ok; Fail EUnauthorized]
  /\ c_roles (final table_v2 (create rs (Some 5%N)) evs) = deny_all_rules
  /\ c_badge (final table_v2 (create rs (Some 5%N)) evs) = false.
Proof. vm_compute. repeat split. Qed.

Print Assumptions C40_tables_ok.
Print Assumptions C40_change_needs_two.
Print Assumptions C40_locked_no_proof.
Print Assumptions C40_cancel_clears.
Print Assumptions C40_stop_timed_blocks_timer.
Print Assumptions C40_timed_confirm_any_caller_refuted.
Print Assumptions C40_change_needs_two_except_known.
Print Assumptions C40_time_elapsed_exact.
Print Assumptions C40_update_role_assignment.
Print Assumptions C40_roles_after_step.
Print Assumptions C40_timed_confirm_clock_saturation_refuted.
Print Assumptions C40_delay_elapsed_except_known.
Print Assumptions C40_delay_never_changes.
