(* C03 — Every committed transaction conserves resources: pinned statements.
   Model: RV.Model.C03_Ledger (vaults, buckets in flight, fee reserve, supplies; every operation
   mirrors the checked arithmetic of the resource blueprints and of finalize_fees_for_commit).
   Proved for all op lists: the fungible half (amounts) and the non-fungible half (id sets), the
   latter with the global invariant NFInv (no id in two containers, held ids have a live data
   entry, vault amount field = number of ids) which every accepted operation preserves — it is
   needed because IndexSet::extend / index insert silently drop duplicates. *)
From Coq Require Import List ZArith NArith Bool.
Import ListNotations.
Require Import RV.Model.C03_Ledger RV.Proof.C03_Ledger RV.Proof.C03_NF.
Open Scope Z_scope.

(* every single operation moves "everything that exists" of a fungible resource (vaults + buckets in
   flight + locked fees) by exactly the amounts of its Mint and Burn events *)
Theorem C03_step_conservation_fungible : forall s o s' evs r,
  step s o = Ok (s', evs) -> op_ok o ->
  total_f r s' = total_f r s + mintedF r evs - burnedF r evs.
Proof. exact step_total. Qed.

(* a transaction = any accepted operation list that starts and ends with nothing in flight and
   the fee reserve settled (free credit = 0, non-negative fee shares): the sum of all vaults of
   every resource moves by exactly minted - burned; includes XRD with lock_fee (plain/contingent),
   refunds, royalties, validator rewards and the burnt share of the fee *)
Theorem C03_tx_conservation_fungible_partial : forall ops s s' evs,
  run s ops = Ok (s', evs) -> Forall op_ok ops -> at_rest s = true -> at_rest s' = true ->
  forall r, fvault_sum r s' - fvault_sum r s = mintedF r evs - burnedF r evs.
Proof. exact tx_conservation_fungible. Qed.

(* recorded supply (fungible and non-fungible, whenever tracked after the step) moves by exactly
   minted - burned; XRD does not track its supply, which is why the fee burn needs no update *)
Theorem C03_step_supply : forall s o s' evs r t',
  step s o = Ok (s', evs) -> xrd_ok s -> supply_of r s' = Some t' ->
  t' = supply_z r s + minted r evs - burned r evs.
Proof. exact step_supply. Qed.

(* non-fungibles: for every accepted op list between two transaction boundaries, per resource:
   ids_after = (ids_before ∪ minted) \ burned, minted ∩ ids_before = ∅, no id minted twice, no id in
   two vaults afterwards, the multiset equation, and the invariant holds again *)
Theorem C03_tx_conservation_nf : forall ops s s' evs,
  NFInv s -> run s ops = Ok (s', evs) -> at_rest s = true -> at_rest s' = true ->
  forall r,
    let before := vault_ids r s in let after := vault_ids r s' in
    let m := minted_ids r evs in let b := burned_ids r evs in
    (forall x, In x after <-> (In x before \/ In x m) /\ ~ In x b)
    /\ (forall x, In x m -> ~ In x before)
    /\ NoDup m /\ NoDup after
    /\ (forall x, occ x after = occ x before + occ x m - occ x b)
    /\ NFInv s'.
Proof. exact tx_conservation_nf. Qed.

(* the invariant is inductive: it holds for the empty ledger and every accepted operation keeps it *)
Theorem C03_nf_invariant : NFInv empty /\ forall s o s' evs, NFInv s -> step s o = Ok (s', evs) -> NFInv s'.
Proof. split; [exact NFInv_empty | exact step_NFInv]. Qed.

(* with free fee credit the statement is false (the property excludes it for this reason) *)
Theorem C03_free_credit_counterexample :
  exists s' evs, step fc_state (OPayFee fc_params) = Ok (s', evs)
    /\ at_rest fc_state = true /\ at_rest s' = true
    /\ fvault_sum XRD s' - fvault_sum XRD fc_state <> mintedF XRD evs - burnedF XRD evs.
Proof. exact free_credit_counterexample. Qed.

Example C03_nonvacuous : exists s' evs, run demo_state demo_ops = Ok (s', evs) /\ at_rest s' = true
   /\ fvault_sum 5%N s' = 997 * 10 ^ 16 /\ supply_of 5%N s' = Some (997 * 10 ^ 16)
   /\ fvault_sum XRD s' = 980 /\ burnedF XRD evs = 20.
Proof. exact demo_runs. Qed.
Example C03_nonvacuous_ok : Forall op_ok demo_ops /\ at_rest demo_state = true.
Proof. split; [exact demo_ok | reflexivity]. Qed.

Definition nf_demo_ops : list op :=
  [ OCreateN 7%N true (Some ([1%N; 2%N; 3%N], 100%N)); OCreateVault 7%N 20%N; OVaultPut 20%N 100%N;
    OMintN 7%N [4%N] 101%N; OVaultTakeIds 20%N [2%N] 102%N; OBucketPut 101%N 102%N; OBurn 101%N ].
Example C03_nf_nonvacuous : exists s' evs, run empty nf_demo_ops = Ok (s', evs) /\ at_rest s' = true
  /\ vault_ids 7%N s' = [1%N; 3%N] /\ minted_ids 7%N evs = [1%N; 2%N; 3%N; 4%N] /\ burned_ids 7%N evs = [4%N; 2%N]
  /\ supply_of 7%N s' = Some (2 * 10 ^ 18).
Proof. eexists. eexists. split; [vm_compute; reflexivity|]. repeat split; vm_compute; reflexivity. Qed.

Print Assumptions C03_tx_conservation_nf.
Print Assumptions C03_nf_invariant.
Print Assumptions C03_step_conservation_fungible.
Print Assumptions C03_tx_conservation_fungible_partial.
Print Assumptions C03_step_supply.
Print Assumptions C03_free_credit_counterexample.
