(* C12 — The transaction state cache reads back its own writes. Property theorems only. *)
From Coq Require Import List NArith Bool.
Import ListNotations.
Require Import RV.Model.C12_Track.
Open Scope N_scope.

Example C12_nonvacuous :
  let db : dbfun := fun n p => if (n =? 0) && (p =? 2) then [(1, (7, 9)); (3, (8, 9))] else [] in
  snd (run db track_new [OSet 0 2 2 (5, 4); ORemove 0 2 1; OScanSorted 0 2 5; OGet 0 2 2]) =
  [ (RUnit, [EvTrackUpd 0 2 2 None (Some 4)]);
    (ROpt (Some (7, 9)), [EvReadDb 0 2 1 9; EvTrackUpd 0 2 1 None (Some 9); EvTrackUpd 0 2 1 (Some 9) (Some 9)]);
    (RKVs [(2, (5, 4)); (3, (8, 9))], [EvReadDb 0 2 1 9; EvReadDb 0 2 3 9]);
    (ROpt (Some (5, 4)), []) ].
Proof. vm_compute. reflexivity. Qed.
