(* C12 — The transaction state cache reads back its own writes. Property theorems only.
   Model: coq/Model/C12_Track.v (the code), coq/Model/C12_View.v (the specification: `view` = database
   overlaid with creations, writes and removals; `adm` = the client obligations of the Track API;
   `reach` = states reached by admissible, non-panicking operations; `conforms` = every result of a
   run is allowed by the specification). All statements quantify over every base database with
   key-sorted partitions (db_wf) and every operation sequence. *)
From Coq Require Import List NArith Bool.
Import ListNotations.
Require Import RV.Model.C12_Track RV.Model.C12_View RV.Proof.C12_Drain RV.Proof.C12_Main RV.Proof.C12_Ops RV.Proof.C12_Track RV.Proof.C12_Updates RV.Proof.C12_Commit RV.Proof.C12_Create.
Open Scope N_scope.

(* every run of every operation sequence conforms to the view specification: reads and removes return
   the view, limited scans/drains return distinct present keys up to the limit (or all of them), sorted
   scans return the first entries of the view, as long as each operation is admissible where it is
   issued. For ORevert admissibility is `no_blind_overwrite` (see C12_read_after_revert_refuted): this
   theorem is the `except_known` statement for the finding garbage-after-revert. *)
Theorem C12_refines_view : forall db ops, db_wf db -> conforms db track_new (vinit db) ops.
Proof. exact refines_view. Qed.

Theorem C12_read_your_writes : forall db t s n p k, db_wf db -> reach db t s ->
  snd (fst (get_substate db t n p k)) = al_get k (v_view s n p) /\
  snd (fst (remove_substate db t n p k)) = al_get k (v_view s n p).
Proof. exact read_your_writes. Qed.

Theorem C12_scan_keys : forall db t s n p limit, db_wf db -> reach db t s ->
  let ks := snd (fst (scan_keys db t n p limit)) in
  scan_spec limit (v_view s n p) ks /\ N.of_nat (length ks) = N.min limit (N.of_nat (length (v_view s n p))).
Proof. exact scan_keys_ok. Qed.

Theorem C12_drain : forall db t s n p limit, db_wf db -> reach db t s ->
  let kvs := snd (fst (drain_substates db t n p limit)) in
  scan_spec limit (v_view s n p) (map fst kvs) /\
  N.of_nat (length kvs) = N.min limit (N.of_nat (length (v_view s n p))) /\
  (forall k v, In (k, v) kvs -> al_get k (v_view s n p) = Some v) /\
  (forall k, al_get k (v_view (spec_next db s (ODrain n p limit) (RKVs kvs)) n p) =
             if mem k kvs then None else al_get k (v_view s n p)).
Proof. exact drain_ok. Qed.

Theorem C12_scan_sorted : forall db t s n p limit, db_wf db -> reach db t s ->
  snd (fst (scan_sorted db t n p limit)) = firstn (N.to_nat limit) (v_view s n p) /\ sorted (v_view s n p).
Proof. exact scan_sorted_ok. Qed.

(* the state changes produced at the end are exactly the overlaid differences: committing the
   final StateUpdates (Delta = set/delete per key) to the base database gives, at every key of every
   partition not marked by delete_partition, exactly the view. *)
Theorem C12_state_updates_exact : forall db t s n p k, db_wf db -> reach db t s ->
  iset_mem (n, p) (v_del s) = false ->
  apply_su (snd (to_state_updates t)) db n p k = al_get k (v_view s n p).
Proof. exact state_updates_exact. Qed.

(* a partition marked by delete_partition is reset: after the commit it holds exactly the values this
   transaction wrote into it (Set updates of tracked substates), each equal to the view at that key,
   and nothing of the base database *)
Theorem C12_state_updates_deleted : forall db t s n p k, db_wf db -> reach db t s ->
  iset_mem (n, p) (v_del s) = true ->
  apply_su (snd (to_state_updates t)) db n p k =
    match tlookup (t_nodes t) n p k with Some tv => written_value tv | None => None end
  /\ forall v, apply_su (snd (to_state_updates t)) db n p k = Some v -> al_get k (v_view s n p) = Some v.
Proof. exact state_updates_deleted. Qed.

(* get_commit_info (the store-commit costing input) lists exactly one entry per tracked substate whose
   emitted update differs in kind from the database: Insert iff a Set over nothing, Update iff a Set
   over an existing value (with both sizes), Delete iff a Delete of an existing value; a Delete of
   nothing and read-only / garbage entries are not listed *)
Theorem C12_commit_info_exact : forall db t s c, db_wf db -> reach db t s ->
  (In c (get_commit_info db t) <->
   exists n p k tv, tlookup (t_nodes t) n p k = Some tv /\
                    commit_expected n p k (tsv_update tv) (al_get k (db n p)) = Some c).
Proof. exact commit_info_exact. Qed.

(* create_node's assert!(old_tracked.is_none()) fires exactly when some partition of the input
   repeats a (db sort) key: impossible for a BTreeMap input under an injective key mapper (C16) *)
Theorem C12_create_node_panics_iff : forall t n l,
  create_node t n l = None <-> exists p subs, In (p, subs) l /\ ~ NoDup (map fst subs).
Proof. exact create_node_panics_iff. Qed.

(* force_write panics exactly when the substate has no tracked entry (it was never loaded) *)
Theorem C12_force_write_panics_iff : forall t n p k,
  force_write t n p k = None <-> tlookup (t_nodes t) n p k = None.
Proof. exact force_write_panics_iff. Qed.

(* revert: the three unwrap()s are unreachable, and afterwards reads see the database overlaid with
   the force-written snapshots only, no node is new *)
Theorem C12_revert : forall db t s, db_wf db -> reach db t s ->
  revert t <> None /\
  forall t' n p k, no_blind_overwrite db t -> revert t = Some t' ->
    snd (fst (get_substate db t' n p k)) = match fw_get (v_fw s) n p k with Some x => x | None => al_get k (db n p) end
    /\ forall n', node_is_new (t_nodes t') n' = false.
Proof.
  intros db t s Hdb R. split; [exact (reach_revert_no_panic db t s Hdb R)|].
  intros t' n p k Hnb E. exact (revert_view db t s t' n p k Hdb R Hnb E).
Qed.

(* known finding garbage-after-revert: without no_blind_overwrite the read after a revert is wrong *)
Theorem C12_read_after_revert_refuted :
  exists t s t', reach witness_db t s /\ revert t = Some t' /\
    snd (fst (get_substate witness_db t' 0 0 0)) = None /\
    al_get 0 (v_view (spec_next witness_db s ORevert RUnit) 0 0) = Some (1, 1).
Proof. exact read_after_revert_refuted. Qed.

(* non-vacuity: a concrete run with a write, a removal of a database entry, a sorted scan that merges
   track and database entries, and a read of the own write *)
Example C12_nonvacuous :
  let db : dbfun := fun n p => if (n =? 0) && (p =? 2) then [(1, (7, 9)); (3, (8, 9))] else [] in
  snd (run db track_new [OSet 0 2 2 (5, 4); ORemove 0 2 1; OScanSorted 0 2 5; OGet 0 2 2]) =
  [ (RUnit, [EvTrackUpd 0 2 2 None (Some 4)]);
    (ROpt (Some (7, 9)), [EvReadDb 0 2 1 9; EvTrackUpd 0 2 1 None (Some 9); EvTrackUpd 0 2 1 (Some 9) (Some 9)]);
    (RKVs [(2, (5, 4)); (3, (8, 9))], [EvReadDb 0 2 1 9; EvReadDb 0 2 3 9]);
    (ROpt (Some (5, 4)), []) ].
Proof. vm_compute. reflexivity. Qed.

Print Assumptions C12_refines_view.
Print Assumptions C12_read_your_writes.
Print Assumptions C12_scan_keys.
Print Assumptions C12_drain.
Print Assumptions C12_scan_sorted.
Print Assumptions C12_state_updates_exact.
Print Assumptions C12_state_updates_deleted.
Print Assumptions C12_commit_info_exact.
Print Assumptions C12_create_node_panics_iff.
Print Assumptions C12_force_write_panics_iff.
Print Assumptions C12_revert.
Print Assumptions C12_read_after_revert_refuted.
