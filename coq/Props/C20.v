(* C20 — SBOR values round-trip and have a unique encoding. Property theorems only.
   Model: coq/Model/C20_Sbor.v (Value codec of sbor + Scrypto/manifest custom value codecs).
   `wf_value fl v`  = v is representable in the Rust types of flavour fl (integer ranges, UTF-8
                      strings, fixed-size bodies, Scrypto ids validated by their private constructors);
   `valid_value v`  = additionally every manifest custom value passes the checks of the validating
                      constructors/decoder (ManifestAddress::Static entity byte, ManifestNonFungibleLocalId
                      contents) — NOT guaranteed by the manifest types (public enum variants).
   `bytes_ok bs`    = every element of the byte list is < 256 (always true for a Rust &[u8]).      *)
From Coq Require Import List NArith ZArith Bool.
Import ListNotations.
Require Import RV.Model.C20_Sbor RV.Proof.C20_Base RV.Proof.C20_Top.
Require RV.Gen.C20_consts.
Open Scope N_scope.

(* Any value that can be encoded decodes back to an equal value (same depth limit), for every
   flavour, every depth limit md, every value tree. *)
Theorem C20_decode_encode : forall fl md v bs,
  wf_value fl v = true -> valid_value v = true ->
  encode_payload fl md v = Ok bs -> decode_payload fl md bs = Ok v.
Proof. exact decode_encode. Qed.

(* Canonicity: any byte string accepted as a payload re-encodes to exactly the same bytes, and the
   decoded value is well-formed and valid. *)
Theorem C20_encode_decode : forall fl md bs v, bytes_ok bs = true ->
  decode_payload fl md bs = Ok v ->
  encode_payload fl md v = Ok bs /\ wf_value fl v = true /\ valid_value v = true.
Proof. exact encode_decode. Qed.

(* Wire format: the accepted payloads are exactly the encodings of well-formed valid values
   (prefix, value kinds, canonical LEB128 length prefixes, UTF-8 strings, valid custom values
   are what `encode_payload` of such a value produces). *)
Theorem C20_wire_format : forall fl md bs v, bytes_ok bs = true ->
  (decode_payload fl md bs = Ok v <->
   wf_value fl v = true /\ valid_value v = true /\ encode_payload fl md v = Ok bs).
Proof.
  intros fl md bs v Hok. split.
  - intro D. destruct (encode_decode fl md bs v Hok D) as [E [W V]]. repeat split; assumption.
  - intros [W [V E]]. exact (decode_encode fl md v bs W V E).
Qed.

(* One encoding per value, one value per encoding. *)
Theorem C20_unique : forall fl md,
  (forall v1 v2 bs, wf_value fl v1 = true -> valid_value v1 = true ->
     wf_value fl v2 = true -> valid_value v2 = true ->
     encode_payload fl md v1 = Ok bs -> encode_payload fl md v2 = Ok bs -> v1 = v2) /\
  (forall bs1 bs2 v, bytes_ok bs1 = true -> bytes_ok bs2 = true ->
     decode_payload fl md bs1 = Ok v -> decode_payload fl md bs2 = Ok v -> bs1 = bs2).
Proof. intros fl md. split; [exact (encode_injective fl md)|exact (decode_unique_encoding fl md)]. Qed.

(* LEB128 length prefixes: read_size accepts exactly what write_size produces (<= 4 bytes, minimal). *)
Theorem C20_size_canonical :
  (forall n bs rest, write_size n = Ok bs -> read_size (bs ++ rest) = Ok (n, rest)) /\
  (forall st n rest, bytes_ok st = true -> read_size st = Ok (n, rest) ->
     exists bs, st = bs ++ rest /\ write_size n = Ok bs /\ bs <> []) /\
  (forall n, write_size n <> Panic /\ write_size n <> OutOfFuel /\
             (n <= MAX_SIZE <-> exists bs, write_size n = Ok bs)).
Proof.
  split; [exact write_size_read|]. split; [exact read_size_write|].
  intro n. destruct (N.le_gt_cases n MAX_SIZE) as [L|G].
  - destruct (write_size_ok n L) as [bs [W _]]. rewrite W. repeat split; try discriminate.
    + intros _. exists bs. reflexivity.
    + intros _. exact L.
  - unfold write_size. replace (MAX_SIZE <? n) with true by (symmetry; apply N.ltb_lt; exact G).
    repeat split; try discriminate.
    + intro L. exfalso. apply N.lt_nge in G. contradiction.
    + intros [bs W]. discriminate.
Qed.

(* Basic and Scrypto values are valid by construction: the round trip holds for every
   representable value.  For the manifest flavour the round trip holds exactly for valid values. *)
Theorem C20_basic_scrypto_roundtrip : forall fl md v bs, fl <> Manifest ->
  wf_value fl v = true -> encode_payload fl md v = Ok bs -> decode_payload fl md bs = Ok v.
Proof.
  intros fl md v bs Hfl W E. apply decode_encode; try assumption. apply (valid_of_wf fl); assumption.
Qed.
Theorem C20_roundtrip_except_known : forall fl md v bs, wf_value fl v = true -> bytes_ok bs = true ->
  encode_payload fl md v = Ok bs ->
  (decode_payload fl md bs = Ok v <-> valid_value v = true).
Proof. exact roundtrip_iff_valid. Qed.

(* The literal statement is refuted for the manifest flavour: a value built from the public enum
   variant ManifestAddress::Static(NodeId([0xff;30])) is representable, encodes (33 bytes), and its
   encoding is rejected (finding manifest_custom_value_invalid_by_construction); likewise a directly
   constructed empty ManifestNonFungibleLocalId::String. *)
Theorem C20_invalid_custom_refuted :
  exists v bs, wf_value Manifest v = true /\ encode_payload Manifest 64 v = Ok bs /\
               decode_payload Manifest 64 bs = Err InvalidCustomValue.
Proof.
  exists (VCustom (MAddressStatic (repeat 255 30))). eexists. split; [vm_compute; reflexivity|].
  split; vm_compute; reflexivity.
Qed.
Theorem C20_invalid_custom_refuted_id :
  exists v bs, wf_value Manifest v = true /\ encode_payload Manifest 64 v = Ok bs /\
               decode_payload Manifest 64 bs = Err InvalidCustomValue.
Proof.
  exists (VTuple [VCustom (MNonFungibleLocalId (NfString []))]). eexists. split; [vm_compute; reflexivity|].
  split; vm_compute; reflexivity.
Qed.

(* The constants of the model are the constants of the code (regenerated from /repo on every run). *)
Definition byte_range : list N := map N.of_nat (seq 0 256).
Definition accepted (fl : flavour) : list N :=
  filter (fun b => match kind_from_u8 fl b with Some _ => true | None => false end) byte_range.
Theorem C20_consts_tied :
  map kind_u8 [KBool; KInt I8; KInt I16; KInt I32; KInt I64; KInt I128; KInt U8; KInt U16; KInt U32;
               KInt U64; KInt U128; KString; KArray; KTuple; KEnum; KMap]
    = RV.Gen.C20_consts.value_kind_bytes /\
  map ckind_u8 [CSReference; CSOwn; CSDecimal; CSPreciseDecimal; CSNonFungibleLocalId]
    = RV.Gen.C20_consts.scrypto_custom_kind_bytes /\
  map ckind_u8 [CMAddress; CMBucket; CMProof; CMExpression; CMBlob; CMDecimal; CMPreciseDecimal;
                CMNonFungibleLocalId; CMAddressReservation]
    = RV.Gen.C20_consts.manifest_custom_kind_bytes /\
  accepted Basic = RV.Gen.C20_consts.basic_kind_bytes_accepted /\
  accepted Scrypto = RV.Gen.C20_consts.scrypto_kind_bytes_accepted /\
  accepted Manifest = RV.Gen.C20_consts.manifest_kind_bytes_accepted /\
  map payload_prefix [Basic; Scrypto; Manifest] = RV.Gen.C20_consts.payload_prefixes /\
  [30; 24; 32; 64; 64] = RV.Gen.C20_consts.body_sizes.
Proof. repeat split; vm_compute; reflexivity. Qed.

(* non-vacuity: a nested value of each flavour with strings, a map, customs; its encoding; the
   hypotheses of the theorems above hold for it *)
Example C20_nonvacuous :
  let v := VTuple [VString [104; 195; 169]; VInt I16 (-2)%Z;
                   VMap (KInt U8) KString [(VInt U8 1%Z, VString [])];
                   VArray (KCustom CMAddress) [VCustom (MAddressNamed 7)];
                   VCustom (MNonFungibleLocalId (NfString [97; 95; 49]))] in
  wf_value Manifest v = true /\ valid_value v = true /\
  exists bs, encode_payload Manifest 3 v = Ok bs /\ bytes_ok bs = true /\ decode_payload Manifest 3 bs = Ok v /\
             encode_payload Manifest 2 v = Err (EMaxDepthExceeded 2).
Proof. cbv zeta. split; [vm_compute; reflexivity|]. split; [vm_compute; reflexivity|]. eexists. repeat split; vm_compute; reflexivity. Qed.

Print Assumptions C20_decode_encode.
Print Assumptions C20_encode_decode.
Print Assumptions C20_wire_format.
Print Assumptions C20_unique.
Print Assumptions C20_size_canonical.
Print Assumptions C20_roundtrip_except_known.
Print Assumptions C20_invalid_custom_refuted.
Print Assumptions C20_consts_tied.
