(* C47 — Host memory access from WASM is always bounds-checked. Property theorems only.
   usize is 64-bit (USIZE_BITS = 64: the build targets of the node and of the harness); pointers and
   lengths coming from WASM are u32 values.  `read_memory`, `write_memory`, `host_reads`,
   `consume_buffer` are the model at that width. *)
From Coq Require Import List NArith Bool String.
Import ListNotations.
Require Import RV.Model.C47_HostMem RV.Proof.C47_HostMem RV.Gen.C47_host_fns.
Open Scope N_scope.

(* read_memory: for every memory, every u32 ptr and len: either the range is inside the memory and
   the result is exactly the bytes of [ptr, ptr+len) (List.length len, i-th byte = memory[ptr+i]), or the
   range leaves the memory and the result is MemoryAccessError.  In particular never a panic: the
   addition ptr+len is done in 64-bit usize and cannot overflow, the slice index is in range. *)
Theorem C47_read_exact_or_error : forall m ptr len, ptr <= U32_MAX -> len <= U32_MAX ->
  (ptr + len <= msize m /\
   exists bs, read_memory m ptr len = Ok bs /\ reads_exactly m ptr len bs)
  \/ (msize m < ptr + len /\ read_memory m ptr len = Err MemoryAccessError).
Proof. exact read_exact_or_error. Qed.

(* the value an export returns is an arbitrary i64 split into (ptr,len): same guarantee *)
Theorem C47_read_slice_exact_or_error : forall m v,
  let ptr := slice_ptr v in let len := slice_len v in
  (ptr + len <= msize m /\
   exists bs, read_slice m v = Ok bs /\ reads_exactly m ptr len bs)
  \/ (msize m < ptr + len /\ read_slice m v = Err MemoryAccessError).
Proof. exact read_slice_exact_or_error. Qed.

(* write_memory (data is a host Vec, so its length is below 2^63): either the range is inside the
   memory and afterwards exactly [ptr, ptr+|data|) holds data while every other byte and the size are
   unchanged, or the range leaves the memory, the result is MemoryAccessError and the memory is
   unchanged.  Never a panic. *)
Theorem C47_write_exact_or_error : forall m ptr data,
  ptr <= U32_MAX -> N.of_nat (List.length data) < 9223372036854775808 ->
  let dl := N.of_nat (List.length data) in
  (ptr + dl <= msize m /\
   exists m', write_memory m ptr data = (Ok tt, m') /\ writes_exactly m m' ptr data)
  \/ (msize m < ptr + dl /\ write_memory m ptr data = (Err MemoryAccessError, m)).
Proof. exact write_exact_or_error. Qed.

(* every buffer-taking host function = its (ptr,len) pairs read in order with `?`: all ranges inside
   => the runtime receives exactly the slices; some range outside => MemoryAccessError *)
Theorem C47_host_reads_exact_or_error : forall m args, Forall u32_pair args ->
  (Forall (in_mem m) args /\
   host_reads m args = Ok (map (fun a => slice m (fst a) (fst a + snd a)) args))
  \/ (Exists (out_of_mem m) args /\ host_reads m args = Err MemoryAccessError).
Proof. exact host_reads_exact_or_error. Qed.

(* the host function consume_buffer in any reachable state of the buffer table *)
Theorem C47_consume_buffer_exact_or_error : forall max ops st m id dest,
  bexec (bufs_new max) ops = Some st -> dest <= U32_MAX ->
  match im_find id (btab st) with
  | None => consume_buffer st m id dest = (Err (BufferNotFound id), st, m)
  | Some d =>
    N.of_nat (List.length d) <= U32_MAX ->
    exists st', buffer_consume st id = (Ok d, st') /\
      let dl := N.of_nat (List.length d) in
      ((dest + dl <= msize m /\
        exists m', consume_buffer st m id dest = (Ok tt, st', m') /\ writes_exactly m m' dest d)
       \/ (msize m < dest + dl /\ consume_buffer st m id dest = (Err MemoryAccessError, st', m)))
  end.
Proof. exact consume_buffer_exact_or_error. Qed.

(* buffer table, all histories of allocate/consume: an id is consumed at most once; an id never
   handed out is unknown; a consume delivers exactly the bytes whose length was reported; buffers have
   u32 lengths; at most `max` buffers are live *)
Theorem C47_buffer_consume_once : forall max ops1 ops2 id st1 d st2 st3,
  bexec (bufs_new max) ops1 = Some st1 ->
  buffer_consume st1 id = (Ok d, st2) ->
  bexec st2 ops2 = Some st3 ->
  buffer_consume st3 id = (Err (BufferNotFound id), st3).
Proof. exact buffer_consume_once. Qed.

Theorem C47_buffer_unknown_id : forall max ops st id,
  bexec (bufs_new max) ops = Some st -> bnext st <= id ->
  buffer_consume st id = (Err (BufferNotFound id), st).
Proof. exact buffer_unknown_id. Qed.

Theorem C47_buffer_roundtrip : forall max ops st data id len st',
  bexec (bufs_new max) ops = Some st ->
  allocate_buffer st data = (Ok (id, len), st') ->
  len = N.of_nat (List.length data) /\ exists st'', buffer_consume st' id = (Ok data, st'').
Proof. exact buffer_roundtrip. Qed.

Theorem C47_reachable_buffers_u32 : forall max ops st k x,
  bexec (bufs_new max) ops = Some st -> In (k, x) (btab st) -> N.of_nat (List.length x) <= U32_MAX.
Proof. exact reachable_buffers_u32. Qed.

Theorem C47_buffer_count_bounded : forall max ops st,
  bexec (bufs_new max) ops = Some st -> N.of_nat (List.length (btab st)) <= max /\ bmax st = max.
Proof. exact buffer_count_bounded. Qed.

(* the buffer table of the code = the abstract table id -> data (ids consecutive, live from the
   allocation to the first consume, at most max live), for EVERY history and EVERY limit max (32 for
   ScryptoVmVersion V1_0/V1_1, 4 for V1_2): same outputs step by step, same panics *)
Theorem C47_buffer_table_refines_spec : forall max ops,
  brun (bufs_new max) ops = spec_run (spec_new max) ops.
Proof. exact table_refines_spec. Qed.

(* Buffer::new / id() / len(): the i64 handed to WASM carries id and len exactly *)
Theorem C47_buffer_pack_roundtrip : forall id len, id <= U32_MAX -> len <= U32_MAX ->
  buffer_id (buffer_pack id len) = id /\ buffer_len (buffer_pack id len) = len.
Proof. exact buffer_pack_roundtrip. Qed.

(* return path of a host function handing data back (reads, runtime result r = f(vectors read),
   allocate_buffer(r), buffer.0 to WASM), in every reachable table state: out-of-range pair =>
   MemoryAccessError, table unchanged; otherwise TooManyBuffers with the table unchanged when max buffers
   are live, else the returned value is (fresh id = next id, len = |r|), the table is the one reached by
   the history extended with this allocation, and the id names a live buffer holding exactly r *)
Theorem C47_host_call_result_is_live_buffer : forall max ops st m pairs f,
  bexec (bufs_new max) ops = Some st -> Forall u32_pair pairs ->
  (Exists (out_of_mem m) pairs /\ host_call st m pairs f = (Err MemoryAccessError, st))
  \/ (Forall (in_mem m) pairs /\
      let r := f (map (fun a => slice m (fst a) (fst a + snd a)) pairs) in
      N.of_nat (List.length r) <= U32_MAX -> bnext st < U32_MAX ->
      if bmax st <=? N.of_nat (List.length (btab st))
      then host_call st m pairs f = (Err TooManyBuffers, st)
      else exists st',
        host_call st m pairs f = (Ok (buffer_pack (bnext st) (N.of_nat (List.length r))), st')
        /\ bexec (bufs_new max) (ops ++ [BAlloc r]) = Some st'
        /\ im_find (bnext st) (btab st') = Some r
        /\ bnext st' = bnext st + 1).
Proof. exact host_call_result_is_live_buffer. Qed.

(* what a WASM program does with the result: buffer_consume(Buffer::id(v), dest) writes exactly the
   runtime's result r to [dest, dest+|r|) (|r| = Buffer::len(v)) and the id is dead afterwards, or fails
   with MemoryAccessError leaving the memory unchanged *)
Theorem C47_call_then_consume_exact_or_error : forall max ops st m pairs f dest,
  bexec (bufs_new max) ops = Some st -> Forall u32_pair pairs -> Forall (in_mem m) pairs ->
  dest <= U32_MAX ->
  let r := f (map (fun a => slice m (fst a) (fst a + snd a)) pairs) in
  N.of_nat (List.length r) <= U32_MAX -> bnext st < U32_MAX ->
  N.of_nat (List.length (btab st)) < bmax st ->
  let v := buffer_pack (bnext st) (N.of_nat (List.length r)) in
  buffer_id v = bnext st /\ buffer_len v = N.of_nat (List.length r) /\
  ((dest + N.of_nat (List.length r) <= msize m /\
    exists st'' m', call_then_consume st m pairs f dest = (Ok v, st'', m')
                    /\ writes_exactly m m' dest r /\ im_find (bnext st) (btab st'') = None)
   \/ (msize m < dest + N.of_nat (List.length r) /\
       exists st'', call_then_consume st m pairs f dest = (Err MemoryAccessError, st'', m))).
Proof. exact call_then_consume_exact_or_error. Qed.

(* the statement depends on the 64-bit target: with a 32-bit usize and overflow checks the same code
   panics on ptr = 1, len = u32::MAX in a 1-byte memory (not a finding: no 32-bit node target) *)
Theorem C47_usize32_overflow_panics :
  read_memory_w 32 {| msize := 1; mget := fun _ => 0 |} 1 U32_MAX = Panic.
Proof. exact usize32_overflow_panics. Qed.

(* ---- generated table (static scan of wasmi.rs, regenerated on every run) ---- *)
Definition uses_helper (f : host_fn) : bool :=
  (hf_ptr_params f =? hf_reads f + hf_writes f) && (hf_len_params f =? hf_reads f)
  && hf_pairs_matched f && (hf_stray_ptr_uses f =? 0) && negb (hf_raw_access f).
(* test-only functions (feature radix_engine_tests): pointers still only through the helpers *)
Definition test_fn_ok (f : host_fn) : bool :=
  (hf_ptr_params f =? hf_reads f + hf_writes f)
  && (negb (hf_raw_access f) || (hf_ptr_params f =? 0)).
Definition host_fn_ok (f : host_fn) : bool := if hf_cfg_test f then test_fn_ok f else uses_helper f.

(* every native host function passes each pointer parameter to read_memory / write_memory exactly
   once, uses it nowhere else, reads every pointer with the length parameter that follows it in the
   signature (hf_pairs_matched), and never touches the memory object *)
Theorem C47_all_host_fns_use_checked_helpers : forallb host_fn_ok c47_host_fns = true.
Proof. vm_compute. reflexivity. Qed.

(* return path, wasmi.rs: a native function returning an i64 to WASM returns `buffer.0` of the Buffer
   produced by its single runtime call and writes nothing into the memory; the only non-test function
   that writes into the memory is consume_buffer *)
Theorem C47_results_only_through_buffers :
  forallb (fun f => hf_cfg_test f || (if hf_returns_u64 f then hf_result_is_buffer f && (hf_writes f =? 0) else true))
          c47_host_fns = true
  /\ map hf_name (filter (fun f => negb (hf_cfg_test f) && negb (hf_writes f =? 0)) c47_host_fns)
     = ["consume_buffer"]%string
  /\ List.length (filter (fun f => hf_returns_u64 f && negb (hf_cfg_test f)) c47_host_fns) = 30%nat.
Proof. vm_compute. repeat split; reflexivity. Qed.

(* return path, scrypto_runtime.rs: every method returning a Buffer obtains it from exactly one
   `self.allocate_buffer(..)` call and allocate_buffer is the only function constructing a Buffer *)
Theorem C47_runtime_buffers_only_from_allocate :
  forallb (fun p => snd p =? 1) c47_runtime_buffer_fns = true
  /\ c47_runtime_buffer_ctor_sites = ["allocate_buffer"]%string
  /\ List.length c47_runtime_buffer_fns = 30%nat.
Proof. vm_compute. repeat split; reflexivity. Qed.

(* every Func::wrap closure only forwards (caller, params...) to a native function of the table,
   and every linker item is such a closure *)
Theorem C47_closures_only_forward :
  forallb (fun c => let '(_, _, fwd, raw) := c in fwd && negb raw) c47_closures = true
  /\ forallb (fun i => let '(_, _, known) := i in known) c47_imports = true.
Proof. split; vm_compute; reflexivity. Qed.

(* the only functions of wasmi.rs that use the memory object directly *)
Theorem C47_raw_memory_access_only_in_helpers :
  c47_raw_memory_fns =
    ["test_host_check_memory_is_clean"; "instantiate"; "read_memory"; "write_memory";
     "get_export_func"; "run_module_with_mutable_global"]%string.
Proof. vm_compute. reflexivity. Qed.

(* pinned counts: a host function added to wasmi.rs changes them *)
Theorem C47_host_fn_counts :
  List.length c47_host_fns = 53%nat
  /\ List.length (filter (fun f => negb (hf_ptr_params f =? 0)) c47_host_fns) = 33%nat
  /\ List.length c47_closures = 53%nat /\ List.length c47_imports = 53%nat.
Proof. vm_compute. repeat split; reflexivity. Qed.

(* non-vacuity: a concrete memory, a read at the very end, a read one past, a write, and a buffer
   history with a double consume *)
Example C47_nonvacuous :
  let m := pat_mem 1 7 in
  read_memory m 65534 2 = Ok [pat_byte 7 65534; pat_byte 7 65535]
  /\ read_memory m 65534 3 = Err MemoryAccessError
  /\ read_memory m 65536 0 = Ok []
  /\ read_memory m 65537 0 = Err MemoryAccessError
  /\ read_memory m 1 4294967295 = Err MemoryAccessError
  /\ fst (write_memory m 65535 [9]) = Ok tt
  /\ fst (write_memory m 65535 [9; 9]) = Err MemoryAccessError
  /\ brun (bufs_new 4) [BAlloc [1; 2]; BAlloc [3]; BConsume 0; BConsume 0; BConsume 7; BAlloc []]
     = [OAlloc 0 2; OAlloc 1 1; OData [1; 2]; OErr (BufferNotFound 0); OErr (BufferNotFound 7); OAlloc 2 0].
Proof. vm_compute. repeat split; reflexivity. Qed.

Print Assumptions C47_read_exact_or_error.
Print Assumptions C47_read_slice_exact_or_error.
Print Assumptions C47_write_exact_or_error.
Print Assumptions C47_host_reads_exact_or_error.
Print Assumptions C47_consume_buffer_exact_or_error.
Print Assumptions C47_buffer_consume_once.
Print Assumptions C47_buffer_unknown_id.
Print Assumptions C47_buffer_roundtrip.
Print Assumptions C47_reachable_buffers_u32.
Print Assumptions C47_buffer_count_bounded.
Print Assumptions C47_buffer_table_refines_spec.
Print Assumptions C47_buffer_pack_roundtrip.
Print Assumptions C47_host_call_result_is_live_buffer.
Print Assumptions C47_call_then_consume_exact_or_error.
Print Assumptions C47_results_only_through_buffers.
Print Assumptions C47_runtime_buffers_only_from_allocate.
Print Assumptions C47_usize32_overflow_panics.
Print Assumptions C47_all_host_fns_use_checked_helpers.
Print Assumptions C47_closures_only_forward.
Print Assumptions C47_raw_memory_access_only_in_helpers.
Print Assumptions C47_host_fn_counts.
