(* C29 — Calendar time conversions are correct and invertible. Property theorems only.
   Model: RV.Model.C29_Calendar (from_instant / to_instant / new / add_* / Display / FromStr as
   written in radix-common/src/time, FromStr after the `fix:` commit).  `in_range t` is
   MIN_SUPPORTED_TIMESTAMP <= t <= MAX_SUPPORTED_TIMESTAMP (0001-01-01T00:00:00Z ..
   4294967295-12-31T23:59:59Z); `valid_dt` is calendar validity with year in 1..u32::MAX;
   `greg_seconds` is the proleptic Gregorian specification (days_from_civil * 86400 + time of day),
   defined without reference to the algorithms. *)
From Coq Require Import List ZArith Bool.
Import ListNotations.
Require Import RV.Model.C29_Calendar.
Require Import RV.Proof.C29_Calendar RV.Proof.C29_ToInstant RV.Proof.C29_Order RV.Proof.C29_Text
  RV.Proof.C29_Textbook.
Open Scope Z_scope.

(* --- the specification is the proleptic Gregorian calendar ------------------------------------ *)

(* day 0 is 1970-01-01 and the calendar successor of a valid date has the next day number; the
   closed-form year term is the running sum of the year lengths *)
Theorem C29_spec_is_gregorian :
  days_from_civil 1970 1 1 = 0
  /\ (forall y, days_before_year (y + 1) = days_before_year y + year_len y)
  /\ (forall y m d, 1 <= m <= 12 -> 1 <= d <= month_len (greg_leap y) m ->
      let '(y', m', d') := next_date y m d in
      days_from_civil y' m' d' = days_from_civil y m d + 1
      /\ 1 <= m' <= 12 /\ 1 <= d' <= month_len (greg_leap y') m').
Proof. exact (conj dfc_epoch (conj dby_step dfc_next)). Qed.

(* the textbook civil-from-days algorithm inverts the day count, for every integer day number *)
Theorem C29_textbook_inverse : forall z,
  let '(y, m, d) := civil_from_days z in
  1 <= m <= 12 /\ 1 <= d <= month_len (greg_leap y) m /\ days_from_civil y m d = z.
Proof. exact civil_from_days_spec. Qed.

(* --- conversions -------------------------------------------------------------------------------- *)

(* every supported timestamp converts (no panic, no error) to THE valid date-time whose Gregorian
   second count is that timestamp *)
Theorem C29_gregorian : forall t, in_range t ->
  exists d, from_instant t = Ok d /\ valid_dt d /\ greg_seconds d = t
            /\ forall d', valid_dt d' -> greg_seconds d' = t -> d' = d.
Proof. exact gregorian. Qed.

(* ... and it is the date the textbook algorithm gives for floor(t / 86400), with the time of day
   taken from t mod 86400 *)
Theorem C29_gregorian_textbook : forall t, in_range t ->
  exists d, from_instant t = Ok d
    /\ (year d, month d, day d) = civil_from_days (t / 86400)
    /\ hour d = (t mod 86400) / 3600 /\ minute d = (t mod 86400) / 60 mod 60
    /\ second d = t mod 60.
Proof. exact from_instant_textbook. Qed.

Theorem C29_out_of_range : forall t, ~ in_range t -> from_instant t = Err InstantIsOutOfRange.
Proof. exact from_instant_out_of_range. Qed.

(* to_instant of a valid date-time is its Gregorian second count (no panic: every u32/u8/i64
   operation of the code stays in range) *)
Theorem C29_to_instant_gregorian : forall d, valid_dt d ->
  @to_instant dt_error d = Ok (greg_seconds d).
Proof. exact (to_instant_spec dt_error). Qed.

Theorem C29_from_to : forall t, in_range t ->
  exists d, from_instant t = Ok d /\ valid_dt d /\ @to_instant dt_error d = Ok t.
Proof. exact (from_to dt_error). Qed.

Theorem C29_to_from : forall d, valid_dt d ->
  exists t, @to_instant dt_error d = Ok t /\ in_range t /\ from_instant t = Ok d.
Proof. exact (to_from dt_error). Qed.

(* strictly increasing w.r.t. the derived (lexicographic) order of UtcDateTime *)
Theorem C29_strictly_increasing : forall t1 t2, in_range t1 -> in_range t2 -> t1 < t2 ->
  exists d1 d2, from_instant t1 = Ok d1 /\ from_instant t2 = Ok d2 /\ dt_compare d1 d2 = Lt.
Proof. exact strictly_increasing. Qed.

Theorem C29_order_is_time_order : forall a b, valid_dt a -> valid_dt b ->
  dt_compare a b = (greg_seconds a ?= greg_seconds b).
Proof. exact greg_compare. Qed.

(* add_days / add_hours / add_minutes / add_seconds (unit = 86400 / 3600 / 60 / 1; any unit):
   the result is Some d' exactly when n * unit fits i64 and the shifted timestamp is supported,
   and then d' is the date-time of timestamp + n * unit; otherwise None; never a panic *)
Theorem C29_add_commutes : forall unit d n, valid_dt d ->
  let t' := greg_seconds d + n * unit in
  if in_i64 (n * unit) && in_rangeb t'
  then exists d', dt_add unit d n = Ok (Some d') /\ valid_dt d' /\ greg_seconds d' = t'
  else dt_add unit d n = Ok None.
Proof. exact dt_add_spec. Qed.

(* Scope of the statement w.r.t. values that are not valid date-times.  `UtcDateTime` derives SBOR
   `Decode` without validation, so a value such as month = 0 can be produced by decoding bytes,
   and `to_instant` panics on it (u8 underflow of `self.month - 1`; likewise `23 - hour` before
   1970, or an out-of-bounds table index for month > 12/13).  The property as written quantifies
   over "every timestamp in the supported range, every VALID calendar date-time and every input
   string": conversions are claimed correct and invertible on valid date-times, which are exactly
   what `new`, `from_instant` and `from_str` can return (C29_new_valid, C29_gregorian,
   C29_parse_valid).  Decoded invalid values are therefore outside C29 (decoding totality and
   validation of custom SBOR values belong to the SBOR properties); the model keeps those panic
   paths, the harness checks them by correspondence, and the boundary is stated here: *)
Theorem C29_to_instant_outside_valid_can_panic :
  exists d, ~ valid_dt d /\ @to_instant dt_error d = Panic.
Proof.
  exists (mkdt 2000 0 1 0 0 0). split; [|vm_compute; reflexivity].
  unfold valid_dt. cbn [month]. intros (_ & M & _). destruct M as [M _]. apply M. reflexivity.
Qed.

(* --- constructor and text form ----------------------------------------------------------------- *)

Theorem C29_new_valid : forall y m d h mi s x,
  0 <= y <= U32_MAX -> 0 <= h -> 0 <= mi -> 0 <= s ->
  (new y m d h mi s = Ok x <-> x = mkdt y m d h mi s /\ valid_dt x).
Proof. exact new_ok_iff. Qed.

Theorem C29_print_parse : forall d, valid_dt d -> year d <= 9999 -> from_str (print d) = Ok d.
Proof. exact print_parse. Qed.

(* for EVERY byte string (valid UTF-8 or not) the repaired parser returns Ok or Err *)
Theorem C29_parse_total : forall s, from_str s <> Panic.
Proof. exact parse_total. Qed.

Theorem C29_parse_valid : forall s d, from_str s = Ok d -> valid_dt d.
Proof. exact parse_valid. Qed.

(* the code before the fix (same function without the is_ascii test) panics on
   "202é-01-27T12:17:25Z": 20 chars, but the byte slice 0..4 ends inside 'é' *)
Theorem C29_parse_total_unfixed_refuted : exists s, from_str_unfixed s = Panic.
Proof. exists witness_unfixed. exact unfixed_panics. Qed.

(* non-vacuity: concrete conversions, a leap-century boundary, pre-1970, both range ends *)
Example C29_nonvacuous :
  in_range 951782400 /\ from_instant 951782400 = Ok (mkdt 2000 2 29 0 0 0)
  /\ from_instant (-58060801) = Ok (mkdt 1968 2 28 23 59 59)
  /\ from_instant MIN_SUPPORTED_TIMESTAMP = Ok (mkdt 1 1 1 0 0 0)
  /\ from_instant MAX_SUPPORTED_TIMESTAMP = Ok (mkdt 4294967295 12 31 23 59 59)
  /\ valid_dt (mkdt 2100 2 28 23 59 59) /\ ~ valid_dt (mkdt 2100 2 29 0 0 0)
  /\ @to_instant dt_error (mkdt 1804 2 28 23 59 59) = Ok (-5233420801)
  /\ dt_add 86400 (mkdt 1968 2 29 0 0 0) 2 = Ok (Some (mkdt 1968 3 2 0 0 0))
  /\ dt_add 3600 (mkdt 4294967295 12 31 23 59 59) 1 = Ok None
  /\ print (mkdt 2023 1 27 12 17 25) = [50;48;50;51;45;48;49;45;50;55;84;49;50;58;49;55;58;50;53;90]
  /\ from_str [50;48;50;51;45;48;49;45;50;55;84;49;50;58;49;55;58;50;53;90] = Ok (mkdt 2023 1 27 12 17 25)
  /\ from_str witness_unfixed = Err InvalidFormat.
Proof.
  repeat split; try (vm_compute; reflexivity); try (vm_compute; intuition discriminate).
Qed.

Print Assumptions C29_spec_is_gregorian.
Print Assumptions C29_textbook_inverse.
Print Assumptions C29_gregorian.
Print Assumptions C29_gregorian_textbook.
Print Assumptions C29_out_of_range.
Print Assumptions C29_to_instant_gregorian.
Print Assumptions C29_from_to.
Print Assumptions C29_to_from.
Print Assumptions C29_strictly_increasing.
Print Assumptions C29_order_is_time_order.
Print Assumptions C29_add_commutes.
Print Assumptions C29_to_instant_outside_valid_can_panic.
Print Assumptions C29_new_valid.
Print Assumptions C29_print_parse.
Print Assumptions C29_parse_total.
Print Assumptions C29_parse_valid.
Print Assumptions C29_parse_total_unfixed_refuted.
