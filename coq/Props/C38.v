(* C38 — Static resource movement bounds are sound (partial). Property theorems only.
   gamma l u x : the non-negative balance x lies within the (lower, upper) bound pair. *)
From Coq Require Import List ZArith Bool.
Import ListNotations.
Require Import RV.Model.C37_Constraint RV.Proof.C37_Constraint RV.Model.C38_Bounds RV.Proof.C38_Bounds RV.Proof.C38_Ids.
Open Scope Z_scope.

(* each abstract operation of the bound algebra over-approximates the concrete balance operation *)
Theorem C38_bound_ops_sound :
  (forall l1 u1 l2 u2 l u x y, gamma l1 u1 x -> gamma l2 u2 y ->
     lower_add_from l1 l2 = BOk l -> upper_add_from u1 u2 = BOk u -> gamma l u (x + y)) /\
  (forall l u x t, gamma l u x -> 0 <= t <= x ->
     upper_take_amount u t <> BTakeCannotBeSatisfied /\
     forall l' u', lower_take_amount l t = BOk l' -> upper_take_amount u t = BOk u' -> gamma l' u' (x - t)) /\
  (forall l u l2 u2 x, gamma l u x -> SatLower l2 x -> SatUpper u2 x ->
     gamma (lower_constrain_to l l2) (upper_constrain_to u u2) x).
Proof. split; [exact add_sound | split; [exact take_sound | exact constrain_sound]]. Qed.

Theorem C38_constrain_is_intersection : forall l l2 u u2 x, 0 <= x ->
  (SatLower (lower_constrain_to l l2) x <-> SatLower l x /\ SatLower l2 x) /\
  (SatUpper (upper_constrain_to u u2) x <-> SatUpper u x /\ SatUpper u2 x).
Proof. exact constrain_tightest. Qed.

Theorem C38_take_no_panic : forall a t, 0 <= a <= DEC_MAX -> 0 <= t ->
  lower_take_amount (LIncl a) t <> BPanic /\ upper_take_amount (UIncl a) t <> BPanic.
Proof. exact take_no_panic. Qed.

(* id-set part (ResourceBounds::mut_add / mut_take / mut_handle_assertion, each followed by normalize):
   gammaNF g ids = ids is a duplicate-free id list satisfying the general constraint g.  Each abstract
   operation over-approximates the concrete one on non-fungible balances. *)
Theorem C38_id_bounds_sound :
  (* merge of two disjoint balances *)
  (forall g1 g2 g x y, gammaNF g1 x -> gammaNF g2 y -> (forall i, In i x -> ~ In i y) ->
     NoDup (required g1) -> NoDup (required g2) -> bounds_add g1 g2 = GOk g -> gammaNF g (x ++ y)) /\
  (* taking ids the balance contains *)
  (forall g g' x taken, gammaNF g x -> NoDup taken -> incl taken x -> NoDup (required g) ->
     bounds_take_ids g taken = GOk g' -> gammaNF g' (minus_ids x taken)) /\
  (* taking t units of unknown identity *)
  (forall g g' x x' t, gammaNF g x -> NoDup x' -> incl x' x -> 0 <= t -> len x' * SCALE = len x * SCALE - t ->
     NoDup (required g) -> bounds_take_amount g t = GOk g' -> gammaNF g' x') /\
  (* an assertion that the balance passes *)
  (forall g a g' x, gammaNF g x -> SatG a x -> NoDup (required g) -> NoDup (required a) ->
     bounds_assert g a = GOk g' -> gammaNF g' x).
Proof.
  split; [exact bounds_add_sound | split; [exact bounds_take_ids_sound | split; [exact bounds_take_amount_sound | exact bounds_assert_sound]]].
Qed.
(* normalize() never loses a balance (no validity assumption) *)
Theorem C38_normalize_sound : forall g ids, NoDup (required g) -> NoDup ids -> SatG g ids -> SatG (normalize g) ids.
Proof. exact normalize_sound. Qed.
(* NOTE (incompleteness, outside the property): mut_take(NonFungibles) can report TakeCannotBeSatisfied
   for a take the balance can provide, e.g. bounds {required {a}, 1..5, Any}, balance {a,b,c}, take {b,c}:
   the lower bound drops to 0 and the check |required| <= lower fails although {a} remains. The analyser
   then fails instead of reporting bounds, which the soundness statement does not forbid. *)
Example C38_take_incomplete :
  bounds_take_ids (mkGeneral [1%N] (LIncl (1 * SCALE)) (UIncl (5 * SCALE)) AnyIds) [2%N; 3%N] = GErr GETakeCannotBeSatisfied.
Proof. vm_compute. reflexivity. Qed.

Example C38_nonvacuous :
  gamma LNonZero (UIncl (5 * SCALE)) (2 * SCALE) /\
  lower_add_from LNonZero (LIncl 0) = BOk LNonZero /\
  upper_take_amount (UIncl (5 * SCALE)) (6 * SCALE) = BTakeCannotBeSatisfied /\
  lower_constrain_to (LIncl 0) LNonZero = LNonZero.
Proof. repeat split; vm_compute; try reflexivity; discriminate. Qed.

Print Assumptions C38_bound_ops_sound.
Print Assumptions C38_constrain_is_intersection.
Print Assumptions C38_take_no_panic.
Print Assumptions C38_id_bounds_sound.
Print Assumptions C38_normalize_sound.
