(* C38 — Static resource movement bounds are sound (partial). Property theorems only.
   gamma l u x : the non-negative balance x lies within the (lower, upper) bound pair. *)
From Coq Require Import List ZArith Bool.
Import ListNotations.
Require Import RV.Model.C37_Constraint RV.Proof.C37_Constraint RV.Model.C38_Bounds RV.Proof.C38_Bounds.
Open Scope Z_scope.

(* each abstract operation of the bound algebra over-approximates the concrete balance operation *)
Theorem C38_bound_ops_sound :
  (forall l1 u1 l2 u2 l u x y, gamma l1 u1 x -> gamma l2 u2 y ->
     lower_add_from l1 l2 = BOk l -> upper_add_from u1 u2 = BOk u -> gamma l u (x + y)) /\
  (forall l u x t, gamma l u x -> 0 <= t <= x ->
     upper_take_amount u t <> BTakeCannotBeSatisfied /\
     forall l' u', lower_take_amount l t = BOk l' -> upper_take_amount u t = BOk u' -> gamma l' u' (x - t)) /\
  (forall l u l2 u2 x, gamma l u x -> SatLower l2 x -> SatUpper u2 x ->
     gamma (lower_constrain_to l l2) (upper_constrain_to u u2) x).
Proof. split; [exact add_sound | split; [exact take_sound | exact constrain_sound]]. Qed.

Theorem C38_constrain_is_intersection : forall l l2 u u2 x, 0 <= x ->
  (SatLower (lower_constrain_to l l2) x <-> SatLower l x /\ SatLower l2 x) /\
  (SatUpper (upper_constrain_to u u2) x <-> SatUpper u x /\ SatUpper u2 x).
Proof. exact constrain_tightest. Qed.

Theorem C38_take_no_panic : forall a t, 0 <= a <= DEC_MAX -> 0 <= t ->
  lower_take_amount (LIncl a) t <> BPanic /\ upper_take_amount (UIncl a) t <> BPanic.
Proof. exact take_no_panic. Qed.

Example C38_nonvacuous :
  gamma LNonZero (UIncl (5 * SCALE)) (2 * SCALE) /\
  lower_add_from LNonZero (LIncl 0) = BOk LNonZero /\
  upper_take_amount (UIncl (5 * SCALE)) (6 * SCALE) = BTakeCannotBeSatisfied /\
  lower_constrain_to (LIncl 0) LNonZero = LNonZero.
Proof. repeat split; vm_compute; try reflexivity; discriminate. Qed.

Print Assumptions C38_bound_ops_sound.
Print Assumptions C38_constrain_is_intersection.
Print Assumptions C38_take_no_panic.
