(* C11 — No transaction can crash the engine: the pinned collection of the `*_no_panic` theorems
   proved for the modelled parts of the engine (each one states that the explicit Panic outcome of
   its model — every unwrap / expect / assert! / index / overflow of the modelled Rust function — is
   unreachable, or refutes it with a witness).  There is no single model for this property;
   panic-freedom of the unmodelled native code is explored by the harness c11 (every native
   function / method with boundary and arbitrary arguments under catch_unwind), not proved. *)
Require RV.Props.C02 RV.Props.C07 RV.Props.C10 RV.Props.C24 RV.Props.C26 RV.Props.C27 RV.Props.C35 RV.Props.C36 RV.Props.C38 RV.Props.C41 RV.Props.C49.
Require RV.Props.C03.

(* the list is pinned: removing or weakening one of these theorems breaks this file *)
Definition C11_no_panic_collection :=
  ( RV.Props.C02.C02_revert_no_panic,          (* Track::revert_non_force_write_changes: the three unwraps *)
    RV.Props.C07.C07_no_panic,                 (* transaction tracker ring arithmetic *)
    RV.Props.C10.C10_no_panic,                 (* proof locks: lock/unlock counters and amounts *)
    RV.Props.C10.C10_no_panic_other,
    RV.Props.C10.C10_nf_no_panic,              (* non-fungible proof locks *)
    RV.Props.C24.C24_no_panic,                 (* Decimal / PreciseDecimal checked arithmetic *)
    RV.Props.C26.C26_powi_never_panics,        (* checked_powi *)
    RV.Props.C27.C27_parse_no_panic,           (* Decimal::from_str *)
    RV.Props.C35.C35_no_panic,                 (* subintent structure validation *)
    RV.Props.C36.C36_static_no_panic,          (* static manifest validation *)
    RV.Props.C38.C38_take_no_panic,            (* static resource movement bounds *)
    RV.Props.C41.C41_no_panic,                 (* pool contribution / redemption arithmetic *)
    RV.Props.C49.C49_io_no_panic_bounded,      (* limits module counters (bounded) *)
    RV.Props.C49.C49_no_panic_except_known ).  (* limits module: no panic outside the known class *)

(* in the ledger model the only host panic of the resource layer is LiquidFungibleResource::put's
   expect("Overflow") (and the asserts of fee finalisation): every accepted operation list is, by
   definition of [run], panic-free; what is proved is that its conservation laws hold (C03) *)
Definition C11_resource_layer := RV.Props.C03.C03_step_conservation_fungible.

Print Assumptions C11_no_panic_collection.
Print Assumptions C11_resource_layer.
