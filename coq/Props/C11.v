(* C11 — No transaction can crash the engine: the pinned collection of the `*_no_panic` theorems
   proved for the modelled parts of the engine (each one states that the explicit Panic outcome of
   its model — every unwrap / expect / assert! / index / overflow of the modelled Rust function — is
   unreachable, or refutes it with a witness).  There is no single model for this property;
   panic-freedom of the unmodelled native code is explored by the harness c11 (every native
   function / method with boundary and arbitrary arguments under catch_unwind), not proved. *)
Require RV.Props.C02 RV.Props.C07 RV.Props.C10 RV.Props.C24 RV.Props.C26 RV.Props.C27 RV.Props.C35 RV.Props.C36 RV.Props.C38 RV.Props.C41 RV.Props.C49.
Require RV.Props.C03.

(* the list is pinned: removing or weakening one of these theorems breaks this file *)
Definition C11_no_panic_collection :=
  ( RV.Props.C02.C02_revert_no_panic,          (* Track::revert_non_force_write_changes: the three unwraps *)
    RV.Props.C07.C07_no_panic,                 (* transaction tracker ring arithmetic *)
    RV.Props.C10.C10_no_panic,                 (* proof locks: lock/unlock counters and amounts *)
    RV.Props.C10.C10_no_panic_other,
    RV.Props.C10.C10_nf_no_panic,              (* non-fungible proof locks *)
    RV.Props.C24.C24_no_panic,                 (* Decimal / PreciseDecimal checked arithmetic *)
    RV.Props.C26.C26_powi_never_panics,        (* checked_powi *)
    RV.Props.C27.C27_parse_no_panic,           (* Decimal::from_str *)
    RV.Props.C35.C35_no_panic,                 (* subintent structure validation *)
    RV.Props.C36.C36_static_no_panic,          (* static manifest validation *)
    RV.Props.C38.C38_take_no_panic,            (* static resource movement bounds *)
    RV.Props.C41.C41_no_panic,                 (* pool contribution / redemption arithmetic *)
    RV.Props.C49.C49_io_no_panic_bounded,      (* limits module counters (bounded) *)
    RV.Props.C49.C49_no_panic_except_known ).  (* limits module: no panic outside the known class *)

(* in the ledger model the only host panic of the resource layer is LiquidFungibleResource::put's
   expect("Overflow") (and the asserts of fee finalisation): every accepted operation list is, by
   definition of [run], panic-free; what is proved is that its conservation laws hold (C03) *)
Definition C11_resource_layer := RV.Props.C03.C03_step_conservation_fungible.

(* second pinned collection (build session 2): panic-freedom / totality theorems of the parts of
   the engine a transaction's argument payloads, addresses and keys pass through *)
Require RV.Props.C13 RV.Props.C15 RV.Props.C16 RV.Props.C21 RV.Props.C22 RV.Props.C28 RV.Props.C29 RV.Props.C31 RV.Props.C42.
Definition C11_no_panic_collection_2 :=
  ( RV.Props.C13.C13_no_underflow,             (* SubstateLocks: unlock of an open handle, counters *)
    RV.Props.C15.C15_encode_total_iff,         (* RocksDB key encoding: panics exactly on the stated class *)
    RV.Props.C16.C16_to_db_total,              (* SpreadPrefixKeyMapper::to_db_sort_key *)
    RV.Props.C21.C21_total,                    (* SBOR decoding of arbitrary bytes: an error or a value *)
    RV.Props.C21.C21_traverser_total,          (* SBOR traverser on arbitrary bytes *)
    RV.Props.C22.C22_streaming_total,          (* streaming payload validation against a schema *)
    RV.Props.C28.C28_parse_total_address,      (* Bech32 address parsing of arbitrary text *)
    RV.Props.C28.C28_parse_total_localid,      (* NonFungibleLocalId::from_str *)
    RV.Props.C29.C29_parse_total,              (* UtcDateTime::from_str (after fix 1f3edf7213) *)
    RV.Props.C31.C31_lex_total,                (* manifest lexer *)
    RV.Props.C31.C31_snippet_total,            (* diagnostic snippet rendering *)
    RV.Props.C31.C31_parse_total,              (* manifest parser *)
    RV.Props.C31.C31_id_validator_no_panic,    (* BasicManifestValidator *)
    RV.Props.C42.C42_index_update_never_panics ). (* consensus manager validator index update *)

Print Assumptions C11_no_panic_collection.
Print Assumptions C11_resource_layer.
Print Assumptions C11_no_panic_collection_2.
