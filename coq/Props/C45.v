(* C45 — WASM package validation enforces the sandbox rules. Property theorems only.

   Model: Model/C45_WasmRules.v — the decision pipeline of ScryptoV1WasmValidator::validate over a
   module summary, limits and host-import whitelist generated from the code (Gen/C45_wasm_limits.v).
   Vocabulary (Proof/C45_WasmRules.v):
     SandboxRules cfg ver s req mx :=
       s_wp_valid s = true                    wasmparser accepted the module (MVP + mutable-global + sign-ext)
       NoFloats s, NoStart s                  no f32/f64 type or operator; no start section
       OnlyWhitelistedImports ver s           every import: module "env", a *function*, name in the
                                              generated whitelist, min version <= ver, exact signature
       SingleBoundedExportedMemory cfg s mx   no imported memory; exactly one defined memory with
                                              initial <= limit, declared max (if any) <= limit, exported
                                              as "memory"; mx = declared max of the output (injected
                                              = limit when absent) and mx <= limit
       BoundedTables cfg s                    no imported table; at most one table, initial <= limit
       BoundedFunctions / BoundedLocals / BoundedBrTables / BoundedGlobals
       RequiredExportsPresent s req           every blueprint export is a function [i64] -> [i64]

   OUTSIDE the model (validated on every run by the harness oracle only; level "other"):
   totality on arbitrary bytes (depends on wasmparser, radix-wasm-instrument, wasmi, syn), the
   extraction of the summary from bytes, and the presence of the injected metering / stack limiter
   in the output module. *)
From Coq Require Import List NArith Bool.
Import ListNotations.
Require Import RV.Lib.Bytes RV.Gen.C45_wasm_limits RV.Model.C45_WasmRules RV.Proof.C45_WasmRules.
Open Scope N_scope.

(* every summary the pipeline lets through satisfies every sandbox rule — any configuration, any
   VM version, any module, any list of required exports *)
Theorem C45_accept_implies_rules : forall cfg ver s req mx,
  validate cfg ver s req = VPassed mx -> SandboxRules cfg ver s req mx.
Proof. exact accept_implies_rules. Qed.

(* the two unconditional rules, stated as rejections *)
Theorem C45_floats_rejected : forall cfg ver s req,
  s_uses_float s = true -> accepted (validate cfg ver s req) = false.
Proof. exact reject_if_float. Qed.
Theorem C45_start_rejected : forall cfg ver s req,
  s_has_start s = true -> accepted (validate cfg ver s req) = false.
Proof. exact reject_if_start. Qed.

(* a package can never import the metering function itself: "gas" is not in the whitelist the code
   implements, so the only env.gas import of an output module is the instrumenter's *)
Theorem C45_gas_import_reserved : forall cfg ver s req mx,
  validate cfg ver s req = VPassed mx ->
  forall i, In i (s_imports s) -> imp_name i <> c45_gas_function.
Proof. exact gas_import_reserved. Qed.

(* the limits the deployed validator uses are the generated ones, and every whitelist row is a
   signature i32^n -> {none, i32, i64} with n <= 8 at a known VM version *)
Theorem C45_whitelist_shape :
  forallb (fun row => match snd row with (np, res, minv) =>
             (np <=? 8) && (res <=? 2) && (minv <=? c45_version_latest) end) c45_host_imports = true
  /\ (0 <? N.of_nat (length c45_host_imports)) = true.
Proof. vm_compute. split; reflexivity. Qed.

(* no whitelisted name is accepted with more than one of the probed signatures (gen_c45 probes every
   *_FUNCTION_NAME constant with i32^n -> {none,i32,i64}, n <= 10): a host function whose signature
   check is skipped shows up here *)
Theorem C45_whitelist_unambiguous : c45_ambiguous_imports = [].
Proof. reflexivity. Qed.

(* THE PARAMETER LIMIT IS NOT ONE OF THE RULES OF THE STATEMENT (decision recorded here on the
   coordinator's request).  Read literally, the statement lists: no floating point, no start
   function, a single exported memory bounded by the limit, bounded tables, functions, locals and
   globals, only the permitted host imports, metering and stack limiting injected.  "Bounded
   functions" is the bound on the NUMBER of functions (like tables and globals in the same list) and
   is enforced (BoundedFunctions); parameter counts are not named.  In WebAssembly's own vocabulary
   parameters are the first locals of a function, so one may ask whether "bounded locals" covers them:
   it still holds, with a different constant — a module that slips through the gap below has at
   most 1000 parameters per function (wasmparser's hard limit MAX_WASM_FUNCTION_PARAMS, part of
   s_wp_valid) plus max_number_of_function_locals declared locals, so params + locals stay bounded;
   the code's own split is 32 parameters / 256 declared locals, and only the declared-locals bound is
   what the statement's word "locals" maps to in prepare.rs (TooManyFunctionLocals).  Hence no
   accepted module is one the statement says must be rejected, C45_accept_implies_rules needs no
   `_except_known` exclusion, and the gap is reported as an observation for the maintainers, not
   as a known finding of C45:
   the parameter limit is enforced on function_map[0 .. num_local_functions), i.e. on the *imported*
   functions first, so with k imports the last k local functions are never checked (module shape:
   k >= 1 whitelisted imports, any local function among the last k with > 32 parameters).  What the
   check does give: *)
Theorem C45_params_checked_prefix_partial : forall cfg ver s req mx,
  validate cfg ver s req = VPassed mx -> ParamsCheckedPrefix cfg s.
Proof. exact params_checked_prefix. Qed.
(* ... and the gap: an accepted module whose local function 1 has 40 > 32 parameters *)
Definition c45_param_gap_witness : summary :=
  mkSum true false false
    [mkFT [VI32; VI32] []; mkFT [VI64] [VI64]; mkFT (repeat VI32 40) []]
    [mkImp c45_env_module [98;117;102;102;101;114;95;99;111;110;115;117;109;101] (IKFunc 0)]
    [1; 2] None (Some [mkLim 1 None]) 0
    (Some [mkExp c45_export_memory true EKMemory 0; mkExp [84;101;115;116;95;102] true EKFunc 1])
    [mkBody [] []; mkBody [] []].
Theorem C45_param_limit_gap :
  validate config_v1 c45_version_latest c45_param_gap_witness [[84;101;115;116;95;102]]
    = VPassed c45_max_memory_size_in_pages
  /\ exists ft, nth_N (s_types c45_param_gap_witness) 2 = Some ft /\ In 2 (s_funcs c45_param_gap_witness)
       /\ max_number_of_function_params config_v1 < N.of_nat (length (ft_params ft)).
Proof. split; [vm_compute; reflexivity|]. eexists. split; [vm_compute; reflexivity|].
  split; [right; left; reflexivity|vm_compute; reflexivity]. Qed.

(* non-vacuity: a module with two imports (one of them version-gated), a table, locals, a br_table
   and a required export is accepted at the latest version and refused at version 0 *)
Definition c45_example : summary :=
  mkSum true false false
    [mkFT [VI32; VI32] []; mkFT [VI32; VI32] [VI64]; mkFT [VI64] [VI64]]
    [mkImp c45_env_module [98;117;102;102;101;114;95;99;111;110;115;117;109;101] (IKFunc 0);
     mkImp c45_env_module
       [99;114;121;112;116;111;95;117;116;105;108;115;95;107;101;99;99;97;107;50;53;54;95;104;97;115;104]
       (IKFunc 1)]
    [2] (Some [mkLim 4 None]) (Some [mkLim 1 (Some 16)]) 3
    (Some [mkExp c45_export_memory true EKMemory 0; mkExp [84;101;115;116;95;102] true EKFunc 2])
    [mkBody [2; 3] [5; 256]].
Example C45_nonvacuous :
  validate config_v1 c45_version_latest c45_example [[84;101;115;116;95;102]] = VPassed 16
  /\ validate config_v1 0 c45_example [[84;101;115;116;95;102]] = VProtocolVersionMismatch
  /\ SandboxRules config_v1 c45_version_latest c45_example [[84;101;115;116;95;102]] 16.
Proof.
  split; [vm_compute; reflexivity|]. split; [vm_compute; reflexivity|].
  apply accept_implies_rules. vm_compute. reflexivity.
Qed.

Print Assumptions C45_accept_implies_rules.
Print Assumptions C45_floats_rejected.
Print Assumptions C45_start_rejected.
Print Assumptions C45_gas_import_reserved.
Print Assumptions C45_whitelist_shape.
Print Assumptions C45_whitelist_unambiguous.
Print Assumptions C45_params_checked_prefix_partial.
Print Assumptions C45_param_limit_gap.
Print Assumptions C45_nonvacuous.
