(* C27 — Decimal text parsing and printing are exact inverses.  Property theorems only.
   PARTIAL (level "other"): the executable model of FromStr/Display (Model/C27_DecText.v, bnum's
   chunked decimal integer parser included) and the independent grammar reading `parse_spec` are
   compared with the implementation — and with each other, and print-then-parse is evaluated — on
   every generated case inside Coq (Corr/C27_run.v).  Proved for all inputs: the decimal digit
   printer and the digit reader are inverse (the arithmetic core of print/parse), and the repaired
   defect.  NOT proved (missing): parse (print d) = Ok d for all d, and parse s = Ok v <-> grammar, for
   all strings — they need the equivalence of the 19-digit-chunk parser with plain positional
   evaluation on unbounded strings, which was not completed. *)
From Coq Require Import ZArith NArith List Bool Lia.
Import ListNotations.
Require Import RV.Lib.DecCore RV.Model.C27_DecText RV.Proof.C27_DecText.
Open Scope Z_scope.

(* for every non-negative integer: its printed digits are digits, non-empty, and read back to it *)
Theorem C27_digits_roundtrip_partial : forall n, 0 <= n ->
  forallb is_digit (digits n) = true /\ horner (digits n) 0 = Some n /\ digits n <> [].
Proof. exact digits_roundtrip. Qed.

(* the defect that was repaired (fix 28f2ef7a5e / 20a6252733): "1.-5" / "1.+5" were accepted *)
Theorem C27_fraction_sign_refuted_before_fix :
  dec_from_str_prefix DEC [49; 46; 45; 53]%N = Ok 950000000000000000 /\
  dec_from_str_prefix DEC [49; 46; 43; 53]%N = Ok 1050000000000000000 /\
  dec_from_str_prefix PDEC [49; 46; 45; 53]%N = Ok 950000000000000000000000000000000000 /\
  parse_spec DEC [49; 46; 45; 53]%N = None /\
  dec_from_str DEC [49; 46; 45; 53]%N = Err EInvalidDigit /\
  dec_from_str DEC [49; 46; 43; 53]%N = Err EInvalidDigit /\
  dec_from_str PDEC [49; 46; 45; 53]%N = Err EInvalidDigit.
Proof. exact fraction_sign_refuted. Qed.

(* non-vacuity: the model prints and parses back the limits, zero, and values in (-1, 0) *)
Example C27_nonvacuous :
  forallb (roundtrip_ok DEC) [fmin DEC; fmax DEC; 0; 1; -1; -500000000000000000; 1000000000000000000;
                              -1000000000000000001; 123456789012345678901234567890] = true /\
  forallb (roundtrip_ok PDEC) [fmin PDEC; fmax PDEC; 0; 1; -1; -500000000000000000; 10 ^ 36; - 10 ^ 36 - 1] = true.
Proof. exact roundtrip_samples. Qed.

Print Assumptions C27_digits_roundtrip_partial.
Print Assumptions C27_fraction_sign_refuted_before_fix.
