(* C27 — Decimal text parsing and printing are exact inverses.  Property theorems only.
   Strings are byte lists.  dec_from_str / dec_to_string are the line-by-line models of FromStr and
   Display of Decimal (DEC) and PreciseDecimal (PDEC) after the fixes 28f2ef7a5e / 20a6252733, with
   bnum's decimal integer parser modelled at its 19-digit chunk granularity.
   grammar_value f s = Some v  iff  s is  [+-]? digit+ ( '.' digit{1,SCALE} )?  and v is its exact
   value in subunits; parse_spec adds the range test. *)
From Coq Require Import ZArith NArith List Bool Lia.
Import ListNotations.
Require Import RV.Lib.DecCore RV.Lib.DecCoreFacts RV.Model.C27_DecText RV.Proof.C25_Round
  RV.Proof.C27_DecText RV.Proof.C27_Uint RV.Proof.C27_SInt RV.Proof.C27_FromStr RV.Proof.C27_Print.
Open Scope Z_scope.

Definition IsFmt (f : fmt) : Prop := f = DEC \/ f = PDEC.
Lemma IsFmt_ok f : IsFmt f -> fmt_ok f /\ 10 ^ 19 <= 2 ^ fbits f.
Proof. intros [->| ->]; (split; [first [apply fmt_ok_DEC|apply fmt_ok_PDEC]|vm_compute; discriminate]). Qed.

(* bnum's chunked parser (first chunk of len mod 19 digits, then 19-digit chunks with multiply /
   add overflow checks) is plain positional evaluation with one overflow test *)
Theorem C27_chunked_parser_is_positional : forall bits s, 10 ^ 19 <= 2 ^ bits ->
  s <> [] -> all_digits s = true ->
  parse_uint bits s = if dval s <? 2 ^ bits then Ok (dval s) else Err EOverflow.
Proof. intros; apply parse_uint_digits; assumption. Qed.

(* parsing: for every byte string, from_str returns Ok d exactly when the string is in the grammar with
   exact value d and d is representable; otherwise it returns an error (never a panic) *)
Theorem C27_parse_spec : forall f s, IsFmt f ->
  match parse_spec f s with
  | Some d => dec_from_str f s = Ok d
  | None => exists e, dec_from_str f s = Err e
  end.
Proof. intros f s Hf. destruct (IsFmt_ok f Hf). apply from_str_spec; assumption. Qed.

Theorem C27_grammar : forall f s d, IsFmt f ->
  (dec_from_str f s = Ok d <-> grammar_value f s = Some d /\ in_f f d = true).
Proof.
  intros f s d Hf. pose proof (C27_parse_spec f s Hf) as H. unfold parse_spec in *.
  destruct (grammar_value f s) as [v|].
  - destruct (in_f f v) eqn:Hv.
    + rewrite H. split; [intros E; inversion E; subst; auto|intros [E _]; inversion E; reflexivity].
    + destruct H as [e He]. rewrite He. split; [discriminate|intros [E Hd]; inversion E; subst; congruence].
  - destruct H as [e He]. rewrite He. split; [discriminate|intros [E _]; discriminate].
Qed.
Theorem C27_parse_exact : forall f s d, IsFmt f ->
  dec_from_str f s = Ok d -> grammar_value f s = Some d /\ InF f d.
Proof.
  intros f s d Hf H. apply C27_grammar in H; [|exact Hf]. destruct H as [Hg Hi]. split; [exact Hg|].
  apply in_ity_iff. exact Hi.
Qed.
Theorem C27_parse_no_panic : forall f s, IsFmt f -> dec_from_str f s <> Panic.
Proof.
  intros f s Hf. pose proof (C27_parse_spec f s Hf) as H. destruct (parse_spec f s).
  - rewrite H. discriminate.
  - destruct H as [e He]. rewrite He. discriminate.
Qed.

(* printing: the text printed for d is in the grammar and denotes exactly d ... *)
Theorem C27_print_denotes : forall f d, IsFmt f -> InF f d -> parse_spec f (dec_to_string f d) = Some d.
Proof. intros f d Hf. destruct (IsFmt_ok f Hf). apply print_spec; assumption. Qed.
(* ... hence printing then parsing gives back the same value, for every representable value *)
Theorem C27_parse_print : forall f d, IsFmt f -> InF f d -> dec_from_str f (dec_to_string f d) = Ok d.
Proof.
  intros f d Hf Hd. pose proof (C27_parse_spec f (dec_to_string f d) Hf) as H.
  rewrite (C27_print_denotes f d Hf Hd) in H. exact H.
Qed.

(* printing a non-negative integer in decimal and reading the digits back gives the integer *)
Theorem C27_digits_roundtrip : forall n, 0 <= n ->
  all_digits (digits n) = true /\ digits n <> [] /\ dval (digits n) = n.
Proof. intros n Hn. destruct (digits_spec n Hn) as (A & B & C & _). auto. Qed.

(* the defect that was repaired (fix 28f2ef7a5e / 20a6252733): "1.-5" / "1.+5" were accepted *)
Theorem C27_fraction_sign_refuted_before_fix :
  dec_from_str_prefix DEC [49; 46; 45; 53]%N = Ok 950000000000000000 /\
  dec_from_str_prefix DEC [49; 46; 43; 53]%N = Ok 1050000000000000000 /\
  dec_from_str_prefix PDEC [49; 46; 45; 53]%N = Ok 950000000000000000000000000000000000 /\
  parse_spec DEC [49; 46; 45; 53]%N = None /\
  dec_from_str DEC [49; 46; 45; 53]%N = Err EInvalidDigit /\
  dec_from_str DEC [49; 46; 43; 53]%N = Err EInvalidDigit /\
  dec_from_str PDEC [49; 46; 45; 53]%N = Err EInvalidDigit.
Proof. exact fraction_sign_refuted. Qed.

(* non-vacuity: the model prints and parses back the limits, zero, and values in (-1, 0) *)
Example C27_nonvacuous :
  forallb (roundtrip_ok DEC) [fmin DEC; fmax DEC; 0; 1; -1; -500000000000000000; 1000000000000000000;
                              -1000000000000000001; 123456789012345678901234567890] = true /\
  forallb (roundtrip_ok PDEC) [fmin PDEC; fmax PDEC; 0; 1; -1; -500000000000000000; 10 ^ 36; - 10 ^ 36 - 1] = true.
Proof. exact roundtrip_samples. Qed.

Print Assumptions C27_parse_spec.
Print Assumptions C27_grammar.
Print Assumptions C27_parse_print.
Print Assumptions C27_chunked_parser_is_positional.
