(* C43 — Non-fungible ids are never reused and data changes are restricted. Property theorems only.
   Model: Model/C43_NfData.v (the Data key-value collection of one non-fungible resource manager:
   entries are absent, Live data, or Tomb = emptied and locked by burn).
   Vocabulary (Proof/C43_NfData.v):
     ever m id            an entry substate of id exists in m (live or tombstone)
     minted_ids o         the ids carried by a mint operation
     is_ok out            the operation committed
     ruid_fresh m o       (hypothesis for RUID mints) the generated ids are new to the resource;
                          Runtime::generate_ruid is outside the model
     immutable_index m i  no declared-mutable field name maps to tuple index i *)
From Coq Require Import List NArith Bool.
Import ListNotations.
Require Import RV.Model.C43_NfData RV.Proof.C43_NfData.
Open Scope N_scope.

(* MINT ONCE. In every history (any mints, RUID mints, burns, updates from any starting store): a
   committed mint_non_fungible carries pairwise distinct ids, none of which existed in the starting
   store or was carried by any earlier committed mint (explicit or RUID) of the history — burned
   or not — and each of them exists (live or as a tombstone) at the end of the history. *)
Theorem C43_mint_once : forall m ops pre mb es ma out post,
  run m ops = pre ++ (mb, OMint es, ma, out) :: post -> is_ok out = true ->
  NoDup (map fst es) /\
  forall id, In id (map fst es) ->
    ~ ever m id /\
    (forall e, In e pre -> is_ok (snd e) = true -> ~ In id (minted_ids (snd (fst (fst e))))) /\
    ever (final m ops) id.
Proof. exact mint_once. Qed.

(* ... even after it has been burned: a burn leaves a tombstone, a tombstone stays a tombstone through
   every history, and every later mint (explicit or RUID) carrying that id fails *)
Theorem C43_burned_never_returns :
  (forall m ids id, is_ok (snd (step m (OBurn ids))) = true -> In id ids ->
     find id (r_store (fst (step m (OBurn ids)))) = Some Tomb) /\
  (forall m ops id, find id (r_store m) = Some Tomb ->
     find id (r_store (final m ops)) = Some Tomb /\
     forall e, In e (run m ops) -> In id (minted_ids (snd (fst (fst e)))) -> is_ok (snd e) = false).
Proof. split; [exact burn_makes_tomb|exact burned_never_returns]. Qed.

(* explicit ids cannot be minted on a RUID resource, generated ids not on the others; a committed RUID
   mint never overwrites a tombstone *)
Theorem C43_mint_kind : forall m es,
  (r_idtype m = TRUID -> is_ok (snd (step m (OMint es))) = false) /\
  (r_idtype m <> TRUID -> is_ok (snd (step m (OMintRuid es))) = false) /\
  (is_ok (snd (step m (OMintRuid es))) = true ->
     forall id, In id (map fst es) -> find id (r_store m) <> Some Tomb /\ fst id = TRUID).
Proof.
  intros m es. destruct (mint_wrong_kind_fails m es) as [A B]. split; [exact A|]. split; [exact B|].
  intros H id Hin. destruct (mint_ruid_ok m es H) as [_ K]. destruct (K id Hin) as (K1 & _ & K3). split; assumption.
Qed.

(* ID TYPE. From creation (with any initial supply) through every history, every id that exists in
   the store, live or burned, has the resource's id type. *)
Theorem C43_id_type : forall ty nf mu init m ops id,
  create ty nf mu init = Some m -> ever (final m ops) id -> fst id = ty.
Proof. exact id_type. Qed.

(* ONLY MUTABLE FIELDS. Whatever the operation, a non-fungible that is live before and after keeps
   the value of every field that is not declared mutable; an update naming a non-mutable (or
   unknown) field fails without effect; a committed update rewrites exactly the named field of
   exactly the addressed id. *)
Theorem C43_only_mutable_fields : forall m o id d d' i,
  ruid_fresh m o ->
  find id (r_store m) = Some (Live d) -> find id (r_store (fst (step m o))) = Some (Live d') ->
  immutable_index m i -> nth_error d' i = nth_error d i.
Proof. exact only_mutable_fields. Qed.
Theorem C43_update_spec : forall m id f v,
  (lookup_field f (r_mutable m) = None -> step m (OUpdate id f v) = (m, RErr EUnknownField)) /\
  (is_ok (snd (step m (OUpdate id f v))) = true ->
     exists i d d', lookup_field f (r_mutable m) = Some i /\ find id (r_store m) = Some (Live d) /\
       set_nth i v d = Some d' /\
       forall k, find k (r_store (fst (step m (OUpdate id f v)))) = if nfid_eqb k id then Some (Live d') else find k (r_store m)).
Proof. exact update_spec. Qed.

(* non-vacuity: Integer resource, fields b (index 1) and d (index 3) mutable: mint 1 and 2, burn 1,
   re-mint 1 refused (locked), re-mint 2 refused (exists), string id refused, update of c refused,
   update of b goes through and leaves a, c, d *)
Example C43_nonvacuous :
  match create TInteger 4 [(1, 1%nat); (3, 3%nat)] [((TInteger, 1), [10; 11; 12; 13])] with
  | None => False
  | Some m =>
      map (fun e => snd e)
        (run m [OMint [((TInteger, 2), [20; 21; 22; 23])]; OBurn [(TInteger, 1)];
                OMint [((TInteger, 1), [0; 0; 0; 0])]; OMint [((TInteger, 2), [0; 0; 0; 0])];
                OMint [((TString, 5), [0; 0; 0; 0])]; OUpdate (TInteger, 2) 2 99; OUpdate (TInteger, 2) 1 99;
                OUpdate (TInteger, 1) 1 5; OMintRuid [((TRUID, 0), [0; 0; 0; 0])]]) =
      [ROk tt; ROk tt; RErr ELocked; RErr EAlreadyExists; RErr EIdTypeMismatch; RErr EUnknownField; ROk tt;
       RErr ELocked; RErr EInvalidIdType]
  end.
Proof. vm_compute. reflexivity. Qed.

Print Assumptions C43_mint_once.
Print Assumptions C43_burned_never_returns.
Print Assumptions C43_mint_kind.
Print Assumptions C43_id_type.
Print Assumptions C43_only_mutable_fields.
Print Assumptions C43_update_spec.
