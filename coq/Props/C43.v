(* C43 — Non-fungible ids are never reused and data changes are restricted. Property theorems only.
   Model: Model/C43_NfData.v (the Data key-value collection of one non-fungible resource manager:
   entries are absent, Live data, or Tomb = emptied and locked by burn).
   Vocabulary (Proof/C43_NfData.v):
     ever m id            an entry substate of id exists in m (live or tombstone)
     minted_ids o         the ids carried by a mint operation
     is_ok out            the operation committed
     ruid_fresh m o       the ids of a RUID mint are new to the resource (a premise of
                          C43_only_mutable_fields; derived from the generator model in C43_ruid_fresh_derived)
     immutable_index m i  no declared-mutable field name maps to tuple index i *)
From Coq Require Import List NArith Bool.
Import ListNotations.
Require Import RV.Model.C43_NfData RV.Proof.C43_NfData.
Open Scope N_scope.

(* MINT ONCE. In every history (any mints, RUID mints, burns, updates from any starting store): a
   committed mint_non_fungible carries pairwise distinct ids, none of which existed in the starting
   store or was carried by any earlier committed mint (explicit or RUID) of the history — burned
   or not — and each of them exists (live or as a tombstone) at the end of the history. *)
Theorem C43_mint_once : forall m ops pre mb es ma out post,
  run m ops = pre ++ (mb, OMint es, ma, out) :: post -> is_ok out = true ->
  NoDup (map fst es) /\
  forall id, In id (map fst es) ->
    ~ ever m id /\
    (forall e, In e pre -> is_ok (snd e) = true -> ~ In id (minted_ids (snd (fst (fst e))))) /\
    ever (final m ops) id.
Proof. exact mint_once. Qed.

(* ... even after it has been burned: a burn leaves a tombstone, a tombstone stays a tombstone through
   every history, and every later mint (explicit or RUID) carrying that id fails *)
Theorem C43_burned_never_returns :
  (forall m ids id, is_ok (snd (step m (OBurn ids))) = true -> In id ids ->
     find id (r_store (fst (step m (OBurn ids)))) = Some Tomb) /\
  (forall m ops id, find id (r_store m) = Some Tomb ->
     find id (r_store (final m ops)) = Some Tomb /\
     forall e, In e (run m ops) -> In id (minted_ids (snd (fst (fst e)))) -> is_ok (snd e) = false).
Proof. split; [exact burn_makes_tomb|exact burned_never_returns]. Qed.

(* explicit ids cannot be minted on a RUID resource, generated ids not on the others; a committed RUID
   mint never overwrites a tombstone *)
Theorem C43_mint_kind : forall m es,
  (r_idtype m = TRUID -> is_ok (snd (step m (OMint es))) = false) /\
  (r_idtype m <> TRUID -> is_ok (snd (step m (OMintRuid es))) = false) /\
  (is_ok (snd (step m (OMintRuid es))) = true ->
     forall id, In id (map fst es) -> find id (r_store m) <> Some Tomb /\ fst id = TRUID).
Proof.
  intros m es. destruct (mint_wrong_kind_fails m es) as [A B]. split; [exact A|]. split; [exact B|].
  intros H id Hin. destruct (mint_ruid_ok m es H) as [_ K]. destruct (K id Hin) as (K1 & _ & K3). split; assumption.
Qed.

(* ID TYPE. From creation (with any initial supply) through every history, every id that exists in
   the store, live or burned, has the resource's id type. *)
Theorem C43_id_type : forall ty nf mu init m ops id,
  create ty nf mu init = Some m -> ever (final m ops) id -> fst id = ty.
Proof. exact id_type. Qed.

(* ONLY MUTABLE FIELDS. Whatever the operation, a non-fungible that is live before and after keeps
   the value of every field that is not declared mutable; an update naming a non-mutable (or
   unknown) field fails without effect; a committed update rewrites exactly the named field of
   exactly the addressed id. *)
Theorem C43_only_mutable_fields : forall m o id d d' i,
  ruid_fresh m o ->
  find id (r_store m) = Some (Live d) -> find id (r_store (fst (step m o))) = Some (Live d') ->
  immutable_index m i -> nth_error d' i = nth_error d i.
Proof. exact only_mutable_fields. Qed.
Theorem C43_update_spec : forall m id f v,
  (lookup_field f (r_mutable m) = None -> step m (OUpdate id f v) = (m, RErr EUnknownField)) /\
  (is_ok (snd (step m (OUpdate id f v))) = true ->
     exists i d d', lookup_field f (r_mutable m) = Some i /\ find id (r_store m) = Some (Live d) /\
       set_nth i v d = Some d' /\
       forall k, find k (r_store (fst (step m (OUpdate id f v)))) = if nfid_eqb k id then Some (Live d') else find k (r_store m)).
Proof. exact update_spec. Qed.

(* RUID resources. Runtime::generate_ruid computes hash(transaction hash ++ counter) with a
   per-transaction counter. With the hash abstracted as H, uniqueness of generated ids rests on two
   visible hypotheses: H is collision-free (Blake2b-256), and no (transaction hash, counter) pair is
   used twice in the history (transaction hashes are unique per committed transaction — C07 — and the
   counter only increases within a transaction): NoDup of all pairs. Then, on a RUID resource created
   empty, through every history of RUID mints, (failing) explicit mints, burns and updates:
   - the ids of every RUID mint are new to the resource when it is minted (ruid_fresh is DERIVED),
   - all ids ever generated are pairwise distinct,
   - hence C43_only_mutable_fields applies to every step without an opaque freshness assumption. *)
Theorem C43_ruid_fresh_derived : forall (H : N * N -> N), (forall a b, H a = H b -> a = b) ->
  forall m gs1 g gs2,
  r_idtype m = TRUID -> r_store m = [] ->
  NoDup (concat (map gpairs (gs1 ++ g :: gs2))) ->
  ruid_fresh (final m (map (to_op H) gs1)) (to_op H g).
Proof. exact ruid_fresh_derived. Qed.
Theorem C43_ruid_ids_distinct : forall (H : N * N -> N), (forall a b, H a = H b -> a = b) ->
  forall gs, NoDup (concat (map gpairs gs)) -> NoDup (map (genid H) (concat (map gpairs gs))).
Proof. exact ruid_ids_distinct. Qed.
Theorem C43_only_mutable_fields_ruid : forall (H : N * N -> N), (forall a b, H a = H b -> a = b) ->
  forall m gs1 g gs2 id d d' i,
  r_idtype m = TRUID -> r_store m = [] ->
  NoDup (concat (map gpairs (gs1 ++ g :: gs2))) ->
  let mk := final m (map (to_op H) gs1) in
  find id (r_store mk) = Some (Live d) -> find id (r_store (fst (step mk (to_op H g)))) = Some (Live d') ->
  immutable_index mk i -> nth_error d' i = nth_error d i.
Proof.
  intros H Hinj m gs1 g gs2 id d d' i Ht Hs Hnd mk Hb Ha Hi.
  eapply only_mutable_fields; eauto. eapply ruid_fresh_derived; eauto.
Qed.

(* ADMISSION. Every operation is preceded by the auth module's role check (minter / burner /
   non_fungible_data_updater; `auth` = the caller satisfied it) and by the feature flag fixed at creation
   (assert_mintable / assert_burnable). A committed operation was admitted, allowed by the flag, and
   is exactly the store operation `step` that all theorems above speak about — so C43_mint_once etc.
   hold for every history of admitted calls, whoever the callers are; a refused call changes nothing *)
Theorem C43_admission : forall cfg m auth o,
  (is_ok (snd (astep cfg m auth o)) = true ->
     auth = true /\ astep cfg m auth o = step m o /\
     (match o with OMint _ | OMintRuid _ => mintable cfg = true | OBurn _ => burnable cfg = true | _ => True end)) /\
  (is_ok (snd (astep cfg m auth o)) = false -> fst (astep cfg m auth o) = m).
Proof. exact astep_spec. Qed.

(* transactions with several operations (all or nothing), each with the auth decision for its own
   method: a committed one is the run of its store operations with every step admitted and committing,
   a failed one changes nothing — so all theorems above hold for histories of multi-operation
   transactions, e.g. mint + burn + re-mint of one id in ONE transaction *)
Theorem C43_transactions : forall cfg m ops,
  (is_ok (snd (tx_step cfg m ops)) = true ->
     fst (tx_step cfg m ops) = final m (map snd ops) /\
     (forall e, In e (run m (map snd ops)) -> is_ok (snd e) = true) /\ Forall (fun ao => fst ao = true) ops) /\
  (is_ok (snd (tx_step cfg m ops)) = false -> fst (tx_step cfg m ops) = m).
Proof. exact tx_step_spec. Qed.
Example C43_same_transaction_remint :
  let m := {| r_idtype := TInteger; r_nfields := 4; r_mutable := [(1, 1%nat); (3, 3%nat)]; r_store := [] |} in
  let cfg := {| mintable := true; burnable := true |} in
  tx_step cfg m [(true, OMint [((TInteger, 3), [1; 2; 3; 4])]); (true, OBurn [(TInteger, 3)]);
                 (true, OMint [((TInteger, 3), [1; 2; 3; 4])])] = (m, RErr ELocked)
  /\ tx_step cfg m [(true, OMint [((TInteger, 3), [1; 2; 3; 4])]); (false, OBurn [(TInteger, 3)])] = (m, RErr EUnauthorized)
  /\ tx_step {| mintable := false; burnable := true |} m [(true, OMint [])] = (m, RErr ENotMintable).
Proof. vm_compute. repeat split. Qed.

(* non-vacuity: Integer resource, fields b (index 1) and d (index 3) mutable: mint 1 and 2, burn 1,
   re-mint 1 refused (locked), re-mint 2 refused (exists), string id refused, update of c refused,
   update of b goes through and leaves a, c, d *)
Example C43_nonvacuous :
  match create TInteger 4 [(1, 1%nat); (3, 3%nat)] [((TInteger, 1), [10; 11; 12; 13])] with
  | None => False
  | Some m =>
      map (fun e => snd e)
        (run m [OMint [((TInteger, 2), [20; 21; 22; 23])]; OBurn [(TInteger, 1)];
                OMint [((TInteger, 1), [0; 0; 0; 0])]; OMint [((TInteger, 2), [0; 0; 0; 0])];
                OMint [((TString, 5), [0; 0; 0; 0])]; OUpdate (TInteger, 2) 2 99; OUpdate (TInteger, 2) 1 99;
                OUpdate (TInteger, 1) 1 5; OMintRuid [((TRUID, 0), [0; 0; 0; 0])]]) =
      [ROk tt; ROk tt; RErr ELocked; RErr EAlreadyExists; RErr EIdTypeMismatch; RErr EUnknownField; ROk tt;
       RErr ELocked; RErr EInvalidIdType]
  end.
Proof. vm_compute. reflexivity. Qed.

Print Assumptions C43_mint_once.
Print Assumptions C43_burned_never_returns.
Print Assumptions C43_mint_kind.
Print Assumptions C43_id_type.
Print Assumptions C43_only_mutable_fields.
Print Assumptions C43_update_spec.
Print Assumptions C43_admission.
Print Assumptions C43_transactions.
Print Assumptions C43_ruid_fresh_derived.
Print Assumptions C43_ruid_ids_distinct.
Print Assumptions C43_only_mutable_fields_ruid.
