(* C25 — Rounding follows the declared rounding modes.  Property theorems only.
   A value is its integer number of subunits; DEC = Decimal (I192, 18 places), PDEC = PreciseDecimal
   (I256, 36 places); checked_round is the line-by-line model of the Rust function; round_spec is the
   independent definition of the seven modes (Model/C25_Round.v). *)
From Coq Require Import ZArith List Bool Lia.
Import ListNotations.
Require Import RV.Lib.DecCore RV.Model.C25_Round RV.Proof.C25_Round.
Open Scope Z_scope.

(* For every representable value, every allowed number of decimal places and every mode, the code
   returns exactly the multiple of 10^(SCALE-dp) prescribed by the mode when that multiple is
   representable, and None otherwise; it never panics for an allowed number of places. *)
Theorem C25_round_spec : forall f x dp m,
  f = DEC \/ f = PDEC -> InF f x -> 0 <= dp <= scale f ->
  checked_round f x dp m =
    (let r := round_spec m (step f dp) x in if in_f f r then Ok r else Err ENone).
Proof.
  intros f x dp m [->| ->]; [apply round_spec_thm, fmt_ok_DEC|apply round_spec_thm, fmt_ok_PDEC].
Qed.

(* what round_spec means: a multiple of the step, less than one step away from x, equal to x when x
   is already a multiple, on the side named by the mode; the nearest modes return a nearest multiple
   and resolve exact ties toward zero / away from zero / to the even multiple *)
Theorem C25_spec_meaning : forall m d x, 0 < d ->
  let r := round_spec m d x in
  r mod d = 0 /\ Z.abs (r - x) < d /\ (x mod d = 0 -> r = x) /\ side_ok m d x r.
Proof. exact round_spec_sound. Qed.

(* values already at the requested precision are unchanged (never an overflow, in any mode) *)
Theorem C25_fixed_points : forall f x dp m,
  f = DEC \/ f = PDEC -> InF f x -> 0 <= dp <= scale f -> x mod step f dp = 0 ->
  checked_round f x dp m = Ok x.
Proof.
  intros f x dp m Hf Hx Hdp Hm. rewrite C25_round_spec by assumption. cbv zeta.
  assert (Hd : 0 < step f dp) by (unfold step; apply Z.pow_pos_nonneg; lia).
  destruct (round_spec_sound m (step f dp) x Hd) as (_ & _ & Hfix & _).
  rewrite (Hfix Hm). unfold in_f. replace (in_ity (fty f) x) with true; [reflexivity|].
  symmetry. apply RV.Lib.DecCoreFacts.in_ity_iff. exact Hx.
Qed.

(* the only panics are the documented assertions on the number of decimal places *)
Theorem C25_panic_iff_bad_places : forall f x dp m,
  f = DEC \/ f = PDEC -> InF f x ->
  (checked_round f x dp m = Panic <-> ~ (0 <= dp <= scale f)).
Proof.
  intros f x dp m Hf Hx. split.
  - intros HP Hdp. rewrite C25_round_spec in HP by assumption. cbv zeta in HP.
    destruct (in_f f _); discriminate.
  - intros Hbad. unfold checked_round.
    destruct (Z.leb_spec dp (scale f)); cbn [negb]; [|reflexivity].
    destruct (Z.leb_spec 0 dp); cbn [negb]; [lia|reflexivity].
Qed.

(* checked_floor / checked_ceiling / for_withdrawal are the corresponding instances *)
Theorem C25_floor_ceiling : forall f x, f = DEC \/ f = PDEC -> InF f x ->
  checked_floor f x = (let r := r_lo (one f) x in if in_f f r then Ok r else Err ENone) /\
  checked_ceiling f x = (let r := r_hi (one f) x in if in_f f r then Ok r else Err ENone).
Proof.
  intros f x Hf Hx. unfold checked_floor, checked_ceiling.
  assert (Hs : 0 <= 0 <= scale f) by (destruct Hf as [->| ->]; cbn; lia).
  rewrite !C25_round_spec by assumption. unfold step. rewrite Z.sub_0_r. split; reflexivity.
Qed.
Theorem C25_for_withdrawal : forall x dv m, InF DEC x -> 0 <= dv <= 18 ->
  for_withdrawal x dv WExact = Ok x /\
  for_withdrawal x dv (WRounded m) =
    (let r := round_spec m (10 ^ (18 - dv)) x in if in_f DEC r then Ok r else Err ENone).
Proof.
  intros x dv m Hx Hdv. split; [reflexivity|]. unfold for_withdrawal.
  rewrite C25_round_spec by (auto; cbn; lia). reflexivity.
Qed.

(* non-vacuity: ties at both signs in every nearest mode, an overflow at the top of the range, and a
   fixed point, all computed by the model *)
Example C25_nonvacuous :
  map (fun m => checked_round DEC 2500000000000000000 0 m) all_modes =
    [Ok 3000000000000000000; Ok 2000000000000000000; Ok 2000000000000000000; Ok 3000000000000000000;
     Ok 2000000000000000000; Ok 3000000000000000000; Ok 2000000000000000000]
  /\ map (fun m => checked_round DEC (-3500000000000000000) 0 m) all_modes =
    [Ok (-3000000000000000000); Ok (-4000000000000000000); Ok (-3000000000000000000); Ok (-4000000000000000000);
     Ok (-3000000000000000000); Ok (-4000000000000000000); Ok (-4000000000000000000)]
  /\ checked_round DEC (fmax DEC) 0 ToPositiveInfinity = Err ENone
  /\ checked_round PDEC (fmin PDEC) 35 ToNearestMidpointToEven = Err ENone
  /\ checked_round PDEC 120 34 AwayFromZero = Ok 200
  /\ InF DEC (fmax DEC) /\ InF PDEC (fmin PDEC).
Proof. repeat split; vm_compute; try reflexivity; intros; discriminate. Qed.

Print Assumptions C25_round_spec.
Print Assumptions C25_spec_meaning.
Print Assumptions C25_fixed_points.
Print Assumptions C25_panic_iff_bad_places.
Print Assumptions C25_floor_ceiling.
Print Assumptions C25_for_withdrawal.
