(* C15 — All substate store implementations are observationally equivalent.  Property theorems.

   Stores: the in-memory store (Model/C14_Store.v, functions mem_get etc.), and the RocksDB store model
   (Model/C15_Stores.v, functions rocks_get etc.) which is the code of RocksdbSubstateStore and, identically, of the
   substate column family of RocksDBWithMerkleTreeSubstateStore.  RocksDB itself is any `ops`
   satisfying `kv_spec ops R` (an ordered byte-keyed map: get/put/delete/delete_range [a,b)/ordered
   iteration from a key) — a visible hypothesis, satisfiable (C15_kv_assumption_satisfiable).
   Size limits of the statement: pk_ok (node key shorter than 2^32 bytes, else the encoder panics),
   updates_ok (sort keys are bytes and shorter than 2*MAX_SUBSTATE_KEY_SIZE, the reset bound).
   A result None of rocks_list / rocks_list_partition_keys is a panic of the decoder. *)
From Coq Require Import List Arith NArith Bool Lia.
Import ListNotations.
Require Import RV.Lib.Bytes RV.Lib.SortedMap RV.Model.C14_Store RV.Proof.C14_Store
               RV.Gen.C15_consts RV.Model.C15_Stores RV.Proof.C15_Stores.
Open Scope N_scope.

(* ---- the key layout encode_to_rocksdb_bytes / decode_from_rocksdb_bytes ---- *)
Theorem C15_decode_encode : forall pk sk, pk_ok pk -> rocks_decode (enc pk sk) = Some (pk, sk).
Proof. exact decode_encode. Qed.
Theorem C15_encode_inj : forall pk sk pk' sk', pk_ok pk -> pk_ok pk' ->
  enc pk sk = enc pk' sk' -> pk = pk' /\ sk = sk'.
Proof. exact enc_inj. Qed.
(* the encoder returns (its value being enc) exactly for node keys shorter than 2^32 bytes and panics
   otherwise; so do the read entry points *)
Theorem C15_encode_total_iff : forall pk sk,
  (pk_ok pk -> rocks_encode pk sk = Some (enc pk sk)) /\ (~ pk_ok pk -> rocks_encode pk sk = None).
Proof.
  intros pk sk. unfold rocks_encode, pk_ok. destruct (N.of_nat (length (fst pk)) <? 2 ^ 32) eqn:E.
  - split; [reflexivity|]. apply N.ltb_lt in E. intro C. contradiction.
  - split; [|reflexivity]. apply N.ltb_ge in E. intro C. lia.
Qed.
Theorem C15_reads_panic_iff : forall (S : Type) (ops : kv_ops S) s pk sk from,
  (pk_ok pk -> rocks_get_p ops s pk sk = Some (rocks_get ops s pk sk) /\ rocks_list_p ops s pk from = rocks_list ops s pk from) /\
  (~ pk_ok pk -> rocks_get_p ops s pk sk = None /\ rocks_list_p ops s pk from = None).
Proof.
  intros S ops s pk sk from. unfold rocks_get_p, rocks_list_p, rocks_get, rocks_list.
  split; intro O.
  - rewrite !(proj1 (C15_encode_total_iff pk _) O). split; reflexivity.
  - rewrite !(proj2 (C15_encode_total_iff pk _) O). split; reflexivity.
Qed.
(* order: inside a partition the byte order of encoded keys is the order of the sort keys; across
   partitions it does not depend on the sort keys at all — so the keys of a partition are contiguous *)
Theorem C15_order : forall pk pk' x y, pk_ok pk -> pk_ok pk' ->
  bcmp (enc pk x) (enc pk y) = bcmp x y /\
  (pk <> pk' -> forall x' y', bcmp (enc pk x) (enc pk' y) = bcmp (enc pk x') (enc pk' y') /\ bcmp (enc pk x) (enc pk' y) <> Eq).
Proof.
  intros pk pk' x y O O'. split; [apply enc_cmp_same|]. intros NE x' y'.
  destruct (enc_cmp_neq pk pk' x y O O' NE) as [E1 N]. destruct (enc_cmp_neq pk pk' x' y' O O' NE) as [E2 _].
  split; congruence.
Qed.
(* the partition reset deletes exactly the keys of that partition whose sort key is below the bound *)
Theorem C15_delete_range_covers : forall pk pk' sk', pk_ok pk -> pk_ok pk' ->
  in_range (enc pk []) (enc pk reset_upper) (enc pk' sk') = pk_eqb pk' pk && blt sk' reset_upper.
Proof. exact reset_range_covers. Qed.
Theorem C15_keys_within_limit_below_bound : forall sk, sk_ok sk -> blt sk reset_upper = true.
Proof. exact sk_ok_below_bound. Qed.
(* obligation on the constant read from the code: every sort key the engine can build (substate key
   of at most MAX_SUBSTATE_KEY_SIZE bytes + 2-byte sort prefix + 20-byte hash prefix) is within the limit *)
Theorem C15_bound_covers_engine_keys : (MAX_SUBSTATE_KEY_SIZE + 2 + 20 < 2 * MAX_SUBSTATE_KEY_SIZE)%nat.
Proof. vm_compute. repeat constructor. Qed.

(* ---- refinement: for every commit history within the size limits, every store built on an
        ordered map returns the reads, the listings from every cursor and the partition set of
        the in-memory store ---- *)
Theorem C15_refinement : forall (S : Type) (ops : kv_ops S) R, kv_spec ops R ->
  forall cs, Forall updates_ok cs ->
  let s := rocks_run ops cs in
  let db := apply_commits mem_new cs in
  (forall pk sk, pk_ok pk -> rocks_get ops s pk sk = mem_get db pk sk) /\
  (forall pk from, pk_ok pk -> rocks_list ops s pk from = Some (mem_list db pk from)) /\
  (exists l, rocks_list_partition_keys ops s = Some l /\ NoDup l /\
             forall pk, In pk l <-> In pk (mem_list_partition_keys db)).
Proof. exact stores_refinement. Qed.

(* all three stores: two independent RocksDB instances (plain store, Merkle store's substate column
   family) and the in-memory store agree on every observable *)
Theorem C15_three_stores : forall (S1 S2 : Type) (ops1 : kv_ops S1) (ops2 : kv_ops S2) R1 R2,
  kv_spec ops1 R1 -> kv_spec ops2 R2 -> forall cs, Forall updates_ok cs ->
  let db := apply_commits mem_new cs in
  (forall pk sk, pk_ok pk ->
     rocks_get ops1 (rocks_run ops1 cs) pk sk = mem_get db pk sk /\
     rocks_get ops2 (rocks_run ops2 cs) pk sk = mem_get db pk sk) /\
  (forall pk from, pk_ok pk ->
     rocks_list ops1 (rocks_run ops1 cs) pk from = Some (mem_list db pk from) /\
     rocks_list ops2 (rocks_run ops2 cs) pk from = Some (mem_list db pk from)) /\
  (exists l1 l2, rocks_list_partition_keys ops1 (rocks_run ops1 cs) = Some l1 /\
                 rocks_list_partition_keys ops2 (rocks_run ops2 cs) = Some l2 /\ NoDup l1 /\ NoDup l2 /\
                 forall pk, (In pk l1 <-> In pk (mem_list_partition_keys db)) /\ (In pk l2 <-> In pk (mem_list_partition_keys db))).
Proof.
  intros S1 S2 ops1 ops2 R1 R2 SP1 SP2 cs U. cbv zeta.
  destruct (stores_refinement S1 ops1 R1 SP1 cs U) as [G1 [L1 [l1 [E1 [N1 P1]]]]].
  destruct (stores_refinement S2 ops2 R2 SP2 cs U) as [G2 [L2 [l2 [E2 [N2 P2]]]]].
  split; [intros; split; [apply G1|apply G2]; assumption|].
  split; [intros; split; [apply L1|apply L2]; assumption|].
  exists l1, l2. repeat split; try assumption; try apply P1; try apply P2.
Qed.
(* a partition exists in a store iff it holds a substate *)
Theorem C15_partition_exists_iff_nonempty : forall cs pk, Forall updates_ok cs ->
  let db := apply_commits mem_new cs in
  In pk (mem_list_partition_keys db) <-> exists sk v, mem_get db pk sk = Some v.
Proof.
  intros cs pk U. cbv zeta. pose proof (apply_commits_wf cs mem_new db_wf_nil) as W.
  pose proof (db_wf_sorted _ W) as Sd. unfold mem_list_partition_keys. split.
  - intro H. apply in_map_iff in H. destruct H as [[pk0 p] [E H]]. cbn [fst] in E. subst pk0.
    apply (lookup_In _ pk_ltb_strict_total) in H; [|exact Sd]. destruct (db_wf_part _ _ _ W H) as [_ Np].
    destruct p as [|[sk v] p']; [contradiction|]. exists sk, v. unfold mem_get. rewrite H. cbn [lookup].
    rewrite (keqb_refl _ blt_strict_total). reflexivity.
  - intros [sk [v H]]. unfold mem_get in H. destruct (lookup pk_ltb pk (apply_commits mem_new cs)) as [p|] eqn:G; [|discriminate].
    apply (lookup_Some_In _ pk_ltb_strict_total) in G. apply in_map_iff. exists (pk, p). split; [reflexivity|exact G].
Qed.

(* the assumption about RocksDB is satisfiable: the sorted association list is an instance *)
Theorem C15_kv_assumption_satisfiable : kv_spec list_kv (fun s m => s = m).
Proof. exact list_kv_spec. Qed.

(* outside the size limits the stores do differ (why updates_ok is in the statement): a sort key equal
   to the reset bound survives a partition reset in the RocksDB stores but not in the in-memory store *)
Theorem C15_oversize_key_survives_reset :
  let cs := [ [([7], [(0, PDelta [(reset_upper, USet [1])])])]; [([7], [(0, PReset [])])] ] in
  rocks_get list_kv (rocks_run list_kv cs) ([7], 0) reset_upper = Some [1] /\
  mem_get (apply_commits mem_new cs) ([7], 0) reset_upper = None.
Proof. split; vm_compute; reflexivity. Qed.

(* non-vacuity: a history within the limits with prefix-related node keys, a reset of a non-empty
   partition and the deletion of a partition's last substate *)
Example C15_nonvacuous :
  let cs := [ [([1], [(0, PDelta [([5], USet [50]); ([5; 0], USet [51])]); (255, PDelta [([9], USet [90])])]);
               ([1; 0], [(0, PDelta [([255; 255], USet [77])])])];
              [([1], [(0, PReset [([6], [60])]); (255, PDelta [([9], UDelete)])])] ] in
  Forall updates_ok cs /\
  rocks_list list_kv (rocks_run list_kv cs) ([1], 0) None = Some [([6], [60])] /\
  mem_list (apply_commits mem_new cs) ([1], 0) None = [([6], [60])] /\
  rocks_list_partition_keys list_kv (rocks_run list_kv cs) = Some [([1], 0); ([1; 0], 0)] /\
  mem_list_partition_keys (apply_commits mem_new cs) = [([1], 0); ([1; 0], 0)].
Proof.
  cbv zeta. split.
  - unfold updates_ok, pk_ok, part_updates_ok, sk_ok. repeat constructor; cbn; lia.
  - repeat split; vm_compute; reflexivity.
Qed.

Print Assumptions C15_decode_encode.
Print Assumptions C15_encode_inj.
Print Assumptions C15_order.
Print Assumptions C15_delete_range_covers.
Print Assumptions C15_keys_within_limit_below_bound.
Print Assumptions C15_bound_covers_engine_keys.
Print Assumptions C15_refinement.
Print Assumptions C15_three_stores.
Print Assumptions C15_partition_exists_iff_nonempty.
Print Assumptions C15_kv_assumption_satisfiable.
Print Assumptions C15_oversize_key_survives_reset.
Print Assumptions C15_nonvacuous.
Print Assumptions C15_encode_total_iff.
Print Assumptions C15_reads_panic_iff.

(* ================================================================================================ *)
(* C15 <-> C17: the Merkle store end to end                                                          *)
(* ================================================================================================ *)
Require Import RV.Model.C17_Jmt RV.Model.C17_Smt RV.Proof.C17_Update RV.Proof.C17_Compose RV.Props.C17 RV.Proof.C15_C17_Link.

(* For every commit history within the size limits whose keys are bytes and come from prefix-free
   universes of non-empty keys (ok_commit on the translated history: the precondition of C17; the
   Merkle store panics without it — known finding merkle-prefix-keys), with
     s    the substate column family after the history (any ordered map satisfying kv_spec),
     db   the in-memory store after the same history,
     d17  the database of C17's specification after the translated history (nibble keys):
   (1,2) the column family returns the reads and listings of the in-memory store;
   (3)   put_at_next_version never panics over the history and the root recorded by the last commit is
         db_root of d17 (C17_root_is_commitment, C17_last_root);
   (4)   d17 is, pointwise, the content of the in-memory store.
   So the root the Merkle store records commits to exactly the substates its column family serves. *)
Theorem C15_merkle_store_end_to_end :
  forall (H : list N -> list N) fuel, (0 < fuel)%nat -> (forall x, H x <> ZERO_HASH) ->
  forall US UP UE, pfree US -> ~ US [] -> pfree UP -> ~ UP [] -> pfree UE -> ~ UE [] ->
  forall (S : Type) (ops : kv_ops S) R, kv_spec ops R ->
  forall cs, Forall updates_ok cs -> Forall commit_bytes_ok cs ->
    Forall (ok_commit fuel US UP UE) (map tr_commit cs) -> cs <> [] ->
  let s := rocks_run ops cs in
  let db := C14_Store.apply_commits mem_new cs in
  let d17 := C17_Smt.apply_commits [] (map tr_commit cs) in
  (forall pk sk, pk_ok pk -> rocks_get ops s pk sk = mem_get db pk sk) /\
  (forall pk from, pk_ok pk -> rocks_list ops s pk from = Some (mem_list db pk from)) /\
  (exists roots stf, run_db H fuel None (map tr_commit cs) = Ok (roots, stf) /\
                     last roots ZERO_HASH = db_root H fuel d17) /\
  (forall nk pn sk, bytes_ok nk = true -> pn < 256 -> bytes_ok sk = true ->
     get17 d17 nk pn sk = mem_get db (nk, pn) sk).
Proof.
  intros H fuel Hf HZ US UP UE PS S0 PP P0 PE E0 S ops R SP cs U B OK NE. cbv zeta.
  destruct (stores_refinement S ops R SP cs U) as [G [L _]].
  split; [exact G|]. split; [exact L|]. split.
  - destruct (C17_root_is_commitment H fuel Hf HZ US UP UE PS S0 PP P0 PE E0 (map tr_commit cs) OK) as [stf [E _]].
    exists (spec_roots H fuel [] (map tr_commit cs)), stf. split; [exact E|].
    apply C17_last_root. destruct cs; [contradiction|discriminate].
  - intros nk pn sk Onk Opn Osk. apply content_link; assumption.
Qed.
Print Assumptions C15_merkle_store_end_to_end.
