(* C18 — Pruning never removes nodes of the current state tree.  Property theorems only.

   What is proved (for every store, every list of store operations, unbounded sizes) concerns the
   explicit node store of tree_store.rs (Model/C18_Store.v): what record_stale_tree_part removes is
   exactly the named node resp. only nodes whose path extends the root path of the named subtree, so
   a node that a commit neither re-inserts nor names as stale (directly or as part of a stale
   subtree) survives the commit unchanged; with pruning disabled nothing is removed; nodes written
   by a tier update carry the new version.
   NOT proved in Coq (C18_reach_step / C18_current_tree_intact / C18_stale_dead_forever of the
   design): that the stale parts reported by the update algorithm are disjoint from the new tree.
   That half is established on every run by the harness oracles (walk from the current root after
   every commit with pruning on; stale parts unreachable from this and all later roots with pruning
   off) and by the model/implementation comparison of stale lists and store contents. *)
From Coq Require Import List NArith Bool.
Import ListNotations.
Require Import RV.Model.C17_Jmt RV.Model.C18_Store RV.Proof.C18_Store.
Open Scope N_scope.

Theorem C18_prune_subtree_local : forall p0 fuel queue s s',
  Forall (fun k => path_prefix p0 (snd k)) queue ->
  prune_subtree fuel queue s = Ok s' ->
  forall k, ~ path_prefix p0 (snd k) -> st_get k s' = st_get k s.
Proof. exact prune_subtree_local. Qed.

Theorem C18_untouched_nodes_survive : forall ops t t',
  apply_ops t ops = Ok t' ->
  forall k, (forall op, In op ops -> match op with
                                   | OpInsert v p _ => k <> (v, p)
                                   | OpStale part => ~ hits part k end) ->
  st_get k (ts_nodes t') = st_get k (ts_nodes t).
Proof. exact untouched_nodes_survive. Qed.

Theorem C18_no_pruning_keeps_everything : forall ops t t',
  ts_pruning t = false -> apply_ops t ops = Ok t' ->
  ts_pruning t' = false /\
  forall k n, st_get k (ts_nodes t) = Some n ->
              (forall v p n', In (OpInsert v p n') ops -> k <> (v, p)) -> st_get k (ts_nodes t') = Some n.
Proof. exact no_pruning_keeps_everything. Qed.

Theorem C18_keys_fresh_partial : forall A prefix ver (lg : log A) v p n,
  In (OpInsert v p n) (ops_of_log prefix ver lg) -> v = ver.
Proof. exact tier_inserts_fresh. Qed.

(* non-vacuity: pruning follows the stored child entries: the two-node subtree goes, the unrelated
   third node stays; pruning the leaf only keeps the other two *)
Example C18_nonvacuous :
  let s : store := [((1, []), SInternal [(2, 1, [], true)]); ((1, [2]), SLeaf [3] [] 1); ((1, [5; 15]), SNull)] in
  exists t', apply_ops (mkTStore s [] true) [OpStale (StaleSubtree 1 [])] = Ok t' /\
             map fst (ts_nodes t') = [(1, [5; 15])] /\
  exists t'', apply_ops (mkTStore s [] true) [OpStale (StaleSubtree 1 [2])] = Ok t'' /\
              map fst (ts_nodes t'') = [(1, []); (1, [5; 15])].
Proof. cbv zeta. eexists. split; [vm_compute; reflexivity|]. split; [reflexivity|]. eexists. split; vm_compute; reflexivity. Qed.

Print Assumptions C18_untouched_nodes_survive.
Print Assumptions C18_no_pruning_keeps_everything.
