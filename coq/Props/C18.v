(* C18 — Pruning never removes nodes of the current state tree.  Property theorems only.

   Model: Model/C17_Jmt.v (put_at_next_version producing the store operations of a commit in the
   order the code issues them: insert_node, record_stale_tree_part Node / Subtree) replayed on the
   explicit node store Model/C18_Store.v (immediate pruning: Node = remove that key, Subtree = walk
   over the stored nodes; or recording in stale_part_buffer).  `reachable fuel st` = the nodes a reader
   starting at the current root reaches through all three tiers.

   Full statements (three tiers, every history of DatabaseUpdates, any initial store, pruning on or
   off): C18_reach_step, C18_current_tree_intact, C18_stale_dead_forever.
   `kills op k`: operation op removes key k when pruning is on: a stale Node names exactly k; a stale
   Subtree (partition Reset) names a path that is a prefix of k's path (the walk over the stored
   nodes only removes such keys: C18_prune_subtree_local).  So "k in reachable st, killed by an
   operation of the commit" covers every node of the old tree below a stale subtree.
   Hypotheses (visible): keys of each tier from a prefix-free universe of non-empty keys, nibbles
   < 16, key lengths < fuel, entity / partition keys of one commit distinct (ok_commit); H never
   returns the 32-zero-byte placeholder (otherwise a non-empty tier would be treated as empty).
   Not a violation, stated here: Null roots of emptied lower tiers are inserted and never reported
   stale (unreachable garbage). *)
From Coq Require Import List NArith Bool.
Import ListNotations.
Require Import RV.Model.C17_Jmt RV.Model.C18_Store RV.Proof.C17_Base RV.Proof.C17_Update RV.Proof.C17_Tier
               RV.Proof.C17_Root RV.Proof.C17_Compose RV.Proof.C18_Store RV.Proof.C18_Reach RV.Proof.C18_Lift.
Require Import RV.Model.C17_Smt.
Open Scope N_scope.

Theorem C18_prune_subtree_local : forall p0 fuel queue s s',
  Forall (fun k => path_prefix p0 (snd k)) queue ->
  prune_subtree fuel queue s = Ok s' ->
  forall k, ~ path_prefix p0 (snd k) -> st_get k s' = st_get k s.
Proof. exact prune_subtree_local. Qed.

Theorem C18_untouched_nodes_survive : forall ops t t',
  apply_ops t ops = Ok t' ->
  forall k, (forall op, In op ops -> match op with
                                   | OpInsert v p _ => k <> (v, p)
                                   | OpStale part => ~ hits part k end) ->
  st_get k (ts_nodes t') = st_get k (ts_nodes t).
Proof. exact untouched_nodes_survive. Qed.

Theorem C18_no_pruning_keeps_everything : forall ops t t',
  ts_pruning t = false -> apply_ops t ops = Ok t' ->
  ts_pruning t' = false /\
  forall k n, st_get k (ts_nodes t) = Some n ->
              (forall v p n', In (OpInsert v p n') ops -> k <> (v, p)) -> st_get k (ts_nodes t') = Some n.
Proof. exact no_pruning_keeps_everything. Qed.

Theorem C18_keys_fresh_partial : forall A prefix ver (lg : log A) v p n,
  In (OpInsert v p n) (ops_of_log prefix ver lg) -> v = ver.
Proof. exact tier_inserts_fresh. Qed.


(* ================= the whole store: three tiers, every history ================= *)
(* one commit: every node the new root reaches was inserted by this commit (new version) or was
   reachable before and is killed by no operation of the commit; every operation is an insert with
   the new version or a stale part with an older version / a path; an inserted node is not killed by
   any later operation of the same commit *)
Theorem C18_reach_step : forall H fuel, (0 < fuel)%nat -> (forall x, H x <> ZERO_HASH) ->
  forall US UP UE, pfree US -> ~ US [] -> pfree UP -> ~ UP [] -> pfree UE -> ~ UE [] ->
  forall st d u, db_rel H fuel US UP UE st d -> ok_commit fuel US UP UE u ->
  vers_le (ver_of st) (reach_db fuel st) ->
  exists root st' ops, put_at_next_version H fuel st u = Ok (root, st', ops) /\
    db_rel H fuel US UP UE st' (apply_commit d u) /\ ver_of st' = ver_of st + 1 /\
    step_facts [] (ver_of st + 1) ops (reach_db fuel st) (reach_db fuel st').
Proof.
  intros H fuel Hf HZ US UP UE PS S0 PP P0 PE E0 st d u DR OK VR.
  exact (commit_facts H fuel Hf US UP UE PS S0 PP P0 PE E0 st d u HZ DR OK VR).
Qed.
Theorem C18_reach_db_is_reachable : forall fuel st k, In k (map fst (reachable fuel st)) <-> In k (reach_db fuel st).
Proof. exact reachable_keys. Qed.

(* after EVERY history, on any initial store, every node reachable from the current root is stored *)
Theorem C18_current_tree_intact : forall H fuel, (0 < fuel)%nat -> (forall x, H x <> ZERO_HASH) ->
  forall US UP UE, pfree US -> ~ US [] -> pfree UP -> ~ UP [] -> pfree UE -> ~ UE [] ->
  forall us ts, Forall (ok_commit fuel US UP UE) us ->
  exists stf tsf, run_db_store H fuel None ts us = Ok (stf, tsf) /\
    db_rel H fuel US UP UE stf (apply_commits [] us) /\
    forall e, In e (reachable fuel stf) -> st_get (fst e) (ts_nodes tsf) <> None.
Proof.
  intros H fuel Hf HZ US UP UE PS S0 PP P0 PE E0 us ts OK.
  exact (intact_from_empty H fuel Hf US UP UE PS S0 PP P0 PE E0 us ts HZ OK).
Qed.

(* every part a commit reports stale is unreachable from the root of that commit and of every later one *)
Theorem C18_stale_dead_forever : forall H fuel, (0 < fuel)%nat -> (forall x, H x <> ZERO_HASH) ->
  forall US UP UE, pfree US -> ~ US [] -> pfree UP -> ~ UP [] -> pfree UE -> ~ UE [] ->
  forall us1 u us2 ts,
  Forall (ok_commit fuel US UP UE) us1 -> ok_commit fuel US UP UE u -> Forall (ok_commit fuel US UP UE) us2 ->
  exists st ts1 root st1 ops ts2 stf tsf,
    run_db_store H fuel None ts us1 = Ok (st, ts1) /\
    put_at_next_version H fuel st u = Ok (root, st1, ops) /\ apply_ops ts1 ops = Ok ts2 /\
    run_db_store H fuel st1 ts2 us2 = Ok (stf, tsf) /\
    forall e op, In e (reachable fuel st) -> In op ops -> kills op (fst e) ->
                 ~ In (fst e) (map fst (reachable fuel stf)).
Proof.
  intros H fuel Hf HZ US UP UE PS S0 PP P0 PE E0 us1 u us2 ts O1 Ou O2.
  exact (stale_dead_from_empty H fuel Hf US UP UE PS S0 PP P0 PE E0 us1 u us2 ts HZ O1 Ou O2).
Qed.

(* run_db_store is put_at_next_version followed by the replay of its operations on the store *)
Theorem C18_run_db_store_unfold : forall H fuel st ts u r,
  run_db_store H fuel st ts (u :: r) =
  match put_at_next_version H fuel st u with
  | Ok (_, st', ops) => match apply_ops ts ops with
                        | Ok ts' => run_db_store H fuel st' ts' r | Panic => Panic | OutOfFuel => OutOfFuel end
  | Panic => Panic | OutOfFuel => OutOfFuel
  end.
Proof. reflexivity. Qed.

(* non-vacuity of the three-tier theorems: the history of C17_nonvacuous_db (two entities, a delete that
   collapses a tier, a partition Reset to empty, an empty delta) replayed on a pruning store: the run
   succeeds, every reachable node is stored, and the store holds the reachable nodes plus the
   leaked Null roots of the emptied tiers *)
Example C18_nonvacuous_db :
  let H := fun l : list N => 1 :: l in
  let us : list db_updates :=
      [[([1;2;3;4], [([0;6], Delta [([1;2], Some [30]); ([1;3], Some [31])])]);
        ([1;2;3;5], [([0;6], Delta [([1;2], Some [5])]); ([0;7], Delta [])])];
       [([1;2;3;4], [([0;6], Delta [([1;2], None); ([1;3], Some [32])])]);
        ([1;2;3;5], [([0;6], Reset [])])]] in
  exists stf tsf, run_db_store H 9 None (ts_new true) us = Ok (stf, tsf) /\
    forallb (fun e => match st_get (fst e) (ts_nodes tsf) with Some _ => true | None => false end) (reachable 9 stf) = true /\
    (length (reachable 9 stf), length (ts_nodes tsf)) = (3%nat, 6%nat).
Proof. cbv zeta. eexists. eexists. split; [vm_compute; reflexivity|]. split; vm_compute; reflexivity. Qed.

(* ---- one tier tree ---- *)
(* reach root = keys (version, path) of all nodes the root refers to; new_keys / l_stale = what the
   commit wrote (put_node) / reported stale (put_stale_node) *)
Theorem C18_reach_step_partial : forall H A fuel root ver ups U h t lg,
  (0 < fuel)%nat -> pfree U -> ~ U [] -> ups_ok A U fuel ups -> state_ok H A U fuel root ->
  tier_put H A fuel root ver ups = Ok (h, t, lg) ->
  (forall k, In k (reach A fuel (Some (ver, t))) ->
     In k (new_keys A ver lg) \/ (In k (reach A fuel root) /\ ~ In k (l_stale lg))) /\
  (forall k, In k (l_stale lg) -> In k (reach A fuel root)) /\
  (forall v0 t0, root = Some (v0, t0) -> In (v0, []) (l_stale lg)) /\
  (forall k, In k (new_keys A ver lg) -> fst k = ver).
Proof. exact tier_reach_step. Qed.

(* every history, store with immediate pruning: the current tree is intact and everything reported
   stale on the way (st), and everything dead before (D), is unreachable from the current root.
   Because the statement holds for every history h, "unreachable from every later root" follows by
   applying it to every extension of h. *)
Theorem C18_current_tree_intact_partial : forall H A fuel U h root v ts D,
  (0 < fuel)%nat -> pfree U -> ~ U [] -> Forall (ups_ok A U fuel) h -> state_ok H A U fuel root ->
  vers_le v (reach A fuel root) -> vers_le v D -> ts_pruning ts = true ->
  (forall k, In k (reach A fuel root) -> st_get k (ts_nodes ts) <> None) ->
  (forall k, In k D -> ~ In k (reach A fuel root)) ->
  exists rf vf tsf st, run_tier_store H A fuel root v ts h = Ok (rf, vf, tsf, st) /\
    (forall k, In k (reach A fuel rf) -> st_get k (ts_nodes tsf) <> None) /\
    (forall k, In k D \/ In k st -> ~ In k (reach A fuel rf)) /\
    vers_le vf (reach A fuel rf) /\ vers_le vf st.
Proof. exact tier_history_pruned. Qed.

Theorem C18_stale_dead_forever_partial : forall H A fuel root ver ups U h t lg (D : list skey) v0,
  (0 < fuel)%nat -> pfree U -> ~ U [] -> ups_ok A U fuel ups -> state_ok H A U fuel root ->
  tier_put H A fuel root ver ups = Ok (h, t, lg) ->
  vers_le v0 (reach A fuel root) -> vers_le v0 D -> v0 < ver ->
  (forall k, In k D -> ~ In k (reach A fuel root)) ->
  vers_le ver (reach A fuel (Some (ver, t))) /\
  vers_le v0 (l_stale lg) /\
  forall k, In k D \/ In k (l_stale lg) -> ~ In k (reach A fuel (Some (ver, t))).
Proof. exact tier_dead_step. Qed.

(* non-vacuity: pruning follows the stored child entries: the two-node subtree goes, the unrelated
   third node stays; pruning the leaf only keeps the other two *)
Example C18_nonvacuous :
  let s : store := [((1, []), SInternal [(2, 1, [], true)]); ((1, [2]), SLeaf [3] [] 1); ((1, [5; 15]), SNull)] in
  exists t', apply_ops (mkTStore s [] true) [OpStale (StaleSubtree 1 [])] = Ok t' /\
             map fst (ts_nodes t') = [(1, [5; 15])] /\
  exists t'', apply_ops (mkTStore s [] true) [OpStale (StaleSubtree 1 [2])] = Ok t'' /\
              map fst (ts_nodes t'') = [(1, []); (1, [5; 15])].
Proof. cbv zeta. eexists. split; [vm_compute; reflexivity|]. split; [reflexivity|]. eexists. split; vm_compute; reflexivity. Qed.

Print Assumptions C18_reach_step.
Print Assumptions C18_current_tree_intact.
Print Assumptions C18_stale_dead_forever.
Print Assumptions C18_reach_step_partial.
Print Assumptions C18_current_tree_intact_partial.
Print Assumptions C18_untouched_nodes_survive.
Print Assumptions C18_no_pruning_keeps_everything.
