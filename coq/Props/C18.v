(* C18 — Pruning never removes nodes of the current state tree.  Property theorems only.

   What is proved (for every store, every list of store operations, unbounded sizes) concerns the
   explicit node store of tree_store.rs (Model/C18_Store.v): what record_stale_tree_part removes is
   exactly the named node resp. only nodes whose path extends the root path of the named subtree, so
   a node that a commit neither re-inserts nor names as stale (directly or as part of a stale
   subtree) survives the commit unchanged; with pruning disabled nothing is removed; nodes written
   by a tier update carry the new version.
   Second part (Proof/C18_Reach.v): for ONE tier tree (the entity, a partition or a substate tier
   taken alone, node keys = version + local nibble path) and every batch / every history:
   C18_reach_step_partial, C18_current_tree_intact_partial, C18_stale_dead_forever_partial.
   Gap to the full statement: the lifting across tiers (nodes of a lower tier hang under the leaf of
   the upper tier through the payload version; a leaf that is moved keeps its lower tier) and the
   Subtree stale part of a partition Reset (pruned by a walk over the stored nodes).  That part is
   established on every run by the harness oracles (walk from the current root through all three
   tiers after every commit with pruning on; stale parts, subtrees expanded, unreachable from this
   and all later roots with pruning off) and by the model/implementation comparison of stale
   lists and store contents. *)
From Coq Require Import List NArith Bool.
Import ListNotations.
Require Import RV.Model.C17_Jmt RV.Model.C18_Store RV.Proof.C17_Base RV.Proof.C17_Update RV.Proof.C17_Tier
               RV.Proof.C17_Root RV.Proof.C18_Store RV.Proof.C18_Reach.
Open Scope N_scope.

Theorem C18_prune_subtree_local : forall p0 fuel queue s s',
  Forall (fun k => path_prefix p0 (snd k)) queue ->
  prune_subtree fuel queue s = Ok s' ->
  forall k, ~ path_prefix p0 (snd k) -> st_get k s' = st_get k s.
Proof. exact prune_subtree_local. Qed.

Theorem C18_untouched_nodes_survive : forall ops t t',
  apply_ops t ops = Ok t' ->
  forall k, (forall op, In op ops -> match op with
                                   | OpInsert v p _ => k <> (v, p)
                                   | OpStale part => ~ hits part k end) ->
  st_get k (ts_nodes t') = st_get k (ts_nodes t).
Proof. exact untouched_nodes_survive. Qed.

Theorem C18_no_pruning_keeps_everything : forall ops t t',
  ts_pruning t = false -> apply_ops t ops = Ok t' ->
  ts_pruning t' = false /\
  forall k n, st_get k (ts_nodes t) = Some n ->
              (forall v p n', In (OpInsert v p n') ops -> k <> (v, p)) -> st_get k (ts_nodes t') = Some n.
Proof. exact no_pruning_keeps_everything. Qed.

Theorem C18_keys_fresh_partial : forall A prefix ver (lg : log A) v p n,
  In (OpInsert v p n) (ops_of_log prefix ver lg) -> v = ver.
Proof. exact tier_inserts_fresh. Qed.


(* ---- one tier tree ---- *)
(* reach root = keys (version, path) of all nodes the root refers to; new_keys / l_stale = what the
   commit wrote (put_node) / reported stale (put_stale_node) *)
Theorem C18_reach_step_partial : forall H A fuel root ver ups U h t lg,
  (0 < fuel)%nat -> pfree U -> ~ U [] -> ups_ok A U fuel ups -> state_ok H A U fuel root ->
  tier_put H A fuel root ver ups = Ok (h, t, lg) ->
  (forall k, In k (reach A fuel (Some (ver, t))) ->
     In k (new_keys A ver lg) \/ (In k (reach A fuel root) /\ ~ In k (l_stale lg))) /\
  (forall k, In k (l_stale lg) -> In k (reach A fuel root)) /\
  (forall v0 t0, root = Some (v0, t0) -> In (v0, []) (l_stale lg)) /\
  (forall k, In k (new_keys A ver lg) -> fst k = ver).
Proof. exact tier_reach_step. Qed.

(* every history, store with immediate pruning: the current tree is intact and everything reported
   stale on the way (st), and everything dead before (D), is unreachable from the current root.
   Because the statement holds for every history h, "unreachable from every later root" follows by
   applying it to every extension of h. *)
Theorem C18_current_tree_intact_partial : forall H A fuel U h root v ts D,
  (0 < fuel)%nat -> pfree U -> ~ U [] -> Forall (ups_ok A U fuel) h -> state_ok H A U fuel root ->
  vers_le v (reach A fuel root) -> vers_le v D -> ts_pruning ts = true ->
  (forall k, In k (reach A fuel root) -> st_get k (ts_nodes ts) <> None) ->
  (forall k, In k D -> ~ In k (reach A fuel root)) ->
  exists rf vf tsf st, run_tier_store H A fuel root v ts h = Ok (rf, vf, tsf, st) /\
    (forall k, In k (reach A fuel rf) -> st_get k (ts_nodes tsf) <> None) /\
    (forall k, In k D \/ In k st -> ~ In k (reach A fuel rf)) /\
    vers_le vf (reach A fuel rf) /\ vers_le vf st.
Proof. exact tier_history_pruned. Qed.

Theorem C18_stale_dead_forever_partial : forall H A fuel root ver ups U h t lg (D : list skey) v0,
  (0 < fuel)%nat -> pfree U -> ~ U [] -> ups_ok A U fuel ups -> state_ok H A U fuel root ->
  tier_put H A fuel root ver ups = Ok (h, t, lg) ->
  vers_le v0 (reach A fuel root) -> vers_le v0 D -> v0 < ver ->
  (forall k, In k D -> ~ In k (reach A fuel root)) ->
  vers_le ver (reach A fuel (Some (ver, t))) /\
  vers_le v0 (l_stale lg) /\
  forall k, In k D \/ In k (l_stale lg) -> ~ In k (reach A fuel (Some (ver, t))).
Proof. exact tier_dead_step. Qed.

(* non-vacuity: pruning follows the stored child entries: the two-node subtree goes, the unrelated
   third node stays; pruning the leaf only keeps the other two *)
Example C18_nonvacuous :
  let s : store := [((1, []), SInternal [(2, 1, [], true)]); ((1, [2]), SLeaf [3] [] 1); ((1, [5; 15]), SNull)] in
  exists t', apply_ops (mkTStore s [] true) [OpStale (StaleSubtree 1 [])] = Ok t' /\
             map fst (ts_nodes t') = [(1, [5; 15])] /\
  exists t'', apply_ops (mkTStore s [] true) [OpStale (StaleSubtree 1 [2])] = Ok t'' /\
              map fst (ts_nodes t'') = [(1, []); (1, [5; 15])].
Proof. cbv zeta. eexists. split; [vm_compute; reflexivity|]. split; [reflexivity|]. eexists. split; vm_compute; reflexivity. Qed.

Print Assumptions C18_reach_step_partial.
Print Assumptions C18_current_tree_intact_partial.
Print Assumptions C18_untouched_nodes_survive.
Print Assumptions C18_no_pruning_keeps_everything.
