(* C36 — Static manifest validation matches the bucket/proof lifecycle. Property theorems only.
   Model/C36_ManifestIds.v: `validate` = StaticManifestInterpreter's id state machine as written,
   `rt_run false` = the id maps of the run-time processor (IntentProcessorObjects), in which a use of a
   bucket / proof / reservation / named address / blob that is not live fails with NF*.
   Proof/C36_Sim.v: the simulation relation R and `allowed`. *)
From Coq Require Import List NArith Bool String.
Import ListNotations.
Require Import RV.Model.C36_ManifestIds RV.Proof.C36_Sim RV.Proof.C36_Lock RV.Gen.C36_effects.
Open Scope N_scope.

(* forward simulation static -> run time, every ruleset, every manifest: on an accepted manifest the
   run-time id machine never takes an unknown / already-consumed PROOF or RESERVATION transition, and
   takes an unknown BUCKET / NAMED ADDRESS / BLOB transition only if the corresponding static check was
   switched off in the ruleset (never for the rulesets `all` and `cuttlefish`). *)
Theorem C36_runtime_simulation : forall rs m, validate rs m = Ok tt ->
  forall e, rt_run false m = RErr e ->
  match e with
  | NFProof _ | NFRes _ | LockedBucket _ => False
  | NFBucket _ => r_assert rs = false
  | NFAddr _ => r_dyn_addr rs = false
  | NFBlob _ => r_blob_refs rs = false
  end.
Proof. exact runtime_never_missing_node. Qed.

(* C36_static_sound. `rt_run true` is the lifecycle specification: ids are created sequentially; a
   bucket / proof / reservation can be used only while it is in the live set (created earlier, not yet
   consumed — a consumed id has left the set, so nothing is consumed twice); a named address only if
   allocated earlier; a blob only if registered; and a bucket cannot be consumed while a live proof was
   created from it (LockedBucket).  A manifest accepted with all checks on runs through this
   specification without any error, ends with no live bucket and no live reservation, a subintent
   ends with YIELD_TO_PARENT, and every YIELD_TO_CHILD names a declared child. *)
Theorem C36_static_sound : forall rs m, all_checks_lock rs -> validate rs m = Ok tt ->
  (exists f, rt_run true m = ROk f /\ rt_buckets f = [] /\ rt_res f = [] /\
             (m_subintent m = true -> ends_with_yield m)) /\
  Forall (child_ok m) (m_instrs m).
Proof. intros rs m Hc H. split; [exact (static_sound rs m Hc H) | exact (children_declared rs m H)]. Qed.

(* the proof-lock clause alone, for every ruleset that has validate_bucket_proof_lock on (all shipped
   rulesets): on an accepted manifest the specification with the lock clause takes exactly the
   transitions of the run-time id maps — no bucket is consumed while a proof created from it is live *)
Theorem C36_lock_clause : forall rs m, r_lock rs = true -> validate rs m = Ok tt ->
  rt_run true m = rt_run false m /\ forall b, rt_run true m <> RErr (LockedBucket b).
Proof. intros rs m Hl H. split; [exact (rt_run_lock_agree rs m Hl H) | exact (never_locked rs m Hl H)]. Qed.

(* the counter invariant behind it, and its consequence: the checked `proof_locks -= 1` of
   consume_proof never underflows — static validation never panics, for every ruleset and manifest *)
Theorem C36_static_no_panic : forall rs m, validate rs m <> Panic.
Proof. exact validate_no_panic. Qed.
Theorem C36_lock_counter_invariant : forall rs m s i, LI s ->
  match handle_instruction rs m s i with Ok s' => LI s' | Err _ => True | Panic => False end.
Proof. exact good_instruction. Qed.

(* the step-wise simulation itself (the invariant R relates the two machines' states) *)
Theorem C36_step_simulation : forall rs m s r i s', R (m_blobs m) s r -> handle_instruction rs m s i = Ok s' ->
  match rt_step false (m_blobs m) r i with ROk r' => R (m_blobs m) s' r' | RErr e => allowed rs e end.
Proof. exact sim_step. Qed.

(* generated table obligation: the id-level effect that ManifestInstruction::effect() reports for each
   of the 38 instruction kinds (regenerated from /repo on every run) equals what the run-time
   instruction does with the id maps (hand-transcribed from system/transaction/instructions.rs) *)
Theorem C36_effect_table_agrees : effect_table = rt_effect_table.
Proof. reflexivity. Qed.

(* non-vacuity: an accepted subintent manifest using every id kind, and three rejected misuses *)
Example C36_nonvacuous :
  let m := mkManifest true 0 1 [7]
    [ICreateBucket true; ICreateProofBucket 0; ICloneProof 0; IAllocate;
     IInvoke (KMethod (Some 0)) [AProof 1; AReservation 0; ABlob 7]; IDropMany true false;
     IAssert (AsNextCall true); IInvoke (KYieldToChild 0) [ABucket 0]; IInvoke KYieldToParent []] in
  all_checks_lock ruleset_all /\ validate ruleset_all m = Ok tt /\
  validate ruleset_all (mkManifest false 0 0 [] [ICreateBucket true; IConsumeBucket 0; IConsumeBucket 0])
    = Err (EBucketAlreadyUsed 0) /\
  validate ruleset_all (mkManifest false 0 0 [] [ICreateBucket true; ICreateProofBucket 0; IConsumeBucket 0])
    = Err (EBucketLocked 0) /\
  validate ruleset_all (mkManifest false 0 0 [] [ICreateBucket true]) = Err (EDanglingBucket 0).
Proof. cbv zeta. repeat split; vm_compute; reflexivity. Qed.

Print Assumptions C36_runtime_simulation.
Print Assumptions C36_static_sound.
Print Assumptions C36_lock_clause.
Print Assumptions C36_static_no_panic.
Print Assumptions C36_lock_counter_invariant.
Print Assumptions C36_step_simulation.
Print Assumptions C36_effect_table_agrees.
