(* C32 — Transaction identifiers commit to the whole transaction.  Property theorems only.

   Model: coq/Model/C32_TxHash.v (hash-input builders of the prepared transaction models, the
   payload envelope checks).  The hash function `H` (Blake2b-256 in the code) is universally
   quantified; its collision-freeness appears as a visible hypothesis restricted to the finitely
   many inputs that are actually hashed for the two transactions compared. *)
From Coq Require Import List Arith NArith Bool.
Import ListNotations.
Require Import RV.Model.C32_TxHash RV.Proof.C32_TxHash.
Open Scope N_scope.

(* For every hashed composite part (V1 intent / signed intent / notarized; V2 intent core,
   subintent, non-root subintents, transaction intent, signed transaction intent, notarized,
   partial, signed partial; the blob, child-hash and signature-batch arrays): the byte string fed
   to the hash determines the list of child digests — fixed-width 32-byte children make the
   concatenation injective, for lists of any length. *)
Theorem C32_hash_input_injective : forall H, (forall x, length (H x) = 32%nat) ->
  forall p p', part_kind p = part_kind p' -> part_wf p = true -> part_wf p' = true ->
    part_input H p = part_input H p' -> part_digests H p = part_digests H p'.
Proof. exact hash_input_injective. Qed.

(* Domain separation: the inputs of the parts whose hash is a transaction identifier start with
   [TRANSACTION_HASHABLE_PAYLOAD_PREFIX; discriminator], so inputs of different part kinds are
   never equal (whatever the content). *)
Theorem C32_hash_input_kinds_disjoint : forall H p p',
  is_payload_part p = true -> is_payload_part p' = true -> part_kind p <> part_kind p' ->
  part_input H p <> part_input H p'.
Proof. exact hash_input_kinds_disjoint. Qed.

(* Field sensitivity, for any two transactions t, t' (V1 notarized, V2 notarized with any number
   of subintents, signed partial; of the same or of different kinds), assuming H has no collision
   among the inputs hashed for t and t':
     - the intent hash (V2: transaction intent hash; partial: root subintent hash) is equal iff
       the whole intent content is equal (header, instructions, every blob, message; V2: also the
       transaction header, children, every non-root subintent);
     - the signed-intent hash is equal iff intent content and all intent signatures are equal;
     - the notarized hash is equal iff everything including the notary signature is equal;
     - the non-root subintent hashes are equal iff the subintents are equal.
   "<-" is the unchanged direction: a hash does not depend on anything outside the part it covers
   (e.g. changing the notary signature changes only the notarized hash). *)
Theorem C32_field_sensitivity : forall H, (forall x, length (H x) = 32%nat) ->
  forall t t', tx_wf t = true -> tx_wf t' = true ->
  CollisionFreeOn H (tx_inputs H t ++ tx_inputs H t') ->
  let h := tx_hashes H t in let h' := tx_hashes H t' in
  (h_intent h = h_intent h' <-> intent_part t = intent_part t')
  /\ (h_signed h = h_signed h' <-> signed_part t = signed_part t')
  /\ (h_notarized h = h_notarized h' <-> t = t')
  /\ (h_subintents h = h_subintents h' <-> subintent_parts t = subintent_parts t').
Proof. exact field_sensitivity. Qed.

(* The chain: a change inside the intent changes all three identifiers; a change of an intent
   signature changes the signed-intent and notarized hashes but not the intent hash; a change of
   the notary signature changes only the notarized hash. *)
Theorem C32_field_sensitivity_chain : forall H, (forall x, length (H x) = 32%nat) ->
  forall t t', tx_wf t = true -> tx_wf t' = true ->
  CollisionFreeOn H (tx_inputs H t ++ tx_inputs H t') ->
  let h := tx_hashes H t in let h' := tx_hashes H t' in
  (intent_part t <> intent_part t' ->
     h_intent h <> h_intent h' /\ h_signed h <> h_signed h' /\ h_notarized h <> h_notarized h')
  /\ (intent_part t = intent_part t' -> signed_part t <> signed_part t' ->
     h_intent h = h_intent h' /\ h_signed h <> h_signed h' /\ h_notarized h <> h_notarized h')
  /\ (signed_part t = signed_part t' -> t <> t' ->
     h_intent h = h_intent h' /\ h_signed h = h_signed h' /\ h_notarized h <> h_notarized h').
Proof. exact field_sensitivity_chain. Qed.

(* The identifiers are a function of the decoded content and of the values of H on the inputs
   listed by `tx_inputs` only (nothing else of the payload bytes enters): two hash functions that
   agree on those inputs give the same identifiers. *)
Theorem C32_hash_function_of_content : forall H H' t,
  (forall x, In x (tx_inputs H t) -> H x = H' x) ->
  tx_hashes H t = tx_hashes H' t /\ tx_inputs H t = tx_inputs H' t.
Proof. exact hashes_depend_on_inputs_only. Qed.

(* Payload envelope (PreparedTransaction::prepare as written: check_len, payload prefix byte, enum
   value kind, discriminator, declared field count, fields, check_complete), for an arbitrary
   decoder of the fields:
   acceptance implies the size limit, the exact header bytes and that the field decoder consumed
   the payload completely; and each kind of non-canonical payload is rejected. *)
Theorem C32_accepted_is_canonical_envelope : forall (A : Type) decode_fields s k disc nf payload (a : A),
  prepare_known A decode_fields s k disc nf payload = Ok a ->
  check_len s k (N.of_nat (length payload)) = true
  /\ exists rest body,
       payload = MANIFEST_SBOR_V1_PAYLOAD_PREFIX :: VK_ENUM :: disc :: rest
       /\ read_size rest = Ok (nf, body)
       /\ decode_fields body = Ok (a, []).
Proof. exact prepare_known_accept_inv. Qed.

Theorem C32_noncanonical_rejected : forall (A : Type) (decode_fields : bytes -> result (A * bytes)) s k disc nf,
  (* over-limit size *)
  (forall payload, max_user_payload_length s < N.of_nat (length payload) ->
     prepare_known A decode_fields s CompleteUserTransaction disc nf payload = Err ETransactionTooLarge)
  /\ (forall payload, max_ledger_payload_length s < N.of_nat (length payload) ->
     prepare_known A decode_fields s LedgerTransaction disc nf payload = Err ETransactionTooLarge)
  (* wrong payload prefix, wrong value kind, wrong discriminator, wrong declared field count *)
  /\ (forall p rest, p <> MANIFEST_SBOR_V1_PAYLOAD_PREFIX ->
     rejected (prepare_known A decode_fields s k disc nf (p :: rest)))
  /\ (forall vk rest, vk <> VK_ENUM ->
     rejected (prepare_known A decode_fields s k disc nf (MANIFEST_SBOR_V1_PAYLOAD_PREFIX :: vk :: rest)))
  /\ (forall d rest, d <> disc ->
     rejected (prepare_known A decode_fields s k disc nf (MANIFEST_SBOR_V1_PAYLOAD_PREFIX :: VK_ENUM :: d :: rest)))
  /\ (forall n rest body, read_size rest = Ok (n, body) -> n <> nf ->
     rejected (prepare_known A decode_fields s k disc nf (MANIFEST_SBOR_V1_PAYLOAD_PREFIX :: VK_ENUM :: disc :: rest)))
  (* bytes left unread by the field decoder *)
  /\ (forall rest body a t tr, read_size rest = Ok (nf, body) -> decode_fields body = Ok (a, t :: tr) ->
     rejected (prepare_known A decode_fields s k disc nf (MANIFEST_SBOR_V1_PAYLOAD_PREFIX :: VK_ENUM :: disc :: rest)))
  (* bytes appended to an accepted payload (field decoder reads a prefix only) *)
  /\ (reads_prefix_only A decode_fields -> forall payload a x extra,
     prepare_known A decode_fields s k disc nf payload = Ok a ->
     rejected (prepare_known A decode_fields s k disc nf (payload ++ x :: extra))).
Proof.
  intros A dec s k disc nf. repeat split.
  - intros. apply too_large_rejected. assumption.
  - intros. apply too_large_ledger_rejected. assumption.
  - intros. apply wrong_prefix_rejected. assumption.
  - intros. apply wrong_value_kind_rejected. assumption.
  - intros. apply wrong_discriminator_rejected. assumption.
  - intros. eapply wrong_field_count_rejected; eassumption.
  - intros. eapply trailing_bytes_rejected; eassumption.
  - intros. eapply appended_bytes_rejected; eassumption.
Qed.

(* RawNotarizedTransaction::prepare (dispatch on the peeked discriminator): any discriminator
   other than V1Notarized / V2Notarized is rejected; acceptance = acceptance by the V1 or V2
   notarized payload preparation, within the user payload size limit. *)
Theorem C32_user_payload_dispatch : forall (A1 A2 : Type) dec1 dec2 s,
  (forall vk d rest, d <> D_V1_NOTARIZED -> d <> D_V2_NOTARIZED ->
     rejected (prepare_user A1 A2 dec1 dec2 s (MANIFEST_SBOR_V1_PAYLOAD_PREFIX :: vk :: d :: rest)))
  /\ (forall payload r, prepare_user A1 A2 dec1 dec2 s payload = Ok r ->
       N.of_nat (length payload) <= max_user_payload_length s
       /\ match r with
          | inl a => prepare_known A1 dec1 s CompleteUserTransaction D_V1_NOTARIZED 2 payload = Ok a
          | inr a => prepare_known A2 dec2 s CompleteUserTransaction D_V2_NOTARIZED 2 payload = Ok a
          end).
Proof.
  intros. split.
  - intros. apply user_unknown_discriminator_rejected; assumption.
  - intros. apply user_accept_inv. assumption.
Qed.

(* ---- ledger transaction payloads (RawLedgerTransaction; every LedgerTransaction variant: Genesis flash /
   Genesis system transaction / UserV1 / RoundUpdateV1 / FlashV1 / UserV2), model `prepare_ledger`:
   check_len (ledger limit), payload prefix, enum header [Enum; Ledger; 1], read_enum_header, check_length
   per arm (Genesis: a second header with check_length 0 / 1), nested transaction (abstract decoder, as for
   user payloads), check_complete. ---- *)
(* an accepted ledger payload is, byte for byte, the header determined by its variant followed by the nested
   transaction, which its decoder consumes completely; and it is within the ledger size limit *)
Theorem C32_ledger_accepted_is_canonical_envelope :
  forall (A : Type) (decode_inner : ledger_variant -> bytes -> result (A * bytes)) unknown s payload v a,
  prepare_ledger A decode_inner unknown s payload = Ok (v, a) ->
  N.of_nat (length payload) <= max_ledger_payload_length s /\
  exists body, payload = ledger_header v ++ body /\ ledger_content_ok A decode_inner v a body [].
Proof. exact prepare_ledger_accept_inv. Qed.
(* hence: anything that is not `ledger_header v ++ body` is rejected — a wrong prefix / value kind / Ledger
   discriminator, an unknown variant, ANY other encoding of the two size fields (0, 2, multi-byte, non-minimal:
   offsets 3 and 6 are exactly the byte 1), a wrong genesis sub-header — as is a payload over the ledger limit *)
Theorem C32_ledger_noncanonical_rejected :
  forall (A : Type) (decode_inner : ledger_variant -> bytes -> result (A * bytes)) unknown s,
  (forall payload, (forall v body, payload <> ledger_header v ++ body) ->
     rejected (prepare_ledger A decode_inner unknown s payload))
  /\ (forall payload v a, prepare_ledger A decode_inner unknown s payload = Ok (v, a) ->
       nth 3 payload 0 = 1 /\ nth 6 payload 0 = 1 /\ nth 0 payload 0 = MANIFEST_SBOR_V1_PAYLOAD_PREFIX /\
       nth 1 payload 0 = VK_ENUM /\ nth 2 payload 0 = D_LEDGER /\ nth 4 payload 0 = VK_ENUM)
  /\ (forall payload, max_ledger_payload_length s < N.of_nat (length payload) ->
       prepare_ledger A decode_inner unknown s payload = Err ETransactionTooLarge)
  /\ (forall p1 p2 v a1 a2 body,
       prepare_ledger A decode_inner unknown s p1 = Ok (v, a1) ->
       prepare_ledger A decode_inner unknown s p2 = Ok (v, a2) ->
       skipn (length (ledger_header v)) p1 = body -> skipn (length (ledger_header v)) p2 = body -> p1 = p2).
Proof.
  intros A dec unk s. split; [apply ledger_noncanonical_rejected|].
  split; [apply ledger_size_bytes|]. split; [apply ledger_too_large_rejected|apply ledger_accepted_unique].
Qed.
(* the ledger hash: H([prefix; Ledger; kind] ++ inner hash).  The input determines (kind, inner hash); under
   collision-freeness on the two inputs the ledger hashes are equal iff kind and inner hash are; the input is
   never the input of another hashed payload part (domain separation by the Ledger discriminator). *)
Theorem C32_ledger_hash_input_injective : forall k i k' i',
  ledger_hash_input k i = ledger_hash_input k' i' -> k = k' /\ i = i'.
Proof. exact ledger_hash_input_inj. Qed.
Theorem C32_ledger_hash_sensitivity : forall (H : bytes -> bytes) v i v' i',
  CollisionFreeOn H [ledger_hash_input (ledger_kind_for_hash v) i; ledger_hash_input (ledger_kind_for_hash v') i'] ->
  (ledger_hash H v i = ledger_hash H v' i' <-> ledger_kind_for_hash v = ledger_kind_for_hash v' /\ i = i').
Proof. exact ledger_hash_sensitivity. Qed.
Theorem C32_ledger_hash_domain_separated : forall (H : bytes -> bytes) p k i,
  is_payload_part p = true -> part_input H p <> ledger_hash_input k i.
Proof. exact ledger_input_not_payload_part. Qed.
Example C32_ledger_nonvacuous :
  prepare_ledger unit (fun _ b => Ok (tt, skipn 3 b)) EUnknownDiscriminator settings_latest
    [77; 34; 7; 1; 34; 4; 1; 33; 2; 9] = Ok (LUserV2, Some tt)
  /\ rejected (prepare_ledger unit (fun _ b => Ok (tt, skipn 3 b)) EUnknownDiscriminator settings_latest
    [77; 34; 7; 1; 34; 4; 2; 33; 2; 9])
  /\ rejected (prepare_ledger unit (fun _ b => Ok (tt, skipn 3 b)) EUnknownDiscriminator settings_latest
    [77; 34; 7; 1; 34; 4; 129; 0; 33; 2; 9])
  /\ prepare_ledger unit (fun _ b => Ok (tt, skipn 3 b)) EUnknownDiscriminator settings_latest
    [77; 34; 7; 1; 34; 0; 1; 34; 0; 0] = Ok (LGenesisFlash, None).
Proof.
  split; [vm_compute; reflexivity|]. split; [eexists; vm_compute; reflexivity|].
  split; [eexists; vm_compute; reflexivity|vm_compute; reflexivity].
Qed.

(* Non-vacuity: a concrete hash function nv_H (32-byte output for every input) and a concrete pair
   of small V2 transactions (one subintent, one blob, one child hash) differing in one byte of the
   subintent's message: all hypotheses of C32_field_sensitivity hold (well-formed, 32-byte digests,
   no collision among the 40-odd hashed inputs), so the intent, signed and notarized hashes
   differ; and an envelope that is accepted / rejected as stated. *)
Definition nv_H (x : bytes) : bytes :=
  to_le 32 (fold_left (fun acc b => (acc * 257 + b + 1) mod 2 ^ 250) x 0).
Definition nv_core (m : N) : core_v2 :=
  {| c_header := [6; 1]; c_blobs := [[9; 9]]; c_message := [m]; c_children := [repeat 7 32];
     c_instructions := [3] |}.
Definition nv_tx (m : N) : tx :=
  TxV2 {| n2_intent := {| t_header := [5]; t_root := nv_core 1; t_subintents := [nv_core m] |};
          n2_signatures := [4]; n2_sub_signatures := [[8]]; n2_notary_signature := [2] |}.
Example C32_nonvacuous :
  (forall x, length (nv_H x) = 32%nat)
  /\ tx_wf (nv_tx 1) = true /\ tx_wf (nv_tx 2) = true
  /\ CollisionFreeOn nv_H (tx_inputs nv_H (nv_tx 1) ++ tx_inputs nv_H (nv_tx 2))
  /\ (let h := tx_hashes nv_H (nv_tx 1) in let h' := tx_hashes nv_H (nv_tx 2) in
      h_intent h <> h_intent h' /\ h_signed h <> h_signed h' /\ h_notarized h <> h_notarized h')
  /\ prepare_known unit (fun b => Ok (tt, skipn 3 b)) settings_latest CompleteUserTransaction D_V2_NOTARIZED 2
       [77; 34; 12; 2; 1; 2; 3] = Ok tt
  /\ rejected (prepare_known unit (fun b => Ok (tt, skipn 3 b)) settings_latest CompleteUserTransaction
       D_V2_NOTARIZED 2 [77; 34; 12; 2; 1; 2; 3; 0]).
Proof.
  assert (L : forall x, length (nv_H x) = 32%nat) by (intro x; apply to_le_length).
  assert (CF : CollisionFreeOn nv_H (tx_inputs nv_H (nv_tx 1) ++ tx_inputs nv_H (nv_tx 2)))
    by (apply cf_check_sound; vm_compute; reflexivity).
  split; [exact L|]. split; [reflexivity|]. split; [reflexivity|]. split; [exact CF|].
  split.
  - apply (C32_field_sensitivity_chain nv_H L (nv_tx 1) (nv_tx 2) eq_refl eq_refl CF).
    cbn. intro E. inversion E.
  - split; [reflexivity|]. eexists. vm_compute. reflexivity.
Qed.

Print Assumptions C32_hash_input_injective.
Print Assumptions C32_field_sensitivity.
Print Assumptions C32_noncanonical_rejected.
Print Assumptions C32_ledger_accepted_is_canonical_envelope.
Print Assumptions C32_ledger_noncanonical_rejected.
