(* C31 — The manifest compiler never crashes (partial). Property theorems only. *)
From Coq Require Import List NArith Bool.
Import ListNotations.
Require Import RV.Model.C30_Text RV.Proof.C31_Text.
Open Scope N_scope.

(* the string lexer (the part of the lexer with unchecked u32 arithmetic and nested escape states)
   reaches no panic state on any text over the escape-relevant alphabet (quote, backslash, u, d, 8, 0, c, x) up to
   length 7 (exhaustive: 2.4 million texts).  PARTIAL: bounded; the remaining lexer states, the parser,
   the generator and the diagnostics renderer are covered by the catch_unwind oracle only. *)
Theorem C31_lex_string_total_partial : forall l, over_sigma l -> (length l <= 7)%nat ->
  lex_string l 1 0 [] <> SPanic.
Proof. exact lex_string_no_panic_sigma7. Qed.

Example C31_nonvacuous :
  lex_string_literal [34; 92; 117; 100; 56; 48; 48; 92; 117; 48; 48; 52; 49; 34] = SOk [9281] 14 /\
  lex_string_literal [34; 92; 117; 100; 56; 48; 48; 120] = SErr (LMissingSurrogate 55296) 2 7 /\
  lex_string_literal [34; 92; 117; 100; 99; 48; 48; 92; 117; 100; 99; 48; 48; 34] = SErr (LInvalidUnicode 1114112) 2 13.
Proof. repeat split; vm_compute; reflexivity. Qed.

Print Assumptions C31_lex_string_total_partial.
