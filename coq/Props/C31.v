(* C31 — The manifest compiler never crashes (partial). Property theorems only.
   Model/C31_Lexer.v: the whole lexer (whitespace/comments, numbers with type suffix and parse_int,
   strings, identifiers, punctuation, the tokenize loop with fuel) over lists of code points. A Rust
   &str is a list of Unicode scalar values; the theorems hold for every list of numbers, so in
   particular for every valid UTF-8 text with any mix of LF / CRLF / CR and non-ASCII characters. *)
From Coq Require Import List NArith ZArith Bool.
Import ListNotations.
Require Import RV.Model.C30_Text RV.Model.C31_Lexer RV.Proof.C31_Text RV.Proof.C31_Lexer.
Open Scope N_scope.

(* the lexer is total: on every input it returns a token list or an error — the model's panic states
   (checked u32 arithmetic of the surrogate computation, the unreachable state of read_utf16_unit) are
   unreachable and the tokenize loop terminates (length+1 iterations always suffice, because every
   token consumes at least one character) *)
Theorem C31_lex_total : forall text, tokenize text <> LPanic /\ tokenize text <> LOutOfFuel.
Proof. exact lex_total. Qed.
Theorem C31_lex_string_total : forall l pos start acc, lex_string l pos start acc <> SPanic.
Proof. exact lex_string_no_panic. Qed.
(* determinism ("the same answer every time") is immediate for the model: tokenize is a function *)

(* kept from the first round: bounded exhaustive version, independent of the structural proof *)
Theorem C31_lex_string_total_sigma7 : forall l, over_sigma l -> (length l <= 7)%nat ->
  lex_string l 1 0 [] <> SPanic.
Proof. exact lex_string_no_panic_sigma7. Qed.

Example C31_nonvacuous :
  tokenize [35; 99; 13; 10; 45; 49; 50; 56; 105; 56; 32; 34; 233; 92; 110; 34; 61; 62; 116; 114; 117; 101; 59]
    = LOk [(TInt true 8 (Z.opp 128), 4, 10); (TString [233; 10], 11, 16); (TFatArrow, 16, 18); (TBool true, 18, 22); (TSemi, 22, 23)] /\
  tokenize [50; 53; 54; 117; 56] = LErr LInvalidInteger 0 5 /\
  tokenize [49; 105; 49; 50; 55] = LErr LInvalidIntegerType 1 5 /\
  tokenize [34; 92; 117; 100; 56; 48; 48; 120] = LErr (LMissingSurrogate 55296) 2 7 /\
  tokenize [233] = LErr (LUnexpectedChar 233 XDLQP) 0 1.
Proof. repeat split; vm_compute; reflexivity. Qed.

Print Assumptions C31_lex_total.
Print Assumptions C31_lex_string_total.
Print Assumptions C31_lex_string_total_sigma7.
