(* C31 — The manifest compiler never crashes. Property theorems only.
   Model/C31_Lexer.v: the whole lexer (whitespace/comments, numbers with type suffix and parse_int,
   strings, identifiers, punctuation, the tokenize loop with fuel) over lists of code points. A Rust
   &str is a list of Unicode scalar values; the theorems hold for every list of numbers, so in
   particular for every valid UTF-8 text with any mix of LF / CRLF / CR and non-ASCII characters. *)
From Coq Require Import String.
From Coq Require Import List NArith ZArith Bool.
Import ListNotations.
Require Import RV.Model.C30_Text RV.Model.C31_Lexer RV.Proof.C31_Text RV.Proof.C31_Lexer.
Require Import RV.Model.C31_Snippet RV.Proof.C31_Snippet RV.Proof.C31_Spans RV.Proof.C31_Diag.
Require Import RV.Model.C30_Value RV.Gen.C31_instructions RV.Model.C31_Parser RV.Proof.C31_Parser.
Require Import RV.Model.C31_IdValidator RV.Proof.C31_IdValidator.
Require Import RV.Gen.C31_generator_panic_sites RV.Proof.C31_Sites.
Open Scope N_scope.

(* the lexer is total: on every input it returns a token list or an error — the model's panic states
   (checked u32 arithmetic of the surrogate computation, the unreachable state of read_utf16_unit) are
   unreachable and the tokenize loop terminates (length+1 iterations always suffice, because every
   token consumes at least one character) *)
Theorem C31_lex_total : forall text, tokenize text <> LPanic /\ tokenize text <> LOutOfFuel.
Proof. exact lex_total. Qed.
Theorem C31_lex_string_total : forall l pos start acc, lex_string l pos start acc <> SPanic.
Proof. exact lex_string_no_panic. Qed.
(* determinism ("the same answer every time") is immediate for the model: tokenize is a function *)

(* kept from the first round: bounded exhaustive version, independent of the structural proof *)
Theorem C31_lex_string_total_sigma7 : forall l, over_sigma l -> (List.length l <= 7)%nat ->
  lex_string l 1 0 [] <> SPanic.
Proof. exact lex_string_no_panic_sigma7. Qed.

(* ---- spans and diagnostics ------------------------------------------------------------------------------ *)
(* every span the lexer produces is well formed: token spans are non-empty and inside the text, the error
   span has start <= end <= number of characters (character indices: on char boundaries by construction) *)
Theorem C31_lex_spans_wellformed : forall text,
  match tokenize text with
  | LOk ts => Forall (span_ok (ln text)) ts
  | LErr _ a b => a <= b /\ b <= ln text
  | _ => True
  end.
Proof. exact lex_spans_wellformed. Qed.
(* create_snippet as FIXED in /repo 22cafbbc61 (model: usize underflow and the renderer's range precondition
   are an explicit SnPanic): no panic for every text and every span with start <= end <= length whose line
   indices are those Position::advance maintains; bytes = s.len() >= number of chars *)
Theorem C31_snippet_total : forall text bytes s e,
  (s <= e)%nat -> (e <= List.length text)%nat -> lenN text <= bytes ->
  snippet true text bytes (N.of_nat s) (N.of_nat (line_of text s)) (N.of_nat e) (N.of_nat (line_of text e)) <> SnPanic.
Proof. exact snippet_total_fixed. Qed.
(* the pre-fix function (str::lines) panics on the 6-character text: double quote, abc, CR, LF (unterminated string, error
   span at the end of input on line index 1); the fixed one does not *)
Theorem C31_snippet_total_unfixed_refuted :
  let text := [34; 97; 98; 99; 13; 10] in
  line_of text 6 = 1%nat /\ snippet false text 6 6 1 6 1 = SnPanic /\ snippet true text 6 6 1 6 1 <> SnPanic.
Proof. exact snippet_unfixed_refuted. Qed.
(* lexer + diagnostics composed: rendering any lexer error of any text does not panic; same for any span
   from the start of a token to the end of a token (the shape of parser and generator error spans) *)
Theorem C31_lex_error_snippet_total : forall text bytes k a b, tokenize text = LErr k a b -> lenN text <= bytes ->
  snippet true text bytes a (line_idx text a) b (line_idx text b) <> SnPanic.
Proof. exact lex_error_snippet_total. Qed.
Theorem C31_token_span_snippet_total : forall text bytes ts t1 a1 b1 t2 a2 b2, tokenize text = LOk ts ->
  In (t1, a1, b1) ts -> In (t2, a2, b2) ts -> a1 <= b2 -> lenN text <= bytes ->
  snippet true text bytes a1 (line_idx text a1) b2 (line_idx text b2) <> SnPanic.
Proof. exact token_span_snippet_total. Qed.

(* ---- parser --------------------------------------------------------------------------------------------- *)
(* the parser model (whole manifests: instruction keyword table generated from the real parser, fixed values,
   variadic argument lists, the value layer with the depth limit) returns an AST or an error for every token
   list: the only abnormal outcome of the model, fuel exhaustion, never happens with fuel 2 * tokens + 3 *)
Theorem C31_parse_total : forall ts, parse_manifest ts <> POutOfFuel.
Proof. exact parse_total. Qed.
Theorem C31_parse_value_total : forall ts, parse_tokens ts <> POutOfFuel.
Proof. exact parse_value_total. Qed.
(* the index sites generics[0], generics[1] *)
Theorem C31_generics_length : forall f n ts ks rest, parse_generics f n ts = POk ks rest -> List.length ks = n.
Proof. exact generics_length. Qed.

(* ---- generator: id bookkeeping and the table of panic sites ------------------------------------------------ *)
(* BasicManifestValidator never reaches its two panic!("Illegal state") sites nor the underflow of
   *cnt -= 1, for every sequence of calls *)
Theorem C31_id_validator_no_panic : forall ops, run ops init <> VPanic.
Proof. exact id_validator_no_panic. Qed.
(* every syntactic panic site of the pipeline sources (generated by gen_c31_sites from /repo) is in the
   annotated list of Proof/C31_Sites.v, in order; a new site changes the generated table and breaks this *)
Theorem C31_panic_sites_accounted : map site_of accounted_sites = panic_sites.
Proof. exact sites_accounted. Qed.

Example C31_parse_nonvacuous :
  (* DROP_ALL_PROOFS;  and  CALL_METHOD with two arguments; one missing semicolon; unknown keyword *)
  parse_manifest [TIdent (s2l "DROP_ALL_PROOFS"); TSemi] = POk [(s2l "DROP_ALL_PROOFS", [])] [] /\
  (exists r, parse_manifest [TIdent (s2l "CALL_METHOD"); TString [97]; TString [98]; TInt false 8 1; TBool true; TSemi] = POk r []) /\
  parse_manifest [TIdent (s2l "DROP_ALL_PROOFS")] = PErr PEof /\
  parse_manifest [TIdent (s2l "FOO"); TSemi] = PErr PUnexpected /\
  parse_manifest [] = PErr PEof.
Proof. repeat split; try (vm_compute; reflexivity). eexists. vm_compute. reflexivity. Qed.
Example C31_snippet_nonvacuous :
  (* error on line 7 of a 9-line text: window starts at line 2 *)
  let text := [97;10; 98;10; 99;10; 100;10; 101;10; 102;10; 33;10; 104;10; 105;10] in
  snippet true text 18 12 6 13 6 = SnOk 2 [[98];[99];[100];[101];[102];[33];[104];[105]] 10 11.
Proof. vm_compute. reflexivity. Qed.
Example C31_id_validator_nonvacuous :
  (* bucket, proof of it, clone, drop bucket refused while locked, drop all, drop bucket *)
  (exists s, run [NewBucket; NewProof (Some 0); CloneProof 0; DropAllNamed; DropBucket 0] init = VOk s) /\
  run [NewBucket; NewProof (Some 0); DropBucket 0] init = VErr.
Proof. split; [eexists|]; vm_compute; reflexivity. Qed.

Example C31_nonvacuous :
  tokenize [35; 99; 13; 10; 45; 49; 50; 56; 105; 56; 32; 34; 233; 92; 110; 34; 61; 62; 116; 114; 117; 101; 59]
    = LOk [(TInt true 8 (Z.opp 128), 4, 10); (TString [233; 10], 11, 16); (TFatArrow, 16, 18); (TBool true, 18, 22); (TSemi, 22, 23)] /\
  tokenize [50; 53; 54; 117; 56] = LErr LInvalidInteger 0 5 /\
  tokenize [49; 105; 49; 50; 55] = LErr LInvalidIntegerType 1 5 /\
  tokenize [34; 92; 117; 100; 56; 48; 48; 120] = LErr (LMissingSurrogate 55296) 2 7 /\
  tokenize [233] = LErr (LUnexpectedChar 233 XDLQP) 0 1.
Proof. repeat split; vm_compute; reflexivity. Qed.

Print Assumptions C31_lex_total.
Print Assumptions C31_lex_string_total.
Print Assumptions C31_lex_string_total_sigma7.
Print Assumptions C31_lex_spans_wellformed.
Print Assumptions C31_snippet_total.
Print Assumptions C31_snippet_total_unfixed_refuted.
Print Assumptions C31_lex_error_snippet_total.
Print Assumptions C31_token_span_snippet_total.
Print Assumptions C31_parse_total.
Print Assumptions C31_parse_value_total.
Print Assumptions C31_generics_length.
Print Assumptions C31_id_validator_no_panic.
Print Assumptions C31_panic_sites_accounted.
