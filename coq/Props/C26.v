(* C26 — Roots and powers are correctly truncated.  Property theorems only.
   Values are integers of subunits; the root of degree n of the value x/ONE, expressed in subunits, is
   the n-th root of x*ONE^(n-1); TruncRoot n y r says r is that root truncated toward zero.
   Integer roots of bnum / num-bigint are modelled by the floor root (assumption, trusted base). *)
From Coq Require Import ZArith List Bool Lia.
Import ListNotations.
Require Import RV.Lib.DecCore RV.Lib.DecCoreFacts RV.Model.C25_Round RV.Model.C24_Dec RV.Model.C26_RootPow
  RV.Proof.C25_Round RV.Proof.C24_Dec RV.Proof.C26_RootPow RV.Proof.C26_Powi RV.Proof.C26_PowiMag
  RV.Proof.C26_PowiUnit RV.Proof.C26_PowiExact RV.Proof.C26_Valuation RV.Proof.C26_PowiRep RV.Proof.C26_PowiRep2.
Open Scope Z_scope.

Definition IsFmt (f : fmt) : Prop := f = DEC \/ f = PDEC.
Lemma IsFmt_ok f : IsFmt f -> fmt_ok f.
Proof. intros [->| ->]; [apply fmt_ok_DEC|apply fmt_ok_PDEC]. Qed.

(* the model's integer root function is the root truncated toward zero (proved for the bisection) *)
Theorem C26_troot_spec : forall n y, 1 <= n -> TruncRoot n y (troot n y).
Proof. intros n y Hn. unfold TruncRoot. apply troot_spec. exact Hn. Qed.

(* square root: fails exactly for negative values; otherwise r with r^2 <= x*ONE < (r+1)^2 *)
Theorem C26_sqrt : forall f x, IsFmt f -> InF f x ->
  dec_sqrt f x = (if x <? 0 then Err ENone else Ok (Z.sqrt (x * one f)))
  /\ (0 <= x -> let r := Z.sqrt (x * one f) in 0 <= r /\ r * r <= x * one f < (r + 1) * (r + 1)).
Proof.
  intros f x Hf Hx. split; [apply sqrt_thm; [apply IsFmt_ok, Hf|exact Hx]|].
  intros H0 r. pose proof (one_pos f (IsFmt_ok f Hf)).
  pose proof (Z.sqrt_spec (x * one f) ltac:(nia)) as Hs. cbv zeta in Hs. fold r in Hs.
  split; [apply Z.sqrt_nonneg|]. unfold Z.succ in Hs. exact Hs.
Qed.

(* cube root: never fails, truncated toward zero (also for negative values) *)
Theorem C26_cbrt : forall f x, IsFmt f -> InF f x ->
  dec_cbrt f x = Ok (troot 3 (x * one f ^ 2)) /\ TruncRoot 3 (x * one f ^ 2) (troot 3 (x * one f ^ 2)).
Proof. intros f x Hf Hx. split; [apply cbrt_thm; assumption|apply C26_troot_spec; lia]. Qed.

(* n-th root: fails exactly for an even root of a negative value or degree 0, never panics (the final
   unwrap cannot fail), otherwise the root truncated toward zero *)
Theorem C26_nth_root : forall f x n, IsFmt f -> InF f x -> 0 <= n ->
  dec_nth_root f x n =
    (if ((x <? 0) && Z.even n) || (n =? 0) then Err ENone else Ok (troot n (x * one f ^ (n - 1))))
  /\ (1 <= n -> TruncRoot n (x * one f ^ (n - 1)) (troot n (x * one f ^ (n - 1)))).
Proof.
  intros f x n Hf Hx Hn. split; [apply nth_root_thm; [apply IsFmt_ok, Hf|exact Hx|exact Hn]|].
  intros. apply C26_troot_spec. assumption.
Qed.

(* the correspondence shortcut (checking the implementation's root instead of searching) is sound *)
Theorem C26_root_hint_sound : forall h n y, 1 <= n -> root_hint h n y = troot n y.
Proof. exact root_hint_eq. Qed.

(* integer powers: the literal statement "exact whenever representable" is refuted at exp = i64::MIN
   for the bases 1 and -1 (exact result 1), and holds there for the neighbouring exponents *)
Theorem C26_powi_refuted :
  exists f x e, IsFmt f /\ InF f x /\ I64_MIN <= e <= I64_MAX /\ KnownPowi f x e /\
    dec_powi f x e = Err ENone /\ in_f f (one f) = true.
Proof.
  exists DEC, (one DEC), I64_MIN. repeat split; try (vm_compute; reflexivity); try (left; reflexivity);
    vm_compute; intros; discriminate.
Qed.
Theorem C26_powi_unit_bases_partial :
  dec_powi DEC (one DEC) I64_MIN = Err ENone /\ dec_powi DEC (- one DEC) I64_MIN = Err ENone /\
  dec_powi PDEC (one PDEC) I64_MIN = Err ENone /\ dec_powi PDEC (- one PDEC) I64_MIN = Err ENone /\
  dec_powi DEC (one DEC) (I64_MIN + 1) = Ok (one DEC) /\
  dec_powi DEC (- one DEC) I64_MAX = Ok (- one DEC).
Proof. exact powi_refuted. Qed.

(* ---------------------------------------------------------------------------------------------- *)
(* checked_powi, all bases and all i64 exponents.  In subunits the exact value of (x/ONE)^e is
   x^e / ONE^(e-1) for e >= 1 and ONE^(|e|+1) / x^|e| for e < 0. *)

(* never a panic (and the model never runs out of fuel): the result is None or a representable value *)
Theorem C26_powi_never_panics : forall f x exp, IsFmt f -> InF f x -> I64_MIN <= exp <= I64_MAX ->
  dec_powi f x exp = Err ENone \/ exists r, dec_powi f x exp = Ok r /\ InF f r.
Proof. intros f x exp Hf. apply powi_total, IsFmt_ok, Hf. Qed.

(* truncation only shrinks: a returned value never exceeds the exact power in magnitude *)
Theorem C26_powi_magnitude : forall f x exp r, IsFmt f -> InF f x -> I64_MIN <= exp <= I64_MAX ->
  dec_powi f x exp = Ok r ->
  (1 <= exp -> Z.abs r * one f ^ (exp - 1) <= Z.abs x ^ exp) /\
  (exp = 0 -> r = one f) /\
  (exp < 0 -> Z.abs r * Z.abs x ^ (- exp) <= one f ^ (- exp + 1)).
Proof. intros f x exp r Hf. apply powi_mag, IsFmt_ok, Hf. Qed.

(* bases 1 and -1: exact for every exponent other than i64::MIN *)
Theorem C26_powi_unit_bases : forall f exp, IsFmt f -> I64_MIN < exp <= I64_MAX ->
  dec_powi f (one f) exp = Ok (one f) /\
  dec_powi f (- one f) exp = Ok (if Z.rem exp 2 =? 0 then one f else - one f).
Proof. intros f exp Hf. apply powi_unit, IsFmt_ok, Hf. Qed.

(* the strongest statement proved outside the known class {exp = i64::MIN, base = +-1}: no panic,
   magnitude bound, and exactness on the unit bases (where the known class lives) *)
Theorem C26_powi_except_known : forall f x exp, IsFmt f -> InF f x -> I64_MIN <= exp <= I64_MAX ->
  ~ KnownPowi f x exp ->
  (dec_powi f x exp = Err ENone \/ exists r, dec_powi f x exp = Ok r /\ InF f r) /\
  (forall r, dec_powi f x exp = Ok r ->
     (1 <= exp -> Z.abs r * one f ^ (exp - 1) <= Z.abs x ^ exp) /\ (exp = 0 -> r = one f) /\
     (exp < 0 -> Z.abs r * Z.abs x ^ (- exp) <= one f ^ (- exp + 1))) /\
  (x = one f -> dec_powi f x exp = Ok (one f)) /\
  (x = - one f -> dec_powi f x exp = Ok (if Z.rem exp 2 =? 0 then one f else - one f)).
Proof.
  intros f x exp Hf Hx He Hk.
  split; [apply C26_powi_never_panics; assumption|].
  split; [intros r Hr; apply (C26_powi_magnitude f x exp r); assumption|].
  assert (Hne : x = one f \/ x = - one f -> I64_MIN < exp <= I64_MAX).
  { intros Hu. destruct (Z.eq_dec exp I64_MIN) as [E|E]; [|lia]. exfalso. apply Hk. split; assumption. }
  split; intros ->.
  - apply (C26_powi_unit_bases f exp Hf). apply Hne. left; reflexivity.
  - apply (C26_powi_unit_bases f exp Hf). apply Hne. right; reflexivity.
Qed.

(* THE CLAUSE "integer powers return the exact result whenever it is representable":
   for every base and every i64 exponent outside the known class, if the exact power q (ExactPow) is
   representable then checked_powi returns exactly q.  Proof: a representable exact result forces every
   intermediate of the square-and-multiply recursion to be exact (2-adic / 5-adic valuations of the
   base) and in range, and, for negative exponents, the reciprocal to be exact. *)
Lemma IsFmt_sq f : IsFmt f -> one f * one f < 2 ^ (fbits f - 1) /\ scale f < 2 ^ 63 /\ fbits f <= 2 ^ 63.
Proof. intros [->| ->]; repeat split; vm_compute; try reflexivity; intros; discriminate. Qed.

Theorem C26_powi_min_only_unit_bases : forall f x q, IsFmt f -> InF f x ->
  ExactPow f x I64_MIN q -> InF f q -> x = one f \/ x = - one f.
Proof.
  intros f x q Hf Hx HE Hq. destruct (IsFmt_sq f Hf) as (Hsq & Hs & Hb).
  destruct HE as [[He _]|[[He _]|(_ & Hx0 & HE)]]; [unfold I64_MIN in He; lia|unfold I64_MIN in He; lia|].
  apply (powi_huge_representable_only_unit f (IsFmt_ok f Hf) Hsq (2 ^ 63) x q); assumption.
Qed.

Theorem C26_powi_exact_when_representable : forall f x exp q, IsFmt f -> InF f x ->
  I64_MIN <= exp <= I64_MAX -> ~ KnownPowi f x exp ->
  ExactPow f x exp q -> InF f q -> dec_powi f x exp = Ok q.
Proof.
  intros f x exp q Hf Hx He Hk HE Hq. destruct (IsFmt_sq f Hf) as (Hsq & Hs & Hb).
  pose proof (IsFmt_ok f Hf) as Hok.
  destruct (Z.eq_dec exp I64_MIN) as [Emin|Emin].
  { exfalso. apply Hk. split; [exact Emin|]. subst exp. apply (C26_powi_min_only_unit_bases f x q); assumption. }
  destruct HE as [[He1 HE]|[[He0 HE]|(Hneg & Hx0 & HE)]].
  - apply (powi_exact_pos f Hok); try assumption. lia.
  - subst exp q. rewrite (powi_nonneg_step f Hok) by (try assumption; unfold I64_MAX; lia).
    change 66%nat with (S 65). rewrite ppow_go_S. reflexivity.
  - apply (powi_exact_neg f Hok Hsq); try assumption. lia.
Qed.

(* the whole power clause of the property outside the known class {exp = i64::MIN, base = +-1}:
   exact whenever representable; otherwise a returned value does not exceed the exact power in
   magnitude; never a panic *)
Theorem C26_powi_full_except_known : forall f x exp, IsFmt f -> InF f x -> I64_MIN <= exp <= I64_MAX ->
  ~ KnownPowi f x exp ->
  (forall q, ExactPow f x exp q -> InF f q -> dec_powi f x exp = Ok q) /\
  (forall r, dec_powi f x exp = Ok r ->
     (1 <= exp -> Z.abs r * one f ^ (exp - 1) <= Z.abs x ^ exp) /\ (exp = 0 -> r = one f) /\
     (exp < 0 -> Z.abs r * Z.abs x ^ (- exp) <= one f ^ (- exp + 1))) /\
  (dec_powi f x exp = Err ENone \/ exists r, dec_powi f x exp = Ok r /\ InF f r).
Proof.
  intros f x exp Hf Hx He Hk. split; [|split].
  - intros q HE Hq. apply C26_powi_exact_when_representable; assumption.
  - intros r Hr. apply (C26_powi_magnitude f x exp r); assumption.
  - apply C26_powi_never_panics; assumption.
Qed.

(* when no division along the square-and-multiply recursion truncates, a returned value is exact
   (the converse direction used above) *)
Theorem C26_powi_exact_if_no_truncation_partial : forall f x exp r, IsFmt f -> InF f x ->
  1 <= exp <= I64_MAX -> dec_powi f x exp = Ok r -> steps_exact f 66 x exp ->
  r * one f ^ (exp - 1) = x ^ exp.
Proof. intros f x exp r Hf. apply powi_exact_if_steps_exact, IsFmt_ok, Hf. Qed.

Example C26_nonvacuous :
  dec_sqrt DEC 2000000000000000000 = Ok 1414213562373095048 /\
  dec_cbrt DEC (-8000000000000000000) = Ok (-2000000000000000000) /\
  dec_cbrt DEC (-9000000000000000000) = Ok (-2080083823051904114) /\
  dec_nth_root PDEC (fmin PDEC) 5 = Ok (-142078963074383799967051797520924478099242332) /\
  dec_nth_root DEC (-1) 4 = Err ENone /\
  dec_powi DEC 1500000000000000000 3 = Ok 3375000000000000000 /\
  dec_powi DEC 3000000000000000000 (-2) = Ok 111111111111111110 /\
  dec_powi DEC (fmax DEC) 2 = Err ENone.
Proof. repeat split; vm_compute; reflexivity. Qed.

Print Assumptions C26_sqrt.
Print Assumptions C26_cbrt.
Print Assumptions C26_nth_root.
Print Assumptions C26_powi_refuted.
Print Assumptions C26_powi_never_panics.
Print Assumptions C26_powi_magnitude.
Print Assumptions C26_powi_except_known.
Print Assumptions C26_powi_exact_if_no_truncation_partial.
Print Assumptions C26_powi_exact_when_representable.
Print Assumptions C26_powi_min_only_unit_bases.
Print Assumptions C26_powi_full_except_known.
