(* C17 — The state root commits exactly to the current substates.  Property theorems only.
   H is an arbitrary hash function (no theorem depends on Blake2b); A is what a leaf of the tier
   points to (lower-tier root; unit for the substate tier).  `smt`/`smt_root` = the bit-by-bit
   specification (Model/C17_Smt.v); `tier_put`, `bia`, `bus`, `buswel`, `merkle_hash` = the model of
   jellyfish.rs / types.rs / tier_framework.rs (Model/C17_Jmt.v).

   First the theorems about ONE tier tree (every batch, every history, every batching, unbounded
   sizes), then the composition of the three tiers as put_at_next_version does it
   (C17_root_is_commitment, C17_batching) and C17_binding. *)
From Coq Require Import List NArith Bool Lia.
Import ListNotations.
Require Import RV.Model.C17_Jmt RV.Model.C17_Smt RV.Proof.C17_Base RV.Proof.C17_Lists
               RV.Proof.C17_Merkle RV.Proof.C17_Update RV.Proof.C17_Tier RV.Proof.C17_Root
               RV.Proof.C17_Assoc RV.Proof.C17_Compose RV.Proof.C17_Binding.
Open Scope N_scope.

(* InternalNode::merkle_hash (4 levels over cached child hashes, existence/leaf bitmaps) of a
   canonical tree = the binary sparse-Merkle definition over its leaves *)
Theorem C17_merkle_hash_is_smt : forall H A n (lh : list N -> list N -> list N) lhb t,
  (forall s v, kvalid s -> lh s v = lhb (bits_of_nibbles s) v) ->
  (forall k d, In (k, d) (leaves A n t) -> kvalid k) ->
  good H A n lh t ->
  node_hash H A lh t = smt H (4 * n) lhb (ebits A (leaves A n t)).
Proof. exact hash_is_smt. Qed.

(* batch_insert_at with every collapse rule: no panic, canonical shape kept (invariant
   C17_jmt_canonical = `good`), result = key-wise override of the old leaves by the batch *)
Theorem C17_jmt_canonical : forall H A fuel lh path ver nver t kvs U,
  good H A fuel lh t -> ksorted A kvs -> pfree U -> kvs_ok A U fuel kvs -> tree_ok A U fuel t ->
  (kvs = [] -> ~ U []) ->
  exists r lg, bia H A fuel lh path ver nver t kvs = Ok (r, lg) /\ res_good H A fuel lh r /\
    forall k, rget A fuel r k = upd_spec A (lookup A fuel t) kvs k.
Proof. exact bia_ok. Qed.

(* one commit on one tier (any batch of sets/deletes, duplicates allowed): the new root hash is the
   from-scratch commitment of the overridden map *)
Theorem C17_batch_update_refines : forall H A fuel root ver ups U S,
  (0 < fuel)%nat -> pfree U -> ~ U [] -> ups_ok A U fuel ups -> state_ok H A U fuel root ->
  NoDup (map fst S) ->
  (forall k v, In (k, v) S <-> exists d, apply_batch A (root_sem A fuel root) ups k = Some d /\ vh_of A d = v) ->
  exists h t lg, tier_put H A fuel root ver ups = Ok (h, t, lg) /\
    node_hash H A (lh_root H) t = smt_root H fuel S /\
    h = (if leqb (smt_root H fuel S) ZERO_HASH then None else Some (smt_root H fuel S)) /\
    state_ok H A U fuel (Some (ver, t)).
Proof. exact batch_update_refines. Qed.

(* every history of batches on a tier: the root is the commitment of the map the history denotes *)
Theorem C17_root_is_commitment_partial : forall H A fuel U h v S,
  (0 < fuel)%nat -> pfree U -> ~ U [] -> Forall (ups_ok A U fuel) h -> h <> [] ->
  NoDup (map fst S) ->
  (forall k x, In (k, x) S <-> exists d, apply_batches A (fun _ => None) h k = Some d /\ vh_of A d = x) ->
  exists vr t, run_tier H A fuel None v h = Ok (Some (vr, t)) /\ node_hash H A (lh_root H) t = smt_root H fuel S.
Proof. exact history_root_is_smt. Qed.

(* ... and EVERY batching of it: histories denoting the same map give the same root; merging two
   consecutive batches denotes the same map *)
Theorem C17_batching_independent : forall H A fuel U h1 h2 v1 v2,
  (0 < fuel)%nat -> pfree U -> ~ U [] -> Forall (ups_ok A U fuel) h1 -> Forall (ups_ok A U fuel) h2 ->
  (forall k, option_map (vh_of A) (apply_batches A (fun _ => None) h1 k) =
             option_map (vh_of A) (apply_batches A (fun _ => None) h2 k)) ->
  exists r1 r2, run_tier H A fuel None v1 h1 = Ok r1 /\ run_tier H A fuel None v2 h2 = Ok r2 /\
    match r1, r2 with
    | Some (_, t1), Some (_, t2) => node_hash H A (lh_root H) t1 = node_hash H A (lh_root H) t2
    | _, _ => True
    end.
Proof. exact batching_independent. Qed.
Theorem C17_merge_batches : forall A old u1 u2 k,
  apply_batch A old (u1 ++ u2) k = apply_batch A (apply_batch A old u1) u2 k.
Proof. exact apply_batch_app. Qed.

(* the empty state has the all-zero root (model and specification), a non-empty tier never has *)
Theorem C17_empty_root_zero : forall H f,
  put_at_next_version H (S f) None [] = Ok (ZERO_HASH, Some (1, Null), [OpInsert 1 [] SNull]) /\
  db_root H (S f) [] = ZERO_HASH.
Proof. intros H f. split; reflexivity. Qed.
Theorem C17_nonempty_root_nonzero : forall H A fuel t,
  (forall x, H x <> ZERO_HASH) -> good H A fuel (lh_root H) t -> node_hash H A (lh_root H) t <> ZERO_HASH.
Proof. exact nonempty_root_nonzero. Qed.

(* listing a canonical tree yields exactly its key -> data map, each key once *)
Theorem C17_listing : forall H A n lh t, good H A n lh t ->
  NoDup (map fst (leaves A n t)) /\ forall k d, In (k, d) (leaves A n t) <-> lookup A n t k = Some d.
Proof. intros H A n lh t G. split; [eapply leaves_nodup; exact G|eapply leaves_lookup; exact G]. Qed.

(* non-vacuity: a concrete prefix-free universe (2-nibble keys) and a three-batch history with
   insertions, an overwrite and deletions on which the hypotheses hold and the model runs *)
Example C17_nonvacuous :
  let H := fun l : list N => [N.of_nat (length l); hd 7 l] in
  let U := fun k : list N => length k = 2%nat in
  let h : list (list (kv unit)) :=
      [[([1;2], Some ([9], 1, tt)); ([1;3], Some ([8], 1, tt)); ([4;0], Some ([7], 1, tt))];
       [([1;2], None); ([1;3], Some ([6], 2, tt))];
       [([4;0], None); ([1;2], Some ([5], 3, tt)); ([1;2], Some ([4], 3, tt))]] in
  pfree U /\ ~ U [] /\ Forall (ups_ok unit U 5) h /\
  exists t, run_tier H unit 5 None 0 h = Ok (Some (3, t)) /\
            node_hash H unit (lh_root H) t = smt_root H 5 [([1;3], [6]); ([1;2], [4])].
Proof.
  cbv zeta. split; [|split; [|split]].
  - intros a b Ha Hb [c E]. subst b. rewrite app_length in Hb. destruct c; [rewrite app_nil_r; reflexivity|cbn in Hb; lia].
  - cbn. discriminate.
  - repeat (constructor; [intros x Hx; cbn in Hx;
      repeat (destruct Hx as [Hx|Hx]; [subst x; cbn; split; [reflexivity|split; [repeat constructor; lia|lia]]|]); contradiction|]).
    constructor.
  - eexists. split; vm_compute; reflexivity.
Qed.

(* ================= the three tiers: put_at_next_version ================= *)
(* Hypotheses (all visible): fuel > 0 bounds the key lengths (key_ok: length < fuel); H never returns
   the placeholder; the entity / partition / sort keys used come from prefix-free universes UE / UP /
   US of non-empty keys (ok_commit: per commit the entity keys, per entity the partition keys are
   distinct - they are IndexMap keys - and all keys are key_ok).
   For EVERY history of DatabaseUpdates (deltas, deletes, partition resets, empty updates) the model
   of put_at_next_version never panics and the root returned by every commit is db_root of the
   database obtained by applying the commits so far to the empty database. *)
Theorem C17_root_is_commitment : forall H fuel, (0 < fuel)%nat -> (forall x, H x <> ZERO_HASH) ->
  forall US UP UE, pfree US -> ~ US [] -> pfree UP -> ~ UP [] -> pfree UE -> ~ UE [] ->
  forall us, Forall (ok_commit fuel US UP UE) us ->
  exists stf, run_db H fuel None us = Ok (spec_roots H fuel [] us, stf) /\
              db_rel H fuel US UP UE stf (apply_commits [] us).
Proof.
  intros H fuel Hf HZ US UP UE PS S0 PP P0 PE E0 us OK.
  exact (history_ok H fuel Hf HZ US UP UE PS S0 PP P0 PE E0 us None [] eq_refl OK).
Qed.
Theorem C17_last_root : forall H fuel us d dflt, us <> [] ->
  last (spec_roots H fuel d us) dflt = db_root H fuel (apply_commits d us).
Proof. exact spec_roots_last. Qed.

(* ... and every batching: two histories denoting the same database end with the same root *)
Theorem C17_batching : forall H fuel, (0 < fuel)%nat -> (forall x, H x <> ZERO_HASH) ->
  forall US UP UE, pfree US -> ~ US [] -> pfree UP -> ~ UP [] -> pfree UE -> ~ UE [] ->
  forall us1 us2, Forall (ok_commit fuel US UP UE) us1 -> Forall (ok_commit fuel US UP UE) us2 ->
  us1 <> [] -> us2 <> [] -> apply_commits [] us1 = apply_commits [] us2 ->
  exists r1 st1 r2 st2, run_db H fuel None us1 = Ok (r1, st1) /\ run_db H fuel None us2 = Ok (r2, st2) /\
    last r1 ZERO_HASH = last r2 ZERO_HASH.
Proof.
  intros H fuel Hf HZ US UP UE PS S0 PP P0 PE E0.
  exact (batching_db H fuel Hf HZ US UP UE PS S0 PP P0 PE E0).
Qed.

(* run_db is put_at_next_version iterated (pinned here so that the statement above is about the model
   function the correspondence check evaluates) *)
Theorem C17_run_db_unfold : forall H fuel st u r,
  run_db H fuel st (u :: r) =
  match put_at_next_version H fuel st u with
  | Ok (h, st', _) => match run_db H fuel st' r with
                      | Ok (hs, stf) => Ok (h :: hs, stf) | Panic => Panic | OutOfFuel => OutOfFuel end
  | Panic => Panic | OutOfFuel => OutOfFuel
  end.
Proof. reflexivity. Qed.

(* fixed-length keys (database node keys, partition numbers) are such a universe *)
Theorem C17_fixed_length_universe : forall n, pfree (fun k => length k = n).
Proof. exact pfree_fixed_length. Qed.

(* binding: equal roots => equal databases.  H collision-free (injective), 32-byte outputs, never
   the placeholder; side condition (key_adm): keys are valid nibble strings of whole bytes whose
   byte length is not 32 - the leaf pre-image key||value_hash and the internal pre-image left||right
   are not domain separated in the code, so 32-byte keys are the one length where a leaf and an
   internal node could share a pre-image.  wf_d: keys distinct, prefix-free per map, admissible,
   shorter than n. *)
Theorem C17_binding : forall H,
  (forall x y, H x = H y -> x = y) -> (forall x, length (H x) = 32%nat) -> (forall x, H x <> ZERO_HASH) ->
  forall n d1 d2, wf_d n d1 -> wf_d n d2 ->
  db_root H n d1 = db_root H n d2 -> forall ek pk sk, get3 d1 ek pk sk = get3 d2 ek pk sk.
Proof. exact db_binding. Qed.
Theorem C17_binding_tier : forall H,
  (forall x y, H x = H y -> x = y) -> (forall x, length (H x) = 32%nat) -> (forall x, H x <> ZERO_HASH) ->
  forall n S1 S2, keys_wf n S1 -> keys_wf n S2 ->
  (forall k v, In (k, v) S1 -> length v = 32%nat) -> (forall k v, In (k, v) S2 -> length v = 32%nat) ->
  smt_root H n S1 = smt_root H n S2 -> forall k v, In (k, v) S1 <-> In (k, v) S2.
Proof. exact tier_binding. Qed.
(* the key mapper's keys: byte strings; every length except 32 bytes is admissible (node keys 50,
   partition numbers 1, field keys 1, map keys 20 + |key| i.e. all but 12-byte keys, sorted keys
   22 + |key|) *)
Theorem C17_key_adm_of_bytes : forall bs, Forall (fun b => b < 256) bs -> length bs <> 32%nat ->
  key_adm (nibbles_of_bytes bs).
Proof. exact key_adm_of_bytes. Qed.

Ltac key_tac := unfold key_ok; split; [reflexivity|split; [repeat constructor; lia|cbn; lia]].
Ltac pupd_tac := cbn [ok_pupd]; let y := fresh "y" in let Hy := fresh "Hy" in
  intros y Hy; cbn in Hy; repeat (destruct Hy as [<-|Hy]; [cbn [fst]; key_tac|]); destruct Hy.
Ltac eupd_tac := split; [cbn; repeat constructor; cbn; intuition discriminate|
  let z := fresh "z" in let Hz := fresh "Hz" in
  intros z Hz; cbn in Hz; repeat (destruct Hz as [<-|Hz]; [cbn [fst snd]; split; [key_tac|pupd_tac]|]); destruct Hz].
Ltac commit_tac := split; [cbn; repeat constructor; cbn; intuition discriminate|
  let w := fresh "w" in let Hw := fresh "Hw" in
  intros w Hw; cbn in Hw; repeat (destruct Hw as [<-|Hw]; [cbn [fst snd]; split; [key_tac|eupd_tac]|]); destruct Hw].

(* non-vacuity of the three-tier theorem: a history with two entities, a reset, a delete that empties
   an entity and an empty delta satisfies ok_commit and the model returns the specification roots *)
Example C17_nonvacuous_db :
  let H := fun l : list N => 1 :: l in
  let US := fun k : list N => length k = 2%nat in
  let UE := fun k : list N => length k = 4%nat in
  let us : list db_updates :=
      [[([1;2;3;4], [([0;6], Delta [([1;2], Some [30]); ([1;3], Some [31])])]);
        ([1;2;3;5], [([0;6], Delta [([1;2], Some [5])]); ([0;7], Delta [])])];
       [([1;2;3;4], [([0;6], Delta [([1;2], None); ([1;3], Some [32])])]);
        ([1;2;3;5], [([0;6], Reset [])])]] in
  (forall x, H x <> ZERO_HASH) /\ Forall (ok_commit 9 US US UE) us /\
  exists stf, run_db H 9 None us = Ok (spec_roots H 9 [] us, stf) /\
              apply_commits [] us = [([1;2;3;4], [([0;6], [([1;3], [32])])])].
Proof.
  cbv zeta. split; [intros x E; discriminate|]. split.
  - repeat (constructor; [commit_tac|]). constructor.
  - eexists. split; vm_compute; reflexivity.
Qed.

Print Assumptions C17_root_is_commitment.
Print Assumptions C17_batching.
Print Assumptions C17_binding.
Print Assumptions C17_merkle_hash_is_smt.
Print Assumptions C17_jmt_canonical.
Print Assumptions C17_batch_update_refines.
Print Assumptions C17_root_is_commitment_partial.
Print Assumptions C17_batching_independent.
Print Assumptions C17_empty_root_zero.
