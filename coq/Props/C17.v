(* C17 — The state root commits exactly to the current substates.  Property theorems only.
   H is an arbitrary hash function (no theorem depends on Blake2b); A is what a leaf of the tier
   points to (lower-tier root; unit for the substate tier).  `smt`/`smt_root` = the bit-by-bit
   specification (Model/C17_Smt.v); `tier_put`, `bia`, `bus`, `buswel`, `merkle_hash` = the model of
   jellyfish.rs / types.rs / tier_framework.rs (Model/C17_Jmt.v).

   Proved at full strength for ONE tier tree (every batch, every history, every batching, unbounded
   sizes).  NOT proved: the composition of the three tiers (entity -> partition -> substate:
   `put_at_next_version` = three nested uses of the proved tier with the lower root hash as the leaf
   value, `lookup` of the lower root version, Reset = start from the empty tree) and
   `C17_binding`; both are covered by the correspondence check only (see spec/C17.json). *)
From Coq Require Import List NArith Bool Lia.
Import ListNotations.
Require Import RV.Model.C17_Jmt RV.Model.C17_Smt RV.Proof.C17_Base RV.Proof.C17_Lists
               RV.Proof.C17_Merkle RV.Proof.C17_Update RV.Proof.C17_Tier RV.Proof.C17_Root.
Open Scope N_scope.

(* InternalNode::merkle_hash (4 levels over cached child hashes, existence/leaf bitmaps) of a
   canonical tree = the binary sparse-Merkle definition over its leaves *)
Theorem C17_merkle_hash_is_smt : forall H A n (lh : list N -> list N -> list N) lhb t,
  (forall s v, kvalid s -> lh s v = lhb (bits_of_nibbles s) v) ->
  (forall k d, In (k, d) (leaves A n t) -> kvalid k) ->
  good H A n lh t ->
  node_hash H A lh t = smt H (4 * n) lhb (ebits A (leaves A n t)).
Proof. exact hash_is_smt. Qed.

(* batch_insert_at with every collapse rule: no panic, canonical shape kept (invariant
   C17_jmt_canonical = `good`), result = key-wise override of the old leaves by the batch *)
Theorem C17_jmt_canonical : forall H A fuel lh path ver nver t kvs U,
  good H A fuel lh t -> ksorted A kvs -> pfree U -> kvs_ok A U fuel kvs -> tree_ok A U fuel t ->
  (kvs = [] -> ~ U []) ->
  exists r lg, bia H A fuel lh path ver nver t kvs = Ok (r, lg) /\ res_good H A fuel lh r /\
    forall k, rget A fuel r k = upd_spec A (lookup A fuel t) kvs k.
Proof. exact bia_ok. Qed.

(* one commit on one tier (any batch of sets/deletes, duplicates allowed): the new root hash is the
   from-scratch commitment of the overridden map *)
Theorem C17_batch_update_refines : forall H A fuel root ver ups U S,
  (0 < fuel)%nat -> pfree U -> ~ U [] -> ups_ok A U fuel ups -> state_ok H A U fuel root ->
  NoDup (map fst S) ->
  (forall k v, In (k, v) S <-> exists d, apply_batch A (root_sem A fuel root) ups k = Some d /\ vh_of A d = v) ->
  exists h t lg, tier_put H A fuel root ver ups = Ok (h, t, lg) /\
    node_hash H A (lh_root H) t = smt_root H fuel S /\
    h = (if leqb (smt_root H fuel S) ZERO_HASH then None else Some (smt_root H fuel S)) /\
    state_ok H A U fuel (Some (ver, t)).
Proof. exact batch_update_refines. Qed.

(* every history of batches on a tier: the root is the commitment of the map the history denotes *)
Theorem C17_root_is_commitment_partial : forall H A fuel U h v S,
  (0 < fuel)%nat -> pfree U -> ~ U [] -> Forall (ups_ok A U fuel) h -> h <> [] ->
  NoDup (map fst S) ->
  (forall k x, In (k, x) S <-> exists d, apply_batches A (fun _ => None) h k = Some d /\ vh_of A d = x) ->
  exists vr t, run_tier H A fuel None v h = Ok (Some (vr, t)) /\ node_hash H A (lh_root H) t = smt_root H fuel S.
Proof. exact history_root_is_smt. Qed.

(* ... and EVERY batching of it: histories denoting the same map give the same root; merging two
   consecutive batches denotes the same map *)
Theorem C17_batching_independent : forall H A fuel U h1 h2 v1 v2,
  (0 < fuel)%nat -> pfree U -> ~ U [] -> Forall (ups_ok A U fuel) h1 -> Forall (ups_ok A U fuel) h2 ->
  (forall k, option_map (vh_of A) (apply_batches A (fun _ => None) h1 k) =
             option_map (vh_of A) (apply_batches A (fun _ => None) h2 k)) ->
  exists r1 r2, run_tier H A fuel None v1 h1 = Ok r1 /\ run_tier H A fuel None v2 h2 = Ok r2 /\
    match r1, r2 with
    | Some (_, t1), Some (_, t2) => node_hash H A (lh_root H) t1 = node_hash H A (lh_root H) t2
    | _, _ => True
    end.
Proof. exact batching_independent. Qed.
Theorem C17_merge_batches : forall A old u1 u2 k,
  apply_batch A old (u1 ++ u2) k = apply_batch A (apply_batch A old u1) u2 k.
Proof. exact apply_batch_app. Qed.

(* the empty state has the all-zero root (model and specification), a non-empty tier never has *)
Theorem C17_empty_root_zero : forall H f,
  put_at_next_version H (S f) None [] = Ok (ZERO_HASH, Some (1, Null), [OpInsert 1 [] SNull]) /\
  db_root H (S f) [] = ZERO_HASH.
Proof. intros H f. split; reflexivity. Qed.
Theorem C17_nonempty_root_nonzero : forall H A fuel t,
  (forall x, H x <> ZERO_HASH) -> good H A fuel (lh_root H) t -> node_hash H A (lh_root H) t <> ZERO_HASH.
Proof. exact nonempty_root_nonzero. Qed.

(* listing a canonical tree yields exactly its key -> data map, each key once *)
Theorem C17_listing : forall H A n lh t, good H A n lh t ->
  NoDup (map fst (leaves A n t)) /\ forall k d, In (k, d) (leaves A n t) <-> lookup A n t k = Some d.
Proof. intros H A n lh t G. split; [eapply leaves_nodup; exact G|eapply leaves_lookup; exact G]. Qed.

(* non-vacuity: a concrete prefix-free universe (2-nibble keys) and a three-batch history with
   insertions, an overwrite and deletions on which the hypotheses hold and the model runs *)
Example C17_nonvacuous :
  let H := fun l : list N => [N.of_nat (length l); hd 7 l] in
  let U := fun k : list N => length k = 2%nat in
  let h : list (list (kv unit)) :=
      [[([1;2], Some ([9], 1, tt)); ([1;3], Some ([8], 1, tt)); ([4;0], Some ([7], 1, tt))];
       [([1;2], None); ([1;3], Some ([6], 2, tt))];
       [([4;0], None); ([1;2], Some ([5], 3, tt)); ([1;2], Some ([4], 3, tt))]] in
  pfree U /\ ~ U [] /\ Forall (ups_ok unit U 5) h /\
  exists t, run_tier H unit 5 None 0 h = Ok (Some (3, t)) /\
            node_hash H unit (lh_root H) t = smt_root H 5 [([1;3], [6]); ([1;2], [4])].
Proof.
  cbv zeta. split; [|split; [|split]].
  - intros a b Ha Hb [c E]. subst b. rewrite app_length in Hb. destruct c; [rewrite app_nil_r; reflexivity|cbn in Hb; lia].
  - cbn. discriminate.
  - repeat (constructor; [intros x Hx; cbn in Hx;
      repeat (destruct Hx as [Hx|Hx]; [subst x; cbn; split; [reflexivity|split; [repeat constructor; lia|lia]]|]); contradiction|]).
    constructor.
  - eexists. split; vm_compute; reflexivity.
Qed.

Print Assumptions C17_merkle_hash_is_smt.
Print Assumptions C17_jmt_canonical.
Print Assumptions C17_batch_update_refines.
Print Assumptions C17_root_is_commitment_partial.
Print Assumptions C17_batching_independent.
Print Assumptions C17_empty_root_zero.
