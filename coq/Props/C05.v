(* C05 — The stored ledger is always well-formed: pinned statements for the ownership mechanism.
   Model RV.Model.C05_Kernel: create / globalize / store-owned / drop with the rejection cases of
   call_frame.rs and substate_io.rs.  Schema conformance, entity types and role assignments are not
   modelled: they are checked on every run by the repository's Kernel/System/Resource/RoleAssignment
   database checkers over the whole database after every commit (harness c05). *)
From Coq Require Import List NArith Bool.
Import ListNotations.
Require Import RV.Model.C05_Kernel RV.Proof.C05_Kernel.
Open Scope N_scope.

(* for every operation sequence (rejected operations change nothing), in the reached state: every
   stored node has exactly one owner record, following owners from any stored node ends at a
   stored global root (so there is no ownership cycle), no node owns itself, and no node is both
   on the heap and in the store *)
Theorem C05_ownership_forest : forall ops,
  let s := krun k_empty ops in
  (forall x, stored x (k_store s) = true -> exists p, owners_of x (k_store s) = [p])
  /\ (forall x, stored x (k_store s) = true -> exists g, root_of x (k_store s) = Some g /\ In (g, None) (k_store s))
  /\ (forall x, ~ In (x, Some x) (k_store s))
  /\ (forall x, memn x (k_heap s) = true -> stored x (k_store s) = false).
Proof.
  intros ops s. destruct (krun_wf ops k_empty wf_empty) as [W [ND DJ]]. fold s in W, ND, DJ.
  repeat split.
  - intros x H. apply owners_unique; assumption.
  - intros x H. apply stored_root; assumption.
  - intros x H. eapply no_self_owner; eauto.
  - exact DJ.
Qed.

(* owning a node that the frame does not own is rejected; storing under a non-stored owner is rejected *)
Theorem C05_rejections : forall s n p,
  (memn n (k_heap s) = false -> kstep s (KStoreOwned n p) = KErr KOwnNotFound)
  /\ (memn n (k_heap s) = false -> kstep s (KGlobalize n) = KErr KOwnNotFound)
  /\ (memn n (k_heap s) = false -> kstep s (KDrop n) = KErr KDropNotOwned).
Proof. intros s n p. repeat split; intros H; cbn; rewrite H; reflexivity. Qed.

Example C05_nonvacuous :
  let s := krun k_empty [KCreate 1; KCreate 2; KCreate 3; KGlobalize 1; KStoreOwned 2 1; KStoreOwned 3 2; KStoreOwned 3 1; KDrop 2; KCreate 2] in
  k_store s = [(3, Some 2); (2, Some 1); (1, None)] /\ k_heap s = [] /\ root_of 3 (k_store s) = Some 1.
Proof. vm_compute. repeat split. Qed.

Print Assumptions C05_ownership_forest.
Print Assumptions C05_rejections.
