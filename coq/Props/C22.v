(* C22 — Typed SBOR codecs agree with their generated schemas. Property theorems only.
   Models: coq/Model/C22_Schema.v (`validates`, `HasType` over the C20 `value` type; Scrypto
   extension, `()` validation context, generated well-known table Gen/C22_wellknown.v),
   coq/Model/C22_Typed.v (the streaming typed traverser + validator; tied by correspondence only).
   What is NOT proved here: that the streaming implementation model accepts exactly the payloads
   whose decoded value `validates` (compared case by case in Corr/C22_run.v, not proved: it needs
   the traverser/decoder agreement that C21 also leaves to correspondence), and anything about the
   derive-generated codecs of individual Rust types (checked by the harness type-level oracle). *)
From Coq Require Import List NArith ZArith Bool.
Import ListNotations.
Require Import RV.Model.C20_Sbor RV.Model.C22_Types RV.Gen.C22_wellknown RV.Model.C22_Schema RV.Proof.C22_Schema.
Open Scope N_scope.

(* the executable validation function decides the declarative typing relation, for every schema
   (cyclic, dangling ids, mismatching validations included), type id and value *)
Theorem C22_validate_spec : forall s v t, validates s t v = true <-> HasType s t v.
Proof. exact validates_spec. Qed.

(* the well-known Any type accepts every value, and at payload level exactly the decodable ones *)
Theorem C22_any_accepts_all : forall s v, validates s any_tid v = true.
Proof. exact any_accepts_all. Qed.
Theorem C22_any_accepts_decodable : forall s md p,
  validates_payload s any_tid md p = true <-> exists v, decode_payload Scrypto md p = Ok v.
Proof. exact any_accepts_decodable. Qed.

(* a dangling type id accepts nothing (TypeIdNotFound) *)
Theorem C22_unresolved_rejects_all : forall s t v, resolve_kind s t = None -> validates s t v = false.
Proof. exact unresolved_rejects_all. Qed.

(* the generated table is the one the model was written against: Any is well-known type 0x40 with
   kind Any and no validation; `Vec<u8>` (0x41) is an array of the well-known u8 *)
Theorem C22_wellknown_tied :
  wk_lookup 64 = Some {| td_kind := TAny; td_meta := unnamed; td_val := VNone |} /\
  option_map td_kind (wk_lookup 65) = Some (TArray (WK 7)) /\
  option_map td_kind (wk_lookup 7) = Some (TInt U8) /\ length entity_flags = 256%nat.
Proof. repeat split; vm_compute; reflexivity. Qed.

(* non-vacuity: a cyclic schema (a list type: Enum {0: [], 1: [u8 in 1..=9, Loc 0]}) with a value
   that has the type and one that violates the numeric bound *)
Example C22_nonvacuous :
  let s := {| s_kinds := [TEnum [(0, []); (1, [Loc 1; Loc 0])]; TInt U8];
              s_metas := [unnamed; unnamed];
              s_vals := [VNone; VNum U8 {| nb_min := Some 1%Z; nb_max := Some 9%Z |}] |} in
  HasType s (Loc 0) (VEnum 1 [VInt U8 3; VEnum 1 [VInt U8 9; VEnum 0 []]]) /\
  ~ HasType s (Loc 0) (VEnum 1 [VInt U8 3; VEnum 1 [VInt U8 10; VEnum 0 []]]).
Proof.
  cbv zeta. split.
  - apply validates_spec. vm_compute. reflexivity.
  - intro H. apply validates_spec in H. vm_compute in H. discriminate.
Qed.

Print Assumptions C22_validate_spec.
Print Assumptions C22_any_accepts_all.
Print Assumptions C22_any_accepts_decodable.
Print Assumptions C22_unresolved_rejects_all.
Print Assumptions C22_wellknown_tied.
Print Assumptions C22_nonvacuous.
