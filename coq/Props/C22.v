(* C22 — Typed SBOR codecs agree with their generated schemas. Property theorems only.
   Models: coq/Model/C22_Schema.v (`validates`, `HasType` over the C20 `value` type; Scrypto
   extension, `()` validation context, generated well-known table Gen/C22_wellknown.v),
   coq/Model/C22_Typed.v (the streaming typed traverser + validator; tied by correspondence only).
   coq/Model/C22_Typed.v (the streaming typed traverser + validator; tied by correspondence AND,
   since C21_Sim/C21_Agree exist, proved equivalent to decode-then-validate for limits >= 1).
   What is NOT proved here: anything about the derive-generated Describe/Encode/Decode impls of
   individual Rust types (that the bytes `scrypto_encode(x)` are the encoding of a value tree that
   HasType in the type's generated schema): checked per type by the harness type-level oracle. *)
From Coq Require Import List NArith ZArith Bool.
Import ListNotations.
Require Import RV.Model.C20_Sbor RV.Model.C22_Types RV.Gen.C22_wellknown RV.Model.C22_Schema RV.Model.C22_Typed
               RV.Proof.C22_Schema RV.Proof.C22_Stream.
Open Scope N_scope.

(* the executable validation function decides the declarative typing relation, for every schema
   (cyclic, dangling ids, mismatching validations included), type id and value *)
Theorem C22_validate_spec : forall s v t, validates s t v = true <-> HasType s t v.
Proof. exact validates_spec. Qed.

(* the well-known Any type accepts every value, and at payload level exactly the decodable ones *)
Theorem C22_any_accepts_all : forall s v, validates s any_tid v = true.
Proof. exact any_accepts_all. Qed.
Theorem C22_any_accepts_decodable : forall s md p,
  validates_payload s any_tid md p = true <-> exists v, decode_payload Scrypto md p = Ok v.
Proof. exact any_accepts_decodable. Qed.

(* the streaming implementation model (typed traverser over the untyped traverser + validator, as
   run_validation drives it) accepts a payload exactly when the payload decodes and the decoded
   value validates; every byte list, schema (cyclic / ill-formed included), type id, limit >= 1
   (limit 0: C21 finding traverser_ignores_depth_limit_for_root) *)
Theorem C22_streaming_iff_validates : forall s t md payload, 1 <= md ->
  (validate_payload s t md payload = POk <-> validates_payload s t md payload = true).
Proof. exact streaming_iff_validates. Qed.
(* ... i.e. "the payload validates against the schema" <=> "it decodes to a value of the type" *)
Theorem C22_streaming_iff_hastype : forall s t md payload, 1 <= md ->
  (validate_payload s t md payload = POk <->
   exists v, decode_payload Scrypto md payload = Ok v /\ HasType s t v).
Proof. exact streaming_iff_hastype. Qed.
Theorem C22_streaming_total : forall s t md payload, 1 <= md ->
  validate_payload s t md payload <> POutOfFuel.
Proof. exact streaming_total. Qed.

(* first half of the property at the level of value trees: the encoding of a value decodes back to
   it and validates at type t exactly when the value has type t.  (What remains per Rust type: that
   scrypto_encode(x) is the encoding of a value tree that HasType in T's generated schema.) *)
Theorem C22_encode_validates : forall s t md v bs, 1 <= md ->
  wf_value Scrypto v = true -> valid_value v = true -> encode_payload Scrypto md v = Ok bs ->
  decode_payload Scrypto md bs = Ok v /\ (validate_payload s t md bs = POk <-> HasType s t v).
Proof. exact encode_validates. Qed.

(* a dangling type id accepts nothing (TypeIdNotFound) *)
Theorem C22_unresolved_rejects_all : forall s t v, resolve_kind s t = None -> validates s t v = false.
Proof. exact unresolved_rejects_all. Qed.

(* the generated table is the one the model was written against: Any is well-known type 0x40 with
   kind Any and no validation; `Vec<u8>` (0x41) is an array of the well-known u8 *)
Theorem C22_wellknown_tied :
  wk_lookup 64 = Some {| td_kind := TAny; td_meta := unnamed; td_val := VNone |} /\
  option_map td_kind (wk_lookup 65) = Some (TArray (WK 7)) /\
  option_map td_kind (wk_lookup 7) = Some (TInt U8) /\ length entity_flags = 256%nat.
Proof. repeat split; vm_compute; reflexivity. Qed.

(* non-vacuity: a cyclic schema (a list type: Enum {0: [], 1: [u8 in 1..=9, Loc 0]}) with a value
   that has the type and one that violates the numeric bound *)
Example C22_nonvacuous :
  let s := {| s_kinds := [TEnum [(0, []); (1, [Loc 1; Loc 0])]; TInt U8];
              s_metas := [unnamed; unnamed];
              s_vals := [VNone; VNum U8 {| nb_min := Some 1%Z; nb_max := Some 9%Z |}] |} in
  HasType s (Loc 0) (VEnum 1 [VInt U8 3; VEnum 1 [VInt U8 9; VEnum 0 []]]) /\
  ~ HasType s (Loc 0) (VEnum 1 [VInt U8 3; VEnum 1 [VInt U8 10; VEnum 0 []]]).
Proof.
  cbv zeta. split.
  - apply validates_spec. vm_compute. reflexivity.
  - intro H. apply validates_spec in H. vm_compute in H. discriminate.
Qed.

Print Assumptions C22_validate_spec.
Print Assumptions C22_any_accepts_all.
Print Assumptions C22_any_accepts_decodable.
Print Assumptions C22_streaming_iff_validates.
Print Assumptions C22_streaming_iff_hastype.
Print Assumptions C22_streaming_total.
Print Assumptions C22_encode_validates.
Print Assumptions C22_unresolved_rejects_all.
Print Assumptions C22_wellknown_tied.
Print Assumptions C22_nonvacuous.
