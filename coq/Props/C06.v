(* C06 — Fees are fully paid and exactly distributed. Property theorems only. *)
From Coq Require Import List ZArith Bool.
Import ListNotations.
Require Import RV.Model.C06_Fee RV.Proof.C06_Fee RV.Gen.C06_consts.
Open Scope Z_scope.

(* every CostingParameters value the code constructs or stores (generated on every run) has unit
   prices that are multiples of 10^4 attos, hence price * tip is a whole number of attos for EVERY
   tip (any percentage, any basis points) — by divisibility, not by enumeration *)
Theorem C06_genesis_params_exact : forall p t, In p c06_params -> TipExact p t.
Proof.
  assert (H : forallb (fun p => (exec_price p mod 10 ^ 4 =? 0) && (fin_price p mod 10 ^ 4 =? 0)) c06_params = true)
    by (vm_compute; reflexivity).
  intros p t Hin. pose proof (proj1 (forallb_forall _ _) H p Hin) as Hp.
  apply andb_true_iff in Hp. destruct Hp as [H1 H2]. apply Z.eqb_eq in H1, H2.
  apply tip_exact_of_divisible; assumption.
Qed.

(* the literal statement is refuted for parameters that are not TipExact: unit price 1 atto, tip 1 %,
   1000 execution units, lock exactly the 1000 attos the running balance deducts: the transaction is
   classified Commit and fee distribution reaches assert!(required == 0) with 10 attos missing *)
Definition c06_witness_params : params := mkParams 1 100000000 4000000 1 50000000 0 0 0.
Definition c06_witness_ops : list fop := [LockFee 0 1000 false; ConsumeExec 1000].
Theorem C06_inexact_refuted :
  exists p t ops r0 r1 r2,
    ~ TipExact p t /\
    reserve_new p t 0 false = Some r0 /\ run_ops r0 ops = (map (fun _ => OOk) ops, r1) /\
    determine_result true r1 = (Commit true, r2) /\
    commit_fees c06_shares r2 true = DPanic PkRequired.
Proof.
  exists c06_witness_params, (TipPercentage 1), c06_witness_ops.
  destruct (reserve_new c06_witness_params (TipPercentage 1) 0 false) as [r0|] eqn:E0; [|vm_compute in E0; discriminate].
  exists r0.
  destruct (run_ops r0 c06_witness_ops) as [outs r1] eqn:E1. exists r1.
  destruct (determine_result true r1) as [k r2] eqn:E2. exists r2.
  vm_compute in E0. injection E0 as <-.
  vm_compute in E1. injection E1 as <- <-.
  vm_compute in E2. injection E2 as <- <-.
  split; [intros [H _]; vm_compute in H; discriminate|].
  repeat split; vm_compute; reflexivity.
Qed.

Example C06_nonvacuous : c06_params <> [] /\ TipExact (hd c06_witness_params c06_params) (TipBasisPoints 33).
Proof.
  split; [vm_compute; discriminate|].
  apply C06_genesis_params_exact. vm_compute. left. reflexivity.
Qed.

Print Assumptions C06_genesis_params_exact.
Print Assumptions C06_inexact_refuted.
