(* C06 — Fees are fully paid and exactly distributed. Property theorems only. *)
From Coq Require Import List ZArith Bool.
Import ListNotations.
Require Import RV.Model.C06_Fee RV.Proof.C06_Fee RV.Proof.C06_Bounds RV.Gen.C06_consts.
Open Scope Z_scope.

(* every CostingParameters value the code constructs or stores (generated on every run) has unit
   prices that are multiples of 10^4 attos, hence price * tip is a whole number of attos for EVERY
   tip (any percentage, any basis points) — by divisibility, not by enumeration *)
Theorem C06_genesis_params_exact : forall p t, In p c06_params -> TipExact p t.
Proof.
  assert (H : forallb (fun p => (exec_price p mod 10 ^ 4 =? 0) && (fin_price p mod 10 ^ 4 =? 0)) c06_params = true)
    by (vm_compute; reflexivity).
  intros p t Hin. pose proof (proj1 (forallb_forall _ _) H p Hin) as Hp.
  apply andb_true_iff in Hp. destruct Hp as [H1 H2]. apply Z.eqb_eq in H1, H2.
  apply tip_exact_of_divisible; assumption.
Qed.

(* the literal statement is refuted for parameters that are not TipExact: unit price 1 atto, tip 1 %,
   1000 execution units, lock exactly the 1000 attos the running balance deducts: the transaction is
   classified Commit and fee distribution reaches assert!(required == 0) with 10 attos missing *)
Definition c06_witness_params : params := mkParams 1 100000000 4000000 1 50000000 0 0 0.
Definition c06_witness_ops : list fop := [LockFee 0 1000 false; ConsumeExec 1000].
Theorem C06_inexact_refuted :
  exists p t ops r0 r1 r2,
    ~ TipExact p t /\
    reserve_new p t 0 false = Some r0 /\ run_ops r0 ops = (map (fun _ => OOk) ops, r1) /\
    determine_result true r1 = (Commit true, r2) /\
    commit_fees c06_shares r2 true = DPanic PkRequired.
Proof.
  exists c06_witness_params, (TipPercentage 1), c06_witness_ops.
  destruct (reserve_new c06_witness_params (TipPercentage 1) 0 false) as [r0|] eqn:E0; [|vm_compute in E0; discriminate].
  exists r0.
  destruct (run_ops r0 c06_witness_ops) as [outs r1] eqn:E1. exists r1.
  destruct (determine_result true r1) as [k r2] eqn:E2. exists r2.
  vm_compute in E0. injection E0 as <-.
  vm_compute in E1. injection E1 as <- <-.
  vm_compute in E2. injection E2 as <- <-.
  split; [intros [H _]; vm_compute in H; discriminate|].
  repeat split; vm_compute; reflexivity.
Qed.

(* Execution and finalisation cost units committed never exceed their limits, for every operation
   sequence on a reserve created by SystemLoanFeeReserve::new (any parameters, tip, free credit). *)
Theorem C06_limits : forall p t free abort r0 os outs r,
  0 <= exec_limit p -> 0 <= fin_limit p -> 0 <= exec_loan p -> tip_wf t ->
  reserve_new p t free abort = Some r0 -> Forall op_wf os -> run_ops r0 os = (outs, r) ->
  exec_c r <= exec_limit p /\ fin_c r <= fin_limit p.
Proof. exact limits. Qed.

(* the reserve invariant (running balance = owed + free credit + non-contingent locks - deducted, all
   non-negative, limits, royalty breakdown sums to the royalty total) holds after `new` and is kept by
   every operation, whatever its Result *)
Theorem C06_reserve_inv : forall r op o r',
  apply_op r op = (o, r') -> op_wf op -> Inv r -> Inv r' /\ Static r r'.
Proof. exact apply_op_inv. Qed.

(* a transaction is classified Commit only if the system loan is fully repaid *)
Theorem C06_no_commit_with_debt : forall ok r b r',
  determine_result ok r = (Commit b, r') -> owed r' = 0.
Proof. exact no_commit_with_debt. Qed.

(* Reachable reserves: after SystemLoanFeeReserve::new, any sequence of well-formed operations (unsigned
   arguments non-negative, locked resources non-negative) and determine_result, the balance invariant
   `Inv`, the non-negativity invariant `Pos` and the effective-price relation hold, and a Commit
   classification implies that nothing is owed. *)
Theorem C06_reachable_inv : forall p t free abort r0 os outs r1 ok res r2,
  0 <= exec_limit p -> 0 <= fin_limit p -> 0 <= exec_loan p -> tip_wf t ->
  reserve_new p t free abort = Some r0 -> Forall op_wf2 os -> run_ops r0 os = (outs, r1) ->
  determine_result ok r1 = (res, r2) ->
  Inv r2 /\ Pos r2 /\ EffOk r2 /\ cp r2 = p /\ tp_tip r2 = t /\ (forall b, res = Commit b -> owed r2 = 0).
Proof. exact reachable_inv. Qed.

(* the royalty reversal performed before finalising a failed transaction preserves all of that *)
Theorem C06_revert_ok : forall r r',
  apply_op r RevertRoyalty = (OOk, r') -> Inv r -> Pos r -> EffOk r ->
  Inv r' /\ Pos r' /\ EffOk r' /\ owed r' = owed r /\ locked r' = locked r /\ cp r' = cp r
  /\ tp_tip r' = tp_tip r /\ royalty_c r' = 0.
Proof. exact revert_ok. Qed.

(* Fees are fully paid and exactly distributed. For a reserve satisfying the invariants (every reachable
   one: C06_reachable_inv / C06_revert_ok) whose loan is repaid, under TipExact, with share percentages
   that are non-negative and sum to at most 100 %, every locked amount a representable Decimal and the
   deducted amount at most Decimal::MAX (the stated bound that excludes the I192/I256 overflow panics):
   finalize() and finalize_fees_for_commit do not panic (none of the three sanity assertions, no failing
   take_by_amount, no overflow); the total cost equals what the running balance deducted; what is taken
   from the locking vaults plus the free credit used (at most the free credit) equals the total cost;
   proposer + validator set + burn + royalties equals the total cost with every part non-negative; the
   royalty payments are exactly the recorded per-recipient breakdown and sum to the royalty cost; every
   lock entry gets a non-negative refund to its own vault and refunds + payments = locked. *)
Theorem C06_collected_equals_cost : forall sh r ok,
  Inv r -> Pos r -> EffOk r -> TipExact (cp r) (tp_tip r) -> tip_wf (tp_tip r) -> owed r = 0 ->
  shares_wf sh -> LocksBounded (locked r) -> deducted r <= I192_MAX ->
  exists s o,
    finalize r = Some s /\ distribute sh s (free_credit r) ok = DOk o
    /\ total_cost s = Some (d_collected o) /\ d_collected o = deducted r
    /\ bdsum (d_payments o) + d_free_used o = d_collected o
    /\ 0 <= d_free_used o <= free_credit r
    /\ d_proposer o + d_validator o + d_burn o + royalty_c r = d_collected o
    /\ 0 <= d_proposer o /\ 0 <= d_validator o /\ 0 <= d_burn o
    /\ d_royalties o = royalty_bd r /\ bdsum (d_royalties o) = royalty_c r
    /\ map fst (d_refunds o) = map (fun e => fst (fst e)) (rev (locked r))
    /\ NonNegZ (d_refunds o)
    /\ bdsum (d_refunds o) + bdsum (d_payments o) = locksum (locked r).
Proof. exact collected_equals_cost. Qed.

(* the share constants generated from the code satisfy shares_wf *)
Theorem C06_shares_wf : shares_wf c06_shares.
Proof. vm_compute. repeat split; discriminate. Qed.

(* the loop over the locked fees: what is still required afterwards is max 0 (required - eligible
   locks), and exactly the difference was collected and recorded as payments (C06_exact_split core) *)
Theorem C06_exact_split : forall ls ok req col pay refs,
  NonNegLocks ls -> 0 <= req ->
  match take_fees ls ok req col pay refs with
  | inr k => k = PkOverflow
  | inl None => True
  | inl (Some (req', col', pay', _)) =>
      req' = Z.max 0 (req - elig ok ls) /\ col' = col + (req - req') /\ bdsum pay' = bdsum pay + (req - req')
  end.
Proof. exact take_fees_spec. Qed.

(* non-vacuity: with the genesis parameters and a 33 bp tip, a history with two locks (one contingent),
   execution, finalisation, storage and a royalty commits, and distribution succeeds with 1.5 XRD of
   royalties, a positive burn and a refund to both vaults *)
Example C06_nonvacuous :
  let p := hd c06_witness_params c06_params in
  c06_params <> [] /\ TipExact p (TipBasisPoints 33) /\
  exists r0 r1 r2 o,
    reserve_new p (TipBasisPoints 33) 0 false = Some r0 /\
    run_ops r0 [LockFee 1 (20 * ONE) false; LockFee 2 (5 * ONE) true; ConsumeExec 5000000;
                ConsumeRoyalty (RXrd (3 * ONE / 2)) 7; ConsumeStorage SState 1000; ConsumeFin 300000]
      = (repeat OOk 6, r1) /\
    determine_result true r1 = (Commit true, r2) /\
    commit_fees c06_shares r2 true = DOk o /\
    bdsum (d_royalties o) = 3 * ONE / 2 /\ 0 < d_burn o /\
    d_refunds o = [(2, 5 * ONE - d_collected o); (1, 20 * ONE)].
Proof.
  cbv zeta. split; [vm_compute; discriminate|].
  split; [apply C06_genesis_params_exact; vm_compute; left; reflexivity|].
  destruct (reserve_new (hd c06_witness_params c06_params) (TipBasisPoints 33) 0 false) as [r0|] eqn:E0;
    [|vm_compute in E0; discriminate].
  exists r0. vm_compute in E0. injection E0 as <-.
  eexists. eexists. eexists.
  split; [reflexivity|]. split; [vm_compute; reflexivity|]. split; [vm_compute; reflexivity|].
  split; [vm_compute; reflexivity|]. repeat split; vm_compute; reflexivity.
Qed.

Print Assumptions C06_genesis_params_exact.
Print Assumptions C06_inexact_refuted.
Print Assumptions C06_limits.
Print Assumptions C06_reserve_inv.
Print Assumptions C06_no_commit_with_debt.
Print Assumptions C06_collected_equals_cost.
Print Assumptions C06_reachable_inv.
Print Assumptions C06_revert_ok.
Print Assumptions C06_shares_wf.
Print Assumptions C06_exact_split.

(* Events and vault writes of finalize_fees_for_commit (model: fee_events / vault_writes / proposer_reward).
   Replaying the events (PayFee = -amount on its vault, Deposit = +amount) from the balances before any
   fee was locked gives exactly what finalisation writes back, for every vault; the PayFee total is the
   amount taken from the locking vaults; PayFee total + free credit used = Deposit total + burnt amount =
   total cost (this is the per-transaction conservation statement C03/C04 build on). *)
Theorem C06_events_replay_to_balances : forall sh r ok,
  Inv r -> Pos r -> EffOk r -> TipExact (cp r) (tp_tip r) -> tip_wf (tp_tip r) -> owed r = 0 ->
  shares_wf sh -> LocksBounded (locked r) -> deducted r <= I192_MAX ->
  exists s o,
    finalize r = Some s /\ distribute sh s (free_credit r) ok = DOk o
    /\ (forall v, evs_delta v (fee_events s o) = sumk (vault_writes o) v - sumk (locks_kv (locked r)) v)
    /\ evs_in (fee_events s o) = bdsum (d_payments o)
    /\ evs_in (fee_events s o) + d_free_used o = evs_out (fee_events s o)
    /\ evs_out (fee_events s o) = d_collected o.
Proof. exact events_replay. Qed.

Print Assumptions C06_events_replay_to_balances.
