(* C28 — Addresses and identifiers have lossless, network-bound text forms. Property theorems only.
   Models: RV.Model.C28_Bech32 (bech32 0.9.1 decode/encode as used by AddressBech32Encoder/Decoder,
   HRP = generated entity prefix ++ network suffix), RV.Model.C28_LocalId (NonFungibleLocalId
   FromStr/Display), RV.Model.C28_GlobalId (NonFungibleGlobalId canonical string).
   `byte_list l` = every element < 256.  A network is represented by its hrp_suffix (the only part
   of NetworkDefinition the code uses for text forms). *)
From Coq Require Import List NArith Bool.
Import ListNotations.
Require Import RV.Gen.C28_entity_types RV.Model.C28_Bech32 RV.Model.C28_LocalId RV.Model.C28_GlobalId.
Require Import RV.Proof.C28_Address RV.Proof.C28_Checksum RV.Proof.C28_Bits RV.Proof.C28_Roundtrip
  RV.Proof.C28_LocalId RV.Proof.C28_LocalIdRoundtrip RV.Proof.C28_GlobalId.
Open Scope N_scope.

(* --- generated tables ---------------------------------------------------------------------------- *)

(* 22 entity types, distinct bytes, every prefix non-empty lower-case ASCII/underscore *)
Theorem C28_entity_table_wellformed :
  length entity_table = 22%nat
  /\ forallb (fun e => (fst e <? 256) && negb (Nat.eqb (length (snd e)) 0)
                       && forallb (fun c => ((97 <=? c) && (c <=? 122)) || (c =? 95)) (snd e))
       entity_table = true
  /\ NoDup (map fst entity_table).
Proof.
  split; [reflexivity|]. split; [vm_compute; reflexivity|].
  repeat (constructor; [cbn; intuition discriminate|]). constructor.
Qed.

(* every NetworkDefinition the code constructs (simulator, localnet, adapanet, nebunet, kisharnet,
   ansharnet, zabanet, stokenet, mainnet): the suffix has no ':' and, with every entity prefix,
   gives an HRP the encoder accepts unchanged.  A suffix containing ':' (or upper case, or
   characters outside 33..126) needs a hand-made NetworkDefinition (pub fields / SBOR decode). *)
Theorem C28_known_networks_wellformed :
  forallb (fun suf =>
    forallb (fun c => negb (c =? 58)) suf
    && forallb (fun e => match check_hrp (snd e ++ suf) with Ok CLower => true | _ => false end)
         entity_table)
    known_suffixes = true.
Proof. vm_compute. reflexivity. Qed.

(* --- Bech32m ---------------------------------------------------------------------------------------- *)

(* the six checksum symbols written by the encoder make the whole string verify as Bech32m:
   for every HRP and every data part (GF(2)-linearity of polymod_step) *)
Theorem C28_checksum_verifies : forall hrp data,
  verify_checksum hrp
    (data ++ checksum_of (polymod_from (polymod_from 1 (hrp_expand hrp)) data) BECH32M_CONST)
  = Some true.
Proof. exact checksum_verifies. Qed.

(* 8 -> 5 -> 8 regrouping (ToBase32 with zero padding, then convert_bits 5 8 pad=false with its
   padding checks) is the identity on every byte list; the 5-bit values are < 32 *)
Theorem C28_bits_roundtrip : forall bytes, byte_list bytes ->
  from_base32 (to_base32 bytes) = Ok bytes /\ Forall (fun v => v < 32) (to_base32 bytes).
Proof. intros b H. split; [apply bits_roundtrip|apply to_base32_u5]; exact H. Qed.

(* whatever the encoder outputs decodes, on the same network, to the same entity type and bytes:
   every data length, every suffix (the hypothesis `encode_address .. = Ok s` is exactly "the
   encoder accepts this address on this network", characterised by C28_encode_accepts) *)
Theorem C28_address_roundtrip : forall suffix data s, byte_list data ->
  encode_address suffix data = Ok s ->
  exists b tl, data = b :: tl /\ decode_address suffix s = Ok (b, data).
Proof. exact address_roundtrip. Qed.

Theorem C28_encode_accepts : forall suffix b tl p c, byte_list (b :: tl) ->
  entity_prefix b = Some p -> check_hrp (p ++ suffix) = Ok c ->
  exists s, encode_address suffix (b :: tl) = Ok s.
Proof. exact encode_succeeds. Qed.

(* network binding: a string accepted by the decoder of one network is rejected (InvalidHrp) by the
   decoder of every network with a different hrp_suffix — for EVERY string, not only encoder output *)
Theorem C28_other_network_rejected : forall sufA sufB s r,
  decode_address sufA s = Ok r -> sufA <> sufB -> decode_address sufB s = Err DecInvalidHrp.
Proof. exact other_network_rejected. Qed.

(* entity binding: for a string that passes the checksum/variant/padding/entity-byte checks with
   HRP `hrp` and first data byte b, the decoder accepts iff `hrp` is the HRP of entity type b on
   that network, and otherwise answers InvalidHrp; the returned entity type is the first byte *)
Theorem C28_entity_mismatch_rejected : forall suffix s hrp b data,
  validate_and_decode_ignore_hrp s = Ok (hrp, b, data) ->
  (exists tl, data = b :: tl)
  /\ (entity_hrp suffix b = Some hrp -> decode_address suffix s = Ok (b, data))
  /\ (entity_hrp suffix b <> Some hrp -> decode_address suffix s = Err DecInvalidHrp).
Proof. exact entity_mismatch_rejected. Qed.

(* address decoding returns Ok or Err for every byte string *)
Theorem C28_parse_total_address : forall suffix s, decode_address suffix s <> Panic.
Proof. exact decode_no_panic. Qed.

(* --- local ids ------------------------------------------------------------------------------------ *)

(* local id parsing returns Ok or Err for every valid UTF-8 string (every &str) *)
Theorem C28_parse_total_localid : forall s, utf8_valid s = true -> from_str s <> Panic.
Proof. exact localid_parse_total. Qed.

(* parse (print id) = id for the four kinds (string charset/length, canonical decimal u64, 1..64
   bytes as lower-case hex, 32-byte RUID in 16-16-16-16 hex groups) *)
Theorem C28_localid_text_roundtrip : forall id, valid_id id -> from_str (print id) = Ok id.
Proof. exact localid_text_roundtrip. Qed.

(* an accepted integer id was written in canonical decimal: it is exactly what Display prints *)
Theorem C28_integer_canonical : forall s n, from_str s = Ok (LInteger n) -> s = print (LInteger n).
Proof. exact integer_canonical. Qed.

(* --- global ids ------------------------------------------------------------------------------------ *)

(* "address:localid" round trip for every resource node id the encoder accepts, on every network
   whose hrp_suffix has no ':' (hypothesis; see C28_known_networks_wellformed and the corner below) *)
Theorem C28_globalid_text_roundtrip : forall suffix data id a,
  byte_list data -> is_resource_node data = true -> valid_id id -> ~ In 58 suffix ->
  encode_address suffix data = Ok a ->
  global_print suffix data id = Ok (a ++ [58] ++ print id)
  /\ global_from_str suffix (a ++ [58] ++ print id) = Ok (data, id).
Proof. exact global_roundtrip. Qed.

(* the corner, stated: with a ':' inside the suffix (hence inside the address text) the printed
   global id never splits back into [address; local id] *)
Theorem C28_globalid_colon_suffix_corner : forall s, In 58 s ->
  forall t, split_colon (s ++ 58 :: t) <> [s; t].
Proof. exact colon_suffix_breaks. Qed.

Example C28_nonvacuous :
  encode_address [114;100;120] [193;1;2;3] = Ok
    [97;99;99;111;117;110;116;95;114;100;120;49;99;121;113;115;121;113;99;112;118;107;102;55;106]
  /\ decode_address [114;100;120]
    [97;99;99;111;117;110;116;95;114;100;120;49;99;121;113;115;121;113;99;112;118;107;102;55;106]
     = Ok (193, [193;1;2;3])
  /\ from_str [35;49;50;35] = Ok (LInteger 12) /\ from_str [35;48;49;50;35] = Err InvalidInteger
  /\ from_str [91;65;98;93] = Ok (LBytes [171])
  /\ valid_id (LInteger 18446744073709551615) /\ valid_id (LString [97;95;49])
  /\ global_from_str [115;105;109] ([120;58] ++ print (LInteger 1)) = Err GInvalidResourceAddress.
Proof. repeat split; vm_compute; try reflexivity; intuition discriminate. Qed.

Print Assumptions C28_entity_table_wellformed.
Print Assumptions C28_known_networks_wellformed.
Print Assumptions C28_checksum_verifies.
Print Assumptions C28_bits_roundtrip.
Print Assumptions C28_address_roundtrip.
Print Assumptions C28_encode_accepts.
Print Assumptions C28_other_network_rejected.
Print Assumptions C28_entity_mismatch_rejected.
Print Assumptions C28_parse_total_address.
Print Assumptions C28_parse_total_localid.
Print Assumptions C28_localid_text_roundtrip.
Print Assumptions C28_integer_canonical.
Print Assumptions C28_globalid_text_roundtrip.
Print Assumptions C28_globalid_colon_suffix_corner.
