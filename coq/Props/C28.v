(* C28 — Addresses and identifiers have lossless, network-bound text forms. Property theorems only.
   Models: RV.Model.C28_Bech32 (bech32 0.9.1 decode/encode as used by AddressBech32Encoder/Decoder,
   HRP = generated entity prefix ++ network suffix), RV.Model.C28_LocalId (NonFungibleLocalId
   FromStr/Display).
   NOT proved here (validated by correspondence + the harness oracle only, see spec/C28.json):
   C28_bits_roundtrip, C28_address_roundtrip, C28_localid_text_roundtrip. *)
From Coq Require Import List NArith Bool.
Import ListNotations.
Require Import RV.Gen.C28_entity_types RV.Model.C28_Bech32 RV.Model.C28_LocalId.
Require Import RV.Proof.C28_Address RV.Proof.C28_Checksum RV.Proof.C28_LocalId.
Open Scope N_scope.

(* the generated table: 22 entity types, every prefix is non-empty lower-case ASCII/underscore
   (so HRPs of lower-case suffixes pass check_hrp unchanged) and keys are distinct bytes *)
Theorem C28_entity_table_wellformed :
  length entity_table = 22%nat
  /\ forallb (fun e => (fst e <? 256) && negb (Nat.eqb (length (snd e)) 0)
                       && forallb (fun c => ((97 <=? c) && (c <=? 122)) || (c =? 95)) (snd e))
       entity_table = true
  /\ NoDup (map fst entity_table).
Proof.
  split; [reflexivity|]. split; [vm_compute; reflexivity|].
  repeat (constructor; [cbn; intuition discriminate|]). constructor.
Qed.

(* the six checksum symbols written by the encoder make the whole string verify as Bech32m:
   for every HRP and every data part (GF(2)-linearity of polymod_step) *)
Theorem C28_checksum_verifies : forall hrp data,
  verify_checksum hrp
    (data ++ checksum_of (polymod_from (polymod_from 1 (hrp_expand hrp)) data) BECH32M_CONST)
  = Some true.
Proof. exact checksum_verifies. Qed.

(* network binding: a string accepted by the decoder of one network is rejected (InvalidHrp) by the
   decoder of every network with a different hrp_suffix — for EVERY string, not only encoder output *)
Theorem C28_other_network_rejected : forall sufA sufB s r,
  decode_address sufA s = Ok r -> sufA <> sufB -> decode_address sufB s = Err DecInvalidHrp.
Proof. exact other_network_rejected. Qed.

(* entity binding: for a string that passes the checksum/variant/padding/entity-byte checks with
   HRP `hrp` and first data byte b, the decoder accepts iff `hrp` is the HRP of entity type b on
   that network, and otherwise answers InvalidHrp; the returned entity type is the first byte *)
Theorem C28_entity_mismatch_rejected : forall suffix s hrp b data,
  validate_and_decode_ignore_hrp s = Ok (hrp, b, data) ->
  (exists tl, data = b :: tl)
  /\ (entity_hrp suffix b = Some hrp -> decode_address suffix s = Ok (b, data))
  /\ (entity_hrp suffix b <> Some hrp -> decode_address suffix s = Err DecInvalidHrp).
Proof. exact entity_mismatch_rejected. Qed.

(* address decoding returns Ok or Err for every byte string *)
Theorem C28_parse_total_address : forall suffix s, decode_address suffix s <> Panic.
Proof. exact decode_no_panic. Qed.

(* local id parsing returns Ok or Err for every valid UTF-8 string (every &str) *)
Theorem C28_parse_total_localid : forall s, utf8_valid s = true -> from_str s <> Panic.
Proof. exact localid_parse_total. Qed.

(* an accepted integer id was written in canonical decimal: it is exactly what Display prints *)
Theorem C28_integer_canonical : forall s n, from_str s = Ok (LInteger n) -> s = print (LInteger n).
Proof. exact integer_canonical. Qed.

Example C28_nonvacuous :
  encode_address [114;100;120] [193;1;2;3] = Ok
    [97;99;99;111;117;110;116;95;114;100;120;49;99;121;113;115;121;113;99;112;118;107;102;55;106]
  /\ decode_address [114;100;120]
    [97;99;99;111;117;110;116;95;114;100;120;49;99;121;113;115;121;113;99;112;118;107;102;55;106]
     = Ok (193, [193;1;2;3])
  /\ from_str [35;49;50;35] = Ok (LInteger 12) /\ from_str [35;48;49;50;35] = Err InvalidInteger
  /\ from_str [91;65;98;93] = Ok (LBytes [171]).
Proof. repeat split; vm_compute; reflexivity. Qed.

Print Assumptions C28_entity_table_wellformed.
Print Assumptions C28_checksum_verifies.
Print Assumptions C28_other_network_rejected.
Print Assumptions C28_entity_mismatch_rejected.
Print Assumptions C28_parse_total_address.
Print Assumptions C28_parse_total_localid.
Print Assumptions C28_integer_canonical.
